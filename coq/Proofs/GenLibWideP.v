(* The wide / all-at-once core of src/lib.rs as TRANSLATED from the source text (gen/GenLibWide.v) equals the
   hand-written models of Model/RsWide.v / Model/RsHasher.v.

   Representation.  The source writes chaining values through `out: &mut [u8]`; the models return the list of CVs and
   take the capacity of `out` in CVs.  For a buffer `out` and the CVs `cvs` a model returns, the translated function
   returns (arr_store out 0 (concat cvs), number of CVs): the CVs back to back from offset 0, the rest of the buffer
   untouched; the model's capacity is (length out) / 32.  Child CVs are passed as their concatenation.
   Platform::hash_many (a parameter of the translation) is m_hash_many: p_hash_many of the model's platform record
   with the capacity of `out`, its CVs stored at offset 0.

   Fuel.  The translation threads ONE fuel through every loop / recursion / callee (predecessor inside a loop body or
   below the `match fuel` of the recursion); the models give each loop its own fuel.  The *_with functions below are
   the models with the translation's fuel discipline (their defining equations are pinned in Props/C01.v, C02.v);
   each translated function EQUALS its *_with model at every fuel and every argument, Panic and OutOfFuel results
   included; the *_with models agree with the models themselves whenever the fuel suffices (refines / *_enough). *)
From Coq Require Import NArith List Bool Lia Arith.
From V Require Import Base.Res Base.Word Base.MachInt Base.Arr Base.ArrayVec Base.Slice gen.GenConsts gen.GenFormulas
  gen.GenLibSmall gen.GenLibLoops gen.GenLibWide Spec.Tree Model.Portable Model.Platform Model.RsChunk Model.RsWide
  Model.RsHasher Proofs.GenLibSmallP Proofs.GenLibLoopsP.
Import ListNotations.
Open Scope N_scope.

(* ---------- the platform as the source sees it ---------- *)
Definition m_hash_many (p : platform) (inputs : list (list N)) (key : list N) (counter : N) (incr : bool)
    (flags flags_start flags_end : N) (out : list N) : res (list N) :=
  cvs <- p_hash_many p inputs key counter incr flags flags_start flags_end (nlen out / 32) ;;
  Ok (arr_store out 0 (concat cvs)).

Definition cvs32 (cvs : list (list N)) : Prop := Forall (fun cv => length cv = 32%nat) cvs.

(* what the proofs need of a platform: shapes only (every PlatformOK platform has them wherever its kernels are
   specified; sim_platform has them everywhere) *)
Record plat_wf (p : platform) : Prop := {
  wf_hm : forall inputs key ctr incr fl fs fe cap cvs, length key = 8%nat ->
      p_hash_many p inputs key ctr incr fl fs fe cap = Ok cvs ->
      length cvs = length inputs /\ cvs32 cvs /\ N.of_nat (length inputs) <= cap;
  wf_cip : forall cv block bl ctr fl, length cv = 8%nat -> length (p_compress_in_place p cv block bl ctr fl) = 8%nat;
  wf_deg : p_degree p < 2 ^ 32;
  wf_max : p_max_degree p < 2 ^ 32 }.

(* ---------- results ---------- *)
Definition refines {A} (r1 r2 : res A) : Prop := r1 = OutOfFuel \/ r1 = r2.

Lemma refines_refl {A} (r : res A) : refines r r.
Proof. right. reflexivity. Qed.

Lemma refines_trans {A} (a b c : res A) : refines a b -> refines b c -> refines a c.
Proof. intros [H|H] [H'|H']; subst; unfold refines; auto. Qed.

Lemma refines_bind {A B} (m1 m2 : res A) (k1 k2 : A -> res B) :
  refines m1 m2 -> (forall a, refines (k1 a) (k2 a)) -> refines (bind m1 k1) (bind m2 k2).
Proof.
  intros [H|H] Hk; subst; [left; reflexivity|]. destruct m2; cbn [bind]; [apply Hk|right; reflexivity|left; reflexivity].
Qed.

Lemma refines_eq {A} (r1 r2 : res A) : refines r1 r2 -> r1 <> OutOfFuel -> r1 = r2.
Proof. intros [H|H] N; [contradiction|exact H]. Qed.

Lemma res_map_bind {A B C} (f : B -> C) (m : res A) (k : A -> res B) :
  res_map f (bind m k) = bind m (fun a => res_map f (k a)).
Proof. destruct m; reflexivity. Qed.

(* ---------- lists of 32-byte chaining values as flat buffers ---------- *)
Lemma concat_length32 cvs : cvs32 cvs -> length (concat cvs) = (32 * length cvs)%nat.
Proof.
  induction 1 as [|cv cvs Hcv _ IH]; [reflexivity|]. cbn [concat length]. rewrite app_length, IH, Hcv. lia.
Qed.

Lemma cvs32_app a b : cvs32 a -> cvs32 b -> cvs32 (a ++ b).
Proof. intros Ha Hb. apply Forall_app. split; assumption. Qed.

Lemma cvs32_app_inv a b : cvs32 (a ++ b) -> cvs32 a /\ cvs32 b.
Proof. intros H. apply Forall_app in H. exact H. Qed.

Lemma arr_store_length s off vs : (off + length vs <= length s)%nat -> length (arr_store s off vs) = length s.
Proof.
  intros H. unfold arr_store. rewrite !app_length, firstn_length, skipn_length. lia.
Qed.

Lemma arr_store_0 s vs : arr_store s 0 vs = vs ++ skipn (length vs) s.
Proof. reflexivity. Qed.

Lemma skipn_skipn' {A} : forall m n (l : list A), skipn n (skipn m l) = skipn (m + n) l.
Proof.
  induction m as [|m IH]; intros n l; [reflexivity|]. destruct l as [|x l]; [rewrite !skipn_nil; reflexivity|].
  cbn [skipn Nat.add]. apply IH.
Qed.

(* storing one more CV right behind the ones already there *)
Lemma arr_store_snoc out (a : list N) (cv : list N) : (length a + length cv <= length out)%nat ->
  arr_store (arr_store out 0 a) (length a) cv = arr_store out 0 (a ++ cv).
Proof.
  intros H. rewrite !arr_store_0. unfold arr_store.
  rewrite firstn_app, Nat.sub_diag, firstn_O, app_nil_r, firstn_all.
  rewrite skipn_app, app_length. rewrite (skipn_all2 a) by lia. cbn [app].
  rewrite skipn_skipn'. rewrite <- app_assoc. f_equal. f_equal. f_equal. lia.
Qed.

Lemma firstn_arr_store_0 s vs : (length vs <= length s)%nat -> firstn (length vs) (arr_store s 0 vs) = vs.
Proof. intros H. rewrite arr_store_0, firstn_app, Nat.sub_diag, firstn_O, app_nil_r, firstn_all. reflexivity. Qed.

(* ---------- chunks_exact ---------- *)
Lemma sl_go_eq : forall f n l, sl_chunks_exact_go f n l = chunks_exact f n l.
Proof.
  induction f as [|f IH]; intros n l; [reflexivity|]. cbn [sl_chunks_exact_go chunks_exact]. rewrite IH. reflexivity.
Qed.

Lemma sl_chunks_exact_eq n l : sl_chunks_exact n l = chunks_exact_of n l.
Proof. apply sl_go_eq. Qed.

Lemma chunks_exact_pieces : forall f n l cs r, chunks_exact f n l = (cs, r) -> Forall (fun c => length c = n) cs.
Proof.
  induction f as [|f IH]; intros n l cs r H; cbn [chunks_exact] in H.
  - inversion H. constructor.
  - destruct (Nat.ltb (length l) n) eqn:E; [inversion H; constructor|].
    destruct (chunks_exact f n (skipn n l)) as [cs' r'] eqn:E'. inversion H; subst.
    constructor; [|exact (IH _ _ _ _ E')]. apply Nat.ltb_ge in E. rewrite firstn_length. lia.
Qed.

(* the input is the pieces followed by the remainder *)
Lemma chunks_exact_concat : forall f n l cs r, chunks_exact f n l = (cs, r) -> l = concat cs ++ r.
Proof.
  induction f as [|f IH]; intros n l cs r H; cbn [chunks_exact] in H.
  - inversion H. reflexivity.
  - destruct (Nat.ltb (length l) n) eqn:E; [inversion H; reflexivity|].
    destruct (chunks_exact f n (skipn n l)) as [cs' r'] eqn:E'. inversion H; subst.
    cbn [concat]. rewrite <- app_assoc, <- (IH _ _ _ _ E'). symmetry. apply firstn_skipn.
Qed.

Lemma chunks_exact_rem : forall f n l cs r, (0 < n)%nat -> (length l < n * f)%nat ->
  chunks_exact f n l = (cs, r) -> (length r < n)%nat.
Proof.
  induction f as [|f IH]; intros n l cs r Hn Hf H; [lia|]. cbn [chunks_exact] in H.
  destruct (Nat.ltb (length l) n) eqn:E; [inversion H; subst; apply Nat.ltb_lt in E; exact E|].
  destruct (chunks_exact f n (skipn n l)) as [cs' r'] eqn:E'. inversion H; subst.
  apply Nat.ltb_ge in E. apply (IH n (skipn n l) cs' r Hn); [rewrite skipn_length; lia|exact E'].
Qed.

Lemma div_fuel (len n : nat) : (0 < n)%nat -> (len < n * S (len / n))%nat.
Proof.
  intros Hn. pose proof (Nat.div_mod len n ltac:(lia)). pose proof (Nat.mod_upper_bound len n ltac:(lia)). lia.
Qed.

Lemma chunks_exact_of_rem n l cs r : 0 < n -> chunks_exact_of n l = (cs, r) -> (length r < N.to_nat n)%nat.
Proof.
  intros Hn H. unfold chunks_exact_of in H. eapply chunks_exact_rem; [| |exact H]; [lia|]. apply div_fuel. lia.
Qed.

(* ---------- fuel-parametrised models ---------- *)
Definition compress_chunks_parallel_with (fuel : nat) (p : platform) (input key : list N) (chunk_counter flags cap : N)
  : res (list (list N)) :=
  assert! (negb (nlen input =? 0)) code 1200 ;;
  assert! (nlen input <=? p_max_degree p * rs_CHUNK_LEN) code 1201 ;;
  let '(chunks, rem) := chunks_exact_of rs_CHUNK_LEN input in
  assert! (nlen_l chunks <=? p_max_degree p) code 30 ;;
  cvs <- p_hash_many p chunks key chunk_counter true flags rs_flag_CHUNK_START rs_flag_CHUNK_END cap ;;
  let chunks_so_far := nlen_l chunks in
  if negb (nlen rem =? 0) then
    counter <- mi_add 64 chunk_counter chunks_so_far ;;
    cs <- cs_update_with fuel p (cs_new key counter flags) rem ;;
    assert! (chunks_so_far + 1 <=? cap) code 31 ;;
    Ok (cvs ++ [out_chaining_value p (cs_output cs)])
  else Ok cvs.

Fixpoint compress_subtree_wide_with (fuel : nat) (p : platform) (input key : list N) (chunk_counter flags cap : N)
  : res (list (list N)) :=
  if nlen input <=? p_degree p * rs_CHUNK_LEN then
    compress_chunks_parallel_with fuel p input key chunk_counter flags cap
  else match fuel with
  | O => OutOfFuel
  | S fuel' =>
      assert! (MachInt.popcount (p_degree p) =? 1) code 1204 ;;
      assert! (rs_CHUNK_LEN <? nlen input) code 1205 ;;
      left_len <- rs_left_subtree_len (nlen input) ;;
      assert! (left_len <=? nlen input) code 34 ;;
      let left := firstn (N.to_nat left_len) input in
      let right := skipn (N.to_nat left_len) input in
      right_counter <- rs_right_chunk_counter chunk_counter left_len ;;
      let array_cap := 2 * max_degree_or_2 p in
      degree <- (if left_len =? rs_CHUNK_LEN then
                   assert! (p_degree p =? 1) code 1206 ;; Ok 1
                 else Ok (N.max (p_degree p) 2)) ;;
      assert! (degree <=? array_cap) code 35 ;;
      lcvs <- compress_subtree_wide_with fuel' p left key chunk_counter flags degree ;;
      rcvs <- compress_subtree_wide_with fuel' p right key right_counter flags (array_cap - degree) ;;
      let left_n := N.of_nat (length lcvs) in
      let right_n := N.of_nat (length rcvs) in
      assert! (left_n =? degree) code 1207 ;;
      assert! ((1 <=? right_n) && (right_n <=? left_n)) code 1208 ;;
      if left_n =? 1 then
        assert! (2 <=? cap) code 36 ;;
        Ok (firstn 2 (lcvs ++ rcvs))
      else
        compress_parents_parallel p (lcvs ++ rcvs) key flags cap
  end.

(* compress_subtree_to_parent_node: the recursion, the asserts and the condensing loop run on the same fuel *)
Definition compress_subtree_to_parent_node_with (fuel : nat) (p : platform) (input key : list N) (chunk_counter flags : N)
  : res (list N) :=
  assert! (rs_CHUNK_LEN <? nlen input) code 1209 ;;
  cvs <- compress_subtree_wide_with fuel p input key chunk_counter flags (max_degree_or_2 p) ;;
  assert! (2 <=? N.of_nat (length cvs)) code 1210 ;;
  cvs <- condense_loop fuel p cvs key flags ;;
  match cvs with
  | [a; b] => Ok (a ++ b)
  | _ => Panic 1211
  end.

Definition hash_all_at_once_with (fuel : nat) (p : platform) (input key : list N) (flags : N) : res output :=
  if nlen input <=? rs_CHUNK_LEN then
    cs <- cs_update_with fuel p (cs_new key 0 flags) input ;;
    Ok (cs_output cs)
  else
    block <- compress_subtree_to_parent_node_with fuel p input key 0 flags ;;
    Ok (mkOutput key block rs_BLOCK_LEN 0 (N.lor flags rs_flag_PARENT)).

Definition rs_hash_with (fuel : nat) (p : platform) (input : list N) : res (list N) :=
  o <- hash_all_at_once_with fuel p input rs_IV 0 ;; out_root_hash p o.

Definition rs_keyed_hash_with (fuel : nat) (p : platform) (key input : list N) : res (list N) :=
  o <- hash_all_at_once_with fuel p input (words_of_bytes key) rs_flag_KEYED_HASH ;; out_root_hash p o.

(* hazmat::hash_derive_key_context is a parameter of the translated derive_key: the model's runs on its own fuel *)
Definition rs_derive_key_with (fuel : nat) (p : platform) (context material : list N) : res (list N) :=
  context_key <- rs_hash_derive_key_context p context ;;
  o <- hash_all_at_once_with fuel p material (words_of_bytes context_key) rs_flag_DERIVE_KEY_MATERIAL ;;
  out_root_hash p o.

(* ---------- small steps ---------- *)
Ltac mstep := unfold mcmp, mb, mu; cbn [bind].

Lemma cast64_small x : x < 2 ^ 64 -> mi_cast 64 x = Ok x.
Proof. intros H. unfold mi_cast. rewrite (land_ones_small x 64 H). reflexivity. Qed.

Lemma mul64_small a b : a * b < 2 ^ 64 -> mi_mul 64 a b = Ok (a * b).
Proof. intros H. unfold mi_mul, fits. apply N.ltb_lt in H. rewrite H. reflexivity. Qed.

Lemma add64_small a b : a + b < 2 ^ 64 -> mi_add 64 a b = Ok (a + b).
Proof. intros H. unfold mi_add, fits. apply N.ltb_lt in H. rewrite H. reflexivity. Qed.

Lemma pow32_64 : 2 ^ 32 * 2 ^ 32 = 2 ^ 64.
Proof. reflexivity. Qed.

Lemma lib_largest_power_of_two_leq_eq n : lib_largest_power_of_two_leq n = rs_largest_power_of_two_leq n.
Proof. unfold lib_largest_power_of_two_leq, rs_largest_power_of_two_leq. apply bind_ret. Qed.

(* hazmat::left_subtree_len: the model's assert 1205 followed by the formula *)
Lemma lib_hazmat_left_subtree_len_eq n :
  lib_hazmat_left_subtree_len n = (assert! (rs_CHUNK_LEN <? n) code 1205 ;; rs_left_subtree_len n).
Proof.
  unfold lib_hazmat_left_subtree_len, rs_left_subtree_len. mstep. unfold mi_cast. cbn [bind].
  change (N.land rs_CHUNK_LEN (N.ones 64)) with rs_CHUNK_LEN.
  destruct (rs_CHUNK_LEN <? n); cbn [check bind]; [|reflexivity]. apply bind_ret.
Qed.

(* ---------- compress_chunks_parallel ---------- *)
Lemma chunks_for1_eq ecv hm cap input key cc fl p out : forall items acc,
  Forall (fun c => length c = 1024%nat) items -> N.of_nat (length acc) <= cap ->
  lib_compress_chunks_parallel_for1 ecv cap hm items input key cc fl p out acc
  = if N.of_nat (length acc + length items) <=? cap then Ok (acc ++ items) else Panic 30.
Proof.
  induction items as [|c items IH]; intros acc HF Hacc.
  - cbn [lib_compress_chunks_parallel_for1 length]. rewrite Nat.add_0_r, app_nil_r.
    replace (N.of_nat (length acc) <=? cap) with true by (symmetry; apply N.leb_le; exact Hacc). reflexivity.
  - inversion HF as [|? ? Hc HF']; subst. cbn [lib_compress_chunks_parallel_for1].
    rewrite Hc. change (0 + rs_CHUNK_LEN <=? N.of_nat 1024) with true. cbn [check bind].
    unfold av_push, av_len. destruct (N.of_nat (length acc) <? cap) eqn:E; cbn [check bind at_code].
    + apply N.ltb_lt in E. rewrite IH; [|exact HF'|rewrite app_length; cbn [length]; lia].
      rewrite app_length, <- app_assoc. cbn [length app].
      replace (length acc + 1 + length items)%nat with (length acc + S (length items))%nat by lia.
      replace (arr_slice c (N.to_nat 0) (N.to_nat rs_CHUNK_LEN)) with c; [reflexivity|].
      unfold arr_slice. change (N.to_nat 0) with 0%nat. change (N.to_nat rs_CHUNK_LEN) with 1024%nat. cbn [skipn]. rewrite <- Hc. symmetry. apply firstn_all.
    + apply N.ltb_ge in E. cbn [length].
      replace (N.of_nat (length acc + S (length items)) <=? cap) with false by (symmetry; apply N.leb_gt; lia).
      reflexivity.
Qed.

Lemma cs_update_loop_cv_len p (WF : plat_wf p) : forall fuel c input c' input',
  length (cs_cv c) = 8%nat -> cs_update_loop fuel p c input = Ok (c', input') -> length (cs_cv c') = 8%nat.
Proof.
  induction fuel as [|fuel IH]; intros c input c' input' Hc H; cbn [cs_update_loop] in H.
  - destruct (nlen input <=? rs_BLOCK_LEN); [inversion H; subst; exact Hc|discriminate].
  - destruct (nlen input <=? rs_BLOCK_LEN); [inversion H; subst; exact Hc|].
    destruct (cs_buf_len c =? 0); cbn [check bind] in H; [|discriminate].
    destruct (mi_add 8 (cs_blocks c) 1) as [b| |]; cbn [bind] in H; try discriminate.
    apply IH in H; [exact H|]. cbn [cs_cv]. apply (wf_cip p WF). exact Hc.
Qed.

Lemma cs_fill_buf_cv c input c' input' : cs_fill_buf c input = Ok (c', input') -> cs_cv c' = cs_cv c.
Proof.
  unfold cs_fill_buf. intros H.
  destruct (mi_sub 64 rs_BLOCK_LEN (cs_buf_len c)) as [want| |]; cbn [bind] in H; try discriminate.
  destruct (cs_buf_len c <=? nlen (cs_buf c)); cbn [check bind] in H; [|discriminate].
  destruct (N.min want (nlen input) <=? nlen (cs_buf c) - cs_buf_len c); cbn [check bind] in H; [|discriminate].
  destruct (mi_add 8 (cs_buf_len c) (N.min want (nlen input))) as [bl'| |]; cbn [bind] in H; try discriminate.
  inversion H; subst. reflexivity.
Qed.

Lemma cs_update_with_cv_len p (WF : plat_wf p) fuel c input c' :
  length (cs_cv c) = 8%nat -> cs_update_with fuel p c input = Ok c' -> length (cs_cv c') = 8%nat.
Proof.
  intros Hc H. unfold cs_update_with in H.
  assert (Htail : forall c0 in0, length (cs_cv c0) = 8%nat -> cs_update_tail_with fuel p c0 in0 = Ok c' ->
                                 length (cs_cv c') = 8%nat).
  { intros c0 in0 Hc0 Ht. unfold cs_update_tail_with in Ht.
    destruct (cs_update_loop fuel p c0 in0) as [[c1 in1]| |] eqn:El; cbn [bind] in Ht; try discriminate.
    destruct (cs_fill_buf c1 in1) as [[c2 in2]| |] eqn:Ef; cbn [bind] in Ht; try discriminate.
    destruct (nlen in2 =? 0); cbn [check bind] in Ht; [|discriminate].
    destruct (cs_count c2) as [n| |]; cbn [bind] in Ht; try discriminate.
    destruct (n <=? rs_CHUNK_LEN); cbn [check bind] in Ht; [|discriminate]. inversion Ht; subst.
    rewrite (cs_fill_buf_cv _ _ _ _ Ef). exact (cs_update_loop_cv_len p WF _ _ _ _ _ Hc0 El). }
  destruct (0 <? cs_buf_len c).
  - destruct (cs_fill_buf c input) as [[c1 in1]| |] eqn:Ef; cbn [bind] in H; try discriminate.
    pose proof (cs_fill_buf_cv _ _ _ _ Ef) as Hcv.
    destruct (negb (nlen in1 =? 0)).
    + destruct (cs_buf_len c1 =? rs_BLOCK_LEN); cbn [check bind] in H; [|discriminate].
      destruct (mi_add 8 (cs_blocks c1) 1) as [b| |]; cbn [bind] in H; try discriminate.
      apply Htail in H; [exact H|]. cbn [cs_cv]. apply (wf_cip p WF). rewrite Hcv. exact Hc.
    + cbn [bind] in H. apply Htail in H; [exact H|]. rewrite Hcv. exact Hc.
  - cbn [bind] in H. exact (Htail _ _ Hc H).
Qed.

Lemma out_cv_len p (WF : plat_wf p) o : length (o_cv o) = 8%nat -> length (out_chaining_value p o) = 32%nat.
Proof. intros H. unfold out_chaining_value. rewrite bytes_of_words_length, (wf_cip p WF) by exact H. reflexivity. Qed.

Lemma div32 (n : N) : n * 32 / 32 = n.
Proof. apply N.div_mul. discriminate. Qed.

(* n + 1 CVs fit into a buffer of L bytes *)
Lemma fits_cv n L : (n * 32 + 32 <=? L) = (n + 1 <=? L / 32).
Proof.
  destruct (n + 1 <=? L / 32) eqn:E.
  - apply N.leb_le in E. apply N.leb_le. pose proof (N.mul_div_le L 32 ltac:(discriminate)). nia.
  - apply N.leb_gt in E. apply N.leb_gt.
    pose proof (N.div_mod L 32 ltac:(discriminate)). pose proof (N.mod_lt L 32 ltac:(discriminate)). nia.
Qed.

Theorem lib_compress_chunks_parallel_eq p (WF : plat_wf p) fuel input key cc fl out : length key = 8%nat ->
  lib_compress_chunks_parallel m_Output_chaining_value (p_max_degree p) m_hash_many fuel input key cc fl p out
  = res_map (fun cvs => (arr_store out 0 (concat cvs), nlen_l cvs))
      (compress_chunks_parallel_with fuel p input key cc fl (nlen out / 32)).
Proof.
  intros Hkey. pose proof (wf_max p WF) as Hmax. change (2 ^ 32) with 4294967296 in Hmax.
  unfold lib_compress_chunks_parallel, compress_chunks_parallel_with. mstep. unfold nlen.
  destruct (N.of_nat (length input) =? 0); cbn [negb check bind res_map]; [reflexivity|].
  rewrite mul64_small by (change rs_CHUNK_LEN with 1024; change (2 ^ 64) with 18446744073709551616; lia).
  cbn [bind]. destruct (N.of_nat (length input) <=? p_max_degree p * rs_CHUNK_LEN); cbn [check bind res_map]; [|reflexivity].
  rewrite sl_chunks_exact_eq. destruct (chunks_exact_of rs_CHUNK_LEN input) as [chunks rem] eqn:Ece.
  cbn [fst snd]. pose proof (chunks_exact_pieces _ _ _ _ _ Ece) as Hpieces.
  rewrite chunks_for1_eq; [|exact Hpieces|cbn [length]; lia]. cbn [length app Nat.add]. unfold nlen_l.
  destruct (N.of_nat (length chunks) <=? p_max_degree p) eqn:E30; cbn [check bind res_map]; [|reflexivity].
  apply N.leb_le in E30.
  unfold m_hash_many at 1. unfold nlen.
  destruct (p_hash_many p chunks key cc true fl rs_flag_CHUNK_START rs_flag_CHUNK_END (N.of_nat (length out) / 32))
    as [cvs| |] eqn:Ehm; cbn [bind res_map]; try reflexivity.
  destruct (wf_hm p WF _ _ _ _ _ _ _ _ _ Hkey Ehm) as [Hlen [H32 Hcap]].
  unfold av_len. destruct (N.of_nat (length rem) =? 0); cbn [negb bind res_map].
  { rewrite Hlen. reflexivity. }
  rewrite cast64_small by (change (2 ^ 64) with 18446744073709551616; lia). cbn [bind].
  destruct (mi_add 64 cc (N.of_nat (length chunks))) as [counter| |]; cbn [bind res_map]; try reflexivity.
  change (lib_ChunkState_new key counter fl p) with (lib_of_cs p (cs_new key counter fl)).
  rewrite lib_ChunkState_update_eq by (cbn [cs_new cs_buf_len]; reflexivity).
  destruct (cs_update_with fuel p (cs_new key counter fl) rem) as [cs| |] eqn:Ecs; cbn [bind res_map]; try reflexivity.
  rewrite output_eq. cbn [bind]. rewrite m_cv_of_out.
  rewrite mul64_small by (change rs_OUT_LEN with 32; change (2 ^ 64) with 18446744073709551616; lia). cbn [bind].
  assert (Hcv : length (out_chaining_value p (cs_output cs)) = 32%nat).
  { apply (out_cv_len p WF). unfold cs_output. cbn [o_cv].
    exact (cs_update_with_cv_len p WF fuel (cs_new key counter fl) rem cs Hkey Ecs). }
  assert (Hstore : length (arr_store out 0 (concat cvs)) = length out).
  { apply arr_store_length. rewrite (concat_length32 _ H32), Hlen. cbn [Nat.add].
    pose proof (N.mul_div_le (N.of_nat (length out)) 32 ltac:(discriminate)). lia. }
  rewrite Hstore. change rs_OUT_LEN with 32. rewrite fits_cv.
  destruct (N.of_nat (length chunks) + 1 <=? N.of_nat (length out) / 32) eqn:E31; cbn [check bind res_map]; [|reflexivity].
  rewrite add64_small by (change (2 ^ 64) with 18446744073709551616; lia). cbn [bind].
  apply N.leb_le in E31.
  f_equal. f_equal.
  - rewrite concat_app. cbn [concat]. rewrite app_nil_r.
    replace (N.to_nat (N.of_nat (length chunks) * 32)) with (length (concat cvs))
      by (rewrite (concat_length32 _ H32), Hlen; lia).
    apply arr_store_snoc. rewrite (concat_length32 _ H32), Hlen, Hcv.
    pose proof (N.mul_div_le (N.of_nat (length out)) 32 ltac:(discriminate)). lia.
  - rewrite app_length, Hlen. cbn [length]. lia.
Qed.

(* ---------- compress_parents_parallel ---------- *)
Definition odd_bytes (o : option (list N)) : list N := match o with Some cv => cv | None => [] end.

Lemma pair_blocks_chunks : forall n cvs, (length cvs <= n)%nat -> cvs32 cvs -> forall f, (length cvs / 2 < f)%nat ->
  chunks_exact f 64 (concat cvs) = (fst (pair_blocks cvs), odd_bytes (snd (pair_blocks cvs))).
Proof.
  induction n as [|n IH]; intros cvs Hn H32 f Hf.
  - destruct cvs; [|cbn in Hn; lia]. destruct f; reflexivity.
  - destruct cvs as [|a [|b tl]].
    + destruct f; reflexivity.
    + inversion H32 as [|? ? Ha _]; subst. destruct f as [|f]; [lia|]. cbn [concat chunks_exact pair_blocks fst snd odd_bytes].
      rewrite app_nil_r, Ha. reflexivity.
    + inversion H32 as [|? ? Ha H32']; subst. inversion H32' as [|? ? Hb H32'']; subst.
      destruct f as [|f]; [lia|]. cbn [concat chunks_exact pair_blocks].
      rewrite !app_length, Ha, Hb. cbn [Nat.ltb Nat.leb].
      replace (Nat.ltb (32 + (32 + length (concat tl))) 64) with false by (symmetry; apply Nat.ltb_ge; lia).
      rewrite app_assoc. rewrite skipn_app, firstn_app. rewrite app_length, Ha, Hb. cbn [Nat.add Nat.sub].
      rewrite skipn_all2 by (rewrite app_length; lia). rewrite firstn_all2 by (rewrite app_length; lia).
      cbn [skipn firstn app]. rewrite app_nil_r.
      assert (Hdiv : (length tl / 2 < f)%nat).
      { cbn [length] in Hf. change (S (S (length tl))) with (2 + length tl)%nat in Hf.
        replace (2 + length tl)%nat with (length tl + 1 * 2)%nat in Hf by lia. rewrite Nat.div_add in Hf by lia. lia. }
      rewrite (IH tl ltac:(cbn [length] in Hn; lia) H32'' f Hdiv).
      destruct (pair_blocks tl) as [ps r]. reflexivity.
Qed.

Lemma pair_blocks_chunks_of cvs : cvs32 cvs ->
  chunks_exact_of rs_BLOCK_LEN (concat cvs) = (fst (pair_blocks cvs), odd_bytes (snd (pair_blocks cvs))).
Proof.
  intros H32. unfold chunks_exact_of. change (N.to_nat rs_BLOCK_LEN) with 64%nat.
  apply (pair_blocks_chunks (length cvs) cvs (le_n _) H32). rewrite (concat_length32 _ H32).
  replace (32 * length cvs)%nat with (length cvs / 2 * 64 + (length cvs mod 2) * 32)%nat.
  2:{ pose proof (Nat.div_mod (length cvs) 2 ltac:(lia)). lia. }
  pose proof (Nat.mod_upper_bound (length cvs) 2 ltac:(lia)).
  rewrite Nat.div_add_l by lia. lia.
Qed.

Lemma pair_blocks_lengths : forall n cvs, (length cvs <= n)%nat ->
  (length (fst (pair_blocks cvs)) = length cvs / 2)%nat /\
  (match snd (pair_blocks cvs) with Some _ => length cvs mod 2 = 1 | None => length cvs mod 2 = 0 end)%nat.
Proof.
  induction n as [|n IH]; intros cvs Hn.
  - destruct cvs; [split; reflexivity|cbn in Hn; lia].
  - destruct cvs as [|a [|b tl]]; [split; reflexivity|split; reflexivity|].
    cbn [pair_blocks]. destruct (IH tl ltac:(cbn [length] in Hn; lia)) as [H1 H2].
    destruct (pair_blocks tl) as [ps r]. cbn [fst snd length] in *.
    change (S (S (length tl))) with (2 + length tl)%nat.
    replace (2 + length tl)%nat with (length tl + 1 * 2)%nat by lia. rewrite Nat.div_add, Nat.mod_add by lia.
    split; [lia|exact H2].
Qed.

Lemma pair_blocks_32 : forall n cvs, (length cvs <= n)%nat -> cvs32 cvs ->
  Forall (fun c => length c = 64%nat) (fst (pair_blocks cvs)) /\
  (forall cv, snd (pair_blocks cvs) = Some cv -> length cv = 32%nat).
Proof.
  induction n as [|n IH]; intros cvs Hn H32.
  - destruct cvs; [split; [constructor|discriminate]|cbn in Hn; lia].
  - destruct cvs as [|a [|b tl]].
    + split; [constructor|discriminate].
    + inversion H32; subst. split; [constructor|]. cbn. intros cv E. inversion E; subst. assumption.
    + inversion H32 as [|? ? Ha H32']; subst. inversion H32' as [|? ? Hb H32'']; subst.
      cbn [pair_blocks]. destruct (IH tl ltac:(cbn [length] in Hn; lia) H32'') as [H1 H2].
      destruct (pair_blocks tl) as [ps r]. cbn [fst snd] in *. split; [|exact H2].
      constructor; [rewrite app_length; lia|exact H1].
Qed.

Lemma parents_for1_eq hm cap ccv key fl p out nc : forall items acc,
  Forall (fun c => length c = 64%nat) items -> N.of_nat (length acc) <= cap ->
  lib_compress_parents_parallel_for1 cap hm items ccv key fl p out nc acc
  = if N.of_nat (length acc + length items) <=? cap then Ok (acc ++ items) else Panic 32.
Proof.
  induction items as [|c items IH]; intros acc HF Hacc.
  - cbn [lib_compress_parents_parallel_for1 length]. rewrite Nat.add_0_r, app_nil_r.
    replace (N.of_nat (length acc) <=? cap) with true by (symmetry; apply N.leb_le; exact Hacc). reflexivity.
  - inversion HF as [|? ? Hc HF']; subst. cbn [lib_compress_parents_parallel_for1].
    rewrite Hc. change (0 + rs_BLOCK_LEN <=? N.of_nat 64) with true. cbn [check bind].
    unfold av_push, av_len. destruct (N.of_nat (length acc) <? cap) eqn:E; cbn [check bind at_code].
    + apply N.ltb_lt in E. rewrite IH; [|exact HF'|rewrite app_length; cbn [length]; lia].
      rewrite app_length, <- app_assoc. cbn [length app].
      replace (length acc + 1 + length items)%nat with (length acc + S (length items))%nat by lia.
      replace (arr_slice c (N.to_nat 0) (N.to_nat rs_BLOCK_LEN)) with c; [reflexivity|].
      unfold arr_slice. change (N.to_nat 0) with 0%nat. change (N.to_nat rs_BLOCK_LEN) with 64%nat. cbn [skipn].
      rewrite <- Hc. symmetry. apply firstn_all.
    + apply N.ltb_ge in E. cbn [length].
      replace (N.of_nat (length acc + S (length items)) <=? cap) with false by (symmetry; apply N.leb_gt; lia).
      reflexivity.
Qed.

Lemma or2_small p (WF : plat_wf p) : max_degree_or_2 p < 2 ^ 32 /\ 2 <= max_degree_or_2 p.
Proof.
  pose proof (wf_max p WF). unfold max_degree_or_2. change (2 ^ 32) with 4294967296 in *. split; lia.
Qed.

Theorem lib_compress_parents_parallel_eq p (WF : plat_wf p) child_cvs key fl out : length key = 8%nat ->
  cvs32 child_cvs ->
  lib_compress_parents_parallel (max_degree_or_2 p) m_hash_many (concat child_cvs) key fl p out
  = res_map (fun cvs => (arr_store out 0 (concat cvs), nlen_l cvs))
      (compress_parents_parallel p child_cvs key fl (nlen out / 32)).
Proof.
  intros Hkey H32. destruct (or2_small p WF) as [Hor Hor2]. change (2 ^ 32) with 4294967296 in Hor.
  unfold lib_compress_parents_parallel, compress_parents_parallel. mstep.
  rewrite (concat_length32 _ H32). unfold mi_rem, mi_div. change (rs_OUT_LEN =? 0) with false. cbn [bind].
  replace (N.of_nat (32 * length child_cvs)) with (N.of_nat (length child_cvs) * 32) by lia.
  change rs_OUT_LEN with 32. rewrite N.mod_mul, div32 by discriminate. cbn [N.eqb check bind].
  destruct (2 <=? N.of_nat (length child_cvs)); cbn [check bind res_map]; [|reflexivity].
  rewrite mul64_small by (change (2 ^ 64) with 18446744073709551616; lia). cbn [bind].
  destruct (N.of_nat (length child_cvs) <=? 2 * max_degree_or_2 p); cbn [check bind res_map]; [|reflexivity].
  replace (N.of_nat (length child_cvs) * 32) with (N.of_nat (length (concat child_cvs)))
    by (rewrite (concat_length32 _ H32); lia).
  rewrite sl_chunks_exact_eq, (pair_blocks_chunks_of _ H32).
  destruct (pair_blocks_32 _ child_cvs (le_n _) H32) as [Hp64 Hodd32].
  destruct (pair_blocks_lengths _ child_cvs (le_n _)) as [Hplen _].
  destruct (pair_blocks child_cvs) as [parents odd]. cbn [fst snd] in *.
  rewrite parents_for1_eq; [|exact Hp64|cbn [length]; lia]. cbn [length app Nat.add].
  destruct (N.of_nat (length parents) <=? max_degree_or_2 p) eqn:E32; cbn [check bind res_map]; [|reflexivity].
  apply N.leb_le in E32. unfold mi_or. cbn [bind].
  unfold m_hash_many at 1. unfold nlen.
  destruct (p_hash_many p parents key 0 false (N.lor fl rs_flag_PARENT) 0 0 (N.of_nat (length out) / 32))
    as [cvs| |] eqn:Ehm; cbn [bind res_map]; try reflexivity.
  destruct (wf_hm p WF _ _ _ _ _ _ _ _ _ Hkey Ehm) as [Hlen [Hc32 Hcap]].
  assert (Hstore : length (arr_store out 0 (concat cvs)) = length out).
  { apply arr_store_length. rewrite (concat_length32 _ Hc32), Hlen. cbn [Nat.add].
    pose proof (N.mul_div_le (N.of_nat (length out)) 32 ltac:(discriminate)). lia. }
  change (0 =? 0) with true. cbn [check bind].
  unfold av_len, nlen_l. destruct odd as [cv|]; cbn [odd_bytes].
  - pose proof (Hodd32 cv eq_refl) as Hcv. rewrite Hcv. change (N.of_nat 32) with 32.
    change (32 =? 0) with false. change (32 =? 32) with true. cbn [negb check bind].
    rewrite mul64_small by (change (2 ^ 64) with 18446744073709551616; lia). cbn [bind].
    rewrite Hstore.
    destruct (N.of_nat (length parents) + 1 <=? N.of_nat (length out) / 32) eqn:E33.
    + pose proof E33 as E33'. rewrite <- fits_cv in E33'. apply N.leb_le in E33'.
      replace (N.of_nat (length parents) * 32 <=? N.of_nat (length out)) with true by (symmetry; apply N.leb_le; lia).
      cbn [check bind].
      replace (32 <=? N.of_nat (length out) - N.of_nat (length parents) * 32) with true by (symmetry; apply N.leb_le; lia).
      cbn [check bind].
      rewrite add64_small by (change (2 ^ 64) with 18446744073709551616; lia). cbn [bind res_map].
      f_equal. f_equal.
      * rewrite concat_app. cbn [concat]. rewrite app_nil_r.
        replace (N.to_nat (N.of_nat (length parents) * 32)) with (length (concat cvs))
          by (rewrite (concat_length32 _ Hc32), Hlen; lia).
        apply arr_store_snoc. rewrite (concat_length32 _ Hc32), Hlen, Hcv. lia.
      * rewrite app_length, Hlen. cbn [length]. lia.
    + cbn [check bind res_map]. rewrite <- fits_cv in E33. apply N.leb_gt in E33.
      destruct (N.of_nat (length parents) * 32 <=? N.of_nat (length out)) eqn:Ea; cbn [check bind]; [|reflexivity].
      apply N.leb_le in Ea.
      replace (32 <=? N.of_nat (length out) - N.of_nat (length parents) * 32) with false by (symmetry; apply N.leb_gt; lia).
      reflexivity.
  - change (N.of_nat (length (@nil N)) =? 0) with true. cbn [negb bind res_map]. rewrite Hlen. reflexivity.
Qed.

(* ---------- shapes of the models' results: 32-byte CVs, never more than the capacity ---------- *)
Ltac bstep H :=
  match type of H with
  | bind (check ?b _) _ = _ => destruct b eqn:?; cbn [check bind] in H; [|discriminate H]
  | bind ?m _ = _ => let E := fresh "E" in destruct m eqn:E; cbn [bind] in H; [|discriminate H|discriminate H]
  end.

Lemma chunks_with_shape p (WF : plat_wf p) fuel input key cc fl cap cvs : length key = 8%nat ->
  compress_chunks_parallel_with fuel p input key cc fl cap = Ok cvs -> cvs32 cvs /\ nlen_l cvs <= cap.
Proof.
  intros Hkey H. unfold compress_chunks_parallel_with in H. bstep H. bstep H.
  destruct (chunks_exact_of rs_CHUNK_LEN input) as [chunks rem]. bstep H. bstep H.
  destruct (wf_hm p WF _ _ _ _ _ _ _ _ _ Hkey E) as [Hlen [H32 Hcap]].
  destruct (negb (nlen rem =? 0)).
  - bstep H. bstep H. bstep H. inversion H; subst. split.
    + apply cvs32_app; [exact H32|]. constructor; [|constructor].
      apply (out_cv_len p WF). unfold cs_output. cbn [o_cv].
      exact (cs_update_with_cv_len p WF fuel (cs_new key a0 fl) rem a1 Hkey E1).
    + unfold nlen_l in *. rewrite app_length, Hlen. cbn [length]. apply N.leb_le in Heqb2. lia.
  - inversion H; subst. split; [exact H32|]. unfold nlen_l. rewrite Hlen. exact Hcap.
Qed.

Lemma parents_shape p (WF : plat_wf p) cvs key fl cap outs : length key = 8%nat -> cvs32 cvs ->
  compress_parents_parallel p cvs key fl cap = Ok outs ->
  cvs32 outs /\ nlen_l outs <= cap /\ length outs = ((length cvs + 1) / 2)%nat.
Proof.
  intros Hkey H32 H. unfold compress_parents_parallel in H. bstep H. bstep H.
  destruct (pair_blocks_32 _ cvs (le_n _) H32) as [_ Hodd32].
  destruct (pair_blocks_lengths _ cvs (le_n _)) as [Hplen Hpodd].
  destruct (pair_blocks cvs) as [parents odd]. cbn [fst snd] in *. bstep H. bstep H.
  destruct (wf_hm p WF _ _ _ _ _ _ _ _ _ Hkey E) as [Hlen [Hc32 Hcap]].
  pose proof (Nat.div_mod (length cvs) 2 ltac:(lia)) as Hdm.
  destruct odd as [cv|].
  - bstep H. inversion H; subst. split; [|split].
    + apply cvs32_app; [exact Hc32|]. constructor; [exact (Hodd32 cv eq_refl)|constructor].
    + unfold nlen_l. rewrite app_length, Hlen. cbn [length]. apply N.leb_le in Heqb2. lia.
    + rewrite app_length, Hlen, Hplen. cbn [length].
      replace (length cvs + 1)%nat with (1 * 2 + (length cvs - 1))%nat by lia.
      replace (length cvs - 1)%nat with (2 * (length cvs / 2))%nat by lia.
      rewrite Nat.div_add_l by lia. rewrite Nat.mul_comm, Nat.div_mul by lia. lia.
  - inversion H; subst. split; [exact Hc32|split].
    + unfold nlen_l. rewrite Hlen. exact Hcap.
    + rewrite Hlen, Hplen. replace (length cvs + 1)%nat with (1 + (length cvs / 2) * 2)%nat by lia.
      rewrite Nat.div_add by lia. cbn. reflexivity.
Qed.

Lemma cvs32_firstn n cvs : cvs32 cvs -> cvs32 (firstn n cvs).
Proof. intros H. revert n. induction H as [|cv cvs Hcv _ IH]; intros [|n]; cbn [firstn]; try constructor; auto; apply IH. Qed.

Lemma wide_with_shape p (WF : plat_wf p) key fl : length key = 8%nat -> forall fuel input cc cap cvs,
  compress_subtree_wide_with fuel p input key cc fl cap = Ok cvs -> cvs32 cvs /\ nlen_l cvs <= cap.
Proof.
  intros Hkey. induction fuel as [|fuel IH]; intros input cc cap cvs H; cbn [compress_subtree_wide_with] in H.
  - destruct (nlen input <=? p_degree p * rs_CHUNK_LEN); [|discriminate].
    exact (chunks_with_shape p WF _ _ _ _ _ _ _ Hkey H).
  - destruct (nlen input <=? p_degree p * rs_CHUNK_LEN); [exact (chunks_with_shape p WF _ _ _ _ _ _ _ Hkey H)|].
    bstep H. bstep H. bstep H. bstep H. bstep H. bstep H. bstep H. bstep H. bstep H. bstep H. bstep H.
    destruct (IH _ _ _ _ E2) as [Hl32 _]. destruct (IH _ _ _ _ E3) as [Hr32 _].
    destruct (N.of_nat (length a2) =? 1).
    + bstep H. replace cvs with (firstn 2 (a2 ++ a3)) by congruence. split; [apply cvs32_firstn, cvs32_app; assumption|].
      unfold nlen_l. rewrite firstn_length. apply N.leb_le in Heqb5. lia.
    + destruct (parents_shape p WF _ _ _ _ _ Hkey (cvs32_app _ _ Hl32 Hr32) H) as [Ha [Hb _]]. split; assumption.
Qed.

(* ---------- compress_subtree_wide ---------- *)
Lemma bind_ret_pair {A B} (m : res (A * B)) : bind m (fun x => match x with (a, b) => Ok (a, b) end) = m.
Proof. destruct m as [[a b]| |]; reflexivity. Qed.

Lemma npot_lt x v : mu (mi_npot 64) x = Ok v -> v < 2 ^ 64.
Proof.
  destruct x as [a| |]; cbn [mu bind]; try discriminate. unfold mi_npot, fits.
  destruct (npot a <? 2 ^ 64) eqn:E; intros H; [|discriminate]. inversion H; subst. apply N.ltb_lt. exact E.
Qed.

Lemma rs_left_subtree_len_lt n v : rs_left_subtree_len n = Ok v -> v < 2 ^ 64.
Proof. apply npot_lt. Qed.

Lemma length_repeat0 n : length (repeat 0 n) = n.
Proof. apply repeat_length. Qed.

Theorem lib_compress_subtree_wide_eq p (WF : plat_wf p) key fl : length key = 8%nat -> forall fuel input cc out,
  nlen input < 2 ^ 64 ->
  lib_compress_subtree_wide m_Output_chaining_value (p_max_degree p) (max_degree_or_2 p) m_hash_many fuel input key cc fl p out
  = res_map (fun cvs => (arr_store out 0 (concat cvs), nlen_l cvs))
      (compress_subtree_wide_with fuel p input key cc fl (nlen out / 32)).
Proof.
  intros Hkey. pose proof (wf_deg p WF) as Hdeg. destruct (or2_small p WF) as [Hor Hor2].
  change (2 ^ 32) with 4294967296 in *.
  induction fuel as [|fuel IH]; intros input cc out Hin.
  - cbn [lib_compress_subtree_wide compress_subtree_wide_with]. mstep.
    rewrite mul64_small by (change rs_CHUNK_LEN with 1024; change (2 ^ 64) with 18446744073709551616; lia).
    cbn [bind]. unfold nlen at 1.
    destruct (N.of_nat (length input) <=? p_degree p * rs_CHUNK_LEN); [|reflexivity].
    rewrite bind_ret_pair. apply lib_compress_chunks_parallel_eq; assumption.
  - cbn [lib_compress_subtree_wide compress_subtree_wide_with]. mstep.
    rewrite mul64_small by (change rs_CHUNK_LEN with 1024; change (2 ^ 64) with 18446744073709551616; lia).
    cbn [bind]. unfold nlen at 1.
    destruct (N.of_nat (length input) <=? p_degree p * rs_CHUNK_LEN).
    { rewrite bind_ret_pair. apply lib_compress_chunks_parallel_eq; assumption. }
    unfold mi_popcount. cbn [bind].
    destruct (popcount (p_degree p) =? 1); cbn [check bind res_map]; [|reflexivity].
    unfold nlen in Hin |- *. rewrite (cast64_small _ Hin). cbn [bind]. rewrite lib_hazmat_left_subtree_len_eq.
    destruct (rs_CHUNK_LEN <? N.of_nat (length input)); cbn [check bind res_map]; [|reflexivity].
    destruct (rs_left_subtree_len (N.of_nat (length input))) as [left_len| |] eqn:Ell; cbn [bind res_map]; try reflexivity.
    rewrite (cast64_small _ (rs_left_subtree_len_lt _ _ Ell)). cbn [bind].
    destruct (left_len <=? N.of_nat (length input)) eqn:E34; cbn [check bind res_map]; [|reflexivity].
    apply N.leb_le in E34.
    assert (Hleft : N.of_nat (length (firstn (N.to_nat left_len) input)) = left_len) by (rewrite firstn_length; lia).
    rewrite Hleft. unfold rs_right_chunk_counter. mstep.
    destruct (b <- mi_div 64 left_len rs_CHUNK_LEN ;; mi_cast 64 b) as [q| |]; cbn [bind res_map]; try reflexivity.
    destruct (mi_add 64 cc q) as [right_counter| |]; cbn [bind res_map]; try reflexivity.
    rewrite (mul64_small 2) by (change (2 ^ 64) with 18446744073709551616; lia). cbn [bind].
    rewrite mul64_small by (change rs_OUT_LEN with 32; change (2 ^ 64) with 18446744073709551616; lia). cbn [bind].
    set (degree_m := if left_len =? rs_CHUNK_LEN then assert! (p_degree p =? 1) code 1206 ;; Ok 1 else Ok (N.max (p_degree p) 2)).
    match goal with |- bind ?d _ = _ => replace d with degree_m end.
    2:{ unfold degree_m. destruct (left_len =? rs_CHUNK_LEN); [|reflexivity].
        destruct (p_degree p =? 1); reflexivity. }
    assert (Hdm : forall d, degree_m = Ok d -> d < 4294967296).
    { unfold degree_m. intros d Hd. destruct (left_len =? rs_CHUNK_LEN).
      - destruct (p_degree p =? 1); cbn [check bind] in Hd; [|discriminate]. inversion Hd; lia.
      - inversion Hd. lia. }
    destruct degree_m as [degree| |]; cbn [bind res_map]; try reflexivity.
    specialize (Hdm degree eq_refl).
    rewrite mul64_small by (change rs_OUT_LEN with 32; change (2 ^ 64) with 18446744073709551616; lia). cbn [bind].
    rewrite length_repeat0. change rs_OUT_LEN with 32.
    replace (degree * 32 <=? N.of_nat (N.to_nat (2 * max_degree_or_2 p * 32))) with (degree <=? 2 * max_degree_or_2 p).
    2:{ rewrite N2Nat.id. destruct (degree <=? 2 * max_degree_or_2 p) eqn:E.
        - apply N.leb_le in E. symmetry. apply N.leb_le. lia.
        - apply N.leb_gt in E. symmetry. apply N.leb_gt. lia. }
    destruct (degree <=? 2 * max_degree_or_2 p) eqn:E35; cbn [check bind res_map]; [|reflexivity].
    apply N.leb_le in E35.
    set (cv0 := repeat 0 (N.to_nat (2 * max_degree_or_2 p * 32))).
    assert (Hcv0 : length cv0 = N.to_nat (2 * max_degree_or_2 p * 32)) by apply length_repeat0.
    set (lo := firstn (N.to_nat (degree * 32)) cv0). set (ro := skipn (N.to_nat (degree * 32)) cv0).
    assert (Hlo : length lo = N.to_nat (degree * 32)) by (unfold lo; rewrite firstn_length; lia).
    assert (Hro : length ro = N.to_nat ((2 * max_degree_or_2 p - degree) * 32)) by (unfold ro; rewrite skipn_length; lia).
    rewrite (IH _ cc lo) by (unfold nlen; rewrite firstn_length; lia).
    replace (nlen lo / 32) with degree by (unfold nlen; rewrite Hlo, N2Nat.id, div32; reflexivity).
    destruct (compress_subtree_wide_with fuel p (firstn (N.to_nat left_len) input) key cc fl degree) as [lcvs| |] eqn:El;
      cbn [bind res_map]; try reflexivity.
    rewrite (IH _ right_counter ro) by (unfold nlen; rewrite skipn_length; lia).
    replace (nlen ro / 32) with (2 * max_degree_or_2 p - degree) by (unfold nlen; rewrite Hro, N2Nat.id, div32; reflexivity).
    destruct (compress_subtree_wide_with fuel p (skipn (N.to_nat left_len) input) key right_counter fl
                (2 * max_degree_or_2 p - degree)) as [rcvs| |] eqn:Er; cbn [bind res_map]; try reflexivity.
    destruct (wide_with_shape p WF key fl Hkey _ _ _ _ _ El) as [Hl32 Hlcap].
    destruct (wide_with_shape p WF key fl Hkey _ _ _ _ _ Er) as [Hr32 Hrcap].
    unfold nlen_l in *.
    destruct (N.of_nat (length lcvs) =? degree) eqn:E1207; cbn [check bind res_map]; [|reflexivity].
    apply N.eqb_eq in E1207.
    destruct (1 <=? N.of_nat (length rcvs)) eqn:Hr1; cbn [andb check bind res_map]; [|reflexivity].
    destruct (N.of_nat (length rcvs) <=? N.of_nat (length lcvs)) eqn:Hr2; cbn [check bind res_map]; [|reflexivity].
    apply N.leb_le in Hr1. apply N.leb_le in Hr2.
    (* the rebuilt cv_array: the left CVs fill the left half exactly *)
    assert (Hlfull : arr_store lo 0 (concat lcvs) = concat lcvs).
    { rewrite arr_store_0. rewrite skipn_all2, app_nil_r; [reflexivity|].
      rewrite (concat_length32 _ Hl32), Hlo. lia. }
    rewrite Hlfull.
    assert (Hrlen : length (arr_store ro 0 (concat rcvs)) = length ro).
    { apply arr_store_length. rewrite (concat_length32 _ Hr32), Hro. lia. }
    assert (Hall : forall n, n = (32 * (length lcvs + length rcvs))%nat ->
              firstn n (concat lcvs ++ arr_store ro 0 (concat rcvs)) = concat (lcvs ++ rcvs)).
    { intros n ->. rewrite arr_store_0, app_assoc, <- concat_app.
      replace (32 * (length lcvs + length rcvs))%nat with (length (concat (lcvs ++ rcvs)) + 0)%nat
        by (rewrite (concat_length32 _ (cvs32_app _ _ Hl32 Hr32)), app_length; lia).
      rewrite firstn_app_2, firstn_O, app_nil_r. reflexivity. }
    assert (Hlenall : N.of_nat (length (concat lcvs ++ arr_store ro 0 (concat rcvs))) = 2 * max_degree_or_2 p * 32).
    { rewrite app_length, Hrlen, (concat_length32 _ Hl32), Hro. lia. }
    rewrite Hlenall.
    destruct (N.of_nat (length lcvs) =? 1) eqn:E1.
    + apply N.eqb_eq in E1. assert (Hrc1 : length rcvs = 1%nat) by lia. assert (Hlc1 : length lcvs = 1%nat) by lia.
      change (mi_mul 64 2 32) with (Ok 64 : res N). cbn [bind].
      change (64 <=? N.of_nat (length out)) with (1 * 32 + 32 <=? N.of_nat (length out)). rewrite fits_cv.
      change (1 + 1) with 2.
      destruct (2 <=? N.of_nat (length out) / 32); cbn [check bind res_map]; [|reflexivity].
      replace (64 <=? 2 * max_degree_or_2 p * 32) with true by (symmetry; apply N.leb_le; lia). cbn [check bind].
      rewrite (Hall (N.to_nat 64)) by (rewrite Hlc1, Hrc1; reflexivity).
      rewrite (concat_length32 _ (cvs32_app _ _ Hl32 Hr32)), app_length, Hlc1, Hrc1. cbn [check bind N.of_nat N.eqb Pos.eqb Nat.add Nat.mul Pos.of_succ_nat Pos.succ].
      change (N.to_nat 0) with 0%nat.
      rewrite firstn_all2 by (rewrite app_length, Hlc1, Hrc1; cbn; lia).
      rewrite app_length, Hlc1, Hrc1. reflexivity.
    + apply N.eqb_neq in E1.
      rewrite add64_small by (change (2 ^ 64) with 18446744073709551616; lia). cbn [bind].
      rewrite mul64_small by (change (2 ^ 64) with 18446744073709551616; lia). cbn [bind].
      replace ((N.of_nat (length lcvs) + N.of_nat (length rcvs)) * 32 <=? 2 * max_degree_or_2 p * 32) with true
        by (symmetry; apply N.leb_le; lia).
      cbn [check bind]. rewrite Hall by lia. rewrite bind_ret_pair.
      apply lib_compress_parents_parallel_eq; [exact WF|exact Hkey|exact (cvs32_app _ _ Hl32 Hr32)].
Qed.

(* ---------- compress_subtree_to_parent_node ---------- *)
Lemma condense_len p (WF : plat_wf p) key fl : length key = 8%nat -> forall fuel cvs cvs',
  cvs32 cvs -> (2 <= length cvs)%nat -> condense_loop fuel p cvs key fl = Ok cvs' -> length cvs' = 2%nat /\ cvs32 cvs'.
Proof.
  intros Hkey. induction fuel as [|fuel IH]; intros cvs cvs' H32 H2 H; cbn [condense_loop] in H.
  - destruct (N.of_nat (length cvs) <=? 2) eqn:E; [|discriminate]. apply N.leb_le in E. inversion H; subst. split; [lia|exact H32].
  - destruct (N.of_nat (length cvs) <=? 2) eqn:E.
    + apply N.leb_le in E. inversion H; subst. split; [lia|exact H32].
    + apply N.leb_gt in E. bstep H.
      destruct (parents_shape p WF _ _ _ _ _ Hkey H32 E0) as [Ha [_ Hl]].
      apply (IH a cvs' Ha); [|exact H]. rewrite Hl.
      assert (4 <= length cvs + 1)%nat by lia.
      apply (Nat.div_le_mono _ _ 2) in H0; [|lia]. exact H0.
Qed.

Lemma half_cap (m : N) : m * 32 / 2 / 32 = m / 2.
Proof.
  replace (m * 32 / 2) with (m * 16) by (replace (m * 32) with (m * 16 * 2) by lia; rewrite N.div_mul by discriminate; reflexivity).
  replace 32 with (2 * 16) by reflexivity. rewrite N.div_mul_cancel_r by discriminate. reflexivity.
Qed.

Lemma tpn_loop_eq p (WF : plat_wf p) key fl input cc : length key = 8%nat -> forall fuel cvs ca oa,
  cvs32 cvs -> N.of_nat (length cvs) <= max_degree_or_2 p ->
  length ca = N.to_nat (max_degree_or_2 p * 32) -> firstn (32 * length cvs) ca = concat cvs ->
  length oa = N.to_nat (max_degree_or_2 p * 32 / 2) ->
  match condense_loop fuel p cvs key fl with
  | Ok cvs' => exists ca' oa',
      lib_compress_subtree_to_parent_node_loop1 m_Output_chaining_value (p_max_degree p) (max_degree_or_2 p) m_hash_many
        fuel input key cc fl p ca (nlen_l cvs) oa = Ok (ca', nlen_l cvs', oa') /\
      length ca' = length ca /\ firstn (32 * length cvs') ca' = concat cvs'
  | Panic c =>
      lib_compress_subtree_to_parent_node_loop1 m_Output_chaining_value (p_max_degree p) (max_degree_or_2 p) m_hash_many
        fuel input key cc fl p ca (nlen_l cvs) oa = Panic c
  | OutOfFuel =>
      lib_compress_subtree_to_parent_node_loop1 m_Output_chaining_value (p_max_degree p) (max_degree_or_2 p) m_hash_many
        fuel input key cc fl p ca (nlen_l cvs) oa = OutOfFuel
  end.
Proof.
  intros Hkey. destruct (or2_small p WF) as [Hor Hor2]. change (2 ^ 32) with 4294967296 in *.
  induction fuel as [|fuel IH]; intros cvs ca oa H32 Hn Hca Hfirst Hoa.
  - cbn [condense_loop lib_compress_subtree_to_parent_node_loop1]. mstep. unfold nlen_l.
    rewrite N.ltb_antisym. destruct (N.of_nat (length cvs) <=? 2); cbn [negb]; [|reflexivity].
    exists ca, oa. repeat split. exact Hfirst.
  - cbn [condense_loop lib_compress_subtree_to_parent_node_loop1]. mstep. unfold nlen_l.
    rewrite N.ltb_antisym. destruct (N.of_nat (length cvs) <=? 2); cbn [negb].
    { exists ca, oa. repeat split. exact Hfirst. }
    rewrite mul64_small by (change rs_OUT_LEN with 32; change (2 ^ 64) with 18446744073709551616; lia). cbn [bind].
    change rs_OUT_LEN with 32.
    replace (N.of_nat (length cvs) * 32 <=? N.of_nat (length ca)) with true by (symmetry; apply N.leb_le; lia).
    cbn [check bind].
    replace (N.to_nat (N.of_nat (length cvs) * 32)) with (32 * length cvs)%nat by lia. rewrite Hfirst.
    rewrite (lib_compress_parents_parallel_eq p WF cvs key fl oa Hkey H32).
    replace (nlen oa / 32) with (max_degree_or_2 p / 2) by (unfold nlen; rewrite Hoa, N2Nat.id, half_cap; reflexivity).
    destruct (compress_parents_parallel p cvs key fl (max_degree_or_2 p / 2)) as [outs| |] eqn:Ep; cbn [bind res_map];
      try reflexivity.
    destruct (parents_shape p WF _ _ _ _ _ Hkey H32 Ep) as [Ho32 [Hocap _]]. unfold nlen_l in Hocap.
    assert (Hhalf : max_degree_or_2 p / 2 <= max_degree_or_2 p) by (apply N.div_le_upper_bound; lia).
    assert (Hhalf2 : max_degree_or_2 p / 2 * 32 <= max_degree_or_2 p * 32 / 2).
    { replace (max_degree_or_2 p * 32 / 2) with (max_degree_or_2 p * 16)
        by (replace (max_degree_or_2 p * 32) with (max_degree_or_2 p * 16 * 2) by lia; rewrite N.div_mul by discriminate; reflexivity).
      pose proof (N.mul_div_le (max_degree_or_2 p) 2 ltac:(discriminate)). lia. }
    assert (Hoa' : length (arr_store oa 0 (concat outs)) = length oa).
    { apply arr_store_length. rewrite (concat_length32 _ Ho32), Hoa. lia. }
    unfold nlen_l.
    rewrite mul64_small by (change (2 ^ 64) with 18446744073709551616; lia). cbn [bind].
    replace (N.of_nat (length outs) * 32 <=? N.of_nat (length ca)) with true by (symmetry; apply N.leb_le; lia).
    cbn [check bind]. rewrite Hoa'.
    replace (N.of_nat (length outs) * 32 <=? N.of_nat (length oa)) with true by (symmetry; apply N.leb_le; lia).
    cbn [check bind].
    replace (N.to_nat (N.of_nat (length outs) * 32)) with (length (concat outs)) by (rewrite (concat_length32 _ Ho32); lia).
    rewrite firstn_arr_store_0 by (rewrite (concat_length32 _ Ho32), Hoa; lia).
    replace (N.of_nat (length (concat outs)) =? N.of_nat (length outs) * 32) with true
      by (symmetry; apply N.eqb_eq; rewrite (concat_length32 _ Ho32); lia).
    cbn [check bind]. change (N.to_nat 0) with 0%nat.
    assert (Hca' : length (arr_store ca 0 (concat outs)) = length ca).
    { apply arr_store_length. rewrite (concat_length32 _ Ho32), Hca. lia. }
    specialize (IH outs (arr_store ca 0 (concat outs)) (arr_store oa 0 (concat outs)) Ho32 ltac:(lia)
                   ltac:(rewrite Hca'; exact Hca)).
    rewrite <- (concat_length32 _ Ho32) in IH.
    specialize (IH (firstn_arr_store_0 _ _ ltac:(rewrite (concat_length32 _ Ho32), Hca; lia)) ltac:(rewrite Hoa'; exact Hoa)).
    unfold nlen_l in IH.
    destruct (condense_loop fuel p outs key fl) as [cvs'| |]; [|exact IH|exact IH].
    destruct IH as [ca' [oa' [H1 [H2 H3]]]]. exists ca', oa'. split; [exact H1|]. split; [|exact H3]. rewrite H2. exact Hca'.
Qed.

Theorem lib_compress_subtree_to_parent_node_eq p (WF : plat_wf p) fuel input key cc fl : length key = 8%nat ->
  nlen input < 2 ^ 64 ->
  lib_compress_subtree_to_parent_node m_Output_chaining_value (p_max_degree p) (max_degree_or_2 p) m_hash_many
    fuel input key cc fl p
  = compress_subtree_to_parent_node_with fuel p input key cc fl.
Proof.
  intros Hkey Hin. destruct (or2_small p WF) as [Hor Hor2]. change (2 ^ 32) with 4294967296 in *.
  unfold lib_compress_subtree_to_parent_node, compress_subtree_to_parent_node_with. mstep. unfold nlen at 1.
  destruct (rs_CHUNK_LEN <? N.of_nat (length input)); cbn [check bind]; [|reflexivity].
  rewrite mul64_small by (change rs_OUT_LEN with 32; change (2 ^ 64) with 18446744073709551616; lia). cbn [bind].
  change rs_OUT_LEN with 32.
  set (cv0 := repeat 0 (N.to_nat (max_degree_or_2 p * 32))).
  assert (Hcv0 : length cv0 = N.to_nat (max_degree_or_2 p * 32)) by apply length_repeat0.
  rewrite (lib_compress_subtree_wide_eq p WF key fl Hkey fuel input cc cv0 Hin).
  replace (nlen cv0 / 32) with (max_degree_or_2 p) by (unfold nlen; rewrite Hcv0, N2Nat.id, div32; reflexivity).
  destruct (compress_subtree_wide_with fuel p input key cc fl (max_degree_or_2 p)) as [cvs| |] eqn:Ew; cbn [bind res_map];
    try reflexivity.
  destruct (wide_with_shape p WF key fl Hkey _ _ _ _ _ Ew) as [H32 Hcap]. unfold nlen_l in *.
  destruct (2 <=? N.of_nat (length cvs)) eqn:E1210; cbn [check bind]; [|reflexivity]. apply N.leb_le in E1210.
  unfold mi_div. change (2 =? 0) with false. cbn [bind].
  set (oa0 := repeat 0 (N.to_nat (max_degree_or_2 p * 32 / 2))).
  assert (Hca : length (arr_store cv0 0 (concat cvs)) = N.to_nat (max_degree_or_2 p * 32)).
  { rewrite arr_store_length; [exact Hcv0|]. rewrite (concat_length32 _ H32), Hcv0. lia. }
  pose proof (tpn_loop_eq p WF key fl input cc Hkey fuel cvs (arr_store cv0 0 (concat cvs)) oa0 H32 Hcap Hca) as HL.
  rewrite <- (concat_length32 _ H32) in HL.
  specialize (HL (firstn_arr_store_0 _ _ ltac:(rewrite (concat_length32 _ H32), Hcv0; lia)) (length_repeat0 _)).
  unfold nlen_l in HL.
  destruct (condense_loop fuel p cvs key fl) as [cvs'| |] eqn:Ec; cbn [bind]; [|rewrite HL; reflexivity|rewrite HL; reflexivity].
  destruct HL as [ca' [oa' [H1 [H2 H3]]]]. rewrite H1. cbn [bind].
  change (mi_mul 64 2 32) with (Ok 64 : res N). cbn [bind].
  replace (0 + 64 <=? N.of_nat (length ca')) with true by (symmetry; apply N.leb_le; rewrite H2, Hca; lia).
  cbn [check bind].
  destruct (condense_len p WF key fl Hkey fuel cvs cvs' H32 ltac:(lia) Ec) as [Hl2 _].
  destruct cvs' as [|a [|b [|c tl]]]; try (cbn in Hl2; discriminate).
  f_equal. unfold arr_slice. change (N.to_nat 0) with 0%nat. cbn [skipn]. change (N.to_nat 64) with (32 * 2)%nat.
  cbn [length] in H3. rewrite H3. cbn [concat]. rewrite app_nil_r. reflexivity.
Qed.

(* ---------- hash_all_at_once, hash, keyed_hash, derive_key ---------- *)
Theorem lib_hash_all_at_once_eq p (WF : plat_wf p) fuel input key fl : length key = 8%nat -> nlen input < 2 ^ 64 ->
  lib_hash_all_at_once m_Output_chaining_value (p_max_degree p) (max_degree_or_2 p) m_hash_many p fuel input key fl
  = res_map (lib_of_out p) (hash_all_at_once_with fuel p input key fl).
Proof.
  intros Hkey Hin. unfold lib_hash_all_at_once, hash_all_at_once_with. cbv zeta. mstep. unfold nlen at 1.
  destruct (N.of_nat (length input) <=? rs_CHUNK_LEN).
  - change (lib_ChunkState_new key 0 fl p) with (lib_of_cs p (cs_new key 0 fl)).
    rewrite lib_ChunkState_update_eq by (cbn [cs_new cs_buf_len]; reflexivity).
    destruct (cs_update_with fuel p (cs_new key 0 fl) input) as [cs| |]; cbn [bind res_map]; try reflexivity.
    rewrite output_eq. reflexivity.
  - rewrite (lib_compress_subtree_to_parent_node_eq p WF fuel input key 0 fl Hkey Hin).
    destruct (compress_subtree_to_parent_node_with fuel p input key 0 fl) as [block| |]; reflexivity.
Qed.

Theorem lib_hash_eq p (WF : plat_wf p) fuel input : nlen input < 2 ^ 64 ->
  lib_hash m_Output_chaining_value m_Output_root_hash (p_max_degree p) (max_degree_or_2 p) m_hash_many p fuel input
  = rs_hash_with fuel p input.
Proof.
  intros Hin. unfold lib_hash, rs_hash_with.
  rewrite (lib_hash_all_at_once_eq p WF fuel input rs_IV 0 eq_refl Hin).
  destruct (hash_all_at_once_with fuel p input rs_IV 0) as [o| |]; cbn [bind res_map]; try reflexivity.
  rewrite m_rh_of_out. apply bind_ret.
Qed.

Theorem lib_keyed_hash_eq p (WF : plat_wf p) fuel key input : length key = 32%nat -> nlen input < 2 ^ 64 ->
  lib_keyed_hash m_Output_chaining_value m_Output_root_hash (p_max_degree p) (max_degree_or_2 p) m_hash_many p
    words_of_bytes fuel key input
  = rs_keyed_hash_with fuel p key input.
Proof.
  intros Hk Hin. unfold lib_keyed_hash, rs_keyed_hash_with. cbv zeta.
  rewrite (lib_hash_all_at_once_eq p WF fuel input _ _ (PortableP.words_of_bytes_length 8 key Hk) Hin).
  destruct (hash_all_at_once_with fuel p input (words_of_bytes key) rs_flag_KEYED_HASH) as [o| |]; cbn [bind res_map];
    try reflexivity.
  rewrite m_rh_of_out. apply bind_ret.
Qed.

Lemma out_root_hash_len p (WF : plat_wf p) o h : length (o_cv o) = 8%nat -> out_root_hash p o = Ok h -> length h = 32%nat.
Proof.
  intros Ho H. unfold out_root_hash in H. destruct (o_ctr o =? 0); cbn [check bind] in H; [|discriminate].
  inversion H; subst. rewrite bytes_of_words_length, (wf_cip p WF) by exact Ho. reflexivity.
Qed.

Lemma hash_all_at_once_cv p (WF : plat_wf p) input key fl o : length key = 8%nat ->
  hash_all_at_once p input key fl = Ok o -> length (o_cv o) = 8%nat.
Proof.
  intros Hkey H. unfold hash_all_at_once in H. destruct (nlen input <=? rs_CHUNK_LEN).
  - rewrite <- (cs_update_with_enough p (S (length input / 64)) _ _ (div64_lt _)) in H.
    destruct (cs_update_with (S (length input / 64)) p (cs_new key 0 fl) input) as [cs| |] eqn:E; cbn [bind] in H;
      try discriminate.
    inversion H; subst. unfold cs_output. cbn [o_cv]. exact (cs_update_with_cv_len p WF _ (cs_new key 0 fl) _ _ Hkey E).
  - destruct (compress_subtree_to_parent_node p input key 0 fl); cbn [bind] in H; try discriminate.
    inversion H; subst. exact Hkey.
Qed.

Theorem lib_derive_key_eq p (WF : plat_wf p) fuel context material : nlen material < 2 ^ 64 ->
  lib_derive_key m_Output_chaining_value m_Output_root_hash (p_max_degree p) (max_degree_or_2 p) m_hash_many p
    words_of_bytes (rs_hash_derive_key_context p) fuel context material
  = rs_derive_key_with fuel p context material.
Proof.
  intros Hin. unfold lib_derive_key, rs_derive_key_with. cbv zeta.
  destruct (rs_hash_derive_key_context p context) as [ck| |] eqn:Eck; cbn [bind]; try reflexivity.
  assert (Hck : length ck = 32%nat).
  { unfold rs_hash_derive_key_context in Eck.
    destruct (hash_all_at_once p context rs_IV rs_flag_DERIVE_KEY_CONTEXT) as [o| |] eqn:Eo; cbn [bind] in Eck;
      try discriminate.
    exact (out_root_hash_len p WF o ck (hash_all_at_once_cv p WF context rs_IV _ o eq_refl Eo) Eck). }
  rewrite (lib_hash_all_at_once_eq p WF fuel material _ _ (PortableP.words_of_bytes_length 8 ck Hck) Hin).
  destruct (hash_all_at_once_with fuel p material (words_of_bytes ck) rs_flag_DERIVE_KEY_MATERIAL) as [o| |];
    cbn [bind res_map]; try reflexivity.
  rewrite m_rh_of_out. apply bind_ret.
Qed.

(* ---------- Hasher::update_with_join ---------- *)
Fixpoint update_loop_with (fuel : nat) (p : platform) (h : hasher) (input : list N) : res (hasher * list N) :=
  if nlen input <=? rs_CHUNK_LEN then Ok (h, input)
  else match fuel with
  | O => OutOfFuel
  | S fuel' =>
      let cs := h_cs h in
      c <- cs_count cs ;;
      assert! (c =? 0) code 1401 ;;
      subtree_len <- rs_largest_power_of_two_leq (nlen input) ;;
      count_so_far <- rs_count_so_far (cs_ctr cs) ;;
      subtree_len <- shrink_loop fuel' subtree_len count_so_far ;;
      subtree_chunks <- rs_subtree_chunks subtree_len ;;
      assert! (subtree_len <=? nlen input) code 52 ;;
      h <- (if subtree_len <=? rs_CHUNK_LEN then
              assert! (subtree_len =? rs_CHUNK_LEN) code 1402 ;;
              cs1 <- cs_update_with fuel' p (cs_new (h_key h) (cs_ctr cs) (cs_flags cs)) (firstn (N.to_nat subtree_len) input) ;;
              push_cv_with fuel' p h (out_chaining_value p (cs_output cs1)) (cs_ctr cs)
            else
              cv_pair <- compress_subtree_to_parent_node_with fuel' p (firstn (N.to_nat subtree_len) input) (h_key h)
                           (cs_ctr cs) (cs_flags cs) ;;
              assert! (64 <=? nlen cv_pair) code 54 ;;
              h <- push_cv_with fuel' p h (firstn 32 cv_pair) (cs_ctr cs) ;;
              rc <- rs_right_cv_counter (cs_ctr cs) subtree_chunks ;;
              push_cv_with fuel' p h (firstn 32 (skipn 32 cv_pair)) rc) ;;
      ctr' <- mi_add 64 (cs_ctr cs) subtree_chunks ;;
      let cs' := mkCS (cs_cv cs) ctr' (cs_buf cs) (cs_buf_len cs) (cs_blocks cs) (cs_flags cs) in
      update_loop_with fuel' p (with_cs h cs') (skipn (N.to_nat subtree_len) input)
  end.

Definition hasher_update_tail_with (fuel : nat) (p : platform) (h : hasher) (input : list N) : res hasher :=
  '(h, input) <- update_loop_with fuel p h input ;;
  assert! (nlen input <=? rs_CHUNK_LEN) code 1403 ;;
  if negb (nlen input =? 0) then
    cs <- cs_update_with fuel p (h_cs h) input ;;
    merge_cv_stack_with fuel p (with_cs h cs) (cs_ctr cs)
  else Ok h.

Definition hasher_update_with (fuel : nat) (p : platform) (h : hasher) (input : list N) : res hasher :=
  input_offset <- rs_input_offset (h_init h) ;;
  msl <- rs_max_subtree_len input_offset ;;
  _ <- (match msl with
        | Some max =>
            cnt <- hasher_count h ;;
            remaining <- mi_sub 64 max cnt ;;
            assert! (nlen input <=? remaining) code 21 ;;
            Ok tt
        | None => Ok tt
        end) ;;
  c <- cs_count (h_cs h) ;;
  r <- (if 0 <? c then
          want <- mi_sub 64 rs_CHUNK_LEN c ;;
          let take := N.min want (nlen input) in
          cs <- cs_update_with fuel p (h_cs h) (firstn (N.to_nat take) input) ;;
          let input := skipn (N.to_nat take) input in
          if negb (nlen input =? 0) then
            c' <- cs_count cs ;;
            assert! (c' =? rs_CHUNK_LEN) code 1400 ;;
            let chunk_cv := out_chaining_value p (cs_output cs) in
            h <- push_cv_with fuel p (with_cs h cs) chunk_cv (cs_ctr cs) ;;
            ctr' <- mi_add 64 (cs_ctr cs) 1 ;;
            Ok (with_cs h (cs_new (h_key h) ctr' (cs_flags cs)), input, false)
          else Ok (with_cs h cs, input, true)
        else Ok (h, input, false)) ;;
  let '(h, input, done) := r in
  if done then Ok h else hasher_update_tail_with fuel p h input.

Lemma shrink_loop_eq pno cvf mx mo hm self input io : forall fuel sl csf,
  lib_Hasher_update_with_join_loop1 pno cvf mx mo hm fuel self input io sl csf = shrink_loop fuel sl csf.
Proof.
  induction fuel as [|fuel IH]; intros sl csf; cbn [lib_Hasher_update_with_join_loop1 shrink_loop];
    change (mcmp nneb (mb (mi_and 64) (mu (mi_cast 64) (mb (mi_sub 64) (Ok sl) (Ok 1))) (Ok csf)) (Ok 0))
      with (rs_shrink_cond sl csf);
    destruct (rs_shrink_cond sl csf) as [[|]| |]; cbn [bind]; try reflexivity.
  unfold mb, mi_div. cbn [bind]. change (2 =? 0) with false. cbn [bind]. apply IH.
Qed.

Lemma merge_loop_fields p h : forall fuel st target st', merge_loop fuel p h st target = Ok st' -> (length st' <= length st)%nat.
Proof. exact (merge_loop_length p h). Qed.

Lemma push_cv_with_fields fuel p h cv cc h' : push_cv_with fuel p h cv cc = Ok h' ->
  h_key h' = h_key h /\ h_cs h' = h_cs h /\ h_init h' = h_init h /\ N.of_nat (length (h_stack h')) <= rs_cv_stack_cap.
Proof.
  unfold push_cv_with, merge_cv_stack_with. intros H.
  destruct (rs_post_merge_len cc (h_init h)) as [t| |]; cbn [bind] in H; try discriminate.
  destruct (merge_loop fuel p h (h_stack h) t) as [st| |]; cbn [bind] in H; try discriminate.
  cbn [h_stack h_key h_cs h_init] in H.
  destruct (N.of_nat (length st) <? rs_cv_stack_cap) eqn:E; cbn [check bind] in H; [|discriminate].
  inversion H; subst. cbn [h_key h_cs h_init h_stack length]. apply N.ltb_lt in E. repeat split. lia.
Qed.

Lemma lib_of_hasher_with_cs p h cs :
  lib_Hasher_set_chunk_state (lib_of_hasher p h) (lib_of_cs p cs) = lib_of_hasher p (with_cs h cs).
Proof. reflexivity. Qed.

Lemma update_loop_eq2 p (WF : plat_wf p) io : forall fuel h input,
  length (h_key h) = 8%nat -> nlen input < 2 ^ 64 -> N.of_nat (length (h_stack h)) <= rs_cv_stack_cap ->
  lib_Hasher_update_with_join_loop2 m_parent_node_output m_Output_chaining_value (p_max_degree p) (max_degree_or_2 p)
    m_hash_many fuel (lib_of_hasher p h) input io
  = res_map (fun r => (lib_of_hasher p (fst r), snd r)) (update_loop_with fuel p h input).
Proof.
  induction fuel as [|fuel IH]; intros h input Hkey Hin Hst.
  - cbn [lib_Hasher_update_with_join_loop2 update_loop_with]. unfold mcmp, nlen. cbn [bind].
    rewrite N.ltb_antisym. destruct (N.of_nat (length input) <=? rs_CHUNK_LEN); reflexivity.
  - cbn [lib_Hasher_update_with_join_loop2 update_loop_with]. unfold mcmp at 1, nlen at 1. cbn [bind].
    rewrite N.ltb_antisym. destruct (N.of_nat (length input) <=? rs_CHUNK_LEN) eqn:Elen; cbn [negb res_map]; [reflexivity|].
    apply N.leb_gt in Elen.
    change (lib_Hasher_chunk_state (lib_of_hasher p h)) with (lib_of_cs p (h_cs h)).
    rewrite lib_ChunkState_count_eq. unfold mcmp at 1. cbn [bind].
    destruct (cs_count (h_cs h)) as [c| |]; cbn [bind res_map]; try reflexivity.
    destruct (c =? 0); cbn [check bind res_map]; [|reflexivity].
    change (mcmp N.eqb (mu (mi_popcount 64) (Ok rs_CHUNK_LEN)) (Ok 1)) with (Ok true : res bool). cbn [check bind].
    rewrite lib_largest_power_of_two_leq_eq. unfold nlen at 1.
    destruct (rs_largest_power_of_two_leq (N.of_nat (length input))) as [sl0| |]; cbn [bind res_map]; try reflexivity.
    change (lib_ChunkState_chunk_counter (lib_of_cs p (h_cs h))) with (cs_ctr (h_cs h)).
    change (mb (mi_mul 64) (Ok (cs_ctr (h_cs h))) (mu (mi_cast 64) (Ok rs_CHUNK_LEN))) with (rs_count_so_far (cs_ctr (h_cs h))).
    destruct (rs_count_so_far (cs_ctr (h_cs h))) as [csf| |]; cbn [bind res_map]; try reflexivity.
    rewrite shrink_loop_eq.
    destruct (shrink_loop fuel sl0 csf) as [sl| |]; cbn [bind res_map]; try reflexivity.
    change (mu (mi_cast 64) (mb (mi_div 64) (Ok sl) (Ok rs_CHUNK_LEN))) with (rs_subtree_chunks sl).
    destruct (rs_subtree_chunks sl) as [sc| |]; cbn [bind res_map]; try reflexivity.
    unfold mcmp at 1. cbn [bind]. unfold nlen at 1.
    change (lib_Hasher_key (lib_of_hasher p h)) with (h_key h).
    change (lib_ChunkState_flags (lib_of_cs p (h_cs h))) with (cs_flags (h_cs h)).
    change (lib_ChunkState_platform (lib_of_cs p (h_cs h))) with p.
    (* the two arms, each ending in a hasher with the same key / chunk state and a stack within the capacity *)
    set (arm_m := if sl <=? rs_CHUNK_LEN then
              assert! (sl =? rs_CHUNK_LEN) code 1402 ;;
              cs1 <- cs_update_with fuel p (cs_new (h_key h) (cs_ctr (h_cs h)) (cs_flags (h_cs h))) (firstn (N.to_nat sl) input) ;;
              push_cv_with fuel p h (out_chaining_value p (cs_output cs1)) (cs_ctr (h_cs h))
            else
              cv_pair <- compress_subtree_to_parent_node_with fuel p (firstn (N.to_nat sl) input) (h_key h)
                           (cs_ctr (h_cs h)) (cs_flags (h_cs h)) ;;
              assert! (64 <=? nlen cv_pair) code 54 ;;
              h1 <- push_cv_with fuel p h (firstn 32 cv_pair) (cs_ctr (h_cs h)) ;;
              rc <- rs_right_cv_counter (cs_ctr (h_cs h)) sc ;;
              push_cv_with fuel p h1 (firstn 32 (skipn 32 cv_pair)) rc).
    assert (Harm_fields : forall h0, arm_m = Ok h0 ->
              h_key h0 = h_key h /\ h_cs h0 = h_cs h /\ N.of_nat (length (h_stack h0)) <= rs_cv_stack_cap).
    { unfold arm_m. intros h0 Hh0. destruct (sl <=? rs_CHUNK_LEN).
      - bstep Hh0. bstep Hh0. destruct (push_cv_with_fields _ _ _ _ _ _ Hh0) as [A [B [_ D]]]. repeat split; assumption.
      - bstep Hh0. bstep Hh0. bstep Hh0. bstep Hh0.
        destruct (push_cv_with_fields _ _ _ _ _ _ E0) as [A [B [_ _]]].
        destruct (push_cv_with_fields _ _ _ _ _ _ Hh0) as [A' [B' [_ D']]].
        repeat split; [rewrite A', A; reflexivity|rewrite B', B; reflexivity|exact D']. }
    match goal with |- bind ?l _ = _ => set (arm_l := l) end.
    assert (Harm : arm_l = res_map (lib_of_hasher p) (assert! (sl <=? N.of_nat (length input)) code 52 ;; arm_m)).
    { unfold arm_l, arm_m. destruct (sl <=? rs_CHUNK_LEN) eqn:Esl.
      - apply N.leb_le in Esl.
        replace (sl <=? N.of_nat (length input)) with true by (symmetry; apply N.leb_le; lia). cbn [check bind].
        unfold mcmp. cbn [bind]. destruct (sl =? rs_CHUNK_LEN); cbn [check bind res_map]; [|reflexivity].
        change (lib_ChunkState_new (h_key h) (cs_ctr (h_cs h)) (cs_flags (h_cs h)) p)
          with (lib_of_cs p (cs_new (h_key h) (cs_ctr (h_cs h)) (cs_flags (h_cs h)))).
        rewrite lib_ChunkState_update_eq by (cbn [cs_new cs_buf_len]; reflexivity).
        destruct (cs_update_with fuel p (cs_new (h_key h) (cs_ctr (h_cs h)) (cs_flags (h_cs h))) (firstn (N.to_nat sl) input))
          as [cs1| |]; cbn [bind res_map]; try reflexivity.
        rewrite output_eq. cbn [bind]. rewrite m_cv_of_out, (lib_Hasher_push_cv_eq p fuel h _ _ Hst). apply bind_ret.
      - destruct (sl <=? N.of_nat (length input)) eqn:E52; cbn [check bind res_map]; [|reflexivity].
        apply N.leb_le in E52.
        rewrite (lib_compress_subtree_to_parent_node_eq p WF fuel _ _ _ _ Hkey)
          by (unfold nlen in *; rewrite firstn_length; lia).
        destruct (compress_subtree_to_parent_node_with fuel p (firstn (N.to_nat sl) input) (h_key h) (cs_ctr (h_cs h))
                    (cs_flags (h_cs h))) as [cv_pair| |]; cbn [bind res_map]; try reflexivity.
        unfold nlen. destruct (64 <=? N.of_nat (length cv_pair)) eqn:E54.
        + apply N.leb_le in E54.
          replace (0 + 32 <=? N.of_nat (length cv_pair)) with true by (symmetry; apply N.leb_le; lia).
          replace (32 + 32 <=? N.of_nat (length cv_pair)) with true by (symmetry; apply N.leb_le; lia).
          cbn [check bind].
          change (arr_slice cv_pair (N.to_nat 0) (N.to_nat 32)) with (firstn 32 cv_pair).
          change (arr_slice cv_pair (N.to_nat 32) (N.to_nat 32)) with (firstn 32 (skipn 32 cv_pair)).
          rewrite (lib_Hasher_push_cv_eq p fuel h _ _ Hst).
          destruct (push_cv_with fuel p h (firstn 32 cv_pair) (cs_ctr (h_cs h))) as [h1| |] eqn:Eh1; cbn [bind res_map];
            try reflexivity.
          destruct (push_cv_with_fields _ _ _ _ _ _ Eh1) as [_ [B [_ D]]].
          change (lib_ChunkState_chunk_counter (lib_Hasher_chunk_state (lib_of_hasher p h1))) with (cs_ctr (h_cs h1)).
          rewrite B.
          change (mb (mi_add 64) (Ok (cs_ctr (h_cs h))) (mb (mi_div 64) (Ok sc) (Ok 2)))
            with (rs_right_cv_counter (cs_ctr (h_cs h)) sc).
          destruct (rs_right_cv_counter (cs_ctr (h_cs h)) sc) as [rc| |]; cbn [bind res_map]; try reflexivity.
          rewrite (lib_Hasher_push_cv_eq p fuel h1 _ _ D). apply bind_ret.
        + apply N.leb_gt in E54. cbn [check bind res_map].
          destruct (0 + 32 <=? N.of_nat (length cv_pair)) eqn:Ea; cbn [check bind]; [|reflexivity].
          replace (32 + 32 <=? N.of_nat (length cv_pair)) with false by (symmetry; apply N.leb_gt; lia). reflexivity. }
    rewrite Harm. clearbody arm_l arm_m.
    destruct (sl <=? N.of_nat (length input)) eqn:E52; cbn [check bind res_map]; [|reflexivity].
    destruct arm_m as [h0| |]; cbn [bind res_map]; try reflexivity.
    destruct (Harm_fields h0 eq_refl) as [A [B D]].
    change (lib_ChunkState_chunk_counter (lib_Hasher_chunk_state (lib_of_hasher p h0))) with (cs_ctr (h_cs h0)).
    rewrite B. unfold mb. cbn [bind].
    destruct (mi_add 64 (cs_ctr (h_cs h)) sc) as [ctr'| |]; cbn [bind res_map]; try reflexivity.
    apply N.leb_le in E52.
    specialize (IH (with_cs h0 (mkCS (cs_cv (h_cs h)) ctr' (cs_buf (h_cs h)) (cs_buf_len (h_cs h)) (cs_blocks (h_cs h))
                                     (cs_flags (h_cs h)))) (skipn (N.to_nat sl) input)).
    rewrite <- IH; [|cbn [with_cs h_key]; rewrite A; exact Hkey|unfold nlen in *; rewrite skipn_length; lia
                    |cbn [with_cs h_stack]; exact D].
    f_equal. unfold lib_of_hasher, with_cs. cbn [h_key h_cs h_init h_stack lib_Hasher_chunk_state]. rewrite B. reflexivity.
Qed.

Lemma update_loop_with_fields p : forall fuel h input h' input',
  N.of_nat (length (h_stack h)) <= rs_cv_stack_cap -> update_loop_with fuel p h input = Ok (h', input') ->
  N.of_nat (length (h_stack h')) <= rs_cv_stack_cap /\ cs_buf_len (h_cs h') = cs_buf_len (h_cs h).
Proof.
  induction fuel as [|fuel IH]; intros h input h' input' Hst H; cbn [update_loop_with] in H.
  - destruct (nlen input <=? rs_CHUNK_LEN); [inversion H; subst; split; [exact Hst|reflexivity]|discriminate].
  - destruct (nlen input <=? rs_CHUNK_LEN); [inversion H; subst; split; [exact Hst|reflexivity]|].
    bstep H. bstep H. bstep H. bstep H. bstep H. bstep H. bstep H.
    match type of H with bind ?m _ = _ => destruct m as [h0| |] eqn:Earm end; cbn [bind] in H; try discriminate.
    bstep H. apply IH in H.
    + cbn [with_cs h_cs cs_buf_len] in H. exact H.
    + cbn [with_cs h_stack]. match type of Earm with (if ?c then _ else _) = _ => destruct c end.
      * bstep Earm. bstep Earm. destruct (push_cv_with_fields _ _ _ _ _ _ Earm) as [_ [_ [_ D]]]. exact D.
      * bstep Earm. bstep Earm. bstep Earm. bstep Earm. destruct (push_cv_with_fields _ _ _ _ _ _ Earm) as [_ [_ [_ D]]]. exact D.
Qed.

Lemma cs_update_with_buf_len p fuel c input c' : cs_update_with fuel p c input = Ok c' -> cs_buf_len c' < 2 ^ 64.
Proof.
  unfold cs_update_with, cs_update_tail_with. intros H.
  match type of H with bind ?m _ = _ => destruct m as [[c0 in0]| |] end; cbn [bind] in H; try discriminate.
  destruct (cs_update_loop fuel p c0 in0) as [[c1 in1]| |]; cbn [bind] in H; try discriminate.
  destruct (cs_fill_buf c1 in1) as [[c2 in2]| |] eqn:Ef; cbn [bind] in H; try discriminate.
  bstep H. bstep H. bstep H. inversion H; subst. exact (cs_fill_buf_buf_len _ _ _ _ Ef).
Qed.

Theorem lib_Hasher_update_with_join_eq p (WF : plat_wf p) fuel h input :
  length (h_key h) = 8%nat -> nlen input < 2 ^ 64 -> N.of_nat (length (h_stack h)) <= rs_cv_stack_cap ->
  cs_blocks (h_cs h) < 2 ^ 8 -> cs_buf_len (h_cs h) < 2 ^ 8 ->
  lib_Hasher_update_with_join m_parent_node_output m_Output_chaining_value (p_max_degree p) (max_degree_or_2 p)
    m_hash_many fuel (lib_of_hasher p h) input
  = res_map (lib_of_hasher p) (hasher_update_with fuel p h input).
Proof.
  intros Hkey Hin Hst Hb Hbl.
  assert (Hbl64 : cs_buf_len (h_cs h) < 2 ^ 64) by (change (2 ^ 8) with 256 in Hbl; change (2 ^ 64) with 18446744073709551616; lia).
  unfold lib_Hasher_update_with_join, hasher_update_with.
  change (lib_Hasher_initial_chunk_counter (lib_of_hasher p h)) with (h_init h).
  change (mb (mi_mul 64) (Ok (h_init h)) (mu (mi_cast 64) (Ok rs_CHUNK_LEN))) with (rs_input_offset (h_init h)).
  destruct (rs_input_offset (h_init h)) as [io| |]; cbn [bind res_map]; try reflexivity.
  destruct (rs_max_subtree_len io) as [msl| |]; cbn [bind res_map]; try reflexivity.
  (* the offset check *)
  match goal with |- bind ?l _ = res_map _ (bind ?r _) => assert (Hchk : l = r) end.
  { destruct msl as [mx|]; [|reflexivity]. rewrite (lib_Hasher_count_eq p h Hb Hbl). unfold mb. cbn [bind].
    destruct (hasher_count h) as [cnt| |]; cbn [bind]; try reflexivity.
    destruct (mi_sub 64 mx cnt) as [remaining| |]; cbn [bind]; try reflexivity.
    unfold mcmp, mu. cbn [bind]. unfold nlen in Hin |- *. rewrite (cast64_small _ Hin). cbn [bind].
    destruct (N.of_nat (length input) <=? remaining); reflexivity. }
  rewrite Hchk. match goal with |- bind ?l _ = res_map _ (bind ?l _) => destruct l as [[]| |] end; cbn [bind res_map];
    try reflexivity.
  change (lib_Hasher_chunk_state (lib_of_hasher p h)) with (lib_of_cs p (h_cs h)).
  rewrite lib_ChunkState_count_eq. unfold mcmp at 1. cbn [bind].
  destruct (cs_count (h_cs h)) as [c| |] eqn:Ec; cbn [bind res_map]; try reflexivity.
  (* the second half, for any state the first half can leave *)
  assert (Htail : forall h1 in1, length (h_key h1) = 8%nat -> nlen in1 < 2 ^ 64 ->
            N.of_nat (length (h_stack h1)) <= rs_cv_stack_cap -> cs_buf_len (h_cs h1) < 2 ^ 64 ->
            ('(self, input) <- lib_Hasher_update_with_join_loop2 m_parent_node_output m_Output_chaining_value (p_max_degree p)
                                 (max_degree_or_2 p) m_hash_many fuel (lib_of_hasher p h1) in1 io ;;
             t23 <- (mcmp N.leb (Ok (N.of_nat (length input))) (Ok rs_CHUNK_LEN)) ;;
             assert! t23 code 1403 ;;
             t24 <- (b <- (mcmp N.eqb (Ok (N.of_nat (length input))) (Ok 0)) ;; Ok (negb b)) ;;
             self <- (if (t24 : bool) then
                 t25 <- lib_ChunkState_update fuel (lib_Hasher_chunk_state self) input ;;
                 let self := lib_Hasher_set_chunk_state self t25 in
                 self <- lib_Hasher_merge_cv_stack m_parent_node_output m_Output_chaining_value fuel self
                           (lib_ChunkState_chunk_counter (lib_Hasher_chunk_state self)) ;;
                 Ok self
               else Ok self) ;;
             Ok self)
            = res_map (lib_of_hasher p) (hasher_update_tail_with fuel p h1 in1)).
  { intros h1 in1 Hk1 Hin1 Hst1 Hbl1. unfold hasher_update_tail_with.
    rewrite (update_loop_eq2 p WF io fuel h1 in1 Hk1 Hin1 Hst1).
    destruct (update_loop_with fuel p h1 in1) as [[h2 in2]| |] eqn:El; cbn [bind res_map fst snd]; try reflexivity.
    destruct (update_loop_with_fields p _ _ _ _ _ Hst1 El) as [Hst2 Hbl2].
    unfold mcmp, nlen. cbn [bind].
    destruct (N.of_nat (length in2) <=? rs_CHUNK_LEN); cbn [check bind res_map]; [|reflexivity].
    destruct (N.of_nat (length in2) =? 0); cbn [negb bind res_map]; [reflexivity|].
    change (lib_Hasher_chunk_state (lib_of_hasher p h2)) with (lib_of_cs p (h_cs h2)).
    rewrite lib_ChunkState_update_eq by (rewrite Hbl2; exact Hbl1).
    destruct (cs_update_with fuel p (h_cs h2) in2) as [cs| |]; cbn [bind res_map]; try reflexivity.
    rewrite lib_of_hasher_with_cs.
    change (lib_ChunkState_chunk_counter (lib_Hasher_chunk_state (lib_of_hasher p (with_cs h2 cs)))) with (cs_ctr cs).
    rewrite (lib_Hasher_merge_cv_stack_eq p fuel (with_cs h2 cs) (cs_ctr cs) Hst2).
    destruct (merge_cv_stack_with fuel p (with_cs h2 cs) (cs_ctr cs)); reflexivity. }
  destruct (0 <? c).
  2:{ cbn [bind]. exact (Htail h input Hkey Hin Hst Hbl64). }
  unfold mb at 1. cbn [bind].
  destruct (mi_sub 64 rs_CHUNK_LEN c) as [want| |]; cbn [bind res_map]; try reflexivity.
  unfold mb at 1, mi_min. cbn [bind]. unfold nlen.
  set (take := N.min want (N.of_nat (length input))).
  assert (Htake : take <= N.of_nat (length input)) by apply N.le_min_r. clearbody take.
  replace (take <=? N.of_nat (length input)) with true by (symmetry; apply N.leb_le; exact Htake). cbn [check bind].
  rewrite lib_ChunkState_update_eq by exact Hbl64.
  destruct (cs_update_with fuel p (h_cs h) (firstn (N.to_nat take) input)) as [cs| |] eqn:Ecs; cbn [bind res_map];
    try reflexivity.
  rewrite lib_of_hasher_with_cs. unfold mcmp at 1. cbn [bind].
  destruct (N.of_nat (length (skipn (N.to_nat take) input)) =? 0); cbn [negb bind res_map]; [reflexivity|].
  change (lib_Hasher_chunk_state (lib_of_hasher p (with_cs h cs))) with (lib_of_cs p cs).
  rewrite lib_ChunkState_count_eq. unfold mcmp at 1. cbn [bind].
  destruct (cs_count cs) as [c'| |]; cbn [bind res_map]; try reflexivity.
  destruct (c' =? rs_CHUNK_LEN); cbn [check bind res_map]; [|reflexivity].
  rewrite output_eq. cbn [bind]. rewrite m_cv_of_out.
  change (lib_ChunkState_chunk_counter (lib_of_cs p cs)) with (cs_ctr cs).
  rewrite (lib_Hasher_push_cv_eq p fuel (with_cs h cs) _ _ Hst).
  destruct (push_cv_with fuel p (with_cs h cs) (out_chaining_value p (cs_output cs)) (cs_ctr cs)) as [h1| |] eqn:Eh1;
    cbn [bind res_map]; try reflexivity.
  destruct (push_cv_with_fields _ _ _ _ _ _ Eh1) as [A [B [_ D]]]. cbn [with_cs h_key h_cs] in A, B.
  change (lib_ChunkState_chunk_counter (lib_Hasher_chunk_state (lib_of_hasher p h1))) with (cs_ctr (h_cs h1)).
  change (lib_ChunkState_flags (lib_Hasher_chunk_state (lib_of_hasher p h1))) with (cs_flags (h_cs h1)).
  change (lib_ChunkState_platform (lib_Hasher_chunk_state (lib_of_hasher p h1))) with p.
  change (lib_Hasher_key (lib_of_hasher p h1)) with (h_key h1).
  rewrite B. unfold mb at 1. cbn [bind].
  destruct (mi_add 64 (cs_ctr cs) 1) as [ctr'| |]; cbn [bind res_map]; try reflexivity.
  change (lib_ChunkState_new (h_key h1) ctr' (cs_flags cs) p) with (lib_of_cs p (cs_new (h_key h1) ctr' (cs_flags cs))).
  rewrite lib_of_hasher_with_cs.
  apply (Htail (with_cs h1 (cs_new (h_key h1) ctr' (cs_flags cs)))).
  - cbn [with_cs h_key]. rewrite A. exact Hkey.
  - unfold nlen in *. rewrite skipn_length. lia.
  - exact D.
  - cbn [with_cs h_cs cs_new cs_buf_len]. reflexivity.
Qed.

Theorem lib_Hasher_update_eq p (WF : plat_wf p) fuel h input :
  length (h_key h) = 8%nat -> nlen input < 2 ^ 64 -> N.of_nat (length (h_stack h)) <= rs_cv_stack_cap ->
  cs_blocks (h_cs h) < 2 ^ 8 -> cs_buf_len (h_cs h) < 2 ^ 8 ->
  lib_Hasher_update m_parent_node_output m_Output_chaining_value (p_max_degree p) (max_degree_or_2 p)
    m_hash_many fuel (lib_of_hasher p h) input
  = res_map (lib_of_hasher p) (hasher_update_with fuel p h input).
Proof.
  intros. unfold lib_Hasher_update. rewrite lib_Hasher_update_with_join_eq by assumption. apply bind_ret.
Qed.

(* ---------- the *_with models against the models: with enough fuel they agree, up to the models' own OutOfFuel ---------- *)
Lemma refines_check {A} b c (k1 k2 : unit -> res A) : (forall u, refines (k1 u) (k2 u)) ->
  refines (bind (check b c) k1) (bind (check b c) k2).
Proof. intros H. apply refines_bind; [apply refines_refl|exact H]. Qed.

Lemma refines_eq_r {A} (r1 r2 : res A) : r1 = r2 -> refines r1 r2.
Proof. intros ->. apply refines_refl. Qed.

Lemma cs_update_with_small p F c input : (length input <= 1024)%nat -> (17 <= F)%nat ->
  cs_update_with F p c input = cs_update p c input.
Proof. intros Hl HF. apply cs_update_with_enough. lia. Qed.

Lemma compress_chunks_parallel_with_enough p F input key cc fl cap : (17 <= F)%nat ->
  compress_chunks_parallel_with F p input key cc fl cap = compress_chunks_parallel p input key cc fl cap.
Proof.
  intros HF. unfold compress_chunks_parallel_with, compress_chunks_parallel.
  destruct (chunks_exact_of rs_CHUNK_LEN input) as [chunks rem] eqn:E.
  pose proof (chunks_exact_of_rem rs_CHUNK_LEN _ _ _ eq_refl E) as Hrem. change (N.to_nat rs_CHUNK_LEN) with 1024%nat in Hrem.
  destruct (negb (nlen input =? 0)); cbn [check bind]; [|reflexivity].
  destruct (nlen input <=? p_max_degree p * rs_CHUNK_LEN); cbn [check bind]; [|reflexivity].
  destruct (nlen_l chunks <=? p_max_degree p); cbn [check bind]; [|reflexivity].
  destruct (p_hash_many p chunks key cc true fl rs_flag_CHUNK_START rs_flag_CHUNK_END cap); cbn [bind]; try reflexivity.
  destruct (negb (nlen rem =? 0)); [|reflexivity].
  destruct (mi_add 64 cc (nlen_l chunks)); cbn [bind]; try reflexivity.
  rewrite cs_update_with_small by lia. reflexivity.
Qed.

Lemma wide_with_refines p key fl : forall f F input cc cap, (f + 17 <= F)%nat ->
  refines (compress_subtree_wide f p input key cc fl cap) (compress_subtree_wide_with F p input key cc fl cap).
Proof.
  induction f as [|f IH]; intros F input cc cap HF.
  - destruct F as [|F]; [lia|]. cbn [compress_subtree_wide compress_subtree_wide_with].
    destruct (nlen input <=? p_degree p * rs_CHUNK_LEN); [|left; reflexivity].
    rewrite compress_chunks_parallel_with_enough by lia. apply refines_refl.
  - destruct F as [|F]; [lia|]. cbn [compress_subtree_wide compress_subtree_wide_with].
    destruct (nlen input <=? p_degree p * rs_CHUNK_LEN).
    { rewrite compress_chunks_parallel_with_enough by lia. apply refines_refl. }
    apply refines_check; intros _. apply refines_check; intros _.
    apply refines_bind; [apply refines_refl|intros left_len]. apply refines_check; intros _.
    apply refines_bind; [apply refines_refl|intros rc]. apply refines_bind; [apply refines_refl|intros degree].
    apply refines_check; intros _.
    apply refines_bind; [apply IH; lia|intros lcvs]. apply refines_bind; [apply IH; lia|intros rcvs].
    apply refines_refl.
Qed.

Lemma condense_loop_mono p key fl : forall f F cvs, (f <= F)%nat ->
  refines (condense_loop f p cvs key fl) (condense_loop F p cvs key fl).
Proof.
  induction f as [|f IH]; intros F cvs HF.
  - cbn [condense_loop]. destruct F; cbn [condense_loop]; destruct (N.of_nat (length cvs) <=? 2);
      first [apply refines_refl | left; reflexivity].
  - destruct F as [|F]; [lia|]. cbn [condense_loop]. destruct (N.of_nat (length cvs) <=? 2); [apply refines_refl|].
    apply refines_bind; [apply refines_refl|intros outs]. apply IH. lia.
Qed.

Lemma tpn_with_refines p F input key cc fl : (81 <= F)%nat ->
  refines (compress_subtree_to_parent_node p input key cc fl) (compress_subtree_to_parent_node_with F p input key cc fl).
Proof.
  intros HF. unfold compress_subtree_to_parent_node, compress_subtree_to_parent_node_with.
  apply refines_check; intros _. apply refines_bind; [apply wide_with_refines; unfold wide_fuel; lia|intros cvs].
  apply refines_check; intros _. apply refines_bind; [apply condense_loop_mono; lia|intros cvs']. apply refines_refl.
Qed.

Lemma hash_all_at_once_with_refines p F input key fl : (81 <= F)%nat ->
  refines (hash_all_at_once p input key fl) (hash_all_at_once_with F p input key fl).
Proof.
  intros HF. unfold hash_all_at_once, hash_all_at_once_with. destruct (nlen input <=? rs_CHUNK_LEN) eqn:E.
  - apply N.leb_le in E. unfold nlen in E. change rs_CHUNK_LEN with 1024 in E.
    rewrite cs_update_with_small by lia. apply refines_refl.
  - apply refines_bind; [apply tpn_with_refines; exact HF|intros b; apply refines_refl].
Qed.

Lemma rs_hash_with_refines p F input : (81 <= F)%nat -> refines (rs_hash p input) (rs_hash_with F p input).
Proof. intros HF. apply refines_bind; [apply hash_all_at_once_with_refines; exact HF|intros o; apply refines_refl]. Qed.

Lemma rs_keyed_hash_with_refines p F key input : (81 <= F)%nat ->
  refines (rs_keyed_hash p key input) (rs_keyed_hash_with F p key input).
Proof. intros HF. apply refines_bind; [apply hash_all_at_once_with_refines; exact HF|intros o; apply refines_refl]. Qed.

Lemma rs_derive_key_with_refines p F context material : (81 <= F)%nat ->
  refines (rs_derive_key p context material) (rs_derive_key_with F p context material).
Proof.
  intros HF. apply refines_bind; [apply refines_refl|intros ck].
  apply refines_bind; [apply hash_all_at_once_with_refines; exact HF|intros o; apply refines_refl].
Qed.

Lemma shrink_loop_mono : forall f F sl csf, (f <= F)%nat -> refines (shrink_loop f sl csf) (shrink_loop F sl csf).
Proof.
  induction f as [|f IH]; intros F sl csf HF.
  - cbn [shrink_loop]. destruct F; cbn [shrink_loop]; destruct (rs_shrink_cond sl csf) as [[|]| |]; cbn [bind];
      first [apply refines_refl | left; reflexivity].
  - destruct F as [|F]; [lia|]. cbn [shrink_loop]. destruct (rs_shrink_cond sl csf) as [[|]| |]; cbn [bind];
      try apply refines_refl. apply IH. lia.
Qed.

Lemma merge_loop_mono p h : forall f F st target, (f <= F)%nat ->
  refines (merge_loop f p h st target) (merge_loop F p h st target).
Proof.
  induction f as [|f IH]; intros F st target HF.
  - cbn [merge_loop]. destruct F; cbn [merge_loop]; destruct (N.of_nat (length st) <=? target);
      first [apply refines_refl | left; reflexivity].
  - destruct F as [|F]; [lia|]. cbn [merge_loop]. destruct (N.of_nat (length st) <=? target); [apply refines_refl|].
    destruct st as [|r [|l rest]]; try apply refines_refl. apply IH. lia.
Qed.

Lemma merge_cv_stack_with_refines p F h cc : (64 <= F)%nat ->
  refines (merge_cv_stack p h cc) (merge_cv_stack_with F p h cc).
Proof.
  intros HF. unfold merge_cv_stack, merge_cv_stack_with. apply refines_bind; [apply refines_refl|intros t].
  apply refines_bind; [apply merge_loop_mono; exact HF|intros st; apply refines_refl].
Qed.

Lemma push_cv_with_refines p F h cv cc : (64 <= F)%nat -> refines (push_cv p h cv cc) (push_cv_with F p h cv cc).
Proof.
  intros HF. unfold push_cv, push_cv_with. apply refines_bind; [apply merge_cv_stack_with_refines; exact HF|intros h'].
  apply refines_refl.
Qed.

Lemma update_loop_with_refines p : forall f F h input, (f + 81 <= F)%nat ->
  refines (update_loop f p h input) (update_loop_with F p h input).
Proof.
  induction f as [|f IH]; intros F h input HF.
  - destruct F as [|F]; [lia|]. cbn [update_loop update_loop_with].
    destruct (nlen input <=? rs_CHUNK_LEN); [apply refines_refl|left; reflexivity].
  - destruct F as [|F]; [lia|]. cbn [update_loop update_loop_with].
    destruct (nlen input <=? rs_CHUNK_LEN); [apply refines_refl|].
    apply refines_bind; [apply refines_refl|intros c]. apply refines_check; intros _.
    apply refines_bind; [apply refines_refl|intros sl0]. apply refines_bind; [apply refines_refl|intros csf].
    apply refines_bind; [apply shrink_loop_mono; lia|intros sl]. apply refines_bind; [apply refines_refl|intros sc].
    apply refines_check; intros _.
    apply refines_bind.
    + destruct (sl <=? rs_CHUNK_LEN) eqn:Esl.
      * apply refines_check; intros _. apply N.leb_le in Esl. change rs_CHUNK_LEN with 1024 in Esl.
        rewrite cs_update_with_small by (try (rewrite firstn_length); lia).
        apply refines_bind; [apply refines_refl|intros cs1]. apply push_cv_with_refines. lia.
      * apply refines_bind; [apply tpn_with_refines; lia|intros cv_pair]. apply refines_check; intros _.
        apply refines_bind; [apply push_cv_with_refines; lia|intros h1].
        apply refines_bind; [apply refines_refl|intros rc]. apply push_cv_with_refines. lia.
    + intros h1. apply refines_bind; [apply refines_refl|intros ctr']. apply IH. lia.
Qed.

Lemma hasher_update_with_refines p F h input : (S (length input / 1024) + 81 <= F)%nat ->
  refines (hasher_update p h input) (hasher_update_with F p h input).
Proof.
  intros HF. unfold hasher_update, hasher_update_with.
  apply refines_bind; [apply refines_refl|intros io]. apply refines_bind; [apply refines_refl|intros msl].
  apply refines_bind; [apply refines_refl|intros _]. apply refines_bind; [apply refines_refl|intros c].
  assert (Htail : forall h1 in1, (length in1 <= length input)%nat ->
            refines (hasher_update_tail p h1 in1) (hasher_update_tail_with F p h1 in1)).
  { intros h1 in1 Hlen. unfold hasher_update_tail, hasher_update_tail_with.
    apply refines_bind.
    - apply update_loop_with_refines. assert (length in1 / 1024 <= length input / 1024)%nat by (apply Nat.div_le_mono; lia). lia.
    - intros [h2 in2]. destruct (nlen in2 <=? rs_CHUNK_LEN) eqn:E; cbn [check bind]; [|apply refines_refl].
      apply N.leb_le in E. unfold nlen in E. change rs_CHUNK_LEN with 1024 in E.
      destruct (negb (nlen in2 =? 0)); [|apply refines_refl].
      rewrite cs_update_with_small by lia. apply refines_bind; [apply refines_refl|intros cs].
      apply merge_cv_stack_with_refines. lia. }
  destruct (0 <? c).
  - destruct (mi_sub 64 rs_CHUNK_LEN c) as [want| |] eqn:Ew; cbn [bind]; try apply refines_refl.
    assert (Hwant : want <= 1024).
    { unfold mi_sub in Ew. destruct (c <=? rs_CHUNK_LEN); [|discriminate]. inversion Ew. change rs_CHUNK_LEN with 1024. lia. }
    rewrite cs_update_with_small by (try (rewrite firstn_length); lia).
    destruct (cs_update p (h_cs h) (firstn (N.to_nat (N.min want (nlen input))) input)) as [cs| |]; cbn [bind];
      try apply refines_refl.
    destruct (negb (nlen (skipn (N.to_nat (N.min want (nlen input))) input) =? 0)).
    + destruct (cs_count cs) as [c'| |]; cbn [bind]; try apply refines_refl.
      destruct (c' =? rs_CHUNK_LEN); cbn [check bind]; [|apply refines_refl].
      pose proof (push_cv_with_refines p F (with_cs h cs) (out_chaining_value p (cs_output cs)) (cs_ctr cs) ltac:(lia)) as HP.
      destruct HP as [HP|HP]; rewrite HP; [left; reflexivity|].
      destruct (push_cv_with F p (with_cs h cs) (out_chaining_value p (cs_output cs)) (cs_ctr cs)) as [h1| |]; cbn [bind];
        try apply refines_refl.
      destruct (mi_add 64 (cs_ctr cs) 1); cbn [bind]; try apply refines_refl.
      apply Htail. rewrite skipn_length. lia.
    + cbn [bind]. apply refines_refl.
  - cbn [bind]. apply Htail. lia.
Qed.

(* the two consequences used in Props: with enough fuel a translated result that is not the models' OutOfFuel is the model's *)
Lemma refines_ok {A} (m w : res A) : refines m w -> m <> OutOfFuel -> w = m.
Proof. intros [H|H] N; [contradiction|symmetry; exact H]. Qed.

(* ---------- plat_wf is not vacuous: every platform whose kernels ARE the portable ones has it ---------- *)
Lemma hash1_go_len : forall fuel cv input ctr fl bf fe, length cv = 8%nat ->
  length (hash1_go fuel cv input ctr fl bf fe) = 8%nat.
Proof.
  induction fuel as [|fuel IH]; intros cv input ctr fl bf fe H; cbn [hash1_go]; [exact H|].
  destruct (N.of_nat (length input) <? rs_BLOCK_LEN); [exact H|]. apply IH. apply KernelsP.compress_in_place_length. exact H.
Qed.

Lemma hash_many_go_32 : forall inputs key ctr incr fl fs fe outs, length key = 8%nat ->
  hash_many_go inputs key ctr incr fl fs fe = Ok outs -> length outs = length inputs /\ cvs32 outs.
Proof.
  induction inputs as [|x tl IH]; intros key ctr incr fl fs fe outs Hk H.
  - cbn in H. inversion H. split; [reflexivity|constructor].
  - cbn [hash_many_go] in H.
    destruct (hash1 x key ctr fl fs fe) as [cv| |] eqn:E1; cbn [bind] in H; try discriminate.
    destruct (if incr then mi_add 64 ctr 1 else Ok ctr) as [c'| |]; cbn [bind] in H; try discriminate.
    destruct (hash_many_go tl key c' incr fl fs fe) as [rest| |] eqn:E; cbn [bind] in H; try discriminate.
    inversion H; subst. destruct (IH _ _ _ _ _ _ _ Hk E) as [Hl H32]. split; [cbn [length]; rewrite Hl; reflexivity|].
    constructor; [|exact H32]. unfold hash1 in E1.
    destruct (N.of_nat (length x) mod rs_BLOCK_LEN =? 0); cbn [check bind] in E1; [|discriminate].
    set (g := hash1_go _ _ _ _ _ _ _) in E1. assert (Hg : length g = 8%nat) by (apply hash1_go_len; exact Hk).
    clearbody g. inversion E1; subst. rewrite bytes_of_words_length, Hg. reflexivity.
Qed.

Lemma plat_wf_portable p : p_degree p < 2 ^ 32 -> p_max_degree p < 2 ^ 32 ->
  (forall cv block bl ctr fl, p_compress_in_place p cv block bl ctr fl = compress_in_place cv block bl ctr fl) ->
  (forall inputs key ctr incr fl fs fe cap, p_hash_many p inputs key ctr incr fl fs fe cap = hash_many inputs key ctr incr fl fs fe cap) ->
  plat_wf p.
Proof.
  intros Hd Hm Hc Hh. constructor; [| |exact Hd|exact Hm].
  - intros inputs key ctr incr fl fs fe cap cvs Hk H. rewrite Hh in H. unfold hash_many in H.
    destruct (N.of_nat (length inputs) <=? cap) eqn:E; cbn [check bind] in H; [|discriminate]. apply N.leb_le in E.
    destruct (hash_many_go_32 _ _ _ _ _ _ _ _ Hk H) as [A B]. repeat split; assumption.
  - intros cv block bl ctr fl H. rewrite Hc. apply KernelsP.compress_in_place_length. exact H.
Qed.

Lemma sim_platform_wf d m : d < 2 ^ 32 -> m < 2 ^ 32 -> plat_wf (sim_platform d m).
Proof. intros Hd Hm. apply plat_wf_portable; [exact Hd|exact Hm|reflexivity|reflexivity]. Qed.
