#!/bin/bash
# run every claimed check (tier $1, default quick); print one summary line each
cd "$(dirname "$0")/.."
tier=${1:-quick}
for id in $(python3 -c "import json;print(' '.join(c['property_id'] for c in json.load(open('MANIFEST.json'))['checks']))"); do
  start=$(date +%s)
  out=$(./check $id $tier 2>&1); rc=$?
  echo "$id rc=$rc $(( $(date +%s) - start ))s $(echo "$out" | grep -c VIOLATION) violations"
  echo "$out" | grep -E "VIOLATION|KNOWN-FINDING|BROKEN|CHECK-ERROR" | head -5
done
