"""C10: reset() restores the initial state after any history; clones are independent."""
from props.common import Rng, bspec, modes, number, CHUNK
from props.hist import PLATFORMS, history, upd_size

RULE = ("prefix (updates of boundary sizes, optionally set_input_offset at a valid offset first, finalize / count "
        "queries, clones) then reset, count, then a suffix replayed identically on the reset hasher and on a fresh "
        "hasher of the same mode (observations must agree pairwise and with the model); prefixes that leave count() == 0 "
        "without being initial (offset set, nothing or a zero-length update absorbed); trait Reset variants; clone and "
        "clone_from (into used destinations with deeper and shallower state) "
        "divergence. Non-trivial = distinct history whose prefix absorbed more than one chunk or used an offset.")
MODELLED = ["derived Clone as copying the model record"]
ASSUMPTIONS = []


def gen_cases(seed, tier):
    rng = Rng(seed)
    lines = []
    ms = modes(rng)
    nh = 50 if tier == "thorough" else 10
    for plat in PLATFORMS:
        for k in range(nh):
            m = rng.choice(ms)
            ops = []
            if k % 3 == 0:
                c = rng.choice([1, 2, 3, 4, 6, 8, 16, 1 << 20, (1 << 32), (1 << 40) + 8])
                tz = (c & -c)
                ops.append(f"so:0:{c * CHUNK}")
                n = rng.choice([1, 1000, 1024, min(tz, 9) * CHUNK, min(tz, 9) * CHUNK - 1])
                n = min(n, tz * CHUNK)
                if k % 9 == 3 or (k % 9 == 6 and tier != "thorough"):
                    # a state that LOOKS empty (count() == 0) but is not the initial one: offset set, nothing absorbed
                    # (with or without a zero-length update)
                    ops += ([f"u:0:{bspec(rng, 0)}"] if k % 2 else []) + ["c:0"]
                else:
                    ops += [f"u:0:{bspec(rng, n)}", "c:0", "nr:0"]
            else:
                ops += history(rng, plat, rng.range(1, 14), with_clone=False, budget=40 * CHUNK)
            reset = rng.choice(["r:0", "r:0", "tr:0"])
            ops += [reset, "c:0", "n"]
            # the same suffix on instance 0 (reset) and on the fresh instance
            fresh = 1
            for _ in range(rng.range(1, 6)):
                q = rng.below(10)
                if q < 5:
                    b = bspec(rng, upd_size(rng, plat, 12))
                    ops += [f"u:0:{b}", f"u:{fresh}:{b}"]
                elif q < 7:
                    ops += ["c:0", f"c:{fresh}"]
                elif q < 9:
                    ops += ["f:0", f"f:{fresh}"]
                else:
                    ops += ["x:0:70", f"x:{fresh}:70"]
            ops += ["c:0", f"c:{fresh}", "f:0", f"f:{fresh}", "dbg:0", f"dbg:{fresh}"]
            lines.append(f"H {m} {plat} " + " ".join(ops))
        # clone independence: diverge after cloning, both ways
        for k in range(3):
            m = rng.choice(ms)
            a, b1, b2 = bspec(rng, upd_size(rng, plat, 10)), bspec(rng, upd_size(rng, plat, 10)), bspec(rng, upd_size(rng, plat, 10))
            lines.append(f"H {m} {plat} u:0:{a} cl:0 u:0:{b1} f:1 c:1 u:1:{b2} f:0 c:0 f:1 c:1 r:1 f:0 c:0 c:1")
        # clone_from into a USED destination (deeper / shallower CV stack than the source, other key): the clone must
        # equal the source and stay independent of it
        for k in range(6 if tier == "thorough" else 3):
            m = rng.choice(ms)
            deep = bspec(rng, rng.choice([7 * CHUNK + 5, 3 * CHUNK, 40 * CHUNK + 1, 2 * CHUNK]))
            srcb = bspec(rng, rng.choice([0, 1, 1025, 5 * CHUNK + 3]))
            tail = bspec(rng, rng.choice([1, 1024, 3000]))
            # instance 0: source, instance 1: deep hasher used as destination, instance 2: the clone_from result
            lines.append(f"H {m} {plat} u:0:{srcb} n u:1:{deep} clf:0:1 c:2 f:2 u:2:{tail} c:2 f:2 f:0 c:0 u:0:{tail} f:0 f:2 f:1")
            # the other direction (fresh destination, deep source) and a reader
            lines.append(f"H {m} {plat} u:0:{deep} n clf:0:1 c:2 f:2 u:2:{tail} f:2 f:0 xo:0 rf:0:70 xo:2 rs:1:200 rcf:0:1 rp:2 rf:2:65 rf:0:65 rp:0 rp:2")
    # regression corpus: the reset-after-offset defect (fixed: 93483ed)
    lines.append("H hash detect so:0:1024 u:0:hex/00 r:0 c:0 f:0")
    lines.append("H hash portable so:0:4096 u:0:paint/0/3000 r:0 c:0 u:0:paint/0/5000 f:0 c:0")
    # reset straight after set_input_offset (count() is 0 there): must still restore offset 0
    for m in ms[:3]:
        lines.append(f"H {m} detect so:0:2048 r:0 c:0 u:0:paint/0/3000 c:0 f:0 x:0:70")
        lines.append(f"H {m} sse41 so:0:{(1 << 40) * CHUNK} u:0:hex/ tr:0 c:0 u:0:paint/5/1025 f:0")
    return number(lines)


def nontrivial(rest, model_line):
    import re
    pre = rest.split(" r:0")[0] if " r:0" in rest else rest.split(" tr:0")[0]
    sizes = [int(x) for x in re.findall(r"\bu:\d+:\w+/\d+/(\d+)", pre)]
    return "so:" in pre or sum(sizes) > 1024


def correspondence(ctx):
    drv = ctx.need_model()
    cases = gen_cases(ctx.seed, ctx.tier)
    builds = [("default", "debug")]
    if ctx.tier == "thorough":
        builds += [("default", "release"), ("pure", "debug")]
    for flavour, profile in builds:
        b = ctx.need_harness(flavour, profile)
        ctx.correspond("reset-histories", cases, drv, b, profile=profile, build=flavour, nontrivial=nontrivial)


def classify(f):
    return None
