// Kernel-level cases (C05 / C07) and the thread case (C18) of the Rust harness.
//
// Same case kinds and argument conventions as harness/c/driver.c; the flavour token is `rs`
// (anything else prints SKIP: that symbol does not exist in this binary):
//   kcip <impl> rs <cv32> <block64> <block_len> <counter> <flags>            -> <hex 32>
//   kxof <impl> rs <cv32> <block64> <block_len> <counter> <flags>            -> <hex 64>
//   khm  <impl> rs <num_inputs> <blocks> <key32> <counter> <incr> <flags> <flags_start> <flags_end>
//        <align_off> <seed>                                                  -> x<hex 32*num_inputs>
//        blocks in {1,16} (const generic N = 64 / 1024); input i = prng/<seed+i>/<64*blocks> in its
//        own heap buffer at an address == align_off (mod 64)
//   khmg ... same arguments as khm ...                                        -> x<hex> | FAULT
//        every input in its own mmap'ed region flush against a PROT_NONE page (C_GUARD_SIDE=lo: the
//        page before it), read-only; key, pointer-free; out flush against a guard page as well.  Runs
//        in a forked child so that a SIGSEGV/SIGBUS of the kernel is reported as the token FAULT.
//   kxm  <impl> rs <cv32> <block64> <block_len> <counter> <flags> <nblocks>  -> x<hex 64*nblocks>
//   THR <n> <case>|<case>|...   n threads released from one barrier, thread t runs case t mod ncases;
//        sub-results separated by a `|` token.  (The Python side starts one process per THR case so
//        that the first CPU-feature detection really races.)
// impl = portable|sse2|sse41|avx2|avx512 through Platform::portable()/sse2()/...; SKIP when the
// constructor does not exist in this build (avx512 under `pure`) or returns None.
// Extra tokens: oob (bytes around the output buffer were modified), PANIC.
use crate::bytespec::{hex, parse as bytes};
use blake3::platform::Platform;
use blake3::IncrementCounter;

pub fn platform_of(name: &str) -> Option<Platform> {
    match name {
        "portable" => Some(Platform::portable()),
        "sse2" => Platform::sse2(),
        "sse41" => Platform::sse41(),
        "avx2" => Platform::avx2(),
        #[cfg(not(feature = "pure"))]
        "avx512" => Platform::avx512(),
        #[cfg(feature = "pure")]
        "avx512" => None,
        _ => panic!("bad impl {name}"),
    }
}

fn canary_byte(i: usize) -> u8 {
    (0x5Cusize.wrapping_add(113usize.wrapping_mul(i))) as u8
}
fn prefill_byte(i: usize) -> u8 {
    (0xE7 ^ (5usize.wrapping_mul(i))) as u8
}

const PAD: usize = 128;

// heap output buffer with canaries on both sides
struct OutBuf {
    v: Vec<u8>,
    n: usize,
}
impl OutBuf {
    fn new(n: usize) -> OutBuf {
        let mut v: Vec<u8> = (0..n + 2 * PAD).map(canary_byte).collect();
        for i in 0..n {
            v[PAD + i] = prefill_byte(i);
        }
        OutBuf { v, n }
    }
    fn slice(&mut self) -> &mut [u8] {
        let n = self.n;
        &mut self.v[PAD..PAD + n]
    }
    fn intact(&self) -> bool {
        (0..PAD).all(|i| self.v[i] == canary_byte(i))
            && (PAD + self.n..self.n + 2 * PAD).all(|i| self.v[i] == canary_byte(i))
    }
}

fn cv_words(spec: &str) -> [u32; 8] {
    let b: [u8; 32] = bytes(spec).try_into().expect("cv/key must be 32 bytes");
    blake3::platform::words_from_le_bytes_32(&b)
}

fn block_of(spec: &str) -> [u8; 64] {
    bytes(spec).try_into().expect("block must be 64 bytes")
}

fn u8_of(s: &str) -> u8 {
    let v: u64 = s.parse().unwrap();
    assert!(v < 256, "8-bit argument out of range");
    v as u8
}

// heap copy of `src` at an address == off (mod 64)
struct Aligned {
    v: Vec<u8>,
    start: usize,
    n: usize,
}
impl Aligned {
    fn new(src: &[u8], off: usize) -> Aligned {
        let n = src.len();
        let mut v: Vec<u8> = (0..n + 2 * PAD).map(canary_byte).collect();
        let base = v.as_ptr() as usize + 64;
        let start = 64 + ((off % 64) + 64 - base % 64) % 64;
        v[start..start + n].copy_from_slice(src);
        debug_assert_eq!((v.as_ptr() as usize + start) % 64, off % 64);
        Aligned { v, start, n }
    }
    fn get(&self) -> &[u8] {
        &self.v[self.start..self.start + self.n]
    }
}

// ---------------------------------------------------------------------------------------------
// guarded (mmap) buffers for khmg
// ---------------------------------------------------------------------------------------------
struct Guarded {
    map: *mut u8,
    maplen: usize,
    p: *mut u8,
    n: usize,
}

fn page_size() -> usize {
    unsafe { libc::sysconf(libc::_SC_PAGESIZE) as usize }
}

impl Guarded {
    // n bytes at an address == off (mod align), flush against the PROT_NONE page after it (side_hi) or
    // before it; same placement rule as galloc() in harness/c/driver.c
    fn new(n: usize, align: usize, off: usize, side_hi: bool) -> Guarded {
        let ps = page_size();
        let align = align.max(1);
        let off = off % align;
        let np = ((n + align + ps - 1) / ps).max(1);
        let maplen = (np + 2) * ps;
        unsafe {
            let map = libc::mmap(
                std::ptr::null_mut(),
                maplen,
                libc::PROT_READ | libc::PROT_WRITE,
                libc::MAP_PRIVATE | libc::MAP_ANONYMOUS,
                -1,
                0,
            );
            assert!(map != libc::MAP_FAILED, "mmap failed");
            let map = map as *mut u8;
            let lo_edge = map.add(ps);
            let hi_edge = map.add(ps + np * ps);
            assert_eq!(0, libc::mprotect(map as *mut libc::c_void, ps, libc::PROT_NONE));
            assert_eq!(0, libc::mprotect(hi_edge as *mut libc::c_void, ps, libc::PROT_NONE));
            let a = if side_hi {
                let mut a = hi_edge as usize - n;
                a -= (a % align + align - off) % align;
                a
            } else {
                let mut a = lo_edge as usize;
                a += (off + align - a % align) % align;
                a
            };
            let acc = std::slice::from_raw_parts_mut(lo_edge, np * ps);
            for (i, b) in acc.iter_mut().enumerate() {
                *b = canary_byte(i);
            }
            Guarded { map, maplen, p: a as *mut u8, n }
        }
    }
    fn acc(&self) -> (*mut u8, usize) {
        let ps = page_size();
        unsafe { (self.map.add(ps), self.maplen - 2 * ps) }
    }
    fn fill(&mut self, src: &[u8]) {
        assert_eq!(src.len(), self.n);
        unsafe { std::ptr::copy_nonoverlapping(src.as_ptr(), self.p, self.n) }
    }
    fn read_only(&self) {
        let (a, l) = self.acc();
        unsafe {
            assert_eq!(0, libc::mprotect(a as *mut libc::c_void, l, libc::PROT_READ));
        }
    }
    fn slice(&self) -> &[u8] {
        unsafe { std::slice::from_raw_parts(self.p, self.n) }
    }
    fn slice_mut(&mut self) -> &mut [u8] {
        unsafe { std::slice::from_raw_parts_mut(self.p, self.n) }
    }
    fn intact(&self) -> bool {
        let (a, l) = self.acc();
        let s = self.p as usize - a as usize;
        let all = unsafe { std::slice::from_raw_parts(a, l) };
        (0..s).all(|i| all[i] == canary_byte(i)) && (s + self.n..l).all(|i| all[i] == canary_byte(i))
    }
}

impl Drop for Guarded {
    fn drop(&mut self) {
        unsafe {
            libc::munmap(self.map as *mut libc::c_void, self.maplen);
        }
    }
}

// run `f` in a forked child; its string comes back through a pipe. A child killed by a signal -> FAULT
fn forked(f: impl FnOnce() -> String) -> String {
    unsafe {
        let mut fds = [0i32; 2];
        assert_eq!(0, libc::pipe(fds.as_mut_ptr()));
        let pid = libc::fork();
        assert!(pid >= 0, "fork failed");
        if pid == 0 {
            libc::close(fds[0]);
            let s = match std::panic::catch_unwind(std::panic::AssertUnwindSafe(f)) {
                Ok(s) => s,
                Err(_) => "PANIC".to_string(),
            };
            let b = s.as_bytes();
            let mut done = 0;
            while done < b.len() {
                let k = libc::write(fds[1], b[done..].as_ptr() as *const libc::c_void, b.len() - done);
                if k <= 0 {
                    break;
                }
                done += k as usize;
            }
            libc::_exit(0);
        }
        libc::close(fds[1]);
        let mut got = Vec::new();
        let mut tmp = [0u8; 4096];
        loop {
            let k = libc::read(fds[0], tmp.as_mut_ptr() as *mut libc::c_void, tmp.len());
            if k <= 0 {
                break;
            }
            got.extend_from_slice(&tmp[..k as usize]);
        }
        libc::close(fds[0]);
        let mut status = 0i32;
        libc::waitpid(pid, &mut status, 0);
        if libc::WIFSIGNALED(status) {
            let sig = libc::WTERMSIG(status);
            if sig == libc::SIGABRT {
                return "ABORT".to_string();
            }
            if std::env::var_os("C_VERBOSE").is_some() {
                eprintln!("khmg: child killed by signal {sig}");
            }
            return "FAULT".to_string();
        }
        String::from_utf8_lossy(&got).into_owned()
    }
}

struct HmArgs {
    num: usize,
    key: [u32; 8],
    counter: u64,
    incr: bool,
    flags: u8,
    fs: u8,
    fe: u8,
    align_off: usize,
    seed: u64,
}

fn hm_input(a: &HmArgs, i: usize, n: usize) -> Vec<u8> {
    bytes(&format!("prng/{}/{}", a.seed.wrapping_add(i as u64), n))
}

fn incr_of(b: bool) -> IncrementCounter {
    if b {
        IncrementCounter::Yes
    } else {
        IncrementCounter::No
    }
}

fn hm_plain<const N: usize>(p: Platform, a: &HmArgs, out: &mut Vec<String>) {
    let bufs: Vec<Aligned> = (0..a.num).map(|i| Aligned::new(&hm_input(a, i, N), a.align_off)).collect();
    let refs: Vec<&[u8; N]> = bufs.iter().map(|b| <&[u8; N]>::try_from(b.get()).unwrap()).collect();
    let mut o = OutBuf::new(32 * a.num);
    p.hash_many::<N>(&refs, &a.key, a.counter, incr_of(a.incr), a.flags, a.fs, a.fe, o.slice());
    out.push(format!("x{}", hex(o.slice())));
    if !o.intact() {
        out.push("oob".into());
    }
    for (i, b) in bufs.iter().enumerate() {
        if b.get() != &hm_input(a, i, N)[..] {
            out.push("oob".into()); // an input was modified
            break;
        }
    }
}

fn hm_guarded<const N: usize>(p: Platform, a: &HmArgs) -> String {
    let side_hi = std::env::var("C_GUARD_SIDE").map(|s| s != "lo").unwrap_or(true);
    let contig = std::env::var("C_HM_LAYOUT").map(|s| s == "contig").unwrap_or(false);
    let mut toks: Vec<String> = vec![];
    let mut o = Guarded::new(32 * a.num, 1, 0, side_hi);
    for (i, b) in o.slice_mut().iter_mut().enumerate() {
        *b = prefill_byte(i);
    }
    let mut bufs: Vec<Guarded> = vec![];
    let refs: Vec<&[u8; N]>;
    if contig {
        let mut all = Guarded::new(a.num * N, 64, a.align_off, side_hi);
        let mut data = Vec::with_capacity(a.num * N);
        for i in 0..a.num {
            data.extend_from_slice(&hm_input(a, i, N));
        }
        all.fill(&data);
        all.read_only();
        bufs.push(all);
        let base = bufs[0].p;
        refs = (0..a.num).map(|i| unsafe { &*(base.add(i * N) as *const [u8; N]) }).collect();
    } else {
        for i in 0..a.num {
            let mut g = Guarded::new(N, 64, a.align_off, side_hi);
            g.fill(&hm_input(a, i, N));
            g.read_only();
            bufs.push(g);
        }
        refs = bufs.iter().map(|b| <&[u8; N]>::try_from(b.slice()).unwrap()).collect();
    }
    p.hash_many::<N>(&refs, &a.key, a.counter, incr_of(a.incr), a.flags, a.fs, a.fe, o.slice_mut());
    toks.push(format!("x{}", hex(o.slice())));
    if !o.intact() || !bufs.iter().all(|b| b.intact()) {
        toks.push("oob".into());
    }
    toks.join(" ")
}

pub fn kernel_case(t: &[&str], out: &mut Vec<String>) {
    let kind = t[0];
    if t[2] != "rs" {
        out.push("SKIP".into());
        return;
    }
    let p = match platform_of(t[1]) {
        Some(p) => p,
        None => {
            out.push("SKIP".into());
            return;
        }
    };
    match kind {
        "kcip" | "kxof" => {
            assert_eq!(t.len(), 8, "kcip/kxof: 7 arguments expected");
            let cv = cv_words(t[3]);
            let block = block_of(t[4]);
            let (bl, ctr, fl) = (u8_of(t[5]), t[6].parse::<u64>().unwrap(), u8_of(t[7]));
            if kind == "kcip" {
                let mut cv2 = cv;
                p.compress_in_place(&mut cv2, &block, bl, ctr, fl);
                out.push(hex(&blake3::platform::le_bytes_from_words_32(&cv2)));
            } else {
                let o = p.compress_xof(&cv, &block, bl, ctr, fl);
                out.push(hex(&o));
            }
        }
        "khm" | "khmg" => {
            assert_eq!(t.len(), 13, "khm: 12 arguments expected");
            let blocks: usize = t[4].parse().unwrap();
            let a = HmArgs {
                num: t[3].parse().unwrap(),
                key: cv_words(t[5]),
                counter: t[6].parse().unwrap(),
                incr: t[7] != "0",
                flags: u8_of(t[8]),
                fs: u8_of(t[9]),
                fe: u8_of(t[10]),
                align_off: t[11].parse().unwrap(),
                seed: t[12].parse().unwrap(),
            };
            assert!(a.num <= 4096 && a.align_off <= 63, "khm: argument out of range");
            match (kind, blocks) {
                ("khm", 1) => hm_plain::<64>(p, &a, out),
                ("khm", 16) => hm_plain::<1024>(p, &a, out),
                ("khmg", 1) => out.push(forked(|| hm_guarded::<64>(p, &a))),
                ("khmg", 16) => out.push(forked(|| hm_guarded::<1024>(p, &a))),
                _ => panic!("khm: blocks must be 1 or 16 in the Rust harness"),
            }
        }
        "kxm" => {
            assert_eq!(t.len(), 9, "kxm: 8 arguments expected");
            let cv = cv_words(t[3]);
            let block = block_of(t[4]);
            let (bl, ctr, fl) = (u8_of(t[5]), t[6].parse::<u64>().unwrap(), u8_of(t[7]));
            let nblocks: usize = t[8].parse().unwrap();
            assert!(nblocks <= 1 << 20);
            let mut o = OutBuf::new(64 * nblocks);
            p.xof_many(&cv, &block, bl, ctr, fl, o.slice());
            out.push(format!("x{}", hex(o.slice())));
            if !o.intact() {
                out.push("oob".into());
            }
        }
        _ => unreachable!(),
    }
}

// THR <n> <case>|<case>|...
pub fn thr_case(toks: &[&str], run: fn(&str) -> String) -> String {
    let n: usize = toks[1].parse().unwrap();
    assert!(n >= 1 && n <= 1024, "THR: bad thread count");
    let text = toks[2..].join(" ");
    let cases: Vec<String> = text.split('|').map(|s| s.trim().to_string()).filter(|s| !s.is_empty()).collect();
    assert!(!cases.is_empty(), "THR: no cases");
    let barrier = std::sync::Arc::new(std::sync::Barrier::new(n + 1));
    let mut handles = vec![];
    for i in 0..n {
        let c = cases[i % cases.len()].clone();
        let b = barrier.clone();
        handles.push(
            std::thread::Builder::new()
                .stack_size(16 << 20)
                .spawn(move || {
                    b.wait();
                    run(&c)
                })
                .expect("spawn"),
        );
    }
    barrier.wait();
    let res: Vec<String> = handles.into_iter().map(|h| h.join().unwrap_or_else(|_| "PANIC".to_string())).collect();
    res.join(" | ")
}
