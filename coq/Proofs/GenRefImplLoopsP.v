(* The REST of the reference implementation as TRANSLATED from the source text (gen/GenRefImplLoops.v:
   Output::root_output_bytes, ChunkState::new / update / output, Hasher::new_internal / new / new_keyed /
   new_derive_key / push_stack / pop_stack / add_chunk_chaining_value / update / finalize of
   reference_impl/reference_impl.rs, statement by statement) against the hand-written model Model/RefImpl.v.

   Representation maps (records of the translation -> records of the model): ro_of_src, rcs_of_src
   (Proofs/GenRefImplP.v) and rh_of_src below; results are compared through res_map.
   Hypotheses on arguments are the declared types only (wt_out, wt_cs, wt_h: array lengths, u8 fields < 256).

   Fuel.  The three simple loops are equal to the model's loops for EVERY fuel, OutOfFuel and Panic results
   included: the chunks_mut loop of root_output_bytes (ref_root_loop), the loop of ChunkState::update
   (rcs_update_loop) and the loop of add_chunk_chaining_value (ref_add_cv_loop).
   Reshaping.  The model gives each inner loop a fuel of its own (rcs_update: S (length input);
   ref_add_chunk_chaining_value: 320; ro_root_output_bytes: S (out_len / 64)) and recurses on the counter in
   finalize, whereas the translation passes ONE fuel down to every loop.  For these functions
   (add_chunk_chaining_value, Hasher::update, finalize, new_derive_key and the wrappers) the statements are:
     - with enough fuel (explicit bounds) the translated function equals the model function;
     - with any fuel it is OutOfFuel or equals the model function (never a different value or Panic).
   The model reports the wrap-around of `cv_stack_len -= 1` in pop_stack as Panic 72 (the index panic that
   follows it in a release build); the translator gives that subtraction the site code 72 (ref_at_site). *)
From Coq Require Import NArith List Bool Lia Arith.
From V Require Import Base.Res Base.Word Base.MachInt Base.Arr Base.Arr2 gen.GenConsts gen.GenRefImpl
  gen.GenRefImplLoops Spec.Compress Spec.Tree Spec.Blake3 Model.RefImpl Proofs.PortableP Proofs.FormulasP
  Proofs.RefCompressP Proofs.RefImplP Proofs.GenRefImplP.
Import ListNotations.
Open Scope N_scope.

Local Opaque refsrc_compress ref_compress.

(* ---------- results ---------- *)
Definition res_map {A B} (f : A -> B) (r : res A) : res B := x <- r ;; Ok (f x).

(* r is OutOfFuel or the value m *)
Definition fuel_approx {A} (r m : res A) : Prop := r = OutOfFuel \/ r = m.

Lemma bind_assoc {A B C} (m : res A) (k : A -> res B) (k' : B -> res C) :
  bind (bind m k) k' = bind m (fun a => bind (k a) k').
Proof. destruct m; reflexivity. Qed.

Lemma bind_Ok_r {A} (m : res A) : bind m (fun a => Ok a) = m.
Proof. destruct m; reflexivity. Qed.

(* two computations related step by step: the translated T and the model's M, through the representation map g;
   P is what a successful run of T guarantees about its result (the declared types) *)
Definition rel_res {A A'} (g : A -> A') (P : A -> Prop) (T : res A) (M : res A') : Prop :=
  res_map g T = M /\ forall a, T = Ok a -> P a.

Lemma rel_bind {A A' B B'} (g : A -> A') (f : B -> B') (P : A -> Prop) (Q : B -> Prop)
      (T : res A) (M : res A') (Kt : A -> res B) (Km : A' -> res B') :
  rel_res g P T M -> (forall a, P a -> rel_res f Q (Kt a) (Km (g a))) ->
  rel_res f Q (bind T Kt) (bind M Km).
Proof.
  intros [<- HP] HK. destruct T as [a| |]; cbn [bind res_map]; try (split; [reflexivity|discriminate]).
  apply HK. apply HP. reflexivity.
Qed.

Lemma rel_Ok {A A'} (g : A -> A') (P : A -> Prop) a : P a -> rel_res g P (Ok a) (Ok (g a)).
Proof. intros H. split; [reflexivity|]. intros a' [= <-]. exact H. Qed.

Lemma rel_fail {A A'} (g : A -> A') (P : A -> Prop) (T : res A) (M : res A') :
  (forall a, T <> Ok a) -> res_map g T = M -> rel_res g P T M.
Proof. intros H E. split; [exact E|]. intros a Ha. destruct (H a Ha). Qed.

Lemma rel_Panic {A A'} (g : A -> A') (P : A -> Prop) c : rel_res g P (Panic c) (Panic c).
Proof. split; [reflexivity|discriminate]. Qed.

Lemma rel_OutOfFuel {A A'} (g : A -> A') (P : A -> Prop) : rel_res g P OutOfFuel OutOfFuel.
Proof. split; [reflexivity|discriminate]. Qed.

Lemma rlen_firstn n (l : list N) : rlen (firstn n l) = N.min (N.of_nat n) (rlen l).
Proof. unfold rlen. rewrite firstn_length. lia. Qed.

Lemma rlen_skipn n (l : list N) : rlen (skipn n l) = rlen l - N.of_nat n.
Proof. unfold rlen. rewrite skipn_length. lia. Qed.

(* ---------- the declared types ---------- *)
Definition wt_out (o : refsrc_Output) : Prop :=
  length (refsrc_Output_input_chaining_value o) = 8%nat /\ length (refsrc_Output_block_words o) = 16%nat.

Definition wt_cs (c : refsrc_ChunkState) : Prop :=
  length (refsrc_ChunkState_chaining_value c) = 8%nat /\ length (refsrc_ChunkState_block c) = 64%nat /\
  refsrc_ChunkState_block_len c < 256 /\ refsrc_ChunkState_blocks_compressed c < 256.

Definition wt_h (h : refsrc_Hasher) : Prop :=
  wt_cs (refsrc_Hasher_chunk_state h) /\ length (refsrc_Hasher_key_words h) = 8%nat /\
  Forall (fun cv => length cv = 8%nat) (refsrc_Hasher_cv_stack h) /\ refsrc_Hasher_cv_stack_len h < 256.

Definition rh_of_src (h : refsrc_Hasher) : ref_hasher :=
  mkRH (rcs_of_src (refsrc_Hasher_chunk_state h)) (refsrc_Hasher_key_words h) (refsrc_Hasher_cv_stack h)
       (refsrc_Hasher_cv_stack_len h) (refsrc_Hasher_flags h).

Lemma refsrc_first8_compress_length cv bw c bl fl :
  length (refsrc_first_8_words (refsrc_compress cv bw c bl fl)) = 8%nat.
Proof.
  unfold refsrc_first_8_words, arr_slice. cbn [skipn]. rewrite firstn_length, refsrc_compress_length. reflexivity.
Qed.

(* ================= Output::root_output_bytes ================= *)
(* the inner loop: for (word, out_word) in words.iter().zip(out_block.chunks_mut(4)) *)
Lemma refsrc_root_zip_eq self ctr t1 words : forall ws out_block,
  (length out_block <= 4 * length ws)%nat ->
  refsrc_Output_root_output_bytes_loop1 self ctr t1 out_block words ws =
  Ok (ref_fill_words ws (rlen out_block)).
Proof.
  induction ws as [|w ws IH]; intros ob H.
  - destruct ob; [reflexivity|cbn in H; lia].
  - cbn [refsrc_Output_root_output_bytes_loop1 ref_fill_words]. unfold rlen at 1.
    destruct (N.of_nat (length ob) =? 0) eqn:E.
    + destruct ob; [reflexivity|cbn in E; lia].
    + cbv zeta. change (N.to_nat 4) with 4%nat. change (N.to_nat 0) with 0%nat.
      assert (Hb : length (bytes_of_word w) = 4%nat) by reflexivity.
      rewrite Hb.
      assert (Hl : length (firstn 4 ob) = N.to_nat (N.min 4 (rlen ob))).
      { rewrite firstn_length. unfold rlen. lia. }
      replace (N.of_nat (length (firstn 4 ob)) <=? N.of_nat 4) with true
        by (symmetry; apply N.leb_le; rewrite firstn_length; lia).
      cbn [check bind].
      rewrite Nat2N.id.
      replace (N.of_nat (length (firstn (length (firstn 4 ob)) (bytes_of_word w))) =? N.of_nat (length (firstn 4 ob)))
        with true by (symmetry; apply N.eqb_eq; rewrite (firstn_length (length (firstn 4 ob))), Hb, firstn_length; lia).
      cbn [check bind].
      rewrite IH by (rewrite skipn_length; cbn [length] in H; lia).
      cbn [bind]. f_equal.
      unfold arr_store.
      assert (Hfo : (length (firstn 4 ob) <= 4)%nat) by (rewrite firstn_length; lia).
      set (fo := firstn 4 ob) in *.
      rewrite (skipn_all2 fo) by (rewrite firstn_length, Hb; lia).
      cbn [firstn app]. rewrite app_nil_r, Hl. f_equal.
      change 4%nat with (N.to_nat 4). rewrite rlen_skipn. f_equal. unfold rlen. lia.
Qed.

(* the outer loop, for every fuel: for out_block in out_slice.chunks_mut(2 * OUT_LEN) *)
Lemma refsrc_root_loop_eq o : wt_out o -> forall fuel out_slice ctr,
  res_map fst (refsrc_Output_root_output_bytes_loop2 fuel o out_slice ctr 64) =
  ref_root_loop fuel (ro_of_src o) ctr (rlen out_slice).
Proof.
  intros [H1 H2]. induction fuel as [|fuel IH]; intros os ctr.
  - destruct os; reflexivity.
  - cbn [refsrc_Output_root_output_bytes_loop2 ref_root_loop]. unfold rlen at 1.
    destruct (N.of_nat (length os) =? 0) eqn:E; [destruct os; [reflexivity|discriminate]|].
    cbv zeta.
    change (ro_input_chaining_value (ro_of_src o)) with (refsrc_Output_input_chaining_value o).
    change (ro_block_words (ro_of_src o)) with (refsrc_Output_block_words o).
    change (ro_block_len (ro_of_src o)) with (refsrc_Output_block_len o).
    change (ro_flags (ro_of_src o)) with (refsrc_Output_flags o).
    unfold mb at 1, mi_or. cbn [bind].
    rewrite (refsrc_compress_eq _ _ ctr _ _ H1 H2). cbn [bind].
    rewrite refsrc_root_zip_eq.
    2:{ rewrite refsrc_compress_length, firstn_length. change (N.to_nat 64) with 64%nat. lia. }
    cbn [bind]. unfold mb at 1. cbn [bind].
    change (2 * ref_OUT_LEN) with 64.
    destruct (mi_add 64 ctr 1) as [ctr'| |]; cbn [bind res_map]; try reflexivity.
    rewrite rlen_firstn, N2Nat.id.
    replace (rlen os - N.min 64 (rlen os)) with (rlen (skipn (N.to_nat 64) os)) by (rewrite rlen_skipn; lia).
    rewrite <- IH. unfold res_map.
    destruct (refsrc_Output_root_output_bytes_loop2 fuel o (skipn (N.to_nat 64) os) ctr' 64) as [[r c]| |];
      reflexivity.
Qed.

Theorem refsrc_Output_root_output_bytes_eq o fuel out_slice : wt_out o ->
  refsrc_Output_root_output_bytes fuel o out_slice = ref_root_loop fuel (ro_of_src o) 0 (rlen out_slice).
Proof.
  intros H. unfold refsrc_Output_root_output_bytes. cbv zeta.
  change (mb (mi_mul 64) (Ok 2) (Ok ref_OUT_LEN)) with (@Ok N 64). cbn [bind].
  rewrite <- (refsrc_root_loop_eq o H). unfold res_map.
  destruct (refsrc_Output_root_output_bytes_loop2 fuel o out_slice 0 64) as [[r c]| |]; reflexivity.
Qed.

(* ================= ChunkState ================= *)
Theorem refsrc_ChunkState_new_eq key_words chunk_counter flags :
  rcs_of_src (refsrc_ChunkState_new key_words chunk_counter flags) = rcs_new key_words chunk_counter flags.
Proof. reflexivity. Qed.

Lemma refsrc_ChunkState_new_wt key_words chunk_counter flags : length key_words = 8%nat ->
  wt_cs (refsrc_ChunkState_new key_words chunk_counter flags).
Proof. intros H. unfold wt_cs. cbn. repeat split; try assumption; lia. Qed.

Lemma nonempty_not_zero {A} (b : A) tl : (N.of_nat (length (b :: tl)) =? 0) = false.
Proof. apply N.eqb_neq. cbn [length]. lia. Qed.

Ltac cs_fields :=
  cbn [refsrc_ChunkState_chaining_value refsrc_ChunkState_chunk_counter refsrc_ChunkState_block
       refsrc_ChunkState_block_len refsrc_ChunkState_blocks_compressed refsrc_ChunkState_flags
       refsrc_ChunkState_set_chaining_value refsrc_ChunkState_set_chunk_counter refsrc_ChunkState_set_block
       refsrc_ChunkState_set_block_len refsrc_ChunkState_set_blocks_compressed refsrc_ChunkState_set_flags] in *.

Definition cs_pair (p : refsrc_ChunkState * list N) : ref_chunk_state := rcs_of_src (fst p).
Definition cs_pair_wt (p : refsrc_ChunkState * list N) : Prop := wt_cs (fst p).

Lemma refsrc_cs_update_loop_rel : forall fuel cs input, wt_cs cs ->
  rel_res cs_pair cs_pair_wt (refsrc_ChunkState_update_loop1 fuel cs input)
          (rcs_update_loop fuel (rcs_of_src cs) input).
Proof.
  induction fuel as [|fuel IH]; intros cs input Hwt.
  - destruct input as [|b tl]; cbn; [|apply rel_OutOfFuel].
    apply (rel_Ok cs_pair cs_pair_wt (cs, [])). exact Hwt.
  - destruct input as [|b tl].
    + cbn. apply (rel_Ok cs_pair cs_pair_wt (cs, [])). exact Hwt.
    + cbn [refsrc_ChunkState_update_loop1 rcs_update_loop].
      unfold mcmp at 1. cbn [bind]. rewrite nonempty_not_zero. cbn [negb bind].
      set (input := b :: tl) in *.
      destruct cs as [cv ctr blk bl bc fl]. destruct Hwt as (Hcv & Hblk & Hbl & Hbc). cs_fields.
      unfold mcmp at 1, mu at 1, mi_cast at 1. cbn [bind]. rewrite (cast64_small bl) by lia.
      change (rcs_of_src {| refsrc_ChunkState_chaining_value := cv; refsrc_ChunkState_chunk_counter := ctr;
                refsrc_ChunkState_block := blk; refsrc_ChunkState_block_len := bl;
                refsrc_ChunkState_blocks_compressed := bc; refsrc_ChunkState_flags := fl |})
        with (mkRCS cv ctr blk bl bc fl).
      cbn [rcs_chaining_value rcs_chunk_counter rcs_block rcs_block_len rcs_blocks_compressed rcs_flags].
      apply (rel_bind rcs_of_src cs_pair wt_cs).
      * (* the buffered block is compressed when it is full *)
        destruct (bl =? ref_BLOCK_LEN) eqn:Ebl.
        2:{ apply (rel_Ok rcs_of_src wt_cs (refsrc_ChunkState_mk cv ctr blk bl bc fl)). repeat split; assumption. }
        unfold refsrc_words_from_little_endian_bytes_debug_assert. rewrite Hblk.
        change (Nat.eqb 64 (4 * length (repeat 0 (N.to_nat 16)))) with true. cbn [check bind].
        rewrite (ref_words_from_le_bytes_ok blk 16) by (rewrite Hblk; reflexivity). cbn [bind].
        rewrite (refsrc_words_from_le_bytes_eq blk) by (rewrite Hblk; reflexivity).
        change (mu (mi_cast 32) (Ok ref_BLOCK_LEN)) with (@Ok N ref_BLOCK_LEN). cbn [bind].
        rewrite refsrc_ChunkState_start_flag_eq. unfold mb, mi_or. cbn [bind].
        rewrite (refsrc_compress_eq cv (words_of_bytes blk))
          by (try assumption; apply words_of_bytes_length; rewrite Hblk; reflexivity).
        cbn [bind]. cs_fields.
        unfold mi_add, fits. destruct (bc + 1 <? 2 ^ 8) eqn:Ebc; [|apply rel_Panic].
        cbn [bind]. 
        match goal with |- rel_res _ _ (Ok ?a) _ => apply (rel_Ok rcs_of_src wt_cs a) end.
        unfold wt_cs. cs_fields. rewrite refsrc_first8_compress_length.
        apply N.ltb_lt in Ebc. change (2 ^ 8) with 256 in Ebc. repeat split; try reflexivity; lia.
      * (* `take` bytes are copied into the block buffer *)
        clear cv ctr blk bl bc fl Hcv Hblk Hbl Hbc.
        intros [cv ctr blk bl bc fl] (Hcv & Hblk & Hbl & Hbc). cs_fields.
        unfold rcs_of_src. cs_fields.
        cbn [rcs_chaining_value rcs_chunk_counter rcs_block rcs_block_len rcs_blocks_compressed rcs_flags].
        unfold mb, mu, mi_cast, mi_min. cbn [bind]. rewrite (cast64_small bl) by lia.
        unfold mi_sub. destruct (bl <=? ref_BLOCK_LEN) eqn:Ebl; [|apply rel_Panic]. cbn [bind].
        unfold rlen. set (take := N.min (ref_BLOCK_LEN - bl) (N.of_nat (length input))).
        destruct (bl <=? N.of_nat (length blk)) eqn:E74; [|apply rel_Panic]. cbn [check bind].
        destruct (take <=? N.of_nat (length blk) - bl) eqn:E75; [|apply rel_Panic]. cbn [check bind].
        replace (take <=? N.of_nat (length input)) with true by (symmetry; apply N.leb_le; lia).
        cbn [check bind].
        replace (N.of_nat (length (firstn (N.to_nat take) input)) =? take) with true
          by (symmetry; apply N.eqb_eq; rewrite firstn_length; lia).
        cbn [check bind].
        destruct (mi_add 8 bl (N.land take (N.ones 8))) as [bl'| |] eqn:Eadd; cbn [bind];
          [|apply rel_Panic|apply rel_OutOfFuel].
        apply N.leb_le in Ebl, E74, E75. change ref_BLOCK_LEN with 64 in *.
        assert (Hfl : length (firstn (N.to_nat take) input) = N.to_nat take) by (rewrite firstn_length; lia).
        match goal with |- rel_res _ _ (_ _ ?c _) (_ _ ?m _) => replace m with (rcs_of_src c); [apply IH|] end.
        -- unfold wt_cs, arr_store. cs_fields. rewrite !app_length, Hfl, firstn_length, skipn_length.
           unfold mi_add, fits in Eadd. destruct (bl + N.land take (N.ones 8) <? 2 ^ 8) eqn:E8; [|discriminate].
           injection Eadd as <-. apply N.ltb_lt in E8. change (2 ^ 8) with 256 in E8.
           repeat split; try assumption; lia.
        -- unfold rcs_of_src, arr_store. cs_fields. rewrite Hfl, N2Nat.inj_add. reflexivity.
Qed.

Theorem refsrc_ChunkState_update_loop_eq fuel cs input : wt_cs cs ->
  res_map cs_pair (refsrc_ChunkState_update_loop1 fuel cs input) = rcs_update_loop fuel (rcs_of_src cs) input.
Proof. intros H. apply (refsrc_cs_update_loop_rel fuel cs input H). Qed.

Lemma refsrc_ChunkState_update_rel fuel cs input : wt_cs cs ->
  rel_res rcs_of_src wt_cs (refsrc_ChunkState_update fuel cs input) (rcs_update_loop fuel (rcs_of_src cs) input).
Proof.
  intros H. destruct (refsrc_cs_update_loop_rel fuel cs input H) as [E W].
  unfold refsrc_ChunkState_update. rewrite <- E. unfold res_map, cs_pair.
  destruct (refsrc_ChunkState_update_loop1 fuel cs input) as [[c i]| |]; cbn [bind];
    [|apply rel_Panic|apply rel_OutOfFuel].
  apply (rel_Ok rcs_of_src wt_cs c). apply (W (c, i)). reflexivity.
Qed.

(* for every fuel; the model's rcs_update is its loop at fuel S (length input) *)
Theorem refsrc_ChunkState_update_eq fuel cs input : wt_cs cs ->
  res_map rcs_of_src (refsrc_ChunkState_update fuel cs input) = rcs_update_loop fuel (rcs_of_src cs) input.
Proof. intros H. apply (refsrc_ChunkState_update_rel fuel cs input H). Qed.

Theorem refsrc_ChunkState_update_model cs input : wt_cs cs ->
  res_map rcs_of_src (refsrc_ChunkState_update (S (length input)) cs input) = rcs_update (rcs_of_src cs) input.
Proof. intros H. apply (refsrc_ChunkState_update_eq _ cs input H). Qed.

Lemma refsrc_ChunkState_output_rel cs : wt_cs cs ->
  rel_res ro_of_src wt_out (refsrc_ChunkState_output cs) (rcs_output (rcs_of_src cs)).
Proof.
  destruct cs as [cv ctr blk bl bc fl]. intros (Hcv & Hblk & Hbl & Hbc). cs_fields.
  unfold refsrc_ChunkState_output, rcs_output. cbv zeta. cs_fields.
  unfold refsrc_words_from_little_endian_bytes_debug_assert. rewrite Hblk.
  change (Nat.eqb 64 (4 * length (repeat 0 (N.to_nat 16)))) with true. cbn [check bind].
  rewrite refsrc_ChunkState_start_flag_eq.
  unfold rcs_of_src. cs_fields.
  cbn [rcs_chaining_value rcs_chunk_counter rcs_block rcs_block_len rcs_blocks_compressed rcs_flags].
  rewrite (ref_words_from_le_bytes_ok blk 16) by (rewrite Hblk; reflexivity). cbn [bind].
  rewrite (refsrc_words_from_le_bytes_eq blk) by (rewrite Hblk; reflexivity).
  unfold mu, mb, mi_cast, mi_or. cbn [bind].
  replace (N.land bl (N.ones 32)) with bl.
  2:{ rewrite N.land_ones. symmetry. apply N.mod_small. change (2 ^ 32) with 4294967296. lia. }
  match goal with |- rel_res _ _ (Ok ?a) _ => apply (rel_Ok ro_of_src wt_out a) end.
  split; [exact Hcv|]. cbn. apply words_of_bytes_length. rewrite Hblk. reflexivity.
Qed.

Theorem refsrc_ChunkState_output_eq cs : wt_cs cs ->
  res_map ro_of_src (refsrc_ChunkState_output cs) = rcs_output (rcs_of_src cs).
Proof. intros H. apply (refsrc_ChunkState_output_rel cs H). Qed.

(* ================= Hasher: constructors, the stack ================= *)
Ltac h_fields :=
  cbn [refsrc_Hasher_chunk_state refsrc_Hasher_key_words refsrc_Hasher_cv_stack refsrc_Hasher_cv_stack_len
       refsrc_Hasher_flags refsrc_Hasher_set_chunk_state refsrc_Hasher_set_key_words refsrc_Hasher_set_cv_stack
       refsrc_Hasher_set_cv_stack_len refsrc_Hasher_set_flags
       rh_chunk_state rh_key_words rh_cv_stack rh_cv_stack_len rh_flags] in *.

Theorem refsrc_Hasher_new_internal_eq key_words flags :
  rh_of_src (refsrc_Hasher_new_internal key_words flags) = ref_new_internal key_words flags.
Proof. reflexivity. Qed.

Lemma refsrc_Hasher_new_internal_wt key_words flags : length key_words = 8%nat ->
  wt_h (refsrc_Hasher_new_internal key_words flags).
Proof.
  intros H. unfold wt_h, refsrc_Hasher_new_internal. h_fields.
  split; [apply refsrc_ChunkState_new_wt; exact H|]. split; [exact H|]. split; [|lia].
  apply Forall_forall. intros x Hx. apply repeat_spec in Hx. subst x. reflexivity.
Qed.

Theorem refsrc_Hasher_new_eq : rh_of_src refsrc_Hasher_new = ref_new.
Proof. reflexivity. Qed.

(* any key: the model's assert 1600 is the translated debug_assert_eq! of words_from_little_endian_bytes *)
Theorem refsrc_Hasher_new_keyed_eq key :
  res_map rh_of_src (refsrc_Hasher_new_keyed key) = ref_new_keyed key.
Proof.
  unfold refsrc_Hasher_new_keyed, ref_new_keyed. cbv zeta.
  change 8%nat with (length (repeat 0 (N.to_nat 8))) at 1.
  rewrite refsrc_words_from_le_bytes_model.
  destruct (refsrc_words_from_little_endian_bytes_debug_assert key (repeat 0 (N.to_nat 8))); reflexivity.
Qed.

Lemma arr2_set_upd (l : list (list N)) i v : arr2_set l i v = upd l i v.
Proof.
  revert i. induction l as [|h tl IH]; intros [|i]; cbn [upd arr2_set]; try reflexivity.
  rewrite IH. reflexivity.
Qed.

Lemma Forall_upd {A} (P : A -> Prop) v : P v -> forall (l : list A) i, Forall P l -> Forall P (upd l i v).
Proof.
  intros Hv. induction l as [|h tl IH]; intros [|i] H; cbn [upd]; try exact H.
  - inversion H; subst. constructor; assumption.
  - inversion H; subst. constructor; [assumption|]. apply IH. assumption.
Qed.

Lemma refsrc_Hasher_push_stack_rel h cv : wt_h h -> length cv = 8%nat ->
  rel_res rh_of_src wt_h (refsrc_Hasher_push_stack h cv) (ref_push_stack (rh_of_src h) cv).
Proof.
  destruct h as [cs kw st sl fl]. intros (Hcs & Hkw & Hst & Hsl) Hcv. h_fields.
  unfold refsrc_Hasher_push_stack, ref_push_stack, rh_of_src. h_fields.
  unfold mu, mb, mi_cast. cbn [bind]. rewrite (cast64_small sl) by lia.
  destruct (sl <? N.of_nat (length st)) eqn:E; cbn [check bind]; [|apply rel_Panic].
  unfold mi_add, fits. destruct (sl + 1 <? 2 ^ 8) eqn:E8; cbn [bind]; [|apply rel_Panic].
  rewrite arr2_set_upd.
  match goal with |- rel_res _ _ (Ok ?a) _ => apply (rel_Ok rh_of_src wt_h a) end.
  unfold wt_h. h_fields. apply N.ltb_lt in E8. change (2 ^ 8) with 256 in E8.
  split; [exact Hcs|]. split; [exact Hkw|]. split; [apply Forall_upd; assumption|lia].
Qed.

Theorem refsrc_Hasher_push_stack_eq h cv : wt_h h -> length cv = 8%nat ->
  res_map rh_of_src (refsrc_Hasher_push_stack h cv) = ref_push_stack (rh_of_src h) cv.
Proof. intros H1 H2. apply (refsrc_Hasher_push_stack_rel h cv H1 H2). Qed.

Definition h_cv (p : refsrc_Hasher * list N) : ref_hasher * list N := (rh_of_src (fst p), snd p).
Definition h_cv_wt (p : refsrc_Hasher * list N) : Prop := wt_h (fst p) /\ length (snd p) = 8%nat.

(* the wrap-around of `cv_stack_len -= 1` is the model's Panic 72 (ref_at_site 72) *)
Lemma refsrc_Hasher_pop_stack_rel h : wt_h h ->
  rel_res h_cv h_cv_wt (refsrc_Hasher_pop_stack h) (ref_pop_stack (rh_of_src h)).
Proof.
  destruct h as [cs kw st sl fl]. intros (Hcs & Hkw & Hst & Hsl). h_fields.
  unfold refsrc_Hasher_pop_stack, ref_pop_stack, rh_of_src. h_fields.
  unfold mu, mb, mi_cast, mi_sub. cbn [bind].
  destruct (1 <=? sl) eqn:E1; cbn [ref_at_site check bind]; [|apply rel_Panic].
  apply N.leb_le in E1. rewrite (cast64_small (sl - 1)) by lia.
  destruct (sl - 1 <? N.of_nat (length st)) eqn:E; cbn [check bind]; [|apply rel_Panic].
  apply N.ltb_lt in E.
  rewrite (arr2_get_indep st _ ref_zero_cv) by lia.
  match goal with |- rel_res _ _ (Ok ?a) _ => apply (rel_Ok h_cv h_cv_wt a) end.
  split; cbn [fst snd].
  - unfold wt_h. h_fields. split; [exact Hcs|]. split; [exact Hkw|]. split; [exact Hst|lia].
  - rewrite Forall_forall in Hst. apply Hst. apply nth_In. lia.
Qed.

Theorem refsrc_Hasher_pop_stack_eq h : wt_h h ->
  res_map h_cv (refsrc_Hasher_pop_stack h) = ref_pop_stack (rh_of_src h).
Proof. intros H. apply (refsrc_Hasher_pop_stack_rel h H). Qed.

(* ================= Hasher::add_chunk_chaining_value ================= *)
Lemma refsrc_parent_cv_length l r k fl : length (refsrc_parent_cv l r k fl) = 8%nat.
Proof.
  unfold refsrc_parent_cv, refsrc_Output_chaining_value. cbv zeta. apply refsrc_first8_compress_length.
Qed.

Definition h_cv3 (p : refsrc_Hasher * list N * N) : ref_hasher * list N := (rh_of_src (fst (fst p)), snd (fst p)).
Definition h_cv3_wt (p : refsrc_Hasher * list N * N) : Prop := wt_h (fst (fst p)) /\ length (snd (fst p)) = 8%nat.

(* the loop `while total_chunks & 1 == 0`, for every fuel *)
Lemma refsrc_add_cv_loop_rel : forall fuel h new_cv total_chunks, wt_h h -> length new_cv = 8%nat ->
  rel_res h_cv3 h_cv3_wt (refsrc_Hasher_add_chunk_chaining_value_loop1 fuel h new_cv total_chunks)
          (ref_add_cv_loop fuel (rh_of_src h) new_cv total_chunks).
Proof.
  induction fuel as [|fuel IH]; intros h cv tc Hh Hcv;
    cbn [refsrc_Hasher_add_chunk_chaining_value_loop1 ref_add_cv_loop];
    unfold mcmp, mb at 1, mi_and; cbn [bind];
    (destruct (N.land tc 1 =? 0); [|apply (rel_Ok h_cv3 h_cv3_wt (h, cv, tc)); split; assumption]).
  - apply rel_OutOfFuel.
  - apply (rel_bind h_cv h_cv3 h_cv_wt); [apply refsrc_Hasher_pop_stack_rel; exact Hh|].
    intros [h' left] [Hh' Hleft]. cbn [fst snd] in Hh', Hleft. cbn [h_cv fst snd]. cbv zeta.
    assert (Hk : length (refsrc_Hasher_key_words h') = 8%nat) by apply Hh'.
    change (rh_key_words (rh_of_src h')) with (refsrc_Hasher_key_words h').
    change (rh_flags (rh_of_src h')) with (refsrc_Hasher_flags h').
    rewrite (refsrc_parent_cv_eq left cv _ (refsrc_Hasher_flags h') Hleft Hcv Hk). cbn [bind].
    change (mb (mi_shr 64) (Ok tc) (Ok 1)) with (@Ok N (N.shiftr tc 1)). cbn [bind].
    apply IH; [exact Hh'|apply refsrc_parent_cv_length].
Qed.

Theorem refsrc_Hasher_add_cv_loop_eq fuel h new_cv total_chunks : wt_h h -> length new_cv = 8%nat ->
  res_map h_cv3 (refsrc_Hasher_add_chunk_chaining_value_loop1 fuel h new_cv total_chunks) =
  ref_add_cv_loop fuel (rh_of_src h) new_cv total_chunks.
Proof. intros H1 H2. apply (refsrc_add_cv_loop_rel fuel h new_cv total_chunks H1 H2). Qed.

(* the whole function, for every fuel, against the model's text with the fuel as a parameter *)
Lemma refsrc_add_chunk_cv_rel fuel h new_cv total_chunks : wt_h h -> length new_cv = 8%nat ->
  rel_res rh_of_src wt_h (refsrc_Hasher_add_chunk_chaining_value fuel h new_cv total_chunks)
          ('(h, new_cv) <- ref_add_cv_loop fuel (rh_of_src h) new_cv total_chunks ;; ref_push_stack h new_cv).
Proof.
  intros Hh Hcv. unfold refsrc_Hasher_add_chunk_chaining_value.
  apply (rel_bind h_cv3 rh_of_src h_cv3_wt); [apply refsrc_add_cv_loop_rel; assumption|].
  intros [[h' cv'] tc'] [Hh' Hcv']. cbn [fst snd] in Hh', Hcv'. cbn [h_cv3 fst snd].
  rewrite <- (bind_Ok_r (ref_push_stack (rh_of_src h') cv')).
  apply (rel_bind rh_of_src rh_of_src wt_h); [apply refsrc_Hasher_push_stack_rel; assumption|].
  intros a Ha. apply (rel_Ok rh_of_src wt_h a Ha).
Qed.

Theorem refsrc_Hasher_add_chunk_chaining_value_eq fuel h new_cv total_chunks : wt_h h -> length new_cv = 8%nat ->
  res_map rh_of_src (refsrc_Hasher_add_chunk_chaining_value fuel h new_cv total_chunks) =
  ('(h, new_cv) <- ref_add_cv_loop fuel (rh_of_src h) new_cv total_chunks ;; ref_push_stack h new_cv).
Proof. intros H1 H2. apply (refsrc_add_chunk_cv_rel fuel h new_cv total_chunks H1 H2). Qed.

(* the model runs its loop with fuel 320 *)
Theorem refsrc_Hasher_add_chunk_chaining_value_model h new_cv total_chunks : wt_h h -> length new_cv = 8%nat ->
  res_map rh_of_src (refsrc_Hasher_add_chunk_chaining_value ref_add_cv_fuel h new_cv total_chunks) =
  ref_add_chunk_chaining_value (rh_of_src h) new_cv total_chunks.
Proof. intros H1 H2. apply (refsrc_Hasher_add_chunk_chaining_value_eq _ h new_cv total_chunks H1 H2). Qed.

(* ================= the model's loops do not depend on their fuel once it suffices ================= *)
Ltac same_bind :=
  match goal with
  | |- bind ?m _ = bind ?m _ => let E := fresh "E" in destruct m eqn:E; cbn [bind]; [|reflexivity|reflexivity]
  end.

(* ChunkState::update consumes at least one byte per iteration *)
Lemma rcs_update_loop_fuel : forall f1 f2 cs input, (length input < f1)%nat -> (length input < f2)%nat ->
  rcs_update_loop f1 cs input = rcs_update_loop f2 cs input.
Proof.
  induction f1 as [|f1 IH]; intros f2 cs input H1 H2; [lia|].
  destruct f2 as [|f2]; [lia|]. destruct input as [|b tl]; [reflexivity|].
  cbn [rcs_update_loop]. set (input := b :: tl) in *.
  same_bind. rename a into cs'.
  assert (Hbl : rcs_block_len cs' <> ref_BLOCK_LEN).
  { destruct (rcs_block_len cs =? ref_BLOCK_LEN) eqn:Eb.
    - destruct (ref_words_from_le_bytes (rcs_block cs) 16); cbn [bind] in E; try discriminate.
      destruct (ref_compress _ _ _ _ _); cbn [bind] in E; try discriminate.
      destruct (mi_add 8 _ 1); cbn [bind] in E; try discriminate.
      injection E as <-. cbn [rcs_block_len]. discriminate.
    - injection E as <-. apply N.eqb_neq. exact Eb. }
  same_bind. rename a into want. do 2 same_bind. unfold mi_cast. cbn [bind]. same_bind.
  unfold mi_sub in E0. destruct (rcs_block_len cs' <=? ref_BLOCK_LEN) eqn:El; [|discriminate].
  injection E0 as <-. apply N.leb_le in El.
  assert (Ht : (1 <= N.to_nat (N.min (ref_BLOCK_LEN - rcs_block_len cs') (rlen input)))%nat).
  { unfold rlen, input. cbn [length]. lia. }
  assert (Hi : length input = S (length tl)) by reflexivity.
  apply IH; rewrite skipn_length; lia.
Qed.

(* add_chunk_chaining_value pops one entry per iteration *)
Lemma ref_add_cv_loop_fuel : forall f1 f2 h cv tc,
  (N.to_nat (rh_cv_stack_len h) < f1)%nat -> (N.to_nat (rh_cv_stack_len h) < f2)%nat ->
  ref_add_cv_loop f1 h cv tc = ref_add_cv_loop f2 h cv tc.
Proof.
  induction f1 as [|f1 IH]; intros f2 h cv tc H1 H2; [lia|].
  destruct f2 as [|f2]; [lia|]. cbn [ref_add_cv_loop].
  destruct (N.land tc 1 =? 0); [|reflexivity].
  same_bind. destruct a as [h' left].
  assert (Hl : rh_cv_stack_len h' = rh_cv_stack_len h - 1 /\ 1 <= rh_cv_stack_len h).
  { unfold ref_pop_stack in E. destruct (1 <=? rh_cv_stack_len h) eqn:E1; cbn [check bind] in E; [|discriminate].
    destruct (rh_cv_stack_len h - 1 <? N.of_nat (length (rh_cv_stack h))); cbn [check bind] in E; [|discriminate].
    injection E as <- _. cbn [rh_cv_stack_len]. split; [reflexivity|]. apply N.leb_le. exact E1. }
  same_bind. apply IH; lia.
Qed.

(* root_output_bytes: one block of 64 bytes per iteration *)
Lemma ref_root_loop_fuel : forall f1 f2 o k rem, rem <= 64 * N.of_nat f1 -> rem <= 64 * N.of_nat f2 ->
  ref_root_loop f1 o k rem = ref_root_loop f2 o k rem.
Proof.
  induction f1 as [|f1 IH]; intros f2 o k rem H1 H2.
  - replace rem with 0 by lia. destruct f2; reflexivity.
  - destruct f2 as [|f2]; [replace rem with 0 by lia; reflexivity|].
    cbn [ref_root_loop]. destruct (rem =? 0); [reflexivity|].
    same_bind. cbv zeta. same_bind. change (2 * ref_OUT_LEN) with 64.
    rewrite (IH f2) by lia. reflexivity.
Qed.

(* ================= Hasher::update ================= *)
(* with enough fuel, add_chunk_chaining_value is the model's (which runs its loop with fuel 320) *)
Lemma refsrc_add_chunk_cv_enough fuel h new_cv total_chunks : wt_h h -> length new_cv = 8%nat -> (256 <= fuel)%nat ->
  rel_res rh_of_src wt_h (refsrc_Hasher_add_chunk_chaining_value fuel h new_cv total_chunks)
          (ref_add_chunk_chaining_value (rh_of_src h) new_cv total_chunks).
Proof.
  intros Hh Hcv Hf. unfold ref_add_chunk_chaining_value.
  assert (Hl : (N.to_nat (rh_cv_stack_len (rh_of_src h)) < 256)%nat).
  { destruct Hh as (_ & _ & _ & Hl). cbn [rh_of_src rh_cv_stack_len]. lia. }
  rewrite (ref_add_cv_loop_fuel ref_add_cv_fuel fuel) by (unfold ref_add_cv_fuel; lia).
  apply refsrc_add_chunk_cv_rel; assumption.
Qed.

Definition h_pair (p : refsrc_Hasher * list N) : ref_hasher := rh_of_src (fst p).
Definition h_pair_wt (p : refsrc_Hasher * list N) : Prop := wt_h (fst p).

Lemma refsrc_update_loop_rel : forall f F h input, wt_h h ->
  (length input < f)%nat -> (length input + 256 < F)%nat ->
  rel_res h_pair h_pair_wt (refsrc_Hasher_update_loop1 F h input) (ref_update_loop f (rh_of_src h) input).
Proof.
  induction f as [|f IH]; intros F h input Hh Hf HF; [lia|].
  destruct F as [|F]; [lia|].
  destruct input as [|b tl].
  - cbn. apply (rel_Ok h_pair h_pair_wt (h, [])). exact Hh.
  - cbn [refsrc_Hasher_update_loop1 ref_update_loop].
    unfold mcmp at 1. cbn [bind]. rewrite nonempty_not_zero. cbn [negb bind].
    assert (Hi : length (b :: tl) = S (length tl)) by reflexivity.
    set (input := b :: tl) in *.
    assert (Hcs0 : wt_cs (refsrc_Hasher_chunk_state h)) by apply Hh.
    rewrite (refsrc_ChunkState_len_eq (refsrc_Hasher_chunk_state h)) by apply Hcs0.
    unfold mcmp at 1. cbn [bind].
    change (rh_chunk_state (rh_of_src h)) with (rcs_of_src (refsrc_Hasher_chunk_state h)).
    apply (rel_bind rh_of_src h_pair
             (fun a => wt_h a /\ rcs_len (rcs_of_src (refsrc_Hasher_chunk_state a)) <> ref_CHUNK_LEN)).
    + (* the complete chunk is finalized and the chunk state reset *)
      destruct (rcs_len (rcs_of_src (refsrc_Hasher_chunk_state h)) =? ref_CHUNK_LEN) eqn:El.
      2:{ apply (rel_Ok rh_of_src _ h). split; [exact Hh|]. apply N.eqb_neq. exact El. }
      apply (rel_bind ro_of_src rh_of_src wt_out); [apply refsrc_ChunkState_output_rel; exact Hcs0|].
      intros o Ho. rewrite (refsrc_Output_chaining_value_eq o) by apply Ho. cbn [bind].
      unfold mb at 1. cbn [bind].
      change (rcs_chunk_counter (rcs_of_src (refsrc_Hasher_chunk_state h)))
        with (refsrc_ChunkState_chunk_counter (refsrc_Hasher_chunk_state h)).
      destruct (mi_add 64 (refsrc_ChunkState_chunk_counter (refsrc_Hasher_chunk_state h)) 1) as [total| |];
        cbn [bind]; [|apply rel_Panic|apply rel_OutOfFuel].
      apply (rel_bind rh_of_src rh_of_src wt_h).
      { apply refsrc_add_chunk_cv_enough; [exact Hh| |lia].
        unfold refsrc_Output_chaining_value. cbv zeta. apply refsrc_first8_compress_length. }
      intros h2 Hh2.
      match goal with |- rel_res _ _ (Ok ?a) _ => apply (rel_Ok rh_of_src _ a) end.
      destruct h2 as [cs2 kw2 st2 sl2 fl2]. destruct Hh2 as (Hcs2 & Hkw2 & Hst2 & Hsl2). h_fields.
      split; [|discriminate].
      split; [apply refsrc_ChunkState_new_wt; exact Hkw2|]. split; [exact Hkw2|]. split; assumption.
    + intros h1 [Hh1 Hlen].
      assert (Hcs1 : wt_cs (refsrc_Hasher_chunk_state h1)) by apply Hh1.
      rewrite (refsrc_ChunkState_len_eq (refsrc_Hasher_chunk_state h1)) by apply Hcs1.
      change (rh_chunk_state (rh_of_src h1)) with (rcs_of_src (refsrc_Hasher_chunk_state h1)).
      set (l := rcs_len (rcs_of_src (refsrc_Hasher_chunk_state h1))) in *.
      unfold mb, mi_min, mi_sub. cbn [bind].
      destruct (l <=? ref_CHUNK_LEN) eqn:El; cbn [bind]; [|apply rel_Panic].
      apply N.leb_le in El. unfold rlen.
      set (take := N.min (ref_CHUNK_LEN - l) (N.of_nat (length input))).
      assert (Ht : 1 <= take <= N.of_nat (length input)) by lia.
      replace (take <=? N.of_nat (length input)) with true by (symmetry; apply N.leb_le; lia).
      cbn [check bind].
      assert (Hp : (length (firstn (N.to_nat take) input) <= length input)%nat) by (rewrite firstn_length; lia).
      apply (rel_bind rcs_of_src h_pair wt_cs).
      * unfold rcs_update. rewrite (rcs_update_loop_fuel _ F) by lia.
        apply refsrc_ChunkState_update_rel. exact Hcs1.
      * intros cs2 Hcs2.
        replace (rh_with_cs (rh_of_src h1) (rcs_of_src cs2))
          with (rh_of_src (refsrc_Hasher_set_chunk_state h1 cs2)) by reflexivity.
        apply IH.
        -- destruct h1 as [cs1 kw1 st1 sl1 fl1]. destruct Hh1 as (_ & Hkw1 & Hst1 & Hsl1). h_fields.
           split; [exact Hcs2|]. split; [exact Hkw1|]. split; assumption.
        -- rewrite skipn_length. lia.
        -- rewrite skipn_length. lia.
Qed.

(* Hasher::update with enough fuel is the model's ref_update (whose loop has fuel S (length input), and whose inner
   loops have fuels of their own) *)
Lemma refsrc_Hasher_update_rel fuel h input : wt_h h -> (length input + 256 < fuel)%nat ->
  rel_res rh_of_src wt_h (refsrc_Hasher_update fuel h input) (ref_update (rh_of_src h) input).
Proof.
  intros Hh Hf. unfold refsrc_Hasher_update, ref_update.
  destruct (refsrc_update_loop_rel (S (length input)) fuel h input Hh ltac:(lia) Hf) as [E W].
  rewrite <- E. unfold res_map, h_pair.
  destruct (refsrc_Hasher_update_loop1 fuel h input) as [[h' i]| |]; cbn [bind];
    [|apply rel_Panic|apply rel_OutOfFuel].
  apply (rel_Ok rh_of_src wt_h h'). apply (W (h', i)). reflexivity.
Qed.

Theorem refsrc_Hasher_update_eq fuel h input : wt_h h -> (length input + 256 < fuel)%nat ->
  res_map rh_of_src (refsrc_Hasher_update fuel h input) = ref_update (rh_of_src h) input.
Proof. intros H1 H2. apply (refsrc_Hasher_update_rel fuel h input H1 H2). Qed.

(* ================= Hasher::finalize ================= *)
Definition o_pair (p : refsrc_Output * N) : ref_output := ro_of_src (fst p).
Definition o_pair_wt (p : refsrc_Output * N) : Prop := wt_out (fst p).

(* the loop `while parent_nodes_remaining > 0`; the model recurses on the counter itself *)
Lemma refsrc_finalize_loop_rel : forall F h os o n, wt_h h -> wt_out o -> (N.to_nat n <= F)%nat ->
  rel_res o_pair o_pair_wt (refsrc_Hasher_finalize_loop1 F h os o n)
          (ref_finalize_loop (N.to_nat n) (rh_of_src h) (ro_of_src o)).
Proof.
  induction F as [|F IH]; intros h os o n Hh Ho Hn.
  - replace n with 0 by lia. cbn. apply (rel_Ok o_pair o_pair_wt (o, 0)). exact Ho.
  - cbn [refsrc_Hasher_finalize_loop1]. unfold mcmp, mb, mi_sub. cbn [bind].
    destruct (0 <? n) eqn:E0.
    2:{ apply N.ltb_ge in E0. replace n with 0 by lia. cbn. apply (rel_Ok o_pair o_pair_wt (o, 0)). exact Ho. }
    apply N.ltb_lt in E0. replace (1 <=? n) with true by (symmetry; apply N.leb_le; lia). cbn [bind].
    replace (N.to_nat n) with (S (N.to_nat (n - 1))) by lia. cbn [ref_finalize_loop].
    rewrite N2Nat.id. change (rh_cv_stack (rh_of_src h)) with (refsrc_Hasher_cv_stack h).
    destruct (n - 1 <? N.of_nat (length (refsrc_Hasher_cv_stack h))) eqn:E; cbn [check bind]; [|apply rel_Panic].
    apply N.ltb_lt in E.
    rewrite (refsrc_Output_chaining_value_eq o) by apply Ho. cbn [bind].
    assert (Hst : Forall (fun cv => length cv = 8%nat) (refsrc_Hasher_cv_stack h)) by apply Hh.
    assert (Hl : length (arr2_get (refsrc_Hasher_cv_stack h) (N.to_nat (n - 1))) = 8%nat).
    { rewrite Forall_forall in Hst. apply Hst. apply nth_In. lia. }
    assert (Hr : length (refsrc_Output_chaining_value o) = 8%nat).
    { unfold refsrc_Output_chaining_value. cbv zeta. apply refsrc_first8_compress_length. }
    rewrite <- (arr2_get_indep (refsrc_Hasher_cv_stack h) _ ref_zero_cv) by lia.
    change (rh_key_words (rh_of_src h)) with (refsrc_Hasher_key_words h).
    change (rh_flags (rh_of_src h)) with (refsrc_Hasher_flags h).
    rewrite <- (refsrc_parent_output_eq _ _ (refsrc_Hasher_key_words h) (refsrc_Hasher_flags h) Hl Hr).
    apply IH; [exact Hh| |lia].
    split.
    + apply Hh.
    + change (refsrc_Output_block_words (refsrc_parent_output ?l ?r ?k ?f))
        with (ro_block_words (ro_of_src (refsrc_parent_output l r k f))).
      rewrite (refsrc_parent_output_eq _ _ _ _ Hl Hr). cbn [ref_parent_output ro_block_words].
      rewrite app_length, Hl, Hr. reflexivity.
Qed.

(* with enough fuel, finalize is the model's ref_finalize (for an output of the length of out_slice) *)
Theorem refsrc_Hasher_finalize_eq fuel h out_slice : wt_h h ->
  (256 <= fuel)%nat -> (length out_slice <= 64 * fuel)%nat ->
  refsrc_Hasher_finalize fuel h out_slice = ref_finalize (rh_of_src h) (rlen out_slice).
Proof.
  intros Hh Hf Ho. unfold refsrc_Hasher_finalize, ref_finalize.
  assert (Hcs : wt_cs (refsrc_Hasher_chunk_state h)) by apply Hh.
  destruct (refsrc_ChunkState_output_rel _ Hcs) as [E W].
  change (rh_chunk_state (rh_of_src h)) with (rcs_of_src (refsrc_Hasher_chunk_state h)). rewrite <- E.
  destruct (refsrc_ChunkState_output (refsrc_Hasher_chunk_state h)) as [o| |]; cbn [res_map bind]; try reflexivity.
  specialize (W o eq_refl). cbv zeta.
  assert (Hsl : refsrc_Hasher_cv_stack_len h < 256) by apply Hh.
  unfold mu, mi_cast. cbn [bind]. rewrite cast64_small by lia.
  change (rh_cv_stack_len (rh_of_src h)) with (refsrc_Hasher_cv_stack_len h).
  destruct (refsrc_finalize_loop_rel fuel h out_slice o (refsrc_Hasher_cv_stack_len h) Hh W ltac:(lia)) as [E2 W2].
  rewrite <- E2.
  destruct (refsrc_Hasher_finalize_loop1 fuel h out_slice o (refsrc_Hasher_cv_stack_len h)) as [[o2 n2]| |];
    cbn [res_map bind]; try reflexivity.
  specialize (W2 (o2, n2) eq_refl). cbn [o_pair fst].
  rewrite (refsrc_Output_root_output_bytes_eq o2 fuel out_slice W2). rewrite bind_Ok_r.
  unfold ro_root_output_bytes. apply ref_root_loop_fuel; unfold rlen.
  - lia.
  - assert (N.of_nat (length out_slice) / 64 * 64 <= N.of_nat (length out_slice))
      by (rewrite N.mul_comm; apply N.mul_div_le; lia).
    pose proof (N.mod_lt (N.of_nat (length out_slice)) 64 ltac:(lia)).
    pose proof (N.div_mod (N.of_nat (length out_slice)) 64 ltac:(lia)). lia.
Qed.

(* ================= Hasher::new_derive_key ================= *)
Lemma refsrc_Hasher_new_derive_key_rel fuel context : (length context + 256 < fuel)%nat ->
  rel_res rh_of_src wt_h (refsrc_Hasher_new_derive_key fuel context) (ref_new_derive_key context).
Proof.
  intros Hf. unfold refsrc_Hasher_new_derive_key, ref_new_derive_key. cbv zeta.
  rewrite <- refsrc_Hasher_new_internal_eq.
  assert (H0 : wt_h (refsrc_Hasher_new_internal ref_IV ref_flag_DERIVE_KEY_CONTEXT))
    by (apply refsrc_Hasher_new_internal_wt; reflexivity).
  apply (rel_bind rh_of_src rh_of_src wt_h); [apply refsrc_Hasher_update_rel; assumption|].
  intros h Hh.
  rewrite (refsrc_Hasher_finalize_eq fuel h (repeat 0 (N.to_nat ref_KEY_LEN)) Hh) 
    by (try rewrite repeat_length; try change (N.to_nat ref_KEY_LEN) with 32%nat; lia).
  change (rlen (repeat 0 (N.to_nat ref_KEY_LEN))) with ref_KEY_LEN.
  destruct (ref_finalize (rh_of_src h) ref_KEY_LEN) as [ck| |]; cbn [bind]; [|apply rel_Panic|apply rel_OutOfFuel].
  change 8%nat with (length (repeat 0 (N.to_nat 8))) at 1.
  rewrite refsrc_words_from_le_bytes_model.
  destruct (refsrc_words_from_little_endian_bytes_debug_assert ck (repeat 0 (N.to_nat 8))) eqn:Ed;
    cbn [check bind]; [|apply rel_Panic].
  match goal with |- rel_res _ _ (Ok ?a) _ => apply (rel_Ok rh_of_src wt_h a) end.
  apply refsrc_Hasher_new_internal_wt.
  unfold refsrc_words_from_little_endian_bytes_debug_assert in Ed. apply Nat.eqb_eq in Ed.
  rewrite (refsrc_words_from_le_bytes_eq _ _ Ed). apply words_of_bytes_length. exact Ed.
Qed.

Theorem refsrc_Hasher_new_derive_key_eq fuel context : (length context + 256 < fuel)%nat ->
  res_map rh_of_src (refsrc_Hasher_new_derive_key fuel context) = ref_new_derive_key context.
Proof. intros H. apply (refsrc_Hasher_new_derive_key_rel fuel context H). Qed.

(* ================= the whole translated reference implementation ================= *)
(* a run: constructor of the mode, one Hasher::update per piece, Hasher::finalize into out_slice.  Every function
   below is the translation of the source (gen/GenRefImpl.v, gen/GenRefImplLoops.v). *)
Inductive refsrc_mode :=
| SrcHash
| SrcKeyed (key : list N)
| SrcDerive (context : list N).

Definition refsrc_new_mode (fuel : nat) (m : refsrc_mode) : res refsrc_Hasher :=
  match m with
  | SrcHash => Ok refsrc_Hasher_new
  | SrcKeyed k => refsrc_Hasher_new_keyed k
  | SrcDerive c => refsrc_Hasher_new_derive_key fuel c
  end.

Fixpoint refsrc_update_all (fuel : nat) (h : refsrc_Hasher) (pieces : list (list N)) : res refsrc_Hasher :=
  match pieces with
  | [] => Ok h
  | p :: tl => h <- refsrc_Hasher_update fuel h p ;; refsrc_update_all fuel h tl
  end.

Definition refsrc_run (fuel : nat) (m : refsrc_mode) (pieces : list (list N)) (out_slice : list N) : res (list N) :=
  h <- refsrc_new_mode fuel m ;;
  h <- refsrc_update_all fuel h pieces ;;
  refsrc_Hasher_finalize fuel h out_slice.

Definition refsrc_spec_mode (m : refsrc_mode) : mode :=
  match m with
  | SrcHash => Hash
  | SrcKeyed k => KeyedHash k
  | SrcDerive c => DeriveKeyMaterial (b3_hash_mode DeriveKeyContext c)
  end.

(* keys are 32 bytes; context strings are shorter than 2^64 bytes *)
Definition refsrc_mode_ok (m : refsrc_mode) : Prop :=
  match m with
  | SrcHash => True
  | SrcKeyed k => length k = 32%nat /\ Forall (fun b => b < 256) k
  | SrcDerive c => len c < 2 ^ 64
  end.

Definition refsrc_context_len (m : refsrc_mode) : nat :=
  match m with SrcDerive c => length c | _ => 0%nat end.

(* enough fuel for every loop of the run (generous: one unit per input / context / output byte plus 257) *)
Definition refsrc_fuel_ok (fuel : nat) (m : refsrc_mode) (pieces : list (list N)) (out_slice : list N) : Prop :=
  (length (concat pieces) + refsrc_context_len m + length out_slice + 256 < fuel)%nat.

Definition ref_mode_of_src (m : refsrc_mode) : ref_mode :=
  match m with SrcHash => RHash | SrcKeyed k => RKeyed k | SrcDerive c => RDerive c end.

Lemma refsrc_new_mode_rel fuel m : (refsrc_context_len m + 256 < fuel)%nat ->
  rel_res rh_of_src wt_h (refsrc_new_mode fuel m) (ref_new_mode (ref_mode_of_src m)).
Proof.
  intros Hf. destruct m as [|k|c]; cbn [refsrc_new_mode ref_new_mode ref_mode_of_src refsrc_context_len] in *.
  - apply (rel_Ok rh_of_src wt_h refsrc_Hasher_new). apply refsrc_Hasher_new_internal_wt. reflexivity.
  - split; [apply refsrc_Hasher_new_keyed_eq|].
    unfold refsrc_Hasher_new_keyed. cbv zeta.
    destruct (refsrc_words_from_little_endian_bytes_debug_assert k (repeat 0 (N.to_nat 8))) eqn:Ed;
      cbn [check bind]; [|discriminate].
    intros a [= <-]. apply refsrc_Hasher_new_internal_wt.
    unfold refsrc_words_from_little_endian_bytes_debug_assert in Ed. apply Nat.eqb_eq in Ed.
    change [0; 0; 0; 0; 0; 0; 0; 0] with (repeat 0 (N.to_nat 8)).
    rewrite (refsrc_words_from_le_bytes_eq _ _ Ed). apply words_of_bytes_length. exact Ed.
  - apply refsrc_Hasher_new_derive_key_rel. exact Hf.
Qed.

Lemma refsrc_update_all_rel fuel : forall pieces h, wt_h h -> (length (concat pieces) + 256 < fuel)%nat ->
  rel_res rh_of_src wt_h (refsrc_update_all fuel h pieces) (ref_update_all (rh_of_src h) pieces).
Proof.
  induction pieces as [|p tl IH]; intros h Hh Hf; cbn [refsrc_update_all ref_update_all].
  - apply (rel_Ok rh_of_src wt_h h Hh).
  - cbn [concat] in Hf. rewrite app_length in Hf.
    apply (rel_bind rh_of_src rh_of_src wt_h); [apply refsrc_Hasher_update_rel; [exact Hh|lia]|].
    intros h' Hh'. apply IH; [exact Hh'|lia].
Qed.

(* the translated run is the model's run *)
Theorem refsrc_run_model fuel m pieces out_slice : refsrc_fuel_ok fuel m pieces out_slice ->
  refsrc_run fuel m pieces out_slice = ref_run (ref_mode_of_src m) pieces (rlen out_slice).
Proof.
  unfold refsrc_fuel_ok. intros Hf. unfold refsrc_run, ref_run.
  destruct (refsrc_new_mode_rel fuel m ltac:(lia)) as [E W]. rewrite <- E.
  destruct (refsrc_new_mode fuel m) as [h| |]; cbn [res_map bind]; try reflexivity.
  specialize (W h eq_refl).
  destruct (refsrc_update_all_rel fuel pieces h W ltac:(lia)) as [E2 W2]. rewrite <- E2.
  destruct (refsrc_update_all fuel h pieces) as [h2| |]; cbn [res_map bind]; try reflexivity.
  apply refsrc_Hasher_finalize_eq; [apply W2; reflexivity|lia|lia].
Qed.

(* THE TRANSLATED REFERENCE IMPLEMENTATION COMPUTES THE SPECIFICATION: every mode, every split of the input into
   update pieces (below 2^64 bytes in all), every output length.  No hand-written model in the statement. *)
Theorem refsrc_run_spec fuel m pieces out_slice :
  refsrc_mode_ok m -> len (concat pieces) < 2 ^ 64 -> len out_slice < 2 ^ 64 ->
  refsrc_fuel_ok fuel m pieces out_slice ->
  refsrc_run fuel m pieces out_slice =
  Ok (b3_xof_mode (refsrc_spec_mode m) (concat pieces) 0 (length out_slice)).
Proof.
  intros Hm H64 Ho Hf. rewrite (refsrc_run_model fuel m pieces out_slice Hf).
  rewrite (ref_refines (ref_mode_of_src m) pieces (rlen out_slice)).
  - unfold rlen. rewrite Nat2N.id. destruct m; reflexivity.
  - destruct m; exact Hm.
  - exact H64.
  - exact Ho.
Qed.

(* ================= any fuel: OutOfFuel or the value computed with more fuel ================= *)
Lemma approx_refl {A} (r : res A) : fuel_approx r r.
Proof. right. reflexivity. Qed.

Lemma approx_OOF {A} (m : res A) : fuel_approx OutOfFuel m.
Proof. left. reflexivity. Qed.

Lemma approx_bind {A B} (m1 m2 : res A) (k1 k2 : A -> res B) :
  fuel_approx m1 m2 -> (forall a, fuel_approx (k1 a) (k2 a)) -> fuel_approx (bind m1 k1) (bind m2 k2).
Proof.
  intros [->| ->] Hk; [left; reflexivity|]. destruct m2 as [a| |]; cbn [bind]; [apply Hk|right|right]; reflexivity.
Qed.

Lemma approx_map {A B} (g : A -> B) (r m : res A) : fuel_approx r m -> fuel_approx (res_map g r) (res_map g m).
Proof. intros H. apply approx_bind; [exact H|]. intros a. apply approx_refl. Qed.

Lemma approx_eq {A} (r m m' : res A) : fuel_approx r m -> m = m' -> fuel_approx r m'.
Proof. intros H <-. exact H. Qed.

Ltac approx_step tac :=
  first
  [ apply approx_refl
  | apply approx_OOF
  | tac
  | match goal with
    | |- fuel_approx (if ?b then _ else _) (if ?b then _ else _) => destruct b
    | |- fuel_approx (match ?x with (_, _) => _ end) (match ?x with (_, _) => _ end) => destruct x
    end
  | apply approx_bind; [|intros ?] ].

Lemma refsrc_root_loop_mono : forall F F' o os ctr t, (F <= F')%nat ->
  fuel_approx (refsrc_Output_root_output_bytes_loop2 F o os ctr t) (refsrc_Output_root_output_bytes_loop2 F' o os ctr t).
Proof.
  induction F as [|F IH]; intros F' o os ctr t H.
  - destruct F'; cbn [refsrc_Output_root_output_bytes_loop2]; repeat approx_step fail.
  - destruct F' as [|F']; [lia|]. cbn [refsrc_Output_root_output_bytes_loop2]. cbv zeta.
    repeat approx_step ltac:(apply IH; lia).
Qed.

Lemma refsrc_root_output_bytes_mono F F' o os : (F <= F')%nat ->
  fuel_approx (refsrc_Output_root_output_bytes F o os) (refsrc_Output_root_output_bytes F' o os).
Proof.
  intros H. unfold refsrc_Output_root_output_bytes. cbv zeta.
  repeat approx_step ltac:(apply refsrc_root_loop_mono; exact H).
Qed.

Lemma refsrc_cs_update_loop_mono : forall F F' cs input, (F <= F')%nat ->
  fuel_approx (refsrc_ChunkState_update_loop1 F cs input) (refsrc_ChunkState_update_loop1 F' cs input).
Proof.
  induction F as [|F IH]; intros F' cs input H.
  - destruct F'; cbn [refsrc_ChunkState_update_loop1]; repeat approx_step fail.
  - destruct F' as [|F']; [lia|]. cbn [refsrc_ChunkState_update_loop1]. cbv zeta.
    repeat approx_step ltac:(apply IH; lia).
Qed.

Lemma refsrc_cs_update_mono F F' cs input : (F <= F')%nat ->
  fuel_approx (refsrc_ChunkState_update F cs input) (refsrc_ChunkState_update F' cs input).
Proof.
  intros H. unfold refsrc_ChunkState_update. repeat approx_step ltac:(apply refsrc_cs_update_loop_mono; exact H).
Qed.

Lemma refsrc_add_cv_loop_mono : forall F F' h cv tc, (F <= F')%nat ->
  fuel_approx (refsrc_Hasher_add_chunk_chaining_value_loop1 F h cv tc)
              (refsrc_Hasher_add_chunk_chaining_value_loop1 F' h cv tc).
Proof.
  induction F as [|F IH]; intros F' h cv tc H.
  - destruct F'; cbn [refsrc_Hasher_add_chunk_chaining_value_loop1]; repeat approx_step fail.
  - destruct F' as [|F']; [lia|]. cbn [refsrc_Hasher_add_chunk_chaining_value_loop1]. cbv zeta.
    repeat approx_step ltac:(apply IH; lia).
Qed.

Lemma refsrc_add_chunk_cv_mono F F' h cv tc : (F <= F')%nat ->
  fuel_approx (refsrc_Hasher_add_chunk_chaining_value F h cv tc) (refsrc_Hasher_add_chunk_chaining_value F' h cv tc).
Proof.
  intros H. unfold refsrc_Hasher_add_chunk_chaining_value.
  repeat approx_step ltac:(apply refsrc_add_cv_loop_mono; exact H).
Qed.

Lemma refsrc_update_loop_mono : forall F F' h input, (F <= F')%nat ->
  fuel_approx (refsrc_Hasher_update_loop1 F h input) (refsrc_Hasher_update_loop1 F' h input).
Proof.
  induction F as [|F IH]; intros F' h input H.
  - destruct F'; cbn [refsrc_Hasher_update_loop1]; repeat approx_step fail.
  - destruct F' as [|F']; [lia|]. cbn [refsrc_Hasher_update_loop1]. cbv zeta.
    repeat approx_step ltac:(first [apply IH; lia | apply refsrc_add_chunk_cv_mono; lia
                                   | apply refsrc_cs_update_mono; lia]).
Qed.

Lemma refsrc_Hasher_update_mono F F' h input : (F <= F')%nat ->
  fuel_approx (refsrc_Hasher_update F h input) (refsrc_Hasher_update F' h input).
Proof.
  intros H. unfold refsrc_Hasher_update. repeat approx_step ltac:(apply refsrc_update_loop_mono; exact H).
Qed.

Lemma refsrc_finalize_loop_mono : forall F F' h os o n, (F <= F')%nat ->
  fuel_approx (refsrc_Hasher_finalize_loop1 F h os o n) (refsrc_Hasher_finalize_loop1 F' h os o n).
Proof.
  induction F as [|F IH]; intros F' h os o n H.
  - destruct F'; cbn [refsrc_Hasher_finalize_loop1]; repeat approx_step fail.
  - destruct F' as [|F']; [lia|]. cbn [refsrc_Hasher_finalize_loop1]. cbv zeta.
    repeat approx_step ltac:(apply IH; lia).
Qed.

Lemma refsrc_Hasher_finalize_mono F F' h os : (F <= F')%nat ->
  fuel_approx (refsrc_Hasher_finalize F h os) (refsrc_Hasher_finalize F' h os).
Proof.
  intros H. unfold refsrc_Hasher_finalize. cbv zeta.
  repeat approx_step ltac:(first [apply refsrc_finalize_loop_mono; exact H | apply refsrc_root_output_bytes_mono; exact H]).
Qed.

Lemma refsrc_Hasher_new_derive_key_mono F F' c : (F <= F')%nat ->
  fuel_approx (refsrc_Hasher_new_derive_key F c) (refsrc_Hasher_new_derive_key F' c).
Proof.
  intros H. unfold refsrc_Hasher_new_derive_key. cbv zeta.
  repeat approx_step ltac:(first [apply refsrc_Hasher_update_mono; exact H | apply refsrc_Hasher_finalize_mono; exact H]).
Qed.

Lemma approx_enough {A B} (g : A -> B) (tr : nat -> res A) (m : res B) (bound : nat) :
  (forall F F', (F <= F')%nat -> fuel_approx (tr F) (tr F')) ->
  (forall F, (bound <= F)%nat -> res_map g (tr F) = m) ->
  forall F, fuel_approx (res_map g (tr F)) m.
Proof.
  intros Hm He F. apply (approx_eq _ (res_map g (tr (Nat.max F bound)))).
  - apply approx_map, Hm. lia.
  - apply He. lia.
Qed.

Lemma approx_enough0 {A} (tr : nat -> res A) (m : res A) (bound : nat) :
  (forall F F', (F <= F')%nat -> fuel_approx (tr F) (tr F')) ->
  (forall F, (bound <= F)%nat -> tr F = m) ->
  forall F, fuel_approx (tr F) m.
Proof.
  intros Hm He F. apply (approx_eq _ (tr (Nat.max F bound))); [apply Hm|apply He]; lia.
Qed.

(* ---- every fuel: the translated function is OutOfFuel or the model's function ---- *)
Theorem refsrc_Output_root_output_bytes_any_fuel fuel o out_slice : wt_out o ->
  fuel_approx (refsrc_Output_root_output_bytes fuel o out_slice) (ro_root_output_bytes (ro_of_src o) (rlen out_slice)).
Proof.
  intros H. revert fuel.
  apply (approx_enough0 (fun F => refsrc_Output_root_output_bytes F o out_slice) _ (S (length out_slice))).
  - intros F F' HF. apply refsrc_root_output_bytes_mono. exact HF.
  - intros F HF. rewrite (refsrc_Output_root_output_bytes_eq o F out_slice H).
    unfold ro_root_output_bytes. apply ref_root_loop_fuel; unfold rlen.
    + lia.
    + pose proof (N.mod_lt (N.of_nat (length out_slice)) 64 ltac:(lia)).
      pose proof (N.div_mod (N.of_nat (length out_slice)) 64 ltac:(lia)). lia.
Qed.

Theorem refsrc_ChunkState_update_any_fuel fuel cs input : wt_cs cs ->
  fuel_approx (res_map rcs_of_src (refsrc_ChunkState_update fuel cs input)) (rcs_update (rcs_of_src cs) input).
Proof.
  intros H. revert fuel. apply (approx_enough rcs_of_src _ _ (S (length input))).
  - intros F F' HF. apply refsrc_cs_update_mono. exact HF.
  - intros F HF. rewrite (refsrc_ChunkState_update_eq F cs input H). unfold rcs_update.
    apply rcs_update_loop_fuel; lia.
Qed.

Theorem refsrc_Hasher_add_chunk_chaining_value_any_fuel fuel h new_cv total_chunks :
  wt_h h -> length new_cv = 8%nat ->
  fuel_approx (res_map rh_of_src (refsrc_Hasher_add_chunk_chaining_value fuel h new_cv total_chunks))
              (ref_add_chunk_chaining_value (rh_of_src h) new_cv total_chunks).
Proof.
  intros H1 H2. revert fuel. apply (approx_enough rh_of_src _ _ 256%nat).
  - intros F F' HF. apply refsrc_add_chunk_cv_mono. exact HF.
  - intros F HF. apply (refsrc_add_chunk_cv_enough F h new_cv total_chunks H1 H2 HF).
Qed.

Theorem refsrc_Hasher_update_any_fuel fuel h input : wt_h h ->
  fuel_approx (res_map rh_of_src (refsrc_Hasher_update fuel h input)) (ref_update (rh_of_src h) input).
Proof.
  intros H. revert fuel. apply (approx_enough rh_of_src _ _ (length input + 257)%nat).
  - intros F F' HF. apply refsrc_Hasher_update_mono. exact HF.
  - intros F HF. apply refsrc_Hasher_update_eq; [exact H|lia].
Qed.

Theorem refsrc_Hasher_finalize_any_fuel fuel h out_slice : wt_h h ->
  fuel_approx (refsrc_Hasher_finalize fuel h out_slice) (ref_finalize (rh_of_src h) (rlen out_slice)).
Proof.
  intros H. revert fuel.
  apply (approx_enough0 (fun F => refsrc_Hasher_finalize F h out_slice) _ (length out_slice + 256)%nat).
  - intros F F' HF. apply refsrc_Hasher_finalize_mono. exact HF.
  - intros F HF. apply refsrc_Hasher_finalize_eq; [exact H|lia|lia].
Qed.

Theorem refsrc_Hasher_new_derive_key_any_fuel fuel context :
  fuel_approx (res_map rh_of_src (refsrc_Hasher_new_derive_key fuel context)) (ref_new_derive_key context).
Proof.
  revert fuel. apply (approx_enough rh_of_src _ _ (length context + 257)%nat).
  - intros F F' HF. apply refsrc_Hasher_new_derive_key_mono. exact HF.
  - intros F HF. apply refsrc_Hasher_new_derive_key_eq. lia.
Qed.

Lemma refsrc_update_all_mono F F' : (F <= F')%nat -> forall pieces h,
  fuel_approx (refsrc_update_all F h pieces) (refsrc_update_all F' h pieces).
Proof.
  intros H. induction pieces as [|p tl IH]; intros h; cbn [refsrc_update_all]; [apply approx_refl|].
  apply approx_bind; [apply refsrc_Hasher_update_mono; exact H|]. intros a. apply IH.
Qed.

Lemma refsrc_run_mono F F' m pieces os : (F <= F')%nat ->
  fuel_approx (refsrc_run F m pieces os) (refsrc_run F' m pieces os).
Proof.
  intros H. unfold refsrc_run. apply approx_bind.
  - destruct m; cbn [refsrc_new_mode]; try apply approx_refl. apply refsrc_Hasher_new_derive_key_mono. exact H.
  - intros h. apply approx_bind; [apply refsrc_update_all_mono; exact H|].
    intros h2. apply refsrc_Hasher_finalize_mono. exact H.
Qed.

(* with any fuel the translated run is OutOfFuel or the specification's output: never a wrong value or a Panic *)
Theorem refsrc_run_any_fuel fuel m pieces out_slice :
  refsrc_mode_ok m -> len (concat pieces) < 2 ^ 64 -> len out_slice < 2 ^ 64 ->
  fuel_approx (refsrc_run fuel m pieces out_slice)
              (Ok (b3_xof_mode (refsrc_spec_mode m) (concat pieces) 0 (length out_slice))).
Proof.
  intros Hm H64 Ho. revert fuel.
  apply (approx_enough0 (fun F => refsrc_run F m pieces out_slice) _
           (length (concat pieces) + refsrc_context_len m + length out_slice + 257)%nat).
  - intros F F' HF. apply refsrc_run_mono. exact HF.
  - intros F HF. apply refsrc_run_spec; try assumption. unfold refsrc_fuel_ok. lia.
Qed.

(* non-vacuity: the translated functions run (a keyed hash of 1500 bytes in two pieces, 70 output bytes) *)
Example refsrc_run_example :
  let key := map N.of_nat (seq 0 32) in
  let pieces := [map (fun i => N.of_nat i mod 251) (seq 0 1100); map (fun i => N.of_nat i mod 251) (seq 1100 400)] in
  is_ok (refsrc_run 2000 (SrcKeyed key) pieces (repeat 0 70)) = true /\
  refsrc_fuel_ok 2000 (SrcKeyed key) pieces (repeat 0 70) /\ refsrc_mode_ok (SrcKeyed key).
Proof.
  cbv zeta. split; [vm_compute; reflexivity|]. split.
  - unfold refsrc_fuel_ok. vm_compute. lia.
  - split; [reflexivity|]. repeat constructor.
Qed.

(* ---- a successful Hasher::update keeps the declared types (any fuel) ---- *)
Lemma approx_Ok {A} (r m : res A) a : fuel_approx r m -> r = Ok a -> m = Ok a.
Proof. intros [->| ->] H; [discriminate|exact H]. Qed.

Theorem refsrc_Hasher_update_wt fuel h input h' : wt_h h ->
  refsrc_Hasher_update fuel h input = Ok h' -> wt_h h'.
Proof.
  intros Hh E.
  pose proof (refsrc_Hasher_update_mono fuel (Nat.max fuel (length input + 257)) h input ltac:(lia)) as Hm.
  apply (approx_Ok _ _ h' Hm) in E.
  apply (proj2 (refsrc_Hasher_update_rel (Nat.max fuel (length input + 257)) h input Hh ltac:(lia)) h' E).
Qed.
