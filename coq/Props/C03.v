(* C03: extended output is one coherent, seekable byte stream.
   Statements only; proofs in Proofs/XofP.v.  `stream spec_c64 o p n` is the
   specification's S[p .. p+n) of the root output o (Spec/Tree.v): byte i of S is
   byte (i mod 64) of the root compression with output counter i / 64. *)
From Coq Require Import NArith ZArith List Bool.
From V Require Import Base.Res Base.Word Spec.Compress Spec.Tree Spec.Blake3
  Model.Platform Model.RsChunk Model.RsHasher Model.RsXof Proofs.XofP Proofs.IoP Proofs.C02P.
Import ListNotations.
Open Scope N_scope.

(* fill / Read::read: returns S[p..p+n), advances to p+n, for any n with p+n <= 2^64-1 *)
Theorem C03_fill_spec : forall p, PlatformOK p -> forall r o pos n,
  Rd r o pos -> pos + n <= 2 ^ 64 - 1 ->
  exists r', reader_fill p r n = Ok (r', stream spec_c64 o pos (N.to_nat n)) /\ Rd r' o (pos + n).
Proof. exact reader_fill_spec. Qed.

Theorem C03_position_spec : forall r o pos, Rd r o pos -> pos <= 2 ^ 64 - 1 -> reader_position r = Ok pos.
Proof. exact reader_position_spec. Qed.

Theorem C03_set_position_spec : forall r o pos q, Rd r o pos -> q <= 2 ^ 64 - 1 ->
  exists r', reader_set_position r q = Ok r' /\ Rd r' o q.
Proof. exact reader_set_position_spec. Qed.

(* seek: End and negative targets are errors and leave the reader unchanged *)
Theorem C03_seek_spec : forall r o pos s, Rd r o pos -> pos <= 2 ^ 64 - 1 ->
  match s with
  | SeekEnd _ => reader_seek r s = Ok (r, None)
  | SeekStart x => exists r', reader_seek r s = Ok (r', Some (N.min x (2 ^ 64 - 1))) /\ Rd r' o (N.min x (2 ^ 64 - 1))
  | SeekCurrent d =>
      if (Z.of_N pos + d <? 0)%Z then reader_seek r s = Ok (r, None)
      else let q := N.min (Z.to_N (Z.of_N pos + d)) (2 ^ 64 - 1) in
           exists r', reader_seek r s = Ok (r', Some q) /\ Rd r' o q
  end.
Proof. exact reader_seek_spec. Qed.

(* however reads are sized or interleaved with set_position and seek: any finite
   operation sequence that stays in the documented domain yields exactly the
   observations of the abstract machine (position into S) *)
Theorem C03_reader_refines : forall p, PlatformOK p -> forall ops r o pos obs,
  Rd r o pos -> pos <= max_pos -> arun o pos ops = Some obs -> rrun p r ops = Ok obs.
Proof. exact reader_refines. Qed.

(* a fresh reader of a well-formed root output is at position 0 *)
Theorem C03_reader_new : forall o, wf_out o -> o_ctr o = 0 -> Rd (reader_new o) o 0.
Proof. exact Rd_new. Qed.

(* the first 32 bytes of S are the hash (definition of hash_mode) *)
Theorem C03_first_32_bytes_are_the_hash : forall m input,
  b3_hash_mode m input = stream spec_c64 (b3_root_output m input) 0 32.
Proof. intros. unfold b3_hash_mode, hash_mode, b3_root_output. reflexivity. Qed.

(* blocks of S: the k-th 64-byte block is the root compression with counter k *)
(* rblock o k := root_block spec_c64 o k *)
Theorem C03_stream_block : forall o k, wf_out o -> stream spec_c64 o (64 * k) 64 = rblock o k.
Proof. exact stream_block. Qed.

(* every finalized state defines that stream: finalize_xof of a hasher that absorbed `pieces` (any
   split, any mode key/flags) is a reader at position 0 of the specification's root output *)
Theorem C03_finalize_xof_is_the_stream : forall p, PlatformOK p -> forall K F, length K = 8%nat -> forall pieces,
  len (concat pieces) < 2 ^ 64 ->
  exists h, updates p (new_internal K F) pieces = Ok h /\
    hasher_finalize_output p h = Ok (subtree_output spec_c8 tree_height K F 0 (concat pieces)) /\
    Rd (reader_new (subtree_output spec_c8 tree_height K F 0 (concat pieces)))
       (subtree_output spec_c8 tree_height K F 0 (concat pieces)) 0.
Proof. exact finalize_xof_reader. Qed.

(* non-vacuity: a concrete reader, an operation sequence crossing block counter 2^32 *)
Example C03_nonvacuous :
  let p := sim_platform 8 16 in
  let o := b3_root_output Hash [1; 2; 3] in
  Rd (reader_new o) o 0 /\
  exists obs, arun o 0 [RFill 7; RSetPos 274877906940; RFill 10; RPos; RSeek (SeekCurrent (-5)%Z); RSeek (SeekEnd 0%Z)] = Some obs /\
              rrun p (reader_new o) [RFill 7; RSetPos 274877906940; RFill 10; RPos; RSeek (SeekCurrent (-5)%Z); RSeek (SeekEnd 0%Z)] = Ok obs.
Proof.
  split.
  - apply Rd_new; vm_compute; auto.
  - eexists. split; vm_compute; reflexivity.
Qed.

(* the functions of the modelled source are exactly the functions the model was written against
   (gen/GenApi.v is regenerated from /repo on every run; see Model/ApiSurface.v) *)
From V Require gen.GenApi Model.ApiSurface.
Theorem C03_api_lib_reader : GenApi.api_lib_reader = ApiSurface.expected_lib_reader.
Proof. reflexivity. Qed.

Print Assumptions C03_api_lib_reader.
Print Assumptions C03_fill_spec.
Print Assumptions C03_position_spec.
Print Assumptions C03_set_position_spec.
Print Assumptions C03_seek_spec.
Print Assumptions C03_reader_refines.
Print Assumptions C03_reader_new.
Print Assumptions C03_first_32_bytes_are_the_hash.
Print Assumptions C03_stream_block.
Print Assumptions C03_finalize_xof_is_the_stream.

(* ---- the model against the source text: OutputReader -------------------------------------------------------
   gen/GenXof.v is the text of OutputReader::new / fill_one_block / fill / position / set_position, of
   std::io::Read::read and of std::io::Seek::seek (src/lib.rs), translated statement by statement (tools/gen_coq.py
   gen_xof, regenerated from /repo on every run).  A `&mut [u8]` destination is Base/MutSlice.v's pair (what the slice
   has moved past, what it covers); `platform.xof_many` stays a call of the parameter ext_xof_many (signature anchored
   in src/platform.rs), instantiated here with m_xof_many = the model's p_xof_many on the number of blocks of the
   destination; the i128 arithmetic of seek is Base/SInt.v's (Z with range checks), Err(..InvalidInput..) is
   IoErr "InvalidInput".  Each translated function EQUALS the hand-written model function of Model/RsXof.v on every
   argument, including the Panic results; the model takes the number n of destination bytes and returns the bytes
   written, the translation takes the n destination bytes and returns the buffer after the call: the same list.
   Hypotheses are type invariants of the source only (position_within_block is a u8, a slice length a usize, an i64 is
   an i64; compress_xof returns [u8; 64] and xof_many fills exactly its destination: xof_shape).
   Proofs in Proofs/GenXofP.v. *)
From V Require Import Base.MachInt Base.Arr Base.MutSlice Base.SInt gen.GenConsts gen.GenLibSmall gen.GenXof
  Proofs.GenLibSmallP Proofs.GenLibLoopsP Proofs.GenXofP.

Theorem C03_lib_src_repr_def :
  (forall p r, lib_of_rd p r = lib_OutputReader_mk (lib_of_out p (r_out r)) (r_pwb r)) /\
  (forall r, rd_of_lib r = mkReader (out_of_lib (lib_OutputReader_inner r)) (lib_OutputReader_position_within_block r)) /\
  (forall p r, rd_of_lib (lib_of_rd p r) = r) /\
  (forall r, lib_of_rd (lib_Output_platform (lib_OutputReader_inner r)) (rd_of_lib r) = r) /\
  (forall x, lib_of_seek (SeekStart x) = lib_SeekFrom_Start x) /\
  (forall d, lib_of_seek (SeekCurrent d) = lib_SeekFrom_Current d) /\
  (forall d, lib_of_seek (SeekEnd d) = lib_SeekFrom_End d) /\
  (forall q, io_of_opt (Some q) = IoOk q) /\
  io_of_opt None = IoErr [73; 110; 118; 97; 108; 105; 100; 73; 110; 112; 117; 116] (* "InvalidInput" *) /\
  (forall p cv block bl ctr fl out,
     m_xof_many p cv block bl ctr fl out = p_xof_many p cv block bl ctr fl (N.of_nat (length out) / rs_BLOCK_LEN)) /\
  (forall p x, fill_map p x = (lib_of_rd p (fst x), snd x)) /\
  (forall p x, seek_map p x = (lib_of_rd p (fst x), io_of_opt (snd x))) /\
  (forall p s x, fob_map p s x = (lib_of_rd p (fst x), (fst s ++ snd x, skipn (length (snd x)) (snd s)))) /\
  (forall p o, xof_shape p o =
     ((forall ctr fl, length (p_compress_xof p (o_cv o) (o_block o) (o_blen o) ctr fl) = 64%nat) /\
      (forall ctr fl n bs, p_xof_many p (o_cv o) (o_block o) (o_blen o) ctr fl n = Ok bs -> length bs = (64 * N.to_nat n)%nat))) /\
  (forall x, seek_arg_ok (SeekStart x) = (x < 2 ^ 64)) /\
  (forall d, seek_arg_ok (SeekCurrent d) = (- 2 ^ 63 <= d < 2 ^ 63)%Z) /\
  (forall d, seek_arg_ok (SeekEnd d) = (- 2 ^ 63 <= d < 2 ^ 63)%Z).
Proof.
  split; [reflexivity|]. split; [reflexivity|]. split; [exact rd_of_lib_of_rd|]. split; [exact lib_of_rd_of_lib|].
  repeat split.
Qed.
Print Assumptions C03_lib_src_repr_def.

(* the mutable-slice and signed-integer operations the translation uses *)
Theorem C03_lib_src_mutslice_def : forall (done win b t : list N) (off a : nat),
  ms_of b = ([], b) /\ ms_win (done, win) = win /\ ms_len (done, win) = N.of_nat (length win) /\
  ms_write (done, win) off t = (done, firstn off win ++ t ++ skipn (off + length t) win) /\
  ms_set_win (done, win) t = (done, t) /\
  ms_advance (done, win) a = (done ++ firstn a win, skipn a win) /\
  ms_buffer (done, win) = done ++ win.
Proof. intros. repeat split. Qed.
Print Assumptions C03_lib_src_mutslice_def.

Theorem C03_lib_src_sint_def : forall (W : N) (a b x : Z),
  zi_add W a b = (if ((- 2 ^ (Z.of_N W - 1) <=? a + b) && (a + b <? 2 ^ (Z.of_N W - 1)))%Z%bool then Ok (a + b)%Z else Panic 1001) /\
  zi_as_u W x = Z.to_N (x mod 2 ^ Z.of_N W).
Proof. intros. split; reflexivity. Qed.
Print Assumptions C03_lib_src_sint_def.

Theorem C03_lib_src_reader_new : forall p o, lib_OutputReader_new (lib_of_out p o) = lib_of_rd p (reader_new o).
Proof. exact lib_OutputReader_new_eq. Qed.
Print Assumptions C03_lib_src_reader_new.

(* fill_one_block on a slice s covering n bytes: the model's result (reader, bytes written) is the translation's
   (reader, slice advanced past those bytes) *)
Theorem C03_lib_src_fill_one_block : forall p r s,
  r_pwb r < 2 ^ 8 -> length (out_root_output_block p (r_out r)) = 64%nat ->
  lib_OutputReader_fill_one_block (lib_of_rd p r) s
  = GenLibLoopsP.res_map (fob_map p s) (fill_one_block p r (ms_len s)).
Proof. exact fill_one_block_eq. Qed.
Print Assumptions C03_lib_src_fill_one_block.

(* fill: the three phases (finish the partial block; whole blocks through xof_many; the trailing partial block) *)
Theorem C03_lib_src_fill : forall p r buf,
  r_pwb r < 2 ^ 8 -> N.of_nat (length buf) < 2 ^ 64 -> xof_shape p (r_out r) ->
  lib_OutputReader_fill m_xof_many (lib_of_rd p r) buf
  = GenLibLoopsP.res_map (fill_map p) (reader_fill p r (N.of_nat (length buf))).
Proof. exact lib_OutputReader_fill_eq. Qed.
Print Assumptions C03_lib_src_fill.

Theorem C03_lib_src_fill_len : forall p r n r' bs, xof_shape p (r_out r) ->
  reader_fill p r n = Ok (r', bs) -> N.of_nat (length bs) = n.
Proof. exact reader_fill_len. Qed.
Print Assumptions C03_lib_src_fill_len.

Theorem C03_lib_src_position : forall p r, lib_OutputReader_position (lib_of_rd p r) = reader_position r.
Proof. exact lib_OutputReader_position_eq. Qed.
Print Assumptions C03_lib_src_position.

Theorem C03_lib_src_set_position : forall p r q,
  lib_OutputReader_set_position (lib_of_rd p r) q = GenLibLoopsP.res_map (lib_of_rd p) (reader_set_position r q).
Proof. exact lib_OutputReader_set_position_eq. Qed.
Print Assumptions C03_lib_src_set_position.

(* Read::read: fill, then Ok(buf.len()) *)
Theorem C03_lib_src_read : forall p r buf,
  r_pwb r < 2 ^ 8 -> N.of_nat (length buf) < 2 ^ 64 -> xof_shape p (r_out r) ->
  lib_OutputReader_Read_read m_xof_many (lib_of_rd p r) buf
  = GenLibLoopsP.res_map (fun x => (lib_of_rd p (fst x), snd x, IoOk (N.of_nat (length buf))))
      (reader_fill p r (N.of_nat (length buf))).
Proof. exact lib_OutputReader_read_eq. Qed.
Print Assumptions C03_lib_src_read.

(* Seek::seek: the i128 target, the clamp to u64::MAX, the two error cases *)
Theorem C03_lib_src_seek : forall p r s, seek_arg_ok s ->
  lib_OutputReader_Seek_seek (lib_of_rd p r) (lib_of_seek s) = GenLibLoopsP.res_map (seek_map p) (reader_seek r s).
Proof. exact lib_OutputReader_seek_eq. Qed.
Print Assumptions C03_lib_src_seek.

(* xof_shape holds with the portable kernels at every SIMD degree (the platforms of the correspondence check) *)
Theorem C03_lib_src_xof_shape_sim : forall d m o, length (o_cv o) = 8%nat -> length (o_block o) = 64%nat ->
  xof_shape (sim_platform d m) o.
Proof. exact xof_shape_sim. Qed.
Print Assumptions C03_lib_src_xof_shape_sim.

(* non-vacuity: the translated functions compute, and agree with the model on a reader driven across block
   boundaries (the platform is read off the translated records before the two sides are compared) *)
Definition C03_strip {A} (x : res (lib_OutputReader * A)) : res (reader * A) :=
  GenLibLoopsP.res_map (fun y => (rd_of_lib (fst y), snd y)) x.
Example C03_lib_src_nonvacuous :
  let p := sim_platform 8 16 in
  let o := b3_root_output Hash [1; 2; 3] in
  let r1 := mkReader o 7 in
  let r2 := mkReader (with_counter o 3) 15 in
  C03_strip (lib_OutputReader_fill m_xof_many (lib_of_rd p (reader_new o)) (repeat 0 7%nat)) = reader_fill p (reader_new o) 7 /\
  GenLibLoopsP.res_map fst (reader_fill p (reader_new o) 7) = Ok r1 /\
  C03_strip (lib_OutputReader_Seek_seek (lib_of_rd p r1) (lib_SeekFrom_Current 200%Z)) = Ok (r2, IoOk 207) /\
  reader_seek r1 (SeekCurrent 200%Z) = Ok (r2, Some 207) /\
  C03_strip (lib_OutputReader_Seek_seek (lib_of_rd p r2) (lib_SeekFrom_Current (-208)%Z))
    = Ok (r2, IoErr [73; 110; 118; 97; 108; 105; 100; 73; 110; 112; 117; 116]) /\
  reader_seek r2 (SeekCurrent (-208)%Z) = Ok (r2, None) /\
  C03_strip (lib_OutputReader_fill m_xof_many (lib_of_rd p r2) (repeat 0 150%nat)) = reader_fill p r2 150 /\
  GenLibLoopsP.res_map (fun x => length (snd x)) (reader_fill p r2 150) = Ok 150%nat.
Proof. vm_compute. repeat split. Qed.
Print Assumptions C03_lib_src_nonvacuous.
