"""C06: the C library (c/blake3.c + dispatcher) computes the specification output for every initialiser, every
split of the input into update calls, every (seek, out_len), at every CPU-feature level; finalize is pure, reset
returns to the initial state, the two derive-key initialisers agree, zero-length calls are no-ops."""
import os
import re
import sys

sys.path.insert(0, os.path.dirname(os.path.dirname(os.path.abspath(__file__))))
import charness  # noqa: E402
from props.common import Rng, bspec, hexspec, number, CHUNK, TEST_KEY, CONTEXTS  # noqa: E402
from props.hist import upd_size  # noqa: E402

RULE = ("random histories over {update(n), update(NULL,0), finalize(n), finalize_seek(seek,n), finalize(NULL,0), reset, "
        "new, memcpy-clone, memcmp} on several hasher instances: update sizes from the boundary mixture of C02 (0; "
        "1..64; around 64 / 1024; exact 2^k chunks; SIMD-degree multiples after odd prefixes; up to 40 chunks), seeks "
        "from {0..200, 2^38+-200, 2^63+-200, up to 2^64-1-n}, output lengths 0..300 and 1000..5000, all four "
        "initialisers (derive_key and derive_key_raw on the same contexts, raw also on contexts with NUL / non-UTF-8 "
        "bytes), all five forced feature levels, asm and intrinsics builds; every finalize is bracketed by "
        "cl / cmp so a write through the const pointer shows up; the same histories run through the Rust crate "
        "(c-vs-rust). Non-trivial = distinct history that absorbed more than one chunk in at least two updates or "
        "used a non-zero seek.")
MODELLED = ["dispatcher (blake3_dispatch.c): platform record, degree 1/4/4/8/16, kernels by their common specification "
            "(tied to the real kernels by C05 and by running every forced level here)",
            "uninitialised cv_stack bytes: the 0xCD fill of the harness; struct padding: copied by the memcpy clone",
            "blake3_hasher_update_tbb: same model function as update (its join is C08)"]
ASSUMPTIONS = ["total input per hasher below 2^64 bytes", "seek + out_len <= 2^64 - 1"]

MASKS = ["portable", "sse2", "sse41", "avx2", "avx512"]
MAXPOS = (1 << 64) - 1
RAW_ONLY_CONTEXTS = [b"ab\x00cd", b"\x00", b"\xff\xfe\x80 not utf-8", bytes(range(256)) * 5]


def gen_modes(rng):
    """(C mode, Rust mode or None)"""
    ms = [("hash", "hash")]
    for k in ("keyed=" + hexspec(TEST_KEY), "keyed=zero/0/32", "keyed=ff/0/32", f"keyed=prng/{rng.below(1 << 20)}/32"):
        ms.append((k, k))
    for c in CONTEXTS:
        ms.append(("derive=" + hexspec(c), "derive=" + hexspec(c)))
        ms.append(("deriveraw=" + hexspec(c), "derive=" + hexspec(c)))
    for c in RAW_ONLY_CONTEXTS:
        ms.append(("deriveraw=" + hexspec(c), None))
    return ms


def seek_pos(rng, n):
    k = rng.below(10)
    if k < 3:
        s = rng.range(0, 200)
    elif k < 5:
        s = (1 << 38) + rng.range(-200, 200)
    elif k < 7:
        s = (1 << 63) + rng.range(-200, 200)
    elif k < 9:
        s = MAXPOS - n - rng.range(0, 300)
    else:
        s = rng.choice([63, 64, 65, (1 << 32) * 64 - 1, (1 << 32) * 64, MAXPOS - n])
    return max(0, min(s, MAXPOS - n))


def out_len(rng):
    k = rng.below(10)
    if k < 4:
        return rng.choice([0, 1, 31, 32, 33, 63, 64, 65, 127, 128, 129, 191, 192, 193])
    if k < 9:
        return rng.range(0, 300)
    return rng.range(1000, 5000)


def history(rng, mask, nops, budget):
    """-> (C ops, Rust ops). Rust ops mirror every op the crate has a counterpart for."""
    cops, rops = [], []
    ninst, nreaders, spent = 1, 0, 0
    for _ in range(nops):
        i = rng.below(ninst)
        k = rng.below(100)
        if k < 45:
            n = upd_size(rng, mask)
            if spent + n > budget:
                n = rng.range(0, 200)
            spent += n
            b = bspec(rng, n)
            cops.append(f"u:{i}:{b}")
            rops.append(f"u:{i}:{b}")
        elif k < 50:
            cops.append(f"u0:{i}")
        elif k < 64:
            n = out_len(rng)
            cops += [f"cl:{i}", f"f:{i}:{n}", f"cmp:{i}:{ninst}"]
            rops += [f"cl:{i}", f"x:{i}:{n}"]
            ninst += 1
        elif k < 78:
            n = out_len(rng)
            s = seek_pos(rng, n)
            if rng.chance(0.4):
                cops += [f"cl:{i}", f"fs:{i}:{s}:{n}", f"cmp:{i}:{ninst}"]
                rops += [f"cl:{i}"]
                ninst += 1
            else:
                cops.append(f"fs:{i}:{s}:{n}")
            rops += [f"xo:{i}", f"rs:{nreaders}:{s}", f"rf:{nreaders}:{n}"]
            nreaders += 1
        elif k < 82:
            cops.append(f"f0:{i}")
        elif k < 90:
            cops.append(f"r:{i}")
            rops.append(f"r:{i}")
        elif k < 95 and ninst < 6:
            cops.append("n")
            rops.append("n")
            ninst += 1
        elif ninst < 6:
            cops.append(f"cl:{i}")
            rops.append(f"cl:{i}")
            ninst += 1
    for i in range(ninst):
        cops.append(f"f:{i}:32")
        rops.append(f"x:{i}:32")
    return cops, rops


def gen_pairs(seed, tier):
    """list of (C case text, Rust case text or None), without ids"""
    rng = Rng(seed)
    thorough = tier == "thorough"
    ms = gen_modes(rng)
    out = []
    for mask in MASKS:
        # histories
        for k in range(60 if thorough else 9):
            cm, rm = ms[0] if k % 4 == 0 else rng.choice(ms)
            cops, rops = history(rng, mask, rng.range(3, 30 if thorough else 18), (120 if thorough else 60) * CHUNK)
            out.append((f"CH {cm} {mask} " + " ".join(cops), rm and f"H {rm} {mask} " + " ".join(rops)))
        # every initialiser once per level, one update, a plain and a seeking finalize
        for cm, rm in ms:
            n = rng.choice([0, 1, 64, 1024, 1025, 5000]) if thorough else rng.choice([0, 1, 1025])
            b = bspec(rng, n)
            o = out_len(rng)
            s = seek_pos(rng, o)
            out.append((f"CH {cm} {mask} u:0:{b} f:0:32 fs:0:{s}:{o}",
                        rm and f"H {rm} {mask} u:0:{b} x:0:32 xo:0 rs:0:{s} rf:0:{o}"))
        # reset after a history = a fresh hasher of the same mode: same suffix on both
        for k in range(12 if thorough else 3):
            cm, rm = rng.choice(ms)
            pre = [bspec(rng, upd_size(rng, mask, 12)) for _ in range(rng.range(1, 4))]
            suf = [bspec(rng, upd_size(rng, mask, 12)) for _ in range(rng.range(1, 3))]
            cops = [f"u:0:{b}" for b in pre] + ["r:0", "n"]
            rops = list(cops)
            for b in suf:
                cops += [f"u:0:{b}", f"u:1:{b}"]
                rops += [f"u:0:{b}", f"u:1:{b}"]
            cops += ["f:0:64", "f:1:64", "fs:0:70:3", "fs:1:70:3"]
            rops += ["x:0:64", "x:1:64", "xo:0", "rs:0:70", "rf:0:3", "xo:1", "rs:1:70", "rf:1:3"]
            out.append((f"CH {cm} {mask} " + " ".join(cops), rm and f"H {rm} {mask} " + " ".join(rops)))
        # zero-length calls between real ones; a fresh instance and a zero-length-updated one stay memcmp-equal
        cm, rm = rng.choice(ms)
        b1, b2 = bspec(rng, rng.range(1, 3000)), bspec(rng, rng.range(1, 3000))
        out.append((f"CH {cm} {mask} n u0:0 u:0:paint/0/0 cmp:0:1 f0:0 cmp:0:1 u:0:{b1} u:1:{b1} u0:0 f0:0 u:0:{b2} "
                    f"u:1:{b2} u0:1 cmp:0:1 f:0:0 fs:0:5:0 f:0:40 f:1:40",
                    rm and f"H {rm} {mask} n u:0:paint/0/0 u:0:{b1} u:1:{b1} u:0:{b2} u:1:{b2} x:0:0 xo:0 rs:0:5 rf:0:0 "
                    f"x:0:40 x:1:40"))
    # exhaustive (seek mod 64, out_len) grid at three bases on a chunk root and a parent root
    step = 1 if thorough else 9
    for base in (0, (1 << 38) - 64, (1 << 63)):
        for gi, n0 in enumerate((3, 1025)):
            mask = MASKS[(gi + base) % len(MASKS)]
            cops, rops, j = [f"u:0:paint/0/{n0}"], [f"u:0:paint/0/{n0}"], 0
            for pm in range(0, 64, step):
                for n in list(range(0, 131, step)) + [64, 65, 128, 192]:
                    cops.append(f"fs:0:{base + pm}:{n}")
                    rops += ["xo:0", f"rs:{j}:{base + pm}", f"rf:{j}:{n}"]
                    j += 1
                    if len(cops) > 100:
                        out.append((f"CH hash {mask} " + " ".join(cops), f"H hash {mask} " + " ".join(rops)))
                        cops, rops, j = [f"u:0:paint/0/{n0}"], [f"u:0:paint/0/{n0}"], 0
            out.append((f"CH hash {mask} " + " ".join(cops), f"H hash {mask} " + " ".join(rops)))
    # wide finalize_seek requests that straddle a 32-bit boundary of the OUTPUT BLOCK counter: every group shape of
    # blake3_xof_many (16/8/4/2/1 blocks) must carry into the high counter word in every lane, at 2^32 (carry) and at
    # 2^31 (where signed/unsigned compare tricks differ).  Start k blocks below the boundary, m whole blocks.
    for mask in MASKS:
        for bi, boundary in enumerate(((1 << 32), (1 << 31), 3 * (1 << 31))):
            cops, rops, j = ["u:0:paint/0/1025"], ["u:0:paint/0/1025"], 0
            ks = list(range(1, 18)) if thorough else [1, 2, 3, 5, 7, 8, 9, 12, 15, 16, 17]
            idx = 0
            for k in ks:
                for m in (2, 3, 4, 5, 7, 8, 9, 12, 15, 16, 17, 24, 31, 32, 33):
                    idx += 1
                    if not thorough and (idx + seed + bi) % 4:
                        continue
                    sk = (boundary - k) * 64 + rng.choice([0, 0, 17])
                    n = 64 * m + rng.choice([0, 0, 5])
                    cops.append(f"fs:0:{sk}:{n}")
                    rops += ["xo:0", f"rs:{j}:{sk}", f"rf:{j}:{n}"]
                    j += 1
                    if len(cops) > 40:
                        out.append((f"CH hash {mask} " + " ".join(cops), f"H hash {mask} " + " ".join(rops)))
                        cops, rops, j = ["u:0:paint/0/1025"], ["u:0:paint/0/1025"], 0
            if len(cops) > 1:
                out.append((f"CH hash {mask} " + " ".join(cops), f"H hash {mask} " + " ".join(rops)))
    # exhaustive 2-splits of short totals (every cut), one mask each
    lens = list(range(0, 131, 1 if thorough else 5)) + [1023, 1024, 1025, 2047, 2048, 2049, 3072, 4096, 4097]
    for li, total in enumerate(lens):
        mask = MASKS[li % len(MASKS)]
        cuts = range(0, total + 1) if total <= 130 else sorted(set(list(range(0, total + 1, 97)) +
                                                                   [1, 63, 64, 65, 1023, 1024, 1025, total - 1]))
        cops, rops, ninst = [], [], 0
        for c in cuts:
            if c < 0 or c > total:
                continue
            ninst += 1
            ops = ["n", f"u:{ninst}:paint/0/{c}", f"u:{ninst}:paint/{c % 251}/{total - c}"]
            cops += ops + [f"f:{ninst}:32"]
            rops += ops + [f"x:{ninst}:32"]
            if len(cops) > 90:
                out.append((f"CH hash {mask} " + " ".join(cops), f"H hash {mask} " + " ".join(rops)))
                cops, rops, ninst = [], [], 0
        if cops:
            out.append((f"CH hash {mask} " + " ".join(cops), f"H hash {mask} " + " ".join(rops)))
    # all-at-once lengths around the SIMD / subtree boundaries, every level
    for mask in MASKS:
        for n in ([2048, 3072, 4096, 5120, 8192, 16384, 16385, 31744, 32768, 32769, 65536] if thorough
                  else [2048, 5120, 16385, 32768]):
            cm, rm = rng.choice(ms)
            b = bspec(rng, n)
            out.append((f"CH {cm} {mask} u:0:{b} f:0:32", rm and f"H {rm} {mask} u:0:{b} x:0:32"))
    return out


def gen_cases(seed, tier):
    return number([c for c, _ in gen_pairs(seed, tier)])


def nontrivial(rest, model_line):
    sizes = [int(x) for x in re.findall(r"\bu:\d+:\w+/\d+/(\d+)", rest)]
    seeks = [int(x) for x in re.findall(r"\bfs:\d+:(\d+):", rest)]
    return (len([s for s in sizes if s > 0]) >= 2 and sum(sizes) > 1024) or any(s > 0 for s in seeks)


def c_runner(binary, cases):
    return charness.run(binary, cases)


def c_vs_rust(ctx, pairs, cbin, rbin, build):
    """the C library and the Rust crate on the same bytes: the x<hex> tokens must agree one by one"""
    from verif import run_lines
    both = [(f"c{i}", c, r) for i, (c, r) in enumerate(pairs) if r is not None]
    cres = charness.run(cbin, [f"{cid} {c}" for cid, c, _ in both])
    rres = run_lines(rbin, [f"{cid} {r}" for cid, _, r in both])
    nfail = 0
    for cid, c, r in both:
        ctx.evaluations += 1
        ct, rt = cres.get(cid, "MISSING"), rres.get(cid, "MISSING")
        if ct.startswith("SKIP"):
            continue
        if charness.strip_c_only(ct.split()) != rt.split():
            nfail += 1
            ctx.failures.append({"correspondence": "c-vs-rust", "case": c, "rust_case": r, "model": rt, "impl": ct,
                                 "build": build})
    ctx.stats["c-vs-rust/" + build] = {"cases": len(both), "disagreements": nfail}
    ctx.log(f"correspondence c-vs-rust [{build}]: {len(both)} cases, {nfail} disagreements")


def correspondence(ctx):
    drv = ctx.need_model()
    pairs = gen_pairs(ctx.seed, ctx.tier)
    cases = number([c for c, _ in pairs])
    bins = {}
    for variant in ("asm", "intr"):
        b, log = charness.build(variant)
        if b is None:
            ctx.broken.append(f"C harness build failed ({variant}): " + log[-800:])
        bins[variant] = b
        ctx.correspond("c-histories", cases, drv, b, profile="debug", build=variant, nontrivial=nontrivial,
                       impl_runner=c_runner)
    rbin = ctx.need_harness("default", "debug")
    if rbin is not None:
        for variant in (("asm", "intr") if ctx.tier == "thorough" else ("asm",)):
            if bins.get(variant):
                c_vs_rust(ctx, pairs, bins[variant], rbin, variant + "/debug")


def classify(f):
    return None
