(* C10: reset() restores the initial state after any history; clones are independent.
   Statements only; proofs in Proofs/C02P.v. *)
From Coq Require Import NArith List Bool.
From V Require Import Base.Res Base.Word Spec.Compress Spec.Tree Spec.Blake3 Model.Platform Model.RsChunk
  Model.RsHasher Model.Machine Proofs.IoP Proofs.HasherP Proofs.C02P.
Import ListNotations.
Open Scope N_scope.

(* state equality: after reset the hasher IS the newly constructed one of the same key and flags,
   whatever was absorbed before, at any hazmat input offset c0 (so every later observation agrees) *)
Theorem C10_reset_is_new : forall K F c0 h bs, InvS K F c0 h bs -> hasher_reset h = new_internal K F.
Proof. exact reset_is_new. Qed.

(* every state reached by set_input_offset + updates satisfies the hypothesis *)
Theorem C10_reachable_with_offset : forall p, PlatformOK p -> forall K F, length K = 8%nat -> forall c0, c0 < 2 ^ 54 ->
  forall pieces h bs, InvS K F c0 h bs ->
  len (bs ++ concat pieces) <= 1024 * lim_of c0 -> len (bs ++ concat pieces) < 2 ^ 64 ->
  exists h', updates p h pieces = Ok h' /\ InvS K F c0 h' (bs ++ concat pieces).
Proof. exact InvS_updates. Qed.

Theorem C10_fresh_with_offset : forall p, PlatformOK p -> forall K F, length K = 8%nat -> forall c0, c0 < 2 ^ 54 ->
  InvS K F c0 (fresh K F c0) [].
Proof. exact InvS_fresh. Qed.

(* reset and clone inside call histories: the abstract machine resets instance i to the empty byte
   list and copies a byte list on clone; no operation on one instance changes another *)
Theorem C10_history_with_reset_and_clone : forall p, PlatformOK p -> forall K F, length K = 8%nat ->
  forall pn m ops hs rs vs abs obs,
  Forall2 (InvS K F 0) hs abs -> arun_h K F abs ops = Some obs ->
  run_ops p pn m K F (mkState hs rs vs) (map hop_op ops) [] = (obs, Ok tt).
Proof. exact history_refines. Qed.

Example C10_nonvacuous :
  let p := sim_platform 8 16 in
  exists h1 h2, set_input_offset (new_internal IV 0) 4096 = Ok h1 /\
                hasher_update p h1 (repeat 5 3000) = Ok h2 /\ hasher_reset h2 = new_internal IV 0 /\
                hasher_count (hasher_reset h2) = Ok 0.
Proof.
  cbv zeta. eexists. eexists. split; [vm_compute; reflexivity|]. split; [vm_compute; reflexivity|].
  split; vm_compute; reflexivity.
Qed.

Print Assumptions C10_reset_is_new.
Print Assumptions C10_reachable_with_offset.
Print Assumptions C10_fresh_with_offset.
Print Assumptions C10_history_with_reset_and_clone.
