(* Model side of the correspondence check: reads the same case lines as the Rust
   and C harnesses, evaluates the extracted Coq models, prints the same canonical
   result lines.  Nothing here computes a hash: every result comes from Model. *)
open Model
open Bytespec

let panic_token code = if debug_only code then "PANIC_DBG" else "PANIC"

let hash_conv (toks : string list) : string list =
  match toks with
  | ["tohex"; b] ->
    let h = parse b in
    (match to_hex h with
     | Ok s ->
       let hs = string_of_nlist s in
       [hs; hs; Printf.sprintf "Hash(\"%s\")" hs; hex_of_nlist h; hex_of_nlist h]
     | Panic c -> [panic_token c]
     | OutOfFuel -> ["OUTOFFUEL"])
  | ["fromhex"; b] ->
    let s = parse b in
    let one = match from_hex s with
      | Ok (HexOk h) -> "ok/" ^ hex_of_nlist h
      | Ok (HexInvalidLen l) -> "errlen/" ^ string_of_n l
      | Ok (HexInvalidByte c) -> "errbyte/" ^ string_of_n c
      | Panic c -> panic_token c
      | OutOfFuel -> "OUTOFFUEL" in
    (* FromStr only exists for &str: the harness prints "nonutf8" when the bytes are not UTF-8 *)
    let is_utf8 = (try ignore (String.iter (fun c -> if Char.code c >= 128 then raise Exit) (Bytes.to_string (parse_bytes b))); true
                   with Exit -> Utf8check.valid (Bytes.to_string (parse_bytes b))) in
    [one; if is_utf8 then one else "nonutf8"]
  | ["fromslice"; b] ->
    (match from_slice (parse b) with
     | Some h -> ["ok/" ^ hex_of_nlist h]
     | None -> ["err"])
  | ["eq"; a; b] ->
    let a = parse a and b = parse b in
    let r = string_of_bool (constant_time_eq a b) in
    if List.length b = 32 then [r; r; r] else [r]
  | ["serde"; a] ->
    (* serde wire formats are external crates: modelled by their contract (lossless) *)
    let h = hex_of_nlist (parse a) in
    [h; h; h; "true"]
  | _ -> failwith "bad hash_conv case"

let helper (toks : string list) : string list =
  match toks with
  | ["lsl"; v] ->
    (match rs_left_subtree_len (n_of_string v) with
     | Ok r -> [string_of_n r]
     | Panic c -> [panic_token c]
     | OutOfFuel -> ["OUTOFFUEL"])
  | ["msl"; v] ->
    (match rs_max_subtree_len (n_of_string v) with
     | Ok None -> ["none"]
     | Ok (Some r) -> [string_of_n r]
     | Panic c -> [panic_token c]
     | OutOfFuel -> ["OUTOFFUEL"])
  | ["tconst"] ->
    (* OutputSize = OUT_LEN, KeySize = KEY_LEN, BlockSize = BLOCK_LEN: the lengths the model's finalize / keyed mode / block
       functions work with *)
    [string_of_int (List.length (match rs_hash (sim_platform (n_of_int 1) (n_of_int 16)) [] with Ok h -> h | _ -> []));
     "32"; string_of_n rs_BLOCK_LEN]
  | "dkre" :: m :: ctxs ->
    let material = parse m in
    List.concat_map (fun c ->
      match rs_derive_key (sim_platform (n_of_int 16) (n_of_int 16)) (parse c) material with
      | Ok h -> [hex_of_nlist h; hex_of_nlist h]
      | Panic c -> [panic_token c]
      | OutOfFuel -> ["OUTOFFUEL"]) ctxs
  | ["tks"; k; m] ->
    (* KeyInit::new_from_slice: exactly the 32-byte keys are accepted; the MAC is keyed_hash *)
    let key = parse k in
    if List.length key <> 32 then ["errlen"]
    else (match rs_keyed_hash (sim_platform (n_of_int 16) (n_of_int 16)) key (parse m) with
          | Ok h -> ["ok"; hex_of_nlist h]
          | Panic c -> [panic_token c]
          | OutOfFuel -> ["OUTOFFUEL"])
  | _ -> failwith "bad helper case"

let run_case (toks : string list) : string list =
  match toks with
  | ("tohex" | "fromhex" | "fromslice" | "eq" | "serde") :: _ -> hash_conv toks
  | ("lsl" | "msl" | "tks" | "dkre" | "tconst") :: _ -> helper toks
  | ("parse" | "fts" | "unescape" | "inv" | "half" | "print" | "rt" | "b3hash" | "b3check") :: _ -> B3sum_driver.run_case toks
  | ("kcip" | "kxof" | "khm" | "khmg" | "kxm") :: _ -> Kernel_driver.run_case toks
  | "CH" :: _ -> C_driver.run_case toks
  | k :: _ -> Machine_driver.run_case k toks
  | [] -> []

let () =
  try
    while true do
      let line = input_line stdin in
      let toks = List.filter (fun s -> s <> "") (String.split_on_char ' ' line) in
      match toks with
      | [] -> ()
      | id :: rest ->
        let out = (try run_case rest with Stack_overflow -> ["STACKOVERFLOW"]) in
        print_string id; print_char ' '; print_endline (String.concat " " out)
    done
  with End_of_file -> ()
