(* The `Hash` value type of src/lib.rs as translated function by function (gen/GenHashFns.v, regenerated from the
   source on every run by tools/gen_coq_hash.py) equals the hand-written model Model/RsHash.v on which the C14
   theorems are proved.  Property C14. *)
From Coq Require Import NArith Arith List Bool Lia.
From V Require Import Base.Res Base.Word Base.MachInt gen.GenConsts Model.RsHash gen.GenHashFns Proofs.RsHashP.
Import ListNotations.
Open Scope N_scope.

(* ---- views, constructors, conversions: the bodies are identities / the length test ------------------------- *)
Lemma gen_as_bytes h : src_Hash_as_bytes h = as_bytes h.            Proof. reflexivity. Qed.
Lemma gen_from_bytes b : src_Hash_from_bytes b = from_bytes b.       Proof. reflexivity. Qed.
Lemma gen_as_slice h : src_Hash_as_slice h = as_slice h.             Proof. reflexivity. Qed.
Lemma gen_from_array b : src_From_array_for_Hash_from b = from_bytes b.  Proof. reflexivity. Qed.
Lemma gen_into_array h : src_From_Hash_for_array_from h = as_bytes h.    Proof. reflexivity. Qed.
Lemma gen_from_slice bs : src_Hash_from_slice bs = from_slice bs.
Proof.
  unfold src_Hash_from_slice, slice_try_into_array, from_slice, src_Hash_from_bytes.
  destruct (N.of_nat (length bs) =? rs_OUT_LEN); reflexivity.
Qed.

(* ---- equality: each impl calls the constant_time_eq function the model names -------------------------------- *)
Lemma gen_eq_hash a b : src_PartialEq_for_Hash_eq constant_time_eq a b = hash_eq a b.          Proof. reflexivity. Qed.
Lemma gen_eq_array a b : src_PartialEq_array_for_Hash_eq constant_time_eq a b = hash_eq a b.   Proof. reflexivity. Qed.
Lemma gen_eq_slice a s : src_PartialEq_slice_for_Hash_eq constant_time_eq a s = hash_eq_slice a s.  Proof. reflexivity. Qed.

(* ---- to_hex -------------------------------------------------------------------------------------------------- *)
Lemma to_hex_loop_spec : forall bs s,
  all_bytes bs = true -> Nat.even (length s) = true ->
  src_Hash_to_hex_loop rs_hex_table bs s = (r <- to_hex_go bs (N.of_nat (length s)) ;; Ok (s ++ r)).
Proof.
  induction bs as [|b bs IH]; intros s Hb He.
  - cbn [src_Hash_to_hex_loop to_hex_go bind]. rewrite app_nil_r. reflexivity.
  - cbn [all_bytes forallb] in Hb. apply andb_true_iff in Hb. destruct Hb as [Hb1 Hb2].
    apply N.ltb_lt in Hb1.
    pose proof (byte_sweep _ byte_ok_all b Hb1) as Hok. unfold byte_ok, to_hex_byte in Hok.
    cbn [src_Hash_to_hex_loop to_hex_go].
    change (mb (mi_shr 8) (Ok b) (Ok 4)) with (rs_hex_hi_index b).
    change (mb (mi_and 8) (Ok b) (Ok 15)) with (rs_hex_lo_index b).
    destruct (rs_hex_hi_index b) as [hi| |]; try discriminate. cbn [bind] in *.
    destruct (rs_hex_lo_index b) as [lo| |]; try discriminate. cbn [bind] in *.
    destruct (index_tbl rs_hex_table hi) as [c1| |]; try discriminate. cbn [bind] in *.
    destruct (index_tbl rs_hex_table lo) as [c2| |]; try discriminate. cbn [bind] in *.
    clear Hok.
    assert (Hev : exists k, length s = (2 * k)%nat).
    { apply Nat.even_spec in He. destruct He as [k Hk]. exists k. exact Hk. }
    destruct Hev as [k Hk].
    change (2 * rs_OUT_LEN) with 64.
    unfold as_push.
    destruct (N.leb_spec (N.of_nat (length s) + 2) 64) as [Hc|Hc].
    + replace (N.of_nat (length s) <? 64) with true by (symmetry; apply N.ltb_lt; lia).
      cbn [bind check].
      replace (N.of_nat (length (s ++ [c1])) <? 64) with true
        by (symmetry; apply N.ltb_lt; rewrite app_length; cbn [length]; lia).
      cbn [bind].
      rewrite IH.
      * rewrite !app_length. cbn [length].
        replace (N.of_nat (length s + 1 + 1)) with (N.of_nat (length s) + 2) by lia.
        destruct (to_hex_go bs (N.of_nat (length s) + 2)) as [r| |]; cbn [bind]; try reflexivity.
        rewrite <- !app_assoc. reflexivity.
      * exact Hb2.
      * rewrite !app_length. cbn [length]. rewrite Hk.
        replace (2 * k + 1 + 1)%nat with (2 * (S k))%nat by lia. apply Nat.even_spec. exists (S k). reflexivity.
    + replace (N.of_nat (length s) <? 64) with false by (symmetry; apply N.ltb_ge; lia).
      cbn [bind check]. reflexivity.
Qed.

(* Hash::to_hex as written = the model's to_hex, for every list of bytes (whatever its length) *)
Theorem gen_to_hex h : all_bytes h = true -> src_Hash_to_hex h = to_hex h.
Proof.
  intros Hb. unfold src_Hash_to_hex, to_hex.
  change [48; 49; 50; 51; 52; 53; 54; 55; 56; 57; 97; 98; 99; 100; 101; 102] with rs_hex_table.
  rewrite to_hex_loop_spec by (exact Hb || reflexivity).
  cbn [length N.of_nat app]. destruct (to_hex_go h 0); reflexivity.
Qed.
Theorem gen_display h : all_bytes h = true -> src_Display_for_Hash_fmt h = display h.
Proof.
  intros Hb. unfold src_Display_for_Hash_fmt, display. rewrite gen_to_hex by exact Hb.
  destruct (to_hex h); reflexivity.
Qed.

(* ---- from_hex ------------------------------------------------------------------------------------------------ *)
Lemma skipn_two (s : list N) : forall j, (j + 2 <= length s)%nat ->
  exists c1 c2, skipn j s = c1 :: c2 :: skipn (j + 2) s /\ nth_error s j = Some c1 /\ nth_error s (S j) = Some c2.
Proof.
  induction s as [|x s IH]; intros j Hj; cbn [length] in Hj; [lia|].
  destruct j as [|j].
  - destruct s as [|y s]; cbn [length] in Hj; [lia|]. exists x, y. repeat split.
  - destruct (IH j) as [c1 [c2 [H1 [H2 H3]]]]; [lia|]. exists c1, c2. repeat split; assumption.
Qed.

Lemma firstn_upd (hb : list N) : forall k v, (k < length hb)%nat -> firstn (S k) (upd hb k v) = firstn k hb ++ [v].
Proof.
  induction hb as [|x hb IH]; intros k v Hk; cbn [length] in Hk; [lia|].
  destruct k as [|k]; [reflexivity|]. cbn [upd].
  change (firstn (S (S k)) (x :: upd hb k v)) with (x :: firstn (S k) (upd hb k v)).
  rewrite IH by lia. reflexivity.
Qed.
Lemma length_upd (hb : list N) : forall k v, length (upd hb k v) = length hb.
Proof. induction hb as [|x hb IH]; intros [|k] v; cbn [upd length]; try reflexivity. rewrite IH. reflexivity. Qed.

Lemma from_hex_loop_spec (s : list N) : length s = 64%nat ->
  forall n k hb, (k + n = 32)%nat -> length hb = 32%nat ->
  src_Hash_from_hex_loop (map N.of_nat (seq k n)) s hb =
  (r <- from_hex_go n (skipn (2 * k) s) ;;
   match r with HexOk bs => Ok (HexOk (firstn k hb ++ bs)) | e => Ok e end).
Proof.
  intros Hs. induction n as [|n IH]; intros k hb Hkn Hhb.
  - cbn [seq map src_Hash_from_hex_loop from_hex_go bind]. unfold src_From_array_for_Hash_from, src_Hash_from_bytes.
    rewrite app_nil_r, firstn_all2 by lia. reflexivity.
  - cbn [seq map src_Hash_from_hex_loop from_hex_go].
    destruct (skipn_two s (2 * k)) as [c1 [c2 [Hsk [Hn1 Hn2]]]]; [lia|].
    rewrite Hsk.
    assert (F1 : fits 64 (2 * N.of_nat k) = true)
      by (unfold fits; apply N.ltb_lt; change (2 ^ 64) with 18446744073709551616; lia).
    assert (F2 : fits 64 (2 * N.of_nat k + 1) = true)
      by (unfold fits; apply N.ltb_lt; change (2 ^ 64) with 18446744073709551616; lia).
    unfold mb at 1. cbn [bind]. unfold mi_mul at 1. rewrite F1. cbn [bind].
    unfold idx12 at 1. replace (N.to_nat (2 * N.of_nat k)) with (2 * k)%nat by lia. rewrite Hn1. cbn [bind].
    destruct (hex_val c1) as [[hi|]| |]; cbn [bind]; try reflexivity.
    unfold mb at 1. unfold mb at 1. cbn [bind]. unfold mi_mul at 1. rewrite F1. cbn [bind].
    unfold mi_add at 1. rewrite F2. cbn [bind].
    unfold idx12 at 1. replace (N.to_nat (2 * N.of_nat k + 1)) with (S (2 * k))%nat by lia. rewrite Hn2. cbn [bind].
    destruct (hex_val c2) as [[lo|]| |]; cbn [bind]; try reflexivity.
    change (mb (mi_add 8) (mb (mi_mul 8) (Ok 16) (Ok hi)) (Ok lo)) with (rs_hex_combine hi lo).
    destruct (rs_hex_combine hi lo) as [v| |]; cbn [bind]; try reflexivity.
    replace (N.of_nat k <? N.of_nat (length hb)) with true by (symmetry; apply N.ltb_lt; lia).
    cbn [check bind]. rewrite Nat2N.id.
    rewrite IH by (rewrite ?length_upd; lia).
    replace (2 * S k)%nat with (2 * k + 2)%nat by lia.
    destruct (from_hex_go n (skipn (2 * k + 2) s)) as [r| |]; cbn [bind]; try reflexivity.
    destruct r as [bs| |]; try reflexivity.
    rewrite firstn_upd by lia. rewrite <- app_assoc. reflexivity.
Qed.

(* Hash::from_hex as written = the model's from_hex, for EVERY input string *)
Theorem gen_from_hex s : src_Hash_from_hex s = from_hex s.
Proof.
  unfold src_Hash_from_hex, from_hex.
  change (mb (mi_mul 64) (Ok rs_OUT_LEN) (Ok 2)) with (Ok 64). cbn [bind]. change rs_hex_len with 64.
  destruct (N.eqb_spec (N.of_nat (length s)) 64) as [Hl|Hl]; cbn [negb]; [|reflexivity].
  change (N.to_nat rs_OUT_LEN) with 32%nat.
  rewrite (from_hex_loop_spec s) by (try reflexivity; lia).
  change (skipn (2 * 0) s) with s. cbn [firstn app].
  destruct (from_hex_go 32 s) as [r| |]; cbn [bind]; try reflexivity. destruct r; reflexivity.
Qed.
(* FromStr::from_str is from_hex *)
Theorem gen_from_str s : src_FromStr_for_Hash_from_str s = from_str s.
Proof. unfold src_FromStr_for_Hash_from_str, from_str. apply gen_from_hex. Qed.

Lemma gen_views h :
  src_Hash_as_bytes h = as_bytes h /\ src_Hash_from_bytes h = from_bytes h /\ src_Hash_as_slice h = as_slice h /\
  src_From_array_for_Hash_from h = from_bytes h /\ src_From_Hash_for_array_from h = as_bytes h.
Proof. repeat split. Qed.
Lemma gen_eq a b :
  src_PartialEq_for_Hash_eq constant_time_eq a b = hash_eq a b /\
  src_PartialEq_array_for_Hash_eq constant_time_eq a b = hash_eq a b /\
  src_PartialEq_slice_for_Hash_eq constant_time_eq a b = hash_eq_slice a b.
Proof. repeat split. Qed.
(* composed with from_hex_to_hex: the translated text itself round-trips *)
Theorem gen_round_trip h s :
  length h = 32%nat -> all_bytes h = true -> src_Hash_to_hex h = Ok s -> src_FromStr_for_Hash_from_str s = Ok (HexOk h).
Proof.
  intros Hl Hb Hs. rewrite gen_from_str. unfold from_str. rewrite gen_to_hex in Hs by exact Hb.
  exact (from_hex_to_hex h s Hl Hb Hs).
Qed.
