(* Reference implementation, chunk level: ChunkState::{update, output} of the
   model of reference_impl.rs against the specification's chunk_output, for any
   splitting of the chunk's bytes into update calls; Output::chaining_value and
   parent_output against the specification's records. *)
From V Require Import Proofs.ListP.
From V Require Import Base.Res Base.Word Base.MachInt gen.GenConsts
  Spec.Compress Spec.Tree Spec.Blake3 Model.RefImpl Proofs.PortableP Proofs.TreeP Proofs.RefCompressP.
Open Scope N_scope.

Lemma spec_c8_length cv b bl c f : length cv = 8%nat -> length b = 64%nat ->
  length (spec_c8 cv b bl c f) = 8%nat.
Proof.
  intros H1 H2. unfold spec_c8. rewrite firstn_length, compress_length by assumption. reflexivity.
Qed.

(* the reference Output record that corresponds to a specification output *)
Definition ro_of (o : output) : ref_output :=
  mkRO (o_cv o) (words_of_bytes (o_block o)) (o_ctr o) (o_blen o) (o_flags o).

Definition wf_out (o : output) : Prop :=
  length (o_cv o) = 8%nat /\ length (o_block o) = 64%nat /\ Forall W (o_cv o) /\ W (o_blen o) /\ W (o_flags o).

(* chaining value as words *)
Definition out_cvw (o : output) : list N := spec_c8 (o_cv o) (o_block o) (o_blen o) (o_ctr o) (o_flags o).

Lemma chaining_value_cvw o : chaining_value spec_c8 o = bytes_of_words (out_cvw o).
Proof. unfold chaining_value, out_cvw. reflexivity. Qed.

Lemma out_cvw_words o : wf_out o -> length (out_cvw o) = 8%nat /\ Forall W (out_cvw o).
Proof.
  intros (H1 & H2 & H3 & H4 & H5). split.
  - apply spec_c8_length; assumption.
  - apply spec_c8_words; assumption.
Qed.

Lemma ro_chaining_value_spec o : wf_out o -> ro_chaining_value (ro_of o) = Ok (out_cvw o).
Proof.
  intros (H1 & H2 & H3 & H4 & H5). unfold ro_chaining_value, ro_of.
  cbn [ro_input_chaining_value ro_block_words ro_counter ro_block_len ro_flags].
  rewrite (ref_compress_words_is_spec (o_cv o) _ (o_block o)); [|exact H1| |reflexivity].
  - cbn [bind]. unfold out_cvw, spec_c8, ref_first_8_words. reflexivity.
  - apply words_of_bytes_length. rewrite H2. reflexivity.
Qed.

Section RefChunk.
  Variables (K : list N) (F T : N).
  Hypothesis HK : length K = 8%nat.
  Hypothesis HKW : Forall W K.
  Hypothesis HF : W F.

  Notation c8 := spec_c8.

  (* cv and first-flag after compressing n full blocks from the front of bs (as in ChunkP) *)
  Fixpoint cvfold (n : nat) (cv : list N) (first : bool) (bs : list N) : list N * bool :=
    match n with
    | O => (cv, first)
    | S n' => cvfold n' (c8 cv (take 64 bs) 64 T (N.lor F (start_flag first))) false (drop 64 bs)
    end.

  Definition final (st : list N * bool) (rest : list N) : output :=
    mkOutput (fst st) (pad64 rest) (len rest) T (N.lor (N.lor F (start_flag (snd st))) CHUNK_END).

  Lemma chunk_go_cvfold : forall (nb fuel : nat) cv first bs,
    (nb < fuel)%nat ->
    64 * N.of_nat nb <= len bs <= 64 * N.of_nat nb + 64 ->
    (nb <> 0%nat -> 64 * N.of_nat nb < len bs) ->
    chunk_go c8 fuel F T cv first bs = final (cvfold nb cv first bs) (drop (64 * N.of_nat nb) bs).
  Proof.
    induction nb as [|nb IH]; intros fuel cv first bs Hf Hl Hnz.
    - destruct fuel as [|fuel]; [lia|]. cbn [chunk_go cvfold].
      replace (len bs <=? 64) with true by lia. reflexivity.
    - destruct fuel as [|fuel]; [lia|]. cbn [chunk_go cvfold].
      specialize (Hnz ltac:(lia)).
      replace (len bs <=? 64) with false by lia.
      rewrite (IH fuel); try lia.
      + rewrite drop_drop. f_equal. f_equal. lia.
      + rewrite len_drop. lia.
      + rewrite len_drop. lia.
  Qed.

  Lemma cvfold_snd n : forall cv first bs, snd (cvfold n cv first bs) = match n with O => first | _ => false end.
  Proof.
    induction n as [|n IH]; intros; [reflexivity|]. cbn [cvfold]. rewrite IH. destruct n; reflexivity.
  Qed.

  Lemma cvfold_S_end n : forall cv first bs,
    cvfold (S n) cv first bs =
    (c8 (fst (cvfold n cv first bs)) (take 64 (drop (64 * N.of_nat n) bs)) 64 T
        (N.lor F (start_flag (snd (cvfold n cv first bs)))), false).
  Proof.
    induction n as [|n IH]; intros cv first bs.
    - reflexivity.
    - change (cvfold (S (S n)) cv first bs) with
        (cvfold (S n) (c8 cv (take 64 bs) 64 T (N.lor F (start_flag first))) false (drop 64 bs)).
      rewrite IH. cbn [cvfold]. rewrite drop_drop.
      replace (64 + 64 * N.of_nat n) with (64 * N.of_nat (S n)) by lia. reflexivity.
  Qed.

  Lemma cvfold_app n : forall cv first bs ext,
    64 * N.of_nat n <= len bs -> cvfold n cv first (bs ++ ext) = cvfold n cv first bs.
  Proof.
    induction n as [|n IH]; intros cv first bs ext H; [reflexivity|].
    cbn [cvfold]. rewrite take_app_le by lia. rewrite drop_app_le by lia.
    apply IH. rewrite len_drop. lia.
  Qed.

  Lemma W_small x : x < 4294967296 -> W x.
  Proof. intros H; exact H. Qed.

  Lemma W_start_flag b : W (start_flag b).
  Proof. destruct b; unfold W, start_flag, CHUNK_START; lia. Qed.

  Lemma cvfold_wf n : forall cv first bs,
    length cv = 8%nat -> Forall W cv -> 64 * N.of_nat n <= len bs ->
    length (fst (cvfold n cv first bs)) = 8%nat /\ Forall W (fst (cvfold n cv first bs)).
  Proof.
    induction n as [|n IH]; intros cv first bs Hcv HW Hl; [split; assumption|].
    cbn [cvfold].
    assert (Ht : length (take 64 bs) = 64%nat).
    { pose proof (len_take 64 bs) as H. unfold len in *. lia. }
    apply IH.
    - apply spec_c8_length; assumption.
    - apply spec_c8_words; try assumption; [unfold W; lia|].
      apply W_lor; [exact HF|apply W_start_flag].
    - rewrite len_drop. lia.
  Qed.

  (* the chunk state has absorbed bs, nb blocks compressed *)
  Definition RRepr (cs : ref_chunk_state) (bs : list N) (nb : nat) : Prop :=
    cs = mkRCS (fst (cvfold nb K true bs)) T (pad64 (drop (64 * N.of_nat nb) bs))
               (len bs - 64 * N.of_nat nb) (N.of_nat nb) F /\
    64 * N.of_nat nb <= len bs <= 64 * N.of_nat nb + 64 /\ len bs <= 1024.

  Definition tightc (bs : list N) (nb : nat) : Prop :=
    bs = [] /\ nb = 0%nat \/ 64 * N.of_nat nb < len bs.

  Definition RTight (cs : ref_chunk_state) (bs : list N) : Prop :=
    exists nb, RRepr cs bs nb /\ tightc bs nb.

  Lemma RTight_new : RTight (rcs_new K T F) [].
  Proof.
    exists 0%nat. split; [|left; auto]. split; [|unfold len; cbn [length]; lia]. reflexivity.
  Qed.

  Lemma pad64_split d : len d <= 64 ->
    pad64 d = d ++ repeat 0 (N.to_nat (64 - len d)).
  Proof. intros H. unfold pad64. f_equal. f_equal. unfold len in *. lia. Qed.

  Lemma RRepr_len cs bs nb : RRepr cs bs nb -> rcs_len cs = len bs.
  Proof.
    intros [-> [Hl _]]. unfold rcs_len. cbn [rcs_blocks_compressed rcs_block_len].
    change ref_BLOCK_LEN with 64. lia.
  Qed.

  (* the `if self.block_len == BLOCK_LEN` step *)
  Lemma compress_block_spec cs bs nb :
    RRepr cs bs nb -> len bs = 64 * N.of_nat nb + 64 ->
    exists cs',
      (block_words <- ref_words_from_le_bytes (rcs_block cs) 16 ;;
       w <- ref_compress (rcs_chaining_value cs) block_words (rcs_chunk_counter cs)
              ref_BLOCK_LEN (N.lor (rcs_flags cs) (rcs_start_flag cs)) ;;
       blocks_compressed <- mi_add 8 (rcs_blocks_compressed cs) 1 ;;
       Ok (mkRCS (ref_first_8_words w) (rcs_chunk_counter cs) ref_zero_block 0
                 blocks_compressed (rcs_flags cs))) = Ok cs' /\
      RRepr cs' bs (S nb).
  Proof.
    intros [-> [Hl H1024]] Hfull.
    cbn [rcs_block rcs_chaining_value rcs_chunk_counter rcs_flags rcs_blocks_compressed].
    assert (Hd : len (drop (64 * N.of_nat nb) bs) = 64) by (rewrite len_drop; lia).
    rewrite pad64_full by exact Hd.
    assert (Hd' : length (drop (64 * N.of_nat nb) bs) = 64%nat) by (unfold len in Hd; lia).
    rewrite (ref_words_from_le_bytes_ok _ 16) by (rewrite Hd'; reflexivity). cbn [bind].
    destruct (cvfold_wf nb K true bs HK HKW ltac:(lia)) as [Hcv8 HcvW].
    rewrite (ref_compress_words_is_spec _ _ (drop (64 * N.of_nat nb) bs)); [|exact Hcv8| |reflexivity].
    2:{ apply words_of_bytes_length. rewrite Hd'. reflexivity. }
    cbn [bind]. unfold mi_add, fits.
    replace (N.of_nat nb + 1 <? 2 ^ 8) with true by (change (2 ^ 8) with 256; lia). cbn [bind].
    eexists. split; [reflexivity|]. split; [|lia].
    rewrite cvfold_S_end. cbn [fst]. rewrite cvfold_snd.
    unfold ref_first_8_words, spec_c8. change ref_BLOCK_LEN with 64.
    rewrite (take_all 64 (drop (64 * N.of_nat nb) bs)) by lia.
    rewrite (drop_all (64 * N.of_nat (S nb)) bs) by lia.
    replace (rcs_start_flag (mkRCS (fst (cvfold nb K true bs)) T (drop (64 * N.of_nat nb) bs)
                                   (len bs - 64 * N.of_nat nb) (N.of_nat nb) F))
      with (start_flag match nb with O => true | S _ => false end) by (destruct nb; reflexivity).
    replace (len bs - 64 * N.of_nat (S nb)) with 0 by lia.
    replace (N.of_nat (S nb)) with (N.of_nat nb + 1) by lia.
    reflexivity.
  Qed.

  (* copying min(want, len) input bytes into the block buffer *)
  Lemma fill_block_eq bs nb input tk :
    64 * N.of_nat nb <= len bs -> len bs - 64 * N.of_nat nb + tk <= 64 -> tk <= len input ->
    let bl := len bs - 64 * N.of_nat nb in
    let block := pad64 (drop (64 * N.of_nat nb) bs) in
    firstn (N.to_nat bl) block ++ firstn (N.to_nat tk) input ++ skipn (N.to_nat (bl + tk)) block
    = pad64 (drop (64 * N.of_nat nb) (bs ++ take tk input)).
  Proof.
    intros Hl Hfit Htk bl block. unfold block.
    set (d := drop (64 * N.of_nat nb) bs).
    assert (Hd : len d = bl) by (unfold d; rewrite len_drop; reflexivity).
    rewrite drop_app_le by lia. fold d.
    rewrite !firstn_N, !skipn_N.
    rewrite (pad64_split d) by lia. rewrite Hd.
    rewrite take_app_ge by lia. rewrite Hd, N.sub_diag, take_0, app_nil_r.
    rewrite drop_app_ge by lia. rewrite Hd.
    rewrite (pad64_split (d ++ take tk input)) by (rewrite len_app, len_take, Hd; lia).
    rewrite <- app_assoc. f_equal. f_equal.
    unfold drop. rewrite skipn_repeat. f_equal. rewrite len_app, len_take, Hd. lia.
  Qed.

  Lemma rcs_update_loop_spec : forall fuel input cs bs nb,
    RRepr cs bs nb -> (input = [] -> tightc bs nb) -> len (bs ++ input) <= 1024 ->
    (length input < fuel)%nat ->
    exists cs', rcs_update_loop fuel cs input = Ok cs' /\ RTight cs' (bs ++ input).
  Proof.
    induction fuel as [|fuel IH]; intros input cs bs nb HR Ht Htot Hfuel; [lia|].
    destruct input as [|x input'] eqn:Ein.
    - cbn [rcs_update_loop]. exists cs. split; [reflexivity|]. rewrite app_nil_r.
      exists nb. split; [exact HR|apply Ht; reflexivity].
    - rewrite <- Ein in *. clear Ht.
      assert (Hpos : 0 < len input) by (rewrite Ein; unfold len; cbn [length]; lia).
      assert (Hunf : rcs_update_loop (S fuel) cs input =
        (cs <- (if rcs_block_len cs =? ref_BLOCK_LEN then
                   block_words <- ref_words_from_le_bytes (rcs_block cs) 16 ;;
                   w <- ref_compress (rcs_chaining_value cs) block_words (rcs_chunk_counter cs)
                          ref_BLOCK_LEN (N.lor (rcs_flags cs) (rcs_start_flag cs)) ;;
                   blocks_compressed <- mi_add 8 (rcs_blocks_compressed cs) 1 ;;
                   Ok (mkRCS (ref_first_8_words w) (rcs_chunk_counter cs) ref_zero_block 0
                             blocks_compressed (rcs_flags cs))
                 else Ok cs) ;;
          want <- mi_sub 64 ref_BLOCK_LEN (rcs_block_len cs) ;;
          let take := N.min want (rlen input) in
          assert! (rcs_block_len cs <=? rlen (rcs_block cs)) code 74 ;;
          assert! (take <=? rlen (rcs_block cs) - rcs_block_len cs) code 75 ;;
          let block := firstn (N.to_nat (rcs_block_len cs)) (rcs_block cs)
                       ++ firstn (N.to_nat take) input
                       ++ skipn (N.to_nat (rcs_block_len cs + take)) (rcs_block cs) in
          take8 <- mi_cast 8 take ;;
          block_len <- mi_add 8 (rcs_block_len cs) take8 ;;
          rcs_update_loop fuel
            (mkRCS (rcs_chaining_value cs) (rcs_chunk_counter cs) block block_len
                   (rcs_blocks_compressed cs) (rcs_flags cs))
            (skipn (N.to_nat take) input))).
      { rewrite Ein. reflexivity. }
      rewrite Hunf. clear Hunf.
      (* state after the optional compression *)
      assert (Hstep : exists cs1 nb1,
        (if rcs_block_len cs =? ref_BLOCK_LEN then
           block_words <- ref_words_from_le_bytes (rcs_block cs) 16 ;;
           w <- ref_compress (rcs_chaining_value cs) block_words (rcs_chunk_counter cs)
                  ref_BLOCK_LEN (N.lor (rcs_flags cs) (rcs_start_flag cs)) ;;
           blocks_compressed <- mi_add 8 (rcs_blocks_compressed cs) 1 ;;
           Ok (mkRCS (ref_first_8_words w) (rcs_chunk_counter cs) ref_zero_block 0
                     blocks_compressed (rcs_flags cs))
         else Ok cs) = Ok cs1 /\ RRepr cs1 bs nb1 /\ len bs - 64 * N.of_nat nb1 < 64).
      { assert (Hbl : rcs_block_len cs = len bs - 64 * N.of_nat nb) by (destruct HR as [-> _]; reflexivity).
        rewrite Hbl. change ref_BLOCK_LEN with 64.
        destruct (len bs - 64 * N.of_nat nb =? 64) eqn:E.
        - destruct (compress_block_spec cs bs nb HR) as (cs1 & Hrun & HR1).
          { destruct HR as [_ [Hl _]]. lia. }
          change ref_BLOCK_LEN with 64 in Hrun.
          exists cs1, (S nb). split; [exact Hrun|]. split; [exact HR1|]. lia.
        - exists cs, nb. split; [reflexivity|]. split; [exact HR|].
          destruct HR as [_ [Hl _]]. lia. }
      destruct Hstep as (cs1 & nb1 & -> & HR1 & Hlt). cbn [bind].
      destruct HR1 as [Ecs1 [Hl1 H1024]].
      set (bl := len bs - 64 * N.of_nat nb1) in *.
      assert (Hbl1 : rcs_block_len cs1 = bl) by (rewrite Ecs1; reflexivity).
      assert (Hblk1 : rcs_block cs1 = pad64 (drop (64 * N.of_nat nb1) bs)) by (rewrite Ecs1; reflexivity).
      rewrite Hbl1, Hblk1. change ref_BLOCK_LEN with 64.
      unfold mi_sub. replace (bl <=? 64) with true by lia. cbn [bind].
      unfold rlen. fold (len input).
      fold (len (pad64 (drop (64 * N.of_nat nb1) bs))).
      rewrite pad64_length by (rewrite len_drop; lia).
      set (tk := N.min (64 - bl) (len input)).
      assert (Htk1 : 1 <= tk) by (unfold tk; lia).
      assert (Htk2 : tk <= 64 - bl) by (unfold tk; lia).
      assert (Htk3 : tk <= len input) by (unfold tk; lia).
      replace (bl <=? 64) with true by lia. cbn [check bind].
      replace (tk <=? 64 - bl) with true by lia. cbn [check bind].
      unfold mi_cast. cbn [bind]. rewrite N.land_ones.
      rewrite (N.mod_small tk) by (change (2 ^ 8) with 256; lia).
      unfold mi_add, fits.
      replace (bl + tk <? 2 ^ 8) with true by (change (2 ^ 8) with 256; lia). cbn [bind].
      pose proof (fill_block_eq bs nb1 input tk ltac:(lia) ltac:(unfold bl in *; lia) Htk3) as Hfb.
      cbv zeta in Hfb. fold bl in Hfb. rewrite Hfb. clear Hfb.
      rewrite !skipn_N.
      assert (HR2 : RRepr (mkRCS (rcs_chaining_value cs1) (rcs_chunk_counter cs1)
                              (pad64 (drop (64 * N.of_nat nb1) (bs ++ take tk input))) (bl + tk)
                              (rcs_blocks_compressed cs1) (rcs_flags cs1))
                          (bs ++ take tk input) nb1).
      { rewrite len_app in Htot. split; [|rewrite len_app, len_take; lia].
        rewrite Ecs1. cbn [rcs_chaining_value rcs_chunk_counter rcs_blocks_compressed rcs_flags].
        rewrite cvfold_app by lia. f_equal. rewrite len_app, len_take. unfold bl. lia. }
      destruct (IH (drop tk input) _ (bs ++ take tk input) nb1 HR2) as (cs' & Hrun & HT).
      + intros _. right. rewrite len_app, len_take. lia.
      + rewrite <- app_assoc, take_drop. exact Htot.
      + pose proof (len_drop tk input) as Hd. unfold len in Hd, Htk1, Hpos. lia.
      + exists cs'. split; [exact Hrun|]. rewrite <- app_assoc, take_drop in HT. exact HT.
  Qed.

  Theorem rcs_update_spec cs bs input :
    RTight cs bs -> len (bs ++ input) <= 1024 ->
    exists cs', rcs_update cs input = Ok cs' /\ RTight cs' (bs ++ input).
  Proof.
    intros (nb & HR & Ht) Htot. unfold rcs_update.
    apply (rcs_update_loop_spec _ input cs bs nb HR); [intros _; exact Ht|exact Htot|lia].
  Qed.

  Theorem rcs_output_spec cs bs :
    RTight cs bs -> rcs_output cs = Ok (ro_of (chunk_output c8 K F T bs)).
  Proof.
    intros (nb & [-> [Hl H1024]] & Ht). unfold rcs_output, chunk_output.
    cbn [rcs_block rcs_chaining_value rcs_chunk_counter rcs_flags rcs_blocks_compressed rcs_block_len].
    assert (Hp : length (pad64 (drop (64 * N.of_nat nb) bs)) = 64%nat).
    { pose proof (pad64_length (drop (64 * N.of_nat nb) bs)) as H. rewrite len_drop in H.
      specialize (H ltac:(lia)). unfold len in H. lia. }
    rewrite (ref_words_from_le_bytes_ok _ 16) by (rewrite Hp; reflexivity). cbn [bind].
    rewrite (chunk_go_cvfold nb 16).
    - unfold final, ro_of. cbn [o_cv o_block o_ctr o_blen o_flags]. rewrite cvfold_snd, len_drop.
      f_equal. f_equal. f_equal. f_equal.
      unfold rcs_start_flag. cbn [rcs_blocks_compressed]. destruct nb; reflexivity.
    - unfold tightc in Ht. lia.
    - lia.
    - intros Hnz. destruct Ht as [[_ ->]|Ht]; [contradiction|exact Ht].
  Qed.

  Lemma chunk_output_wf bs : len bs <= 1024 -> wf_out (chunk_output c8 K F T bs).
  Proof.
    intros H. unfold chunk_output.
    set (nb := N.to_nat ((len bs - 1) / 64)).
    rewrite (chunk_go_cvfold nb 16); try (unfold nb; lia).
    destruct (cvfold_wf nb K true bs HK HKW ltac:(unfold nb; lia)) as [H8 HW].
    unfold final, wf_out. cbn [o_cv o_block o_blen o_flags].
    assert (Hd : len (drop (64 * N.of_nat nb) bs) <= 64) by (rewrite len_drop; unfold nb; lia).
    repeat split.
    - exact H8.
    - pose proof (pad64_length _ Hd) as Hp. unfold len in Hp. lia.
    - exact HW.
    - unfold W. lia.
    - apply W_lor; [apply W_lor; [exact HF|apply W_start_flag]|unfold W, CHUNK_END; lia].
  Qed.

  Lemma parent_output_wf l r : length l = 8%nat -> length r = 8%nat ->
    wf_out (parent_output K F (bytes_of_words l) (bytes_of_words r)).
  Proof.
    intros Hl Hr. unfold parent_output, wf_out. cbn [o_cv o_block o_blen o_flags].
    repeat split.
    - exact HK.
    - rewrite app_length, !bytes_of_words_length, Hl, Hr. reflexivity.
    - exact HKW.
    - apply W_lor; [exact HF|unfold W, PARENT; lia].
  Qed.

  Lemma ref_parent_output_spec l r :
    length l = 8%nat -> length r = 8%nat -> Forall W l -> Forall W r ->
    ref_parent_output l r K F = ro_of (parent_output K F (bytes_of_words l) (bytes_of_words r)).
  Proof.
    intros Hl Hr Wl Wr. unfold ref_parent_output, ro_of, parent_output.
    cbn [o_cv o_block o_ctr o_blen o_flags].
    rewrite words_of_bytes_app by (exists 8%nat; rewrite bytes_of_words_length, Hl; reflexivity).
    rewrite !words_of_bytes_of_words by assumption.
    rewrite N.lor_comm. reflexivity.
  Qed.
End RefChunk.
