(* C15: the reference implementation and the published test vectors agree with the
   specification.  Statements only; proofs in
     Proofs/RefCompressP.v  (compression function, constants, word ranges)
     Proofs/RefChunkP.v     (ChunkState / Output of reference_impl.rs)
     Proofs/RefStackP.v     (the 54-entry CV stack, add_chunk_chaining_value, finalize fold)
     Proofs/RefImplP.v      (Hasher::update / finalize, the three constructors)
     Proofs/TVCommon.v, TV1..TV4.v, TestVectorsP.v (test vectors, evaluated in the kernel)
     Proofs/C15P.v          (both halves joined)
     Proofs/GenRefImplP.v   (the functions of reference_impl.rs translated from the source text,
                             gen/GenRefImpl.v, against the model: C15_ref_src_*, at the end).
   Model: Model/RefImpl.v mirrors reference_impl/reference_impl.rs; `Ok` is the
   no-panic claim: every index, slice, `+=`/`-` overflow check and debug_assert of the
   reference implementation is an `assert!` of the model (the CV stack never needs
   more than its 54 entries).  Spec: Spec/{Compress,Tree,Blake3}.v (from the paper). *)
From Coq Require Import NArith List Bool.
From V Require Import Base.Res Base.Word gen.GenConsts gen.GenTestVectors
  Spec.Compress Spec.Tree Spec.Blake3 Model.RefImpl
  Model.Platform Model.RsWide
  Proofs.RefCompressP Proofs.RefImplP Proofs.TVCommon Proofs.TestVectorsP Proofs.C15P.
From V Require Import Base.Arr gen.GenRefImpl Proofs.GenRefImplP.
Import ListNotations.
Open Scope N_scope.

(* ---- the repository's constants of the reference implementation are the paper's ------------ *)
Theorem C15_ref_constants :
  ref_IV = IV /\ ref_MSG_PERMUTATION = MSG_PERMUTATION /\
  ref_flag_CHUNK_START = CHUNK_START /\ ref_flag_CHUNK_END = CHUNK_END /\ ref_flag_PARENT = PARENT /\
  ref_flag_ROOT = ROOT /\ ref_flag_KEYED_HASH = KEYED_HASH /\
  ref_flag_DERIVE_KEY_CONTEXT = DERIVE_KEY_CONTEXT /\ ref_flag_DERIVE_KEY_MATERIAL = DERIVE_KEY_MATERIAL /\
  ref_OUT_LEN = 32 /\ ref_KEY_LEN = 32 /\ ref_BLOCK_LEN = 64 /\ ref_CHUNK_LEN = 1024 /\ ref_stack_len = 54.
Proof. repeat split; reflexivity. Qed.

(* ---- compress: all arguments (block as 16 words = the little-endian words of 64 bytes) ------ *)
Theorem C15_ref_compress_is_spec : forall cv block ctr bl fl,
  length cv = 8%nat -> length block = 64%nat ->
  (bw <- ref_words_from_le_bytes block 16 ;; ref_compress cv bw ctr bl fl)
  = Ok (compress cv block bl ctr fl).
Proof. exact ref_compress_is_spec. Qed.

Theorem C15_ref_compress_words_is_spec : forall cv bw block ctr bl fl,
  length cv = 8%nat -> length bw = 16%nat -> words_of_bytes block = bw ->
  ref_compress cv bw ctr bl fl = Ok (compress cv block bl ctr fl).
Proof. exact ref_compress_words_is_spec. Qed.

(* ---- the refinement: every mode, every update split, every output length ---------------------
   ref_mode_ok: keys are 32 bytes (values below 256), context strings below 2^64 bytes.
   ref_spec_mode: RHash -> Hash, RKeyed k -> KeyedHash k,
                  RDerive c -> DeriveKeyMaterial (b3_hash_mode DeriveKeyContext c). *)
Theorem C15_ref_refines : forall m pieces out_len,
  ref_mode_ok m -> len (concat pieces) < 2 ^ 64 -> out_len < 2 ^ 64 ->
  ref_run m pieces out_len = Ok (b3_xof_mode (ref_spec_mode m) (concat pieces) 0 (N.to_nat out_len)).
Proof. exact ref_refines. Qed.

Theorem C15_ref_hash : forall pieces, len (concat pieces) < 2 ^ 64 ->
  ref_run RHash pieces 32 = Ok (b3_hash (concat pieces)).
Proof. exact ref_hash_spec. Qed.

Theorem C15_ref_keyed_hash : forall key pieces,
  length key = 32%nat -> Forall (fun b => b < 256) key -> len (concat pieces) < 2 ^ 64 ->
  ref_run (RKeyed key) pieces 32 = Ok (b3_keyed_hash key (concat pieces)).
Proof. exact ref_keyed_hash_spec. Qed.

Theorem C15_ref_derive_key : forall context pieces,
  len context < 2 ^ 64 -> len (concat pieces) < 2 ^ 64 ->
  ref_run (RDerive context) pieces 32 = Ok (b3_derive_key context (concat pieces)).
Proof. exact ref_derive_key_spec. Qed.

(* ---- the published test vectors against the specification ----------------------------------------
   paint n = the input pattern of test_vectors/src/lib.rs (byte i = i mod 251) *)
Theorem C15_paint_is_the_pattern : forall n,
  paint n = map (fun i => N.of_nat i mod 251) (seq 0 (N.to_nat n)).
Proof. exact paint_spec. Qed.

Theorem C15_test_vectors_shape :
  length tv_cases = 35%nat /\
  map (fun c => fst (fst (fst c))) tv_cases =
    [0; 1; 2; 3; 4; 5; 6; 7; 8; 63; 64; 65; 127; 128; 129; 1023; 1024; 1025; 2048; 2049; 3072; 3073;
     4096; 4097; 5120; 5121; 6144; 6145; 7168; 7169; 8192; 8193; 16384; 31744; 102400] /\
  forallb (fun c => let '(_, h, k, d) := c in
             Nat.eqb (length h) 131 && Nat.eqb (length k) 131 && Nat.eqb (length d) 131) tv_cases = true /\
  length tv_key = 32%nat.
Proof. exact tv_shape. Qed.

Theorem C15_test_vectors_ok : forallb check_case tv_cases = true.
Proof. exact test_vectors_ok. Qed.

Theorem C15_test_vectors_spec : forall n h k d, In (n, h, k, d) tv_cases ->
  b3_xof_mode Hash (paint n) 0 131 = h /\
  b3_xof_mode (KeyedHash tv_key) (paint n) 0 131 = k /\
  stream spec_c64 (root_output spec_c8 (DeriveKeyMaterial (b3_hash_mode DeriveKeyContext tv_context)) (paint n)) 0 131 = d.
Proof. exact test_vectors_spec. Qed.

Theorem C15_test_vectors_default_len : forall n h k d, In (n, h, k, d) tv_cases ->
  b3_hash (paint n) = firstn 32 h /\ b3_keyed_hash tv_key (paint n) = firstn 32 k /\
  b3_derive_key tv_context (paint n) = firstn 32 d.
Proof. exact test_vectors_default_len. Qed.

(* ---- both halves: the reference implementation reproduces every vector, for every update split *)
Theorem C15_ref_reproduces_test_vectors : forall n h k d pieces,
  In (n, h, k, d) tv_cases -> concat pieces = paint n ->
  ref_run RHash pieces 131 = Ok h /\
  ref_run (RKeyed tv_key) pieces 131 = Ok k /\
  ref_run (RDerive tv_context) pieces 131 = Ok d.
Proof. exact ref_reproduces_test_vectors. Qed.

(* ---- all agree: reference implementation = spec = model of the optimized Rust crate (C01) ----- *)
Theorem C15_ref_agrees_with_rust_hash : forall p pieces, PlatformOK p -> len (concat pieces) < 2 ^ 64 ->
  ref_run RHash pieces 32 = rs_hash p (concat pieces).
Proof. exact ref_agrees_with_rust_hash. Qed.

Theorem C15_ref_agrees_with_rust_keyed_hash : forall p key pieces, PlatformOK p ->
  length key = 32%nat -> Forall (fun b => b < 256) key -> len (concat pieces) < 2 ^ 64 ->
  ref_run (RKeyed key) pieces 32 = rs_keyed_hash p key (concat pieces).
Proof. exact ref_agrees_with_rust_keyed_hash. Qed.

Theorem C15_ref_agrees_with_rust_derive_key : forall p context pieces, PlatformOK p ->
  len context < 2 ^ 64 -> len (concat pieces) < 2 ^ 64 ->
  ref_run (RDerive context) pieces 32 = rs_derive_key p context (concat pieces).
Proof. exact ref_agrees_with_rust_derive_key. Qed.

(* ---- non-vacuity: the hypotheses are satisfiable and the model really runs ----------------------- *)
Example C15_nonvacuous :
  let pieces := [paint 1000; []; paint 3000; paint 1] in
  ref_mode_ok (RKeyed tv_key) /\ ref_mode_ok (RDerive tv_context) /\
  len (concat pieces) < 2 ^ 64 /\ len (concat pieces) = 4001 /\
  ref_run (RKeyed tv_key) pieces 70 = Ok (b3_xof_mode (KeyedHash tv_key) (concat pieces) 0 70) /\
  is_ok (ref_run (RDerive tv_context) pieces 131) = true /\
  tv_cases <> [] /\
  (* the stack bound is a real constraint of the model: a 55th push panics *)
  is_panic (ref_push_stack (mkRH (rcs_new ref_IV 0 0) ref_IV (repeat ref_zero_cv 54) 54 0) ref_zero_cv) = true.
Proof.
  cbv zeta. split; [exact tv_key_ok|]. split; [exact tv_context_ok|].
  split; [vm_compute; reflexivity|]. split; [vm_compute; reflexivity|].
  split; [vm_compute; reflexivity|]. split; [vm_compute; reflexivity|].
  split; [|vm_compute; reflexivity].
  unfold tv_cases. discriminate.
Qed.

Print Assumptions C15_ref_constants.
Print Assumptions C15_ref_compress_is_spec.
Print Assumptions C15_ref_compress_words_is_spec.
Print Assumptions C15_ref_refines.
Print Assumptions C15_ref_hash.
Print Assumptions C15_ref_keyed_hash.
Print Assumptions C15_ref_derive_key.
Print Assumptions C15_paint_is_the_pattern.
Print Assumptions C15_test_vectors_shape.
Print Assumptions C15_test_vectors_ok.
Print Assumptions C15_test_vectors_spec.
Print Assumptions C15_test_vectors_default_len.
Print Assumptions C15_ref_reproduces_test_vectors.
Print Assumptions C15_ref_agrees_with_rust_hash.
Print Assumptions C15_ref_agrees_with_rust_keyed_hash.
Print Assumptions C15_ref_agrees_with_rust_derive_key.
Print Assumptions C15_nonvacuous.

(* ---- the model against the source text -------------------------------------------------------------
   gen/GenRefImpl.v is reference_impl/reference_impl.rs translated statement by statement (tools/gen_coq.py
   gen_refimpl: order of statements, indices, rotation amounts, loop bounds, call arguments are the source's;
   arrays are lists with Base/Arr.v's arr_get / arr_set, integer expressions go through Base/MachInt.v).
   Each translated function equals the function of Model/RefImpl.v the theorems above are about, for all
   arguments: array lengths are the declared types, u8 fields are below 256, nothing else is assumed. *)
Theorem C15_ref_src_g : forall state a b c d mx my,
  refsrc_g state a b c d mx my = ref_g state a b c d mx my.
Proof. exact refsrc_g_eq. Qed.
Print Assumptions C15_ref_src_g.

Theorem C15_ref_src_round : forall state m, refsrc_round state m = ref_round state m.
Proof. exact refsrc_round_eq. Qed.
Print Assumptions C15_ref_src_round.

(* the model's Ok: the index m[MSG_PERMUTATION[i]] is in bounds *)
Theorem C15_ref_src_permute : forall m, length m = 16%nat -> ref_permute m = Ok (refsrc_permute m).
Proof. exact refsrc_permute_eq. Qed.
Print Assumptions C15_ref_src_permute.

Theorem C15_ref_src_permute_is_spec : forall m, length m = 16%nat -> refsrc_permute m = Compress.permute m.
Proof. exact refsrc_permute_is_spec. Qed.
Print Assumptions C15_ref_src_permute_is_spec.

Theorem C15_ref_src_compress : forall chaining_value block_words counter block_len flags,
  length chaining_value = 8%nat -> length block_words = 16%nat ->
  ref_compress chaining_value block_words counter block_len flags =
  Ok (refsrc_compress chaining_value block_words counter block_len flags).
Proof. exact refsrc_compress_eq. Qed.
Print Assumptions C15_ref_src_compress.

(* hence the translated source computes the specification's compression function *)
Theorem C15_ref_src_compress_is_spec : forall cv block ctr bl fl,
  length cv = 8%nat -> length block = 64%nat ->
  refsrc_compress cv (words_of_bytes block) ctr bl fl = compress cv block bl ctr fl.
Proof. exact refsrc_compress_is_spec. Qed.
Print Assumptions C15_ref_src_compress_is_spec.

Theorem C15_ref_src_first_8_words : forall w, refsrc_first_8_words w = ref_first_8_words w.
Proof. exact refsrc_first_8_words_eq. Qed.
Print Assumptions C15_ref_src_first_8_words.

(* any number of words; the model takes `words` as its length, its assert 1600 is the source's debug_assert_eq! *)
Theorem C15_ref_src_words_from_little_endian_bytes : forall bytes words,
  ref_words_from_le_bytes bytes (length words) =
  if refsrc_words_from_little_endian_bytes_debug_assert bytes words
  then Ok (refsrc_words_from_little_endian_bytes bytes words) else Panic 1600.
Proof. exact refsrc_words_from_le_bytes_model. Qed.
Print Assumptions C15_ref_src_words_from_little_endian_bytes.

Theorem C15_ref_src_words_from_little_endian_bytes_value : forall bytes words,
  length bytes = (4 * length words)%nat ->
  refsrc_words_from_little_endian_bytes bytes words = words_of_bytes bytes.
Proof. exact refsrc_words_from_le_bytes_eq. Qed.
Print Assumptions C15_ref_src_words_from_little_endian_bytes_value.

(* struct Output / struct ChunkState as translated (records, fields in the source's order) -> the model's *)
Theorem C15_ref_src_records : forall a b c d e f,
  ro_of_src (refsrc_Output_mk a b c d e) = mkRO a b c d e /\
  rcs_of_src (refsrc_ChunkState_mk a c b d e f) = mkRCS a c b d e f.
Proof. intros. split; reflexivity. Qed.
Print Assumptions C15_ref_src_records.

Theorem C15_ref_src_output_chaining_value : forall o,
  length (refsrc_Output_input_chaining_value o) = 8%nat -> length (refsrc_Output_block_words o) = 16%nat ->
  ro_chaining_value (ro_of_src o) = Ok (refsrc_Output_chaining_value o).
Proof. exact refsrc_Output_chaining_value_eq. Qed.
Print Assumptions C15_ref_src_output_chaining_value.

(* blocks_compressed and block_len are u8 *)
Theorem C15_ref_src_chunk_state_len : forall c,
  refsrc_ChunkState_blocks_compressed c < 256 -> refsrc_ChunkState_block_len c < 256 ->
  refsrc_ChunkState_len c = Ok (rcs_len (rcs_of_src c)).
Proof. exact refsrc_ChunkState_len_eq. Qed.
Print Assumptions C15_ref_src_chunk_state_len.

Theorem C15_ref_src_chunk_state_start_flag : forall c,
  refsrc_ChunkState_start_flag c = Ok (rcs_start_flag (rcs_of_src c)).
Proof. exact refsrc_ChunkState_start_flag_eq. Qed.
Print Assumptions C15_ref_src_chunk_state_start_flag.

Theorem C15_ref_src_parent_output : forall left_child_cv right_child_cv key_words flags,
  length left_child_cv = 8%nat -> length right_child_cv = 8%nat ->
  ro_of_src (refsrc_parent_output left_child_cv right_child_cv key_words flags) =
  ref_parent_output left_child_cv right_child_cv key_words flags.
Proof. exact refsrc_parent_output_eq. Qed.
Print Assumptions C15_ref_src_parent_output.

Theorem C15_ref_src_parent_cv : forall left_child_cv right_child_cv key_words flags,
  length left_child_cv = 8%nat -> length right_child_cv = 8%nat -> length key_words = 8%nat ->
  ref_parent_cv left_child_cv right_child_cv key_words flags =
  Ok (refsrc_parent_cv left_child_cv right_child_cv key_words flags).
Proof. exact refsrc_parent_cv_eq. Qed.
Print Assumptions C15_ref_src_parent_cv.
