(* C08: multithreaded hashing is deterministic under every schedule.
   Model (Model/Concurrency.v): at a split of compress_subtree_wide the left half writes its CVs into
   slots [0, degree) of the node's cv_array and the right half into slots [degree, degree + right_n);
   a schedule is ANY interleaving of the two halves' write events (left-first, right-first and every
   concurrent interleaving); the parent layer then reads the first left_n + right_n slots.
   Statements only; proofs in Proofs/ConcurrencyP.v.  The thread runtime (rayon, TBB, the hardware
   memory model) is trusted, not modelled; it is exercised by tools/props/C08.py. *)
From Coq Require Import NArith List Bool.
From V Require Import Base.Res Spec.Tree Model.Platform Model.RsWide Model.RsHasher Model.Concurrency Model.RsWideSched Model.RsHasherSched Proofs.ConcurrencyP Proofs.WideSchedP.
Import ListNotations.
Open Scope N_scope.

(* the halves never write the same slot (left_n <= degree is asserted by the code and proved in C01) *)
Theorem C08_halves_disjoint : forall degree lcvs rcvs, (length lcvs <= degree)%nat ->
  disjoint (slots (events_from 0 lcvs)) (slots (events_from degree rcvs)).
Proof. exact halves_disjoint. Qed.

(* disjoint write sets: every interleaving leaves the same memory as left-then-right *)
Theorem C08_interleave_irrelevant : forall l r m, Interleave l r m -> disjoint (slots l) (slots r) ->
  forall mem, apply_writes mem m = apply_writes mem (l ++ r).
Proof. exact interleave_irrelevant. Qed.

(* whatever the schedule, the parent layer of the node sees exactly left ++ right *)
Theorem C08_split_node_schedule_independent : forall cap degree lcvs rcvs m,
  length lcvs = degree -> (degree + length rcvs <= cap)%nat ->
  Interleave (events_from 0 lcvs) (events_from degree rcvs) m ->
  split_node cap degree lcvs rcvs m = lcvs ++ rcvs.
Proof. exact split_node_schedule_independent. Qed.

(* left-first (SerialJoin) and right-first are schedules *)
Theorem C08_serial_is_a_schedule : forall (l r : list wr), Interleave l r (l ++ r) /\ Interleave l r (r ++ l).
Proof. intros l r. split; [apply interleave_left_first|apply interleave_right_first]. Qed.

(* the whole recursion: compress_subtree_wide::<J> with ANY schedule tree (an arbitrary
   interleaving of the two halves' writes at every split node, recursively) returns exactly what
   the serial recursion returns - value, panic code or fuel - for every platform whose degree
   fits its arrays, every input, key, counter, flags and capacity *)
Theorem C08_wide_schedule_independent : forall p, p_degree p <= p_max_degree p ->
  forall fuel s input key ctr flags cap,
  compress_subtree_wide_sched fuel p s input key ctr flags cap = compress_subtree_wide fuel p input key ctr flags cap.
Proof. exact wide_sched_eq. Qed.

Theorem C08_to_parent_node_schedule_independent : forall p, p_degree p <= p_max_degree p ->
  forall s input key ctr flags,
  compress_subtree_to_parent_node_sched p s input key ctr flags = compress_subtree_to_parent_node p input key ctr flags.
Proof. exact to_parent_node_sched_eq. Qed.

Theorem C08_hash_all_at_once_schedule_independent : forall p, p_degree p <= p_max_degree p ->
  forall s input key flags,
  hash_all_at_once_sched p s input key flags = hash_all_at_once p input key flags.
Proof. exact hash_all_at_once_sched_eq. Qed.

(* Hasher::update_with_join::<J> (update_rayon, update_mmap_rayon, scripted join): one update under
   any family of schedule trees is Hasher::update; so is any history of such updates *)
Theorem C08_hasher_update_schedule_independent : forall p, p_degree p <= p_max_degree p ->
  forall sch h input, hasher_update_sched p sch h input = hasher_update p h input.
Proof. exact hasher_update_sched_eq. Qed.

Theorem C08_update_history_schedule_independent : forall p, p_degree p <= p_max_degree p ->
  forall pieces h, updates_sched p h pieces = updates_serial p h (map snd pieces).
Proof. exact updates_sched_eq. Qed.

(* the schedules quantified over are ALL interleavings: every interleaving is a weave, every weave an interleaving *)
Theorem C08_weave_complete : forall (l r m : list wr), Interleave l r m <-> exists order, m = weave order l r.
Proof. intros l r m. split; [apply interleave_is_weave|intros [o ->]; apply weave_interleave]. Qed.

Example C08_nonvacuous :
  let l := [[1]; [2]] in let r := [[3]] in
  split_node 8 2 l r [(2%nat, [3]); (0%nat, [1]); (1%nat, [2])] = [[1]; [2]; [3]] /\
  Interleave (events_from 0 l) (events_from 2 r) [(2%nat, [3]); (0%nat, [1]); (1%nat, [2])].
Proof. split; [reflexivity|]. cbn. apply IL_right. apply IL_left. apply IL_left. constructor. Qed.

(* the functions of the modelled source are exactly the functions the model was written against
   (gen/GenApi.v is regenerated from /repo on every run; see Model/ApiSurface.v) *)
From V Require gen.GenApi Model.ApiSurface.
Theorem C08_api_join : GenApi.api_join = ApiSurface.expected_join.
Proof. reflexivity. Qed.

Print Assumptions C08_api_join.
Print Assumptions C08_halves_disjoint.
Print Assumptions C08_interleave_irrelevant.
Print Assumptions C08_split_node_schedule_independent.
Print Assumptions C08_serial_is_a_schedule.
Print Assumptions C08_wide_schedule_independent.
Print Assumptions C08_to_parent_node_schedule_independent.
Print Assumptions C08_hash_all_at_once_schedule_independent.
Print Assumptions C08_weave_complete.
Print Assumptions C08_hasher_update_schedule_independent.
Print Assumptions C08_update_history_schedule_independent.
