(* Machine words and bytes as binary naturals (N), with explicit wrap-around. *)
From Coq Require Import NArith List Lia Bool.
Import ListNotations.
Open Scope N_scope.

Definition mask32 : N := 0xFFFFFFFF.
Definition w32 (x : N) : N := N.land x mask32.
Definition add32 (a b : N) : N := w32 (a + b).
Definition xor32 (a b : N) : N := N.lxor a b.
Definition rotr32 (x r : N) : N :=
  N.lor (N.shiftr x r) (w32 (N.shiftl x (32 - r))).

Definition is_byte (b : N) : bool := b <? 256.
Definition is_word (w : N) : bool := w <? 4294967296.

Definition byte_n (w i : N) : N := N.land (N.shiftr w (8 * i)) 255.

Definition bytes_of_word (w : N) : list N :=
  [byte_n w 0; byte_n w 1; byte_n w 2; byte_n w 3].

Definition word_of_bytes4 (b0 b1 b2 b3 : N) : N :=
  N.lor b0 (N.lor (N.shiftl b1 8) (N.lor (N.shiftl b2 16) (N.shiftl b3 24))).

(* Little-endian bytes -> words, four at a time; a trailing group shorter than
   four bytes is dropped (callers always pass a multiple of four). *)
Fixpoint words_of_bytes (l : list N) : list N :=
  match l with
  | b0 :: b1 :: b2 :: b3 :: tl => word_of_bytes4 b0 b1 b2 b3 :: words_of_bytes tl
  | _ => []
  end.

Definition bytes_of_words (ws : list N) : list N := flat_map bytes_of_word ws.

Lemma bytes_of_words_length ws : length (bytes_of_words ws) = (4 * length ws)%nat.
Proof. induction ws as [|w ws IH]; simpl; [reflexivity|]. rewrite IH. lia. Qed.

Lemma w32_lt x : w32 x < 4294967296.
Proof.
  unfold w32, mask32. change 0xFFFFFFFF with (N.ones 32).
  rewrite N.land_ones. apply N.mod_lt. discriminate.
Qed.

Lemma w32_id x : x < 4294967296 -> w32 x = x.
Proof.
  intros H. unfold w32, mask32. change 0xFFFFFFFF with (N.ones 32).
  rewrite N.land_ones. apply N.mod_small. exact H.
Qed.

Lemma byte_n_lt w i : byte_n w i < 256.
Proof.
  unfold byte_n. change 255 with (N.ones 8). rewrite N.land_ones.
  apply N.mod_lt. discriminate.
Qed.

Definition all_bytes (l : list N) : bool := forallb is_byte l.
Definition all_words (l : list N) : bool := forallb is_word l.

Lemma bytes_of_words_all_bytes ws : all_bytes (bytes_of_words ws) = true.
Proof.
  unfold all_bytes, bytes_of_words. induction ws as [|w ws IH]; [reflexivity|].
  cbn [flat_map]. rewrite forallb_app, IH, andb_true_r.
  unfold bytes_of_word, is_byte. cbn [forallb].
  rewrite !andb_true_iff. repeat split; try reflexivity; apply N.ltb_lt, byte_n_lt.
Qed.
