(* The property-level oracle of the C history machine (Model/CHasher.v: c_op / c_obs /
   c_mode / c_run_case): the same case language interpreted with the SPECIFICATION only
   (Spec/*.v).  It uses none of the executable models of c/blake3.c (from Model/CHasher.v
   only the syntax of the language - c_mode, c_op, c_obs - and the list helpers upd_nth /
   list_eqb) and none of the generated constants.

   One specification instance per blake3_hasher: the bytes absorbed since the last reset
   (ci_bytes) and, for the `cmp` observation only, the trace of the state-changing calls
   made on the struct since its initialiser ran (ci_trace: non-empty updates and resets;
   a clone copies the trace; zero-length calls and finalize leave it alone).

   - new:            a fresh instance (no bytes, empty trace)
   - update i b:     bytes := bytes ++ b; refused (None) when the total would reach 2^64
   - update0 i:      changes and observes nothing
   - finalize i n:   observes S[0 .. n) of the root output of the bytes, n <= 2^64 - 1
   - finalize_seek i seek n: observes S[seek .. seek + n), seek + n <= 2^64 - 1
   - finalize0 i:    observes `ok`, changes nothing
   - reset i:        bytes := []
   - clone i:        a new instance with the same bytes (and trace)
   - cmp i j:        memcmp of the two structs.  The specification cannot know the raw bytes of
                     a blake3_hasher in general (the cv_stack array keeps stale slots, the chunk
                     buffer keeps stale bytes), so cmp is specified only where equality is FORCED:
                     both structs were produced by the same initialiser (every instance of a case
                     is) followed by the same sequence of state-changing calls - e.g. an instance
                     and its clone after the same operations on both, or a fresh instance and one
                     that only saw zero-length calls and finalizes.  Then the observation is
                     `same = true`; in every other situation the machine answers None.
   None also for an instance index that does not exist.

   Proofs/CMachineRefinesP.v (pinned in Props/C06.v) proves that every history this machine
   accepts is reproduced, observation for observation and without a panic, by the
   implementation machine CHasher.c_run_case on every PlatformOK platform. *)
From Coq Require Import NArith List Bool.
From V Require Import Base.Res Base.Word Spec.Compress Spec.Tree Spec.Blake3 Model.CHasher.
Import ListNotations.
Open Scope N_scope.

(* a state-changing call on a struct *)
Inductive c_ev := CEvUpdate (b : list N) | CEvReset.

Definition c_ev_eqb (a b : c_ev) : bool :=
  match a, b with
  | CEvUpdate x, CEvUpdate y => list_eqb N.eqb x y
  | CEvReset, CEvReset => true
  | _, _ => false
  end.

Record c_sinst := mkCI { ci_bytes : list N; ci_trace : list c_ev }.

(* strlen of a NUL-terminated copy: the bytes before the first NUL *)
Fixpoint c_str_prefix (s : list N) : list N :=
  match s with
  | [] => []
  | b :: tl => if b =? 0 then [] else b :: c_str_prefix tl
  end.

(* the specification mode of a case: init_derive_key sees the context up to its first NUL *)
Definition c_spec_mode (m : c_mode) : mode :=
  match m with
  | CMHash => Hash
  | CMKeyed k => KeyedHash k
  | CMDerive c => DeriveKeyMaterial (b3_hash_mode DeriveKeyContext (c_str_prefix c))
  | CMDeriveRaw c => DeriveKeyMaterial (b3_hash_mode DeriveKeyContext c)
  end.

(* the root output of an instance's bytes in the mode of the case *)
Definition c_root_out (m : c_mode) (bs : list N) : output :=
  subtree_output spec_c8 tree_height (mode_key (c_spec_mode m)) (mode_flags (c_spec_mode m)) 0 bs.

Definition c_max_position : N := 2 ^ 64 - 1.

(* an update of zero bytes through COpUpdate is as invisible as COpUpdate0 *)
Definition c_trace_update (tr : list c_ev) (b : list N) : list c_ev :=
  match b with [] => tr | _ => tr ++ [CEvUpdate b] end.

Definition c_sstep (m : c_mode) (st : list c_sinst) (o : c_op) : option (list c_sinst * list c_obs) :=
  match o with
  | COpNew => Some (st ++ [mkCI [] []], [])
  | COpUpdate i b =>
      match nth_error st i with
      | Some x => if len (ci_bytes x) + len b <? 2 ^ 64
                  then Some (upd_nth i (mkCI (ci_bytes x ++ b) (c_trace_update (ci_trace x) b)) st, [])
                  else None
      | None => None end
  | COpUpdate0 i => match nth_error st i with Some _ => Some (st, []) | None => None end
  | COpFinalize i n =>
      match nth_error st i with
      | Some x => if n <=? c_max_position
                  then Some (st, [CObXof (stream spec_c64 (c_root_out m (ci_bytes x)) 0 (N.to_nat n))])
                  else None
      | None => None end
  | COpFinalizeSeek i seek n =>
      match nth_error st i with
      | Some x => if seek + n <=? c_max_position
                  then Some (st, [CObXof (stream spec_c64 (c_root_out m (ci_bytes x)) seek (N.to_nat n))])
                  else None
      | None => None end
  | COpFinalize0 i => match nth_error st i with Some _ => Some (st, [CObOk]) | None => None end
  | COpReset i =>
      match nth_error st i with
      | Some x => Some (upd_nth i (mkCI [] (ci_trace x ++ [CEvReset])) st, [])
      | None => None end
  | COpClone i => match nth_error st i with Some x => Some (st ++ [x], []) | None => None end
  | COpCmp i j =>
      match nth_error st i, nth_error st j with
      | Some x, Some y => if list_eqb c_ev_eqb (ci_trace x) (ci_trace y) then Some (st, [CObSame true]) else None
      | _, _ => None end
  end.

Fixpoint c_srun (m : c_mode) (st : list c_sinst) (ops : list c_op) : option (list c_obs) :=
  match ops with
  | [] => Some []
  | o :: tl =>
      match c_sstep m st o with
      | Some (st', out) => match c_srun m st' tl with Some rest => Some (out ++ rest) | None => None end
      | None => None
      end
  end.

(* a case: instance 0 is created by the mode's initialiser, then the ops *)
Definition c_spec_run_case (m : c_mode) (ops : list c_op) : option (list c_obs) :=
  c_srun m [mkCI [] []] ops.
