(* C06: the C library (c/blake3.c behind the dispatcher) computes the specification.
   Statements only; proofs in Proofs/CFormulasP.v, Proofs/CHasherP.v, CHasherP2.v,
   CHasherP3.v, CHasherP4.v.  The model is Model/CHasher.v; `platform` / PlatformOK
   (Model/Platform.v) stand for every CPU-feature level the dispatcher can select (C05 ties
   the real kernels to PlatformOK); `stream spec_c64 o p n` is the specification's
   S[p .. p+n) of the root output o (Spec/Tree.v); `Ok` in a conclusion means that no array
   index of the model (cv_stack, cv_array, out, chunk buffer) left its bounds, no C assert
   fired and no unsigned arithmetic wrapped.

   Everything below is proved completely (no partial results remain):
   C06_formulas_*, C06_output_root_bytes_spec, C06_reset_is_init, C06_derive_key_agree,
   C06_zero_length_noops, C06_finalize_pure (+ the cl/f/cmp observation),
   C06_subtree_to_parent_node_spec (the C compress_subtree_wide /
   compress_subtree_to_parent_node = the specification tree), C06_merge_cv_stack_spec and
   C06_push_cv_spec (the in-place byte stack under popcnt merging), C06_update_loop_refines
   (the `while (input_len > CHUNK_LEN)` loop of blake3_hasher_update from any chunk-aligned
   state), and the end-to-end theorems
     C06_one_shot_spec / C06_one_shot_hash  init, one update of any length < 2^64, finalize_seek;
     C06_update_refines (+ _hash, _keyed, _derive_key)  init, ANY sequence of updates (arbitrary
       split points, partial chunks left in the chunk state), finalize_seek = the specification
       stream of the concatenation, for every key / flags and for the three public modes;
     C06_reset_refines, C06_finalize_then_continue  reset starts a new message, finalize_seek is
       a query after which updates continue.
   They rest on the hasher invariant CInv of Proofs/CHasherP4.v (analogue of Inv in
   Proofs/HasherP.v): established by hasher_init_base, preserved by hasher_update from any
   state satisfying it, and sufficient for the roll-up loop of finalize_seek.
   The last part of the file is the END-TO-END theorem over the whole C case language:
     C06_machine_refines_spec  every history the specification-only machine
       (Model/CSpecMachine.v) accepts is reproduced observation for observation, without a
       panic, by c_run_case on every PlatformOK platform (Proofs/CMachineRefinesP.v);
     C06_machine_no_panic, C06_machine_platform_independent, C06_machine_equals_rust. *)
From Coq Require Import NArith ZArith List Bool.
From V Require Import Base.Res Base.Word Base.MachInt gen.GenConsts gen.GenFormulas
  Spec.Compress Spec.Tree Spec.Blake3 Model.Portable Model.Platform Model.RsChunk Model.RsWide Model.CHasher
  Proofs.TreeP Proofs.WideP Proofs.XofP Proofs.StackArithP Proofs.CFormulasP Proofs.CHasherP Proofs.CHasherP2 Proofs.CHasherP3 Proofs.CHasherP4.
Import ListNotations.
Open Scope N_scope.

(* ---- c_formulas: the integer formulas and constants of the C source ------------------------------- *)
Theorem C06_formulas_round_down : forall n, 1 <= n -> n < 2 ^ 64 ->
  c_round_down_to_power_of_2 n = Ok (2 ^ N.log2 n) /\
  c_round_down_to_power_of_2 n = rs_largest_power_of_two_leq n.
Proof. intros n H1 H2. split; [apply c_round_down_spec|apply c_round_down_is_rs]; assumption. Qed.

Theorem C06_formulas_left_subtree_len : forall n, 1024 < n -> n < 2 ^ 64 ->
  c_left_subtree_len n = Ok (left_len n) /\ c_left_subtree_len n = rs_left_subtree_len n.
Proof. intros n H1 H2. split; [apply c_left_subtree_len_spec|apply c_left_subtree_len_is_rs]; assumption. Qed.

Theorem C06_formulas_constants :
  c_IV = IV /\ c_IV = rs_IV /\ c_MSG_SCHEDULE = rs_MSG_SCHEDULE /\
  c_KEY_LEN = 32 /\ c_OUT_LEN = 32 /\ c_BLOCK_LEN = 64 /\ c_CHUNK_LEN = 1024 /\
  (c_KEY_LEN, c_OUT_LEN, c_BLOCK_LEN, c_CHUNK_LEN) = (rs_KEY_LEN, rs_OUT_LEN, rs_BLOCK_LEN, rs_CHUNK_LEN) /\
  (c_flag_CHUNK_START, c_flag_CHUNK_END, c_flag_PARENT, c_flag_ROOT, c_flag_KEYED_HASH, c_flag_DERIVE_KEY_CONTEXT,
   c_flag_DERIVE_KEY_MATERIAL) = (CHUNK_START, CHUNK_END, PARENT, ROOT, KEYED_HASH, DERIVE_KEY_CONTEXT, DERIVE_KEY_MATERIAL) /\
  (c_flag_CHUNK_START, c_flag_CHUNK_END, c_flag_PARENT, c_flag_ROOT, c_flag_KEYED_HASH, c_flag_DERIVE_KEY_CONTEXT,
   c_flag_DERIVE_KEY_MATERIAL) = (rs_flag_CHUNK_START, rs_flag_CHUNK_END, rs_flag_PARENT, rs_flag_ROOT, rs_flag_KEYED_HASH,
   rs_flag_DERIVE_KEY_CONTEXT, rs_flag_DERIVE_KEY_MATERIAL) /\
  c_MAX_DEPTH = rs_MAX_DEPTH /\ c_cv_stack_bytes / c_OUT_LEN = rs_cv_stack_cap /\
  c_MAX_SIMD_DEGREE = 16 /\ c_MAX_SIMD_DEGREE_OR_2 = 16.
Proof. exact c_consts. Qed.

(* popcnt, `out_len & -64`, the shrink condition (same formula as the Rust source) *)
Theorem C06_formulas_small :
  (forall x, x < 2 ^ 64 -> c_popcnt x = Ok (popcount x)) /\
  (forall n, n < 2 ^ 64 -> c_orb_whole n = Ok (n / 64 * 64)) /\
  (forall seek, c_orb_counter seek = Ok (seek / 64) /\ c_orb_offset seek = Ok (seek mod 64)) /\
  (forall l c, c_shrink_cond l c = rs_shrink_cond l c) /\
  (forall blocks buf_len, blocks < 256 -> buf_len < 256 -> c_chunk_state_len blocks buf_len = Ok (64 * blocks + buf_len)).
Proof.
  split; [exact c_popcnt_spec|]. split; [exact c_orb_whole_spec|].
  split; [intros; split; reflexivity|]. split; [exact c_shrink_cond_is_rs|exact c_chunk_state_len_spec].
Qed.

(* the dispatcher's platforms satisfy PlatformOK at every level *)
Theorem C06_platforms_ok : forall d, In d [1; 4; 8; 16] -> PlatformOK (c_platform d).
Proof.
  intros d Hd. apply sim_platform_ok; cbn in Hd;
    repeat (destruct Hd as [<-|Hd]; [try reflexivity; try (cbv; discriminate)|]); try contradiction.
Qed.

(* ---- output_root_bytes: exactly S[seek .. seek + out_len) ----------------------------------------------- *)
Theorem C06_output_root_bytes_spec : forall p, PlatformOK p -> forall o seek out_len,
  wf_out o -> seek + out_len <= 2 ^ 64 - 1 ->
  c_output_root_bytes p o seek out_len = Ok (stream spec_c64 o seek (N.to_nat out_len)).
Proof. exact c_output_root_bytes_spec. Qed.

(* ---- reset: the state hasher_init_base produces for the same key and flags ------------------------------- *)
Theorem C06_reset_is_init : forall p mem key flags h,
  c_reach p (c_hasher_init_base mem key flags) h ->
  c_hasher_reset h = c_hasher_init_base (ch_stack h) key flags.
Proof. exact c_reset_is_init_base. Qed.

(* update never changes key, flags or the size of the stack array *)
Theorem C06_update_preserves_mode : forall p h input h', c_hasher_update p h input = Ok h' ->
  ch_key h' = ch_key h /\ ch_flags h' = ch_flags h /\ length (ch_stack h') = length (ch_stack h).
Proof. exact c_hasher_update_fields. Qed.

(* ---- init_derive_key on a NUL-free context = init_derive_key_raw on the same bytes ----------------------- *)
Theorem C06_derive_key_agree : forall p mem ctx rest, Forall (fun b => b <> 0) ctx ->
  c_hasher_init_derive_key p mem (ctx ++ 0 :: rest) = c_hasher_init_derive_key_raw p mem ctx.
Proof. exact c_derive_key_agree. Qed.

(* ---- zero-length update and output are no-ops -------------------------------------------------------------- *)
Theorem C06_zero_length_noops : forall p h seek o,
  c_hasher_update p h [] = Ok h /\ c_hasher_finalize_seek p h seek 0 = Ok [] /\
  c_hasher_finalize p h 0 = Ok [] /\ c_output_root_bytes p o seek 0 = Ok [].
Proof. intros. repeat split; reflexivity. Qed.

(* ---- finalize leaves the hasher unchanged; what the harness observes with cl / f / cmp ---------------------- *)
Theorem C06_finalize_pure : forall p m st o st' obs,
  (exists i n, o = COpFinalize i n) \/ (exists i s n, o = COpFinalizeSeek i s n) \/ (exists i, o = COpFinalize0 i) ->
  c_step p m st o = Ok (st', obs) -> st' = st.
Proof. exact c_finalize_pure. Qed.

Theorem C06_clone_finalize_cmp : forall p m st i n h bs,
  c_get st i = Ok h -> c_hasher_finalize p h n = Ok bs ->
  c_run_ops p m st [COpClone i; COpFinalize i n; COpCmp i (length st)] [] = ([CObXof bs; CObSame true], Ok tt).
Proof. exact c_clone_finalize_cmp. Qed.

(* ---- the wide path: compress_subtree_to_parent_node returns the two children of the specification tree ------- *)
Theorem C06_subtree_to_parent_node_spec : forall p, PlatformOK p -> forall K F, length K = 8%nat ->
  forall input ctr, 1024 < len input -> len input < 2 ^ 64 -> ctr + chunks (len input) < 2 ^ 64 ->
  exists ta tb, c_compress_subtree_to_parent_node p input K ctr F = Ok (tree_cv spec_c8 K F ta ++ tree_cv spec_c8 K F tb) /\
                spec_tree wide_fuel ctr input = Node ta tb /\ wf_tree ta /\ wf_tree tb.
Proof. exact c_to_parent_node_spec. Qed.

(* whenever the Rust model's wide function succeeds, the C one succeeds with the same CVs *)
Theorem C06_wide_is_rs : forall p, 1 <= p_degree p -> forall fuel input key ctr flags cap v,
  nlen input < 2 ^ 64 ->
  compress_subtree_wide fuel p input key ctr flags cap = Ok v ->
  c_compress_subtree_wide fuel p input key ctr flags cap = Ok v.
Proof. exact c_wide_sim. Qed.

(* ---- the in-place CV stack -------------------------------------------------------------------------------------
   StackRel h l: the first cv_stack_len slots hold the CVs of the abstract entries l (exponent, subtree), bottom
   first; Segs 0 l m: the entries are the specification subtrees of consecutive pieces of m; Dom / SDom: sizes are
   (strictly) dominated from the bottom (Proofs/StackArithP.v). *)
Theorem C06_merge_cv_stack_spec : forall p, PlatformOK p -> forall K F, length K = 8%nat -> forall h l T,
  StackRel K F h l -> Dom (exps l) -> T = sum2 (exps l) -> T < 2 ^ 64 ->
  exists h' l', c_merge_cv_stack p h T = Ok h' /\ StackRel K F h' l' /\
    SDom (exps l') /\ sum2 (exps l') = T /\ ch_chunk h' = ch_chunk h /\
    (forall ctr bytes, len bytes < 2 ^ 64 -> Segs ctr l bytes -> Segs ctr l' bytes) /\
    (SDom (exps l) -> l' = l).
Proof. exact c_merge_cv_stack_spec. Qed.

Theorem C06_push_cv_spec : forall p, PlatformOK p -> forall K F, length K = 8%nat -> forall h l T e t,
  StackRel K F h l -> Dom (exps l) -> T = sum2 (exps l) -> T < 2 ^ 54 -> wf_tree t ->
  exists h' l', c_push_cv p h (tree_cv spec_c8 K F t) T = Ok h' /\ StackRel K F h' (l' ++ [(e, t)]) /\
    SDom (exps l') /\ sum2 (exps l') = T /\ ch_chunk h' = ch_chunk h /\
    (forall ctr bytes, len bytes < 2 ^ 64 -> Segs ctr l bytes -> Segs ctr l' bytes) /\
    (SDom (exps l) -> l' = l).
Proof. exact c_push_cv_spec. Qed.

(* the `while (input_len > BLAKE3_CHUNK_LEN)` loop of blake3_hasher_update, from any state whose chunk buffer is
   empty (LInv): it consumes a prefix of the input that leaves at most one chunk, and the stack then holds the
   specification subtrees of everything absorbed so far *)
Theorem C06_update_loop_refines : forall p, PlatformOK p -> forall K F, length K = 8%nat ->
  forall fuel h m l input,
  LInv K F h m l -> len (m ++ input) < 2 ^ 64 -> (N.to_nat (len input / 1024) < fuel)%nat ->
  exists h' l' k, c_update_loop fuel p h input = Ok (h', drop k input) /\ LInv K F h' (m ++ take k input) l' /\
    k <= len input /\ len input - k <= 1024 /\
    ((k = 0 /\ h' = h /\ l' = l) \/ (0 < k /\ (len input - k = 0 -> exists pre a, exps l' = pre ++ [a; a]))).
Proof. exact c_update_loop_spec. Qed.

(* ---- init, one update, finalize_seek: every message shorter than 2^64 bytes, every key / flags (i.e. every
   initialiser), every previous content of the cv_stack memory, every seek and output length ------------------- *)
Theorem C06_one_shot_spec : forall p, PlatformOK p -> forall K F, length K = 8%nat ->
  forall mem m seek out_len,
  length mem = 55%nat -> len m < 2 ^ 64 -> seek + out_len <= 2 ^ 64 - 1 ->
  (h <- c_hasher_update p (c_hasher_init_base mem K F) m ;; c_hasher_finalize_seek p h seek out_len) =
  Ok (stream spec_c64 (subtree_output spec_c8 tree_height K F 0 m) seek (N.to_nat out_len)).
Proof. exact c_one_shot_spec. Qed.

(* blake3_hasher_init: the specification's extended output of the hash mode *)
Theorem C06_one_shot_hash : forall p, PlatformOK p -> forall mem m seek out_len,
  length mem = 55%nat -> len m < 2 ^ 64 -> seek + out_len <= 2 ^ 64 - 1 ->
  (h <- c_hasher_update p (c_hasher_init mem) m ;; c_hasher_finalize_seek p h seek out_len) =
  Ok (b3_xof_mode Hash m seek (N.to_nat out_len)).
Proof. intros p POK. exact (c_one_shot_spec p POK IV 0 eq_refl). Qed.

(* ---- any sequence of updates i1 .. ik (the fold is update(.. update(update(h0, i1), i2) .., ik), stopping at the
   first failure), then finalize_seek: the specification stream of i1 ++ .. ++ ik -------------------------------- *)
Theorem C06_update_refines : forall p, PlatformOK p -> forall K F, length K = 8%nat ->
  forall mem pieces seek out_len,
  length mem = 55%nat -> len (concat pieces) < 2 ^ 64 -> seek + out_len <= 2 ^ 64 - 1 ->
  exists h,
    fold_left (fun r x => h <- r ;; c_hasher_update p h x) pieces (Ok (c_hasher_init_base mem K F)) = Ok h /\
    c_hasher_finalize_seek p h seek out_len =
    Ok (stream spec_c64 (subtree_output spec_c8 tree_height K F 0 (concat pieces)) seek (N.to_nat out_len)).
Proof. exact c_update_refines. Qed.

(* the three public modes: blake3_hasher_init, _init_keyed (32-byte key), _init_derive_key_raw (C06_derive_key_agree
   covers _init_derive_key) *)
Theorem C06_update_refines_hash : forall p, PlatformOK p -> forall mem pieces seek out_len,
  length mem = 55%nat -> len (concat pieces) < 2 ^ 64 -> seek + out_len <= 2 ^ 64 - 1 ->
  exists h,
    fold_left (fun r x => h <- r ;; c_hasher_update p h x) pieces (Ok (c_hasher_init mem)) = Ok h /\
    c_hasher_finalize_seek p h seek out_len = Ok (b3_xof_mode Hash (concat pieces) seek (N.to_nat out_len)).
Proof. exact c_update_refines_hash. Qed.

Theorem C06_update_refines_keyed : forall p, PlatformOK p -> forall mem key pieces seek out_len,
  length key = 32%nat -> length mem = 55%nat -> len (concat pieces) < 2 ^ 64 -> seek + out_len <= 2 ^ 64 - 1 ->
  exists h0 h, c_hasher_init_keyed mem key = Ok h0 /\
    fold_left (fun r x => h <- r ;; c_hasher_update p h x) pieces (Ok h0) = Ok h /\
    c_hasher_finalize_seek p h seek out_len = Ok (b3_xof_mode (KeyedHash key) (concat pieces) seek (N.to_nat out_len)).
Proof. exact c_update_refines_keyed. Qed.

Theorem C06_update_refines_derive_key : forall p, PlatformOK p -> forall mem ctx pieces seek out_len,
  len ctx < 2 ^ 64 -> length mem = 55%nat -> len (concat pieces) < 2 ^ 64 -> seek + out_len <= 2 ^ 64 - 1 ->
  exists h0 h, c_hasher_init_derive_key_raw p mem ctx = Ok h0 /\
    fold_left (fun r x => h <- r ;; c_hasher_update p h x) pieces (Ok h0) = Ok h /\
    c_hasher_finalize_seek p h seek out_len =
    Ok (b3_xof_mode (DeriveKeyMaterial (b3_hash_mode DeriveKeyContext ctx)) (concat pieces) seek (N.to_nat out_len)).
Proof. exact c_update_refines_derive_key. Qed.

(* ---- reset discards what was absorbed; finalize_seek is a query and updates may continue after it --------------- *)
Theorem C06_reset_refines : forall p, PlatformOK p -> forall K F, length K = 8%nat ->
  forall mem pieces1 pieces2 seek out_len,
  length mem = 55%nat -> len (concat pieces1) < 2 ^ 64 -> len (concat pieces2) < 2 ^ 64 -> seek + out_len <= 2 ^ 64 - 1 ->
  exists h1 h,
    fold_left (fun r x => h <- r ;; c_hasher_update p h x) pieces1 (Ok (c_hasher_init_base mem K F)) = Ok h1 /\
    fold_left (fun r x => h <- r ;; c_hasher_update p h x) pieces2 (Ok (c_hasher_reset h1)) = Ok h /\
    c_hasher_finalize_seek p h seek out_len =
    Ok (stream spec_c64 (subtree_output spec_c8 tree_height K F 0 (concat pieces2)) seek (N.to_nat out_len)).
Proof. exact c_reset_refines. Qed.

Theorem C06_finalize_then_continue : forall p, PlatformOK p -> forall K F, length K = 8%nat ->
  forall mem pieces1 pieces2 seek1 n1 seek2 n2,
  length mem = 55%nat -> len (concat (pieces1 ++ pieces2)) < 2 ^ 64 ->
  seek1 + n1 <= 2 ^ 64 - 1 -> seek2 + n2 <= 2 ^ 64 - 1 ->
  exists h1 h2,
    fold_left (fun r x => h <- r ;; c_hasher_update p h x) pieces1 (Ok (c_hasher_init_base mem K F)) = Ok h1 /\
    c_hasher_finalize_seek p h1 seek1 n1 =
    Ok (stream spec_c64 (subtree_output spec_c8 tree_height K F 0 (concat pieces1)) seek1 (N.to_nat n1)) /\
    fold_left (fun r x => h <- r ;; c_hasher_update p h x) pieces2 (Ok h1) = Ok h2 /\
    c_hasher_finalize_seek p h2 seek2 n2 =
    Ok (stream spec_c64 (subtree_output spec_c8 tree_height K F 0 (concat (pieces1 ++ pieces2))) seek2 (N.to_nat n2)).
Proof. exact c_finalize_then_continue. Qed.

(* ---- non-vacuity: the model run of BLAKE3("abc") on the portable platform, and a multi-update history over a
   5000-byte message (byte i = i mod 251): updates of 1, 1023 (completing the first chunk exactly), 2048 (two whole
   chunks through the subtree path), 0 and 1928 bytes (one whole chunk and a partial one), finalize / finalize_seek
   in between, then reset and a second message; every output equals the specification of the bytes absorbed so far.
   Run on the portable platform and on the widest dispatch level. ------------------------------------------------ *)
Example C06_nonvacuous_abc :
  c_run_case (c_platform 1) CMHash [COpUpdate 0 [97; 98; 99]; COpClone 0; COpFinalize 0 32; COpCmp 0 1] =
  ([CObXof digest_abc; CObSame true], Ok tt).
Proof. vm_compute. reflexivity. Qed.

Definition C06_msg (n : nat) : list N := map (fun i => N.of_nat i mod 251) (seq 0 n).
Definition C06_history (m : list N) : list c_op :=
  [COpUpdate 0 (take 1 m); COpUpdate 0 (take 1023 (drop 1 m)); COpFinalize 0 32;
   COpUpdate 0 (take 2048 (drop 1024 m)); COpFinalizeSeek 0 63 3; COpUpdate0 0; COpUpdate 0 (drop 3072 m);
   COpFinalizeSeek 0 5 70; COpReset 0; COpUpdate 0 (take 1500 m); COpFinalize 0 32].
Definition C06_history_expect (m : list N) : list c_obs :=
  [CObXof (b3_xof_mode Hash (take 1024 m) 0 32); CObXof (b3_xof_mode Hash (take 3072 m) 63 3);
   CObXof (b3_xof_mode Hash m 5 70); CObXof (b3_xof_mode Hash (take 1500 m) 0 32)].

Example C06_nonvacuous_multi_update :
  c_run_case (c_platform 1) CMHash (C06_history (C06_msg 5000)) = (C06_history_expect (C06_msg 5000), Ok tt).
Proof. vm_compute. reflexivity. Qed.

Example C06_nonvacuous_multi_update_wide :
  c_run_case (c_platform 16) CMHash (C06_history (C06_msg 5000)) = (C06_history_expect (C06_msg 5000), Ok tt).
Proof. vm_compute. reflexivity. Qed.

Print Assumptions C06_formulas_round_down.
Print Assumptions C06_formulas_left_subtree_len.
Print Assumptions C06_formulas_constants.
Print Assumptions C06_formulas_small.
Print Assumptions C06_platforms_ok.
Print Assumptions C06_output_root_bytes_spec.
Print Assumptions C06_reset_is_init.
Print Assumptions C06_update_preserves_mode.
Print Assumptions C06_derive_key_agree.
Print Assumptions C06_zero_length_noops.
Print Assumptions C06_finalize_pure.
Print Assumptions C06_clone_finalize_cmp.
Print Assumptions C06_subtree_to_parent_node_spec.
Print Assumptions C06_wide_is_rs.
Print Assumptions C06_merge_cv_stack_spec.
Print Assumptions C06_push_cv_spec.
Print Assumptions C06_update_loop_refines.
Print Assumptions C06_one_shot_spec.
Print Assumptions C06_one_shot_hash.
Print Assumptions C06_update_refines.
Print Assumptions C06_update_refines_hash.
Print Assumptions C06_update_refines_keyed.
Print Assumptions C06_update_refines_derive_key.
Print Assumptions C06_reset_refines.
Print Assumptions C06_finalize_then_continue.
Print Assumptions C06_nonvacuous_abc.
Print Assumptions C06_nonvacuous_multi_update.
Print Assumptions C06_nonvacuous_multi_update_wide.

(* ---- status -------------------------------------------------------------------------------------------------------
   The two end-to-end targets that earlier versions of this file listed as not proved are now C06_one_shot_spec
   (c_one_shot_spec: every message shorter than 2^64 bytes) and C06_update_refines (c_update_refines: every sequence
   of updates).  Proofs/CHasherP4.v supplies what was missing: the roll-up loop of finalize_seek (c_finalize_loop_spec,
   c_final_output_spec: the analogue of final_output_spec in Proofs/HasherP.v), the tail of update (the last partial
   chunk and the extra merge: c_update_tail_spec) and the "finish the partial chunk" prefix (c_hasher_update_spec),
   over the invariant CInv.  Nothing in C06 remains partial. *)

(* ==== the END-TO-END theorem for the C history machine =====================================================
   Statements only; proofs in Proofs/CMachineRefinesP.v.

   CHasher.c_run_case is the IMPLEMENTATION machine: the `CH` case language of harness/c/driver.c (new instance,
   update, zero-length update, finalize(n), finalize_seek(seek, n), zero-length finalize, reset, clone = memcpy,
   cmp = memcmp of two structs) interpreted over the executable model of c/blake3.c.
   CSpecMachine.c_spec_run_case is the SPECIFICATION machine: the same language interpreted with Spec/*.v only -
   one byte list per blake3_hasher (what it has absorbed since the last reset); finalize / finalize_seek observe
   `stream spec_c64 (subtree_output spec_c8 tree_height K F 0 bytes) seek n` for the key words K and flags F of the
   mode of the case; zero-length calls change and observe nothing; None when an instance does not exist, when the
   input of an instance would reach 2^64 bytes, or when seek + n > 2^64 - 1.
   cmp: the raw bytes of a struct (stale cv_stack slots, stale chunk buffer bytes) are not determined by the bytes
   absorbed, so the specification machine answers a cmp only where equality is FORCED: each instance also carries
   the trace of the state-changing calls (non-empty updates, resets) made on its struct since the initialiser ran
   (a clone copies it); every struct of a case comes from the same initialiser call, so equal traces force equal
   structs and the observation is `same = true`.  This covers an instance against its clone after the same calls on
   both, and a fresh instance against one that only saw zero-length calls and finalizes.  With different traces the
   specification machine answers None (the theorem then says nothing about that history).

   Whenever the specification machine accepts a history, the implementation machine produces exactly the same
   observations and does not panic (no array index out of bounds, no C assert, no unsigned wrap-around), on every
   PlatformOK platform, i.e. at every feature level the dispatcher of the C library can select. *)
From V Require Model.Machine Model.SpecMachine.
From V Require Import Model.CSpecMachine Proofs.CMachineRefinesP.

(* the domain of a mode *)
Theorem C06_mode_ok_def : forall m,
  c_mode_ok m = match m with
                | CMHash => True
                | CMKeyed k => length k = 32%nat
                | CMDerive c | CMDeriveRaw c => len c < 2 ^ 64
                end.
Proof. reflexivity. Qed.

(* the main theorem *)
Theorem C06_machine_refines_spec : forall p, PlatformOK p -> forall m ops obs,
  c_mode_ok m ->
  c_spec_run_case m ops = Some obs ->
  c_run_case p m ops = (obs, Ok tt).
Proof. exact c_machine_refines_spec. Qed.

(* every initialiser (init, init_keyed, init_derive_key on the NUL-terminated copy, init_derive_key_raw) leaves
   hasher_init_base over the driver's memory with the key words and flags of the specification's mode *)
Theorem C06_new_hasher_spec : forall p, PlatformOK p -> forall m, c_mode_ok m ->
  c_new_hasher p m = Ok (c_hasher_init_base c_mem_cd (mode_key (c_spec_mode m)) (mode_flags (c_spec_mode m))).
Proof. exact c_new_hasher_spec. Qed.

(* the simulation relation: struct i has absorbed exactly ci_bytes (CInv of Proofs/CHasherP4.v) and is what the
   traced calls make of the initialiser's struct *)
Theorem C06_CSim_def : forall p m hs ss,
  CSim p m hs ss <->
  Forall2 (fun h x =>
             CInv (mode_key (c_spec_mode m)) (mode_flags (c_spec_mode m)) h (ci_bytes x) /\
             c_replay p (c_hasher_init_base c_mem_cd (mode_key (c_spec_mode m)) (mode_flags (c_spec_mode m)))
                      (ci_trace x) = Ok h) hs ss.
Proof. intros. reflexivity. Qed.

Theorem C06_replay_def : forall p h tr,
  c_replay p h tr = match tr with
                    | [] => Ok h
                    | CEvUpdate b :: tl => h' <- c_hasher_update p h b ;; c_replay p h' tl
                    | CEvReset :: tl => c_replay p (c_hasher_reset h) tl
                    end.
Proof. intros p h [|[b|] tl]; reflexivity. Qed.

(* one step, for EVERY op of the language *)
Theorem C06_step_refines_spec : forall p, PlatformOK p -> forall m, c_mode_ok m -> forall o hs ss ss' out,
  CSim p m hs ss -> c_sstep m ss o = Some (ss', out) ->
  exists hs', c_step p m hs o = Ok (hs', out) /\ CSim p m hs' ss'.
Proof. exact c_step_refines_spec. Qed.

(* any history from any pair of related states *)
Theorem C06_run_refines_spec : forall p, PlatformOK p -> forall m, c_mode_ok m -> forall ops hs ss obs,
  CSim p m hs ss -> c_srun m ss ops = Some obs -> c_run_ops p m hs ops [] = (obs, Ok tt).
Proof. exact c_run_refines_spec. Qed.

(* consequences: no panic; the observations do not depend on the dispatcher's feature level *)
Theorem C06_machine_no_panic : forall p, PlatformOK p -> forall m ops obs,
  c_mode_ok m -> c_spec_run_case m ops = Some obs -> snd (c_run_case p m ops) = Ok tt.
Proof. exact c_machine_no_panic. Qed.

Theorem C06_machine_platform_independent : forall p1 p2, PlatformOK p1 -> PlatformOK p2 -> forall m ops obs,
  c_mode_ok m -> c_spec_run_case m ops = Some obs -> c_run_case p1 m ops = c_run_case p2 m ops.
Proof. exact c_machine_platform_independent. Qed.

(* the C library and the Rust crate: a history of new / update / finalize(n) / reset exists in both case
   languages (finalize(n) is finalize_xof + fill(n) on the Rust side); both implementation machines produce the
   same output bytes *)
Theorem C06_to_rs_def :
  (forall m, c_to_rs_mode m = match m with
                              | CMHash => Machine.MHash
                              | CMKeyed k => Machine.MKeyed k
                              | CMDerive c => Machine.MDerive (c_str_prefix c)
                              | CMDeriveRaw c => Machine.MDerive c
                              end) /\
  (forall o, c_to_rs_op o = match o with
                            | COpNew => Some Machine.OpNew
                            | COpUpdate i b => Some (Machine.OpUpdate i b)
                            | COpFinalize i n => Some (Machine.OpXof i n)
                            | COpReset i => Some (Machine.OpReset i)
                            | _ => None
                            end) /\
  (forall l, c_to_rs_ops l = match l with
                             | [] => Some []
                             | o :: tl => match c_to_rs_op o, c_to_rs_ops tl with
                                          | Some o', Some tl' => Some (o' :: tl')
                                          | _, _ => None
                                          end
                             end).
Proof. repeat split; intros []; reflexivity. Qed.

Theorem C06_machine_equals_rust : forall p1 p2, PlatformOK p1 -> PlatformOK p2 -> forall pname m cops ops obs,
  c_mode_ok m -> c_to_rs_ops cops = Some ops -> c_spec_run_case m cops = Some obs ->
  exists outs, c_run_case p1 m cops = (map CObXof outs, Ok tt) /\
               Machine.run_case p2 pname (c_to_rs_mode m) ops = (map Machine.ObXof outs, Ok tt).
Proof. exact c_machine_equals_rust. Qed.

(* non-vacuity: a keyed history over four structs with updates across a chunk boundary, zero-length calls, clone,
   reset, finalize, finalize_seek and four forced comparisons (instance 0 against its clone 1 after the same
   update on both; the fresh instance 2 against instance 3 that only saw zero-length calls; 0 against 1 again after
   both were reset) is accepted by the specification machine and the implementation machine yields the same 11
   observations at two dispatch levels *)
Definition C06_machine_ops : list c_op :=
  [COpUpdate 0 (repeat 7 1500); COpClone 0; COpUpdate 0 [1; 2; 3]; COpUpdate 1 [1; 2; 3]; COpCmp 0 1;
   COpFinalize 0 32; COpFinalizeSeek 1 60 10; COpNew; COpNew; COpUpdate0 3; COpUpdate 3 []; COpFinalize0 3;
   COpFinalizeSeek 3 5 0; COpCmp 2 3; COpCmp 3 2; COpReset 0; COpReset 1; COpCmp 1 0; COpUpdate 0 (repeat 9 70);
   COpFinalizeSeek 0 1000 3; COpFinalize 1 5; COpFinalizeSeek 2 18446744073709551610 5].

Example C06_machine_nonvacuous :
  let m := CMKeyed (map N.of_nat (seq 0 32)) in
  c_mode_ok m /\
  exists obs, c_spec_run_case m C06_machine_ops = Some obs /\
              c_run_case (c_platform 1) m C06_machine_ops = (obs, Ok tt) /\
              c_run_case (c_platform 16) m C06_machine_ops = (obs, Ok tt) /\ length obs = 11%nat.
Proof.
  cbv zeta. split; [reflexivity|]. eexists. split; [vm_compute; reflexivity|].
  split; [vm_compute; reflexivity|]. split; vm_compute; reflexivity.
Qed.

(* the specification machine refuses a cmp whose outcome is not forced (here the structs do differ), an output
   position beyond 2^64 - 1, and an instance that does not exist *)
Example C06_machine_spec_refuses :
  c_spec_run_case CMHash [COpNew; COpUpdate 1 [1]; COpCmp 0 1] = None /\
  c_run_case (c_platform 1) CMHash [COpNew; COpUpdate 1 [1]; COpCmp 0 1] = ([CObSame false], Ok tt) /\
  c_spec_run_case CMHash [COpFinalizeSeek 0 18446744073709551610 6] = None /\
  c_spec_run_case CMHash [COpFinalize 1 32] = None.
Proof. repeat split; vm_compute; reflexivity. Qed.

Print Assumptions C06_mode_ok_def.
Print Assumptions C06_machine_refines_spec.
Print Assumptions C06_new_hasher_spec.
Print Assumptions C06_CSim_def.
Print Assumptions C06_replay_def.
Print Assumptions C06_step_refines_spec.
Print Assumptions C06_run_refines_spec.
Print Assumptions C06_machine_no_panic.
Print Assumptions C06_machine_platform_independent.
Print Assumptions C06_to_rs_def.
Print Assumptions C06_machine_equals_rust.
Print Assumptions C06_machine_nonvacuous.
Print Assumptions C06_machine_spec_refuses.

(* ==== the small functions of c/blake3.c, TRANSLATED from the source text =============================
   gen/GenCHasherSmall.v is regenerated from c/blake3.c, c/blake3.h and c/blake3_impl.h on every run
   (tools/gen_coq.py gen_c_hasher_small): struct declarations -> records (members in declaration order),
   every statement of the functions below in source order with the source's constants, flag names, member
   names and argument positions; anything the translator does not recognise is an AnchorError.  The
   theorems say that the translated function equals the definition Model/CHasher.v uses, for all
   arguments; hypotheses are the array lengths of the C declarations (cs_shape / hasher_shape) and
   `input_len = length of input`.  Proofs in Proofs/GenCHasherSmallP.v. *)
From V Require Import Base.Arr gen.GenCHasherSmall Proofs.GenCHasherSmallP.

(* how a translated record is read into the model's (by member NAME), the array lengths the C declarations
   promise, and the model's stand-ins for the functions the translation leaves as parameters *)
Theorem C06_src_repr_def :
  (forall s, cs_of_src s = mkCS (blake3_chunk_state_cv s) (blake3_chunk_state_chunk_counter s)
                               (blake3_chunk_state_buf s) (blake3_chunk_state_buf_len s)
                               (blake3_chunk_state_blocks_compressed s) (blake3_chunk_state_flags s)) /\
  (forall o, output_of_src o = mkOutput (output_t_input_cv o) (output_t_block o) (output_t_block_len o)
                                        (output_t_counter o) (output_t_flags o)) /\
  (forall h : src_blake3_hasher (list (list N)),
     hasher_of_src h = mkCH (blake3_hasher_key h) (cs_of_src (blake3_hasher_chunk h))
                            (blake3_hasher_cv_stack_len h) (blake3_hasher_cv_stack h)) /\
  (forall h, hasher_of_src (src_of_hasher h) = h) /\ (forall h, src_of_hasher (hasher_of_src h) = h) /\
  (forall s, cs_shape s <-> length (blake3_chunk_state_cv s) = 8%nat /\ length (blake3_chunk_state_buf s) = 64%nat) /\
  (forall h : src_blake3_hasher (list (list N)),
     hasher_shape h <-> length (blake3_hasher_key h) = 8%nat /\ cs_shape (blake3_hasher_chunk h)) /\
  (forall p self input input_len use_tbb,
     m_update_base p self input input_len use_tbb =
     if use_tbb then Panic 0
     else match c_hasher_update p (hasher_of_src self) (firstn (N.to_nat input_len) input) with
          | Ok h => Ok (src_of_hasher h) | Panic c => Panic c | OutOfFuel => OutOfFuel end) /\
  (forall p self seek out out_len,
     m_finalize_seek p self seek out out_len =
     match c_hasher_finalize_seek p (hasher_of_src self) seek out_len with
     | Ok bs => Ok (arr_store out 0 bs) | Panic c => Panic c | OutOfFuel => OutOfFuel end) /\
  (forall s, m_strlen s = match c_strlen_prefix s with
                          | Ok r => Ok (nlen r) | Panic c => Panic c | OutOfFuel => OutOfFuel end) /\
  (forall (A B : Type) (f : A -> B) r,
     res_map f r = match r with Ok a => Ok (f a) | Panic c => Panic c | OutOfFuel => OutOfFuel end).
Proof.
  split; [reflexivity|]. split; [reflexivity|]. split; [reflexivity|].
  split; [exact hasher_of_src_of_hasher|]. split; [exact src_of_hasher_of_src|].
  split; [intros s; unfold cs_shape; tauto|]. split; [intros h; unfold hasher_shape; tauto|].
  split; [reflexivity|]. split; [reflexivity|]. split; reflexivity.
Qed.

(* c/blake3_impl.h *)
Theorem C06_src_load_key_words : forall key key_words, length key = 32%nat -> length key_words = 8%nat ->
  src_load_key_words key key_words = words_of_bytes key.
Proof. exact src_load_key_words_eq. Qed.

Theorem C06_src_store_cv_words : forall bytes_out cv_words, length bytes_out = 32%nat -> length cv_words = 8%nat ->
  src_store_cv_words bytes_out cv_words = bytes_of_words cv_words.
Proof. exact src_store_cv_words_eq. Qed.

(* chunk_state_* *)
Theorem C06_src_chunk_state_init : forall self key flags, cs_shape self -> length key = 8%nat ->
  cs_of_src (src_chunk_state_init self key flags) = c_cs_init key flags.
Proof. exact src_chunk_state_init_eq. Qed.

Theorem C06_src_chunk_state_reset : forall self key chunk_counter, cs_shape self -> length key = 8%nat ->
  cs_of_src (src_chunk_state_reset self key chunk_counter) = c_cs_reset (cs_of_src self) key chunk_counter.
Proof. exact src_chunk_state_reset_eq. Qed.

(* includes the Panic cases: buf_len > 64 (BLAKE3_BLOCK_LEN - buf_len wraps), buf_len + take > 255 *)
Theorem C06_src_chunk_state_fill_buf : forall self input input_len,
  length (blake3_chunk_state_buf self) = 64%nat -> input_len = nlen input ->
  res_map (fun r => (cs_of_src (fst r), snd r)) (src_chunk_state_fill_buf self input input_len)
  = c_cs_fill_buf (cs_of_src self) input.
Proof. exact src_chunk_state_fill_buf_eq. Qed.

Theorem C06_src_chunk_state_maybe_start_flag : forall self,
  src_chunk_state_maybe_start_flag self = c_cs_start_flag (cs_of_src self).
Proof. exact src_chunk_state_maybe_start_flag_eq. Qed.

(* make_output has no separate definition in the model: it is the constructor mkOutput (cv, block, block_len,
   counter, flags) *)
Theorem C06_src_make_output : forall input_cv block block_len counter flags,
  length input_cv = 8%nat -> length block = 64%nat ->
  output_of_src (src_make_output input_cv block block_len counter flags)
  = mkOutput input_cv block block_len counter flags.
Proof. exact src_make_output_eq. Qed.

(* the third hypothesis: the selected compression kernel returns 8 words *)
Theorem C06_src_output_chaining_value : forall p self cv,
  length (output_t_input_cv self) = 8%nat -> length cv = 32%nat ->
  length (p_compress_in_place p (output_t_input_cv self) (output_t_block self) (output_t_block_len self)
            (output_t_counter self) (output_t_flags self)) = 8%nat ->
  src_output_chaining_value (p_compress_in_place p) self cv = c_output_chaining_value p (output_of_src self).
Proof. exact src_output_chaining_value_eq. Qed.

Theorem C06_src_chunk_state_output : forall self, cs_shape self ->
  output_of_src (src_chunk_state_output self) = c_cs_output (cs_of_src self).
Proof. exact src_chunk_state_output_eq. Qed.

Theorem C06_src_parent_output : forall block key flags, length block = 64%nat -> length key = 8%nat ->
  output_of_src (src_parent_output block key flags) = c_parent_output block key flags.
Proof. exact src_parent_output_eq. Qed.

(* blake3_hasher: cv_stack is passed through untouched (the model's `mem`) *)
Theorem C06_src_hasher_init_base : forall (self : src_blake3_hasher (list (list N))) key flags,
  hasher_shape self -> length key = 8%nat ->
  hasher_of_src (src_hasher_init_base self key flags) = c_hasher_init_base (blake3_hasher_cv_stack self) key flags.
Proof. exact src_hasher_init_base_eq. Qed.

Theorem C06_src_blake3_hasher_init : forall self : src_blake3_hasher (list (list N)), hasher_shape self ->
  hasher_of_src (src_blake3_hasher_init self) = c_hasher_init (blake3_hasher_cv_stack self).
Proof. exact src_blake3_hasher_init_eq. Qed.

Theorem C06_src_blake3_hasher_init_keyed : forall (self : src_blake3_hasher (list (list N))) key,
  hasher_shape self -> length key = 32%nat ->
  Ok (hasher_of_src (src_blake3_hasher_init_keyed self key)) = c_hasher_init_keyed (blake3_hasher_cv_stack self) key.
Proof. exact src_blake3_hasher_init_keyed_eq. Qed.

(* `bool use_tbb = false; blake3_hasher_update_base(self, input, input_len, use_tbb);` *)
Theorem C06_src_blake3_hasher_update : forall p (self : src_blake3_hasher (list (list N))) input input_len,
  input_len = nlen input ->
  res_map hasher_of_src (src_blake3_hasher_update (m_update_base p) self input input_len)
  = c_hasher_update p (hasher_of_src self) input.
Proof. exact src_blake3_hasher_update_eq. Qed.

(* `blake3_hasher_finalize_seek(self, 0, out, out_len);` *)
Theorem C06_src_blake3_hasher_finalize : forall p (self : src_blake3_hasher (list (list N))) out out_len,
  src_blake3_hasher_finalize (m_finalize_seek p) self out out_len
  = res_map (fun bs => arr_store out 0 bs) (c_hasher_finalize p (hasher_of_src self) out_len).
Proof. exact src_blake3_hasher_finalize_eq. Qed.

(* `u` = the contents of the local `blake3_hasher context_hasher;` before hasher_init_base; the model fixes the
   cv_stack of that local to c_local_stack *)
Theorem C06_src_blake3_hasher_init_derive_key_raw : forall p (self u : src_blake3_hasher (list (list N))) context context_len,
  hasher_shape self -> hasher_shape u -> blake3_hasher_cv_stack u = c_local_stack -> context_len = nlen context ->
  res_map hasher_of_src
    (src_blake3_hasher_init_derive_key_raw (m_update_base p) (m_finalize_seek p) self context context_len u)
  = c_hasher_init_derive_key_raw p (blake3_hasher_cv_stack self) context.
Proof. exact src_blake3_hasher_init_derive_key_raw_eq. Qed.

Theorem C06_src_blake3_hasher_init_derive_key : forall p (self u : src_blake3_hasher (list (list N))) context,
  hasher_shape self -> hasher_shape u -> blake3_hasher_cv_stack u = c_local_stack ->
  res_map hasher_of_src
    (src_blake3_hasher_init_derive_key (m_update_base p) (m_finalize_seek p) m_strlen self context u)
  = c_hasher_init_derive_key p (blake3_hasher_cv_stack self) context.
Proof. exact src_blake3_hasher_init_derive_key_eq. Qed.

Theorem C06_src_blake3_hasher_reset : forall self : src_blake3_hasher (list (list N)), hasher_shape self ->
  hasher_of_src (src_blake3_hasher_reset self) = c_hasher_reset (hasher_of_src self).
Proof. exact src_blake3_hasher_reset_eq. Qed.

(* finalize_seek writes exactly out_len bytes, on any platform record (used for the context key above) *)
Theorem C06_src_finalize_seek_length : forall p h seek n bs, c_hasher_finalize_seek p h seek n = Ok bs -> nlen bs = n.
Proof. exact c_hasher_finalize_seek_length. Qed.

Print Assumptions C06_src_repr_def.
Print Assumptions C06_src_load_key_words.
Print Assumptions C06_src_store_cv_words.
Print Assumptions C06_src_chunk_state_init.
Print Assumptions C06_src_chunk_state_reset.
Print Assumptions C06_src_chunk_state_fill_buf.
Print Assumptions C06_src_chunk_state_maybe_start_flag.
Print Assumptions C06_src_make_output.
Print Assumptions C06_src_output_chaining_value.
Print Assumptions C06_src_chunk_state_output.
Print Assumptions C06_src_parent_output.
Print Assumptions C06_src_hasher_init_base.
Print Assumptions C06_src_blake3_hasher_init.
Print Assumptions C06_src_blake3_hasher_init_keyed.
Print Assumptions C06_src_blake3_hasher_update.
Print Assumptions C06_src_blake3_hasher_finalize.
Print Assumptions C06_src_blake3_hasher_init_derive_key_raw.
Print Assumptions C06_src_blake3_hasher_init_derive_key.
Print Assumptions C06_src_blake3_hasher_reset.
Print Assumptions C06_src_finalize_seek_length.

(* ---- the loop-carrying core of c/blake3.c, translated (gen/GenCHasherLoops.v) ----------------------------------
   chunk_state_update, hasher_merge_cv_stack, hasher_push_cv, blake3_hasher_finalize_seek: every `while` of the source
   is a Fixpoint on explicit fuel whose condition and body statements are the source's, in order; cv_stack is the flat
   uint8_t[1760] of c/blake3.h with the index arithmetic of the source and a bounds assert at every access.  Each equals
   the hand-written model for all arguments and all results (Ok / every Panic code / OutOfFuel): the loops for every
   fuel, the enclosing functions at the fuel the model hard-codes (or for every fuel that is enough, where the model
   computes it / has none).  Proofs/GenCHasherLoopsP.v lists the places where source and model are shaped differently. *)
From V Require Import gen.GenCHasherLoops Proofs.GenCHasherLoopsP.
From V Require Proofs.GenLibSmallP.

(* how the flat cv_stack is read into the model's slots, the array lengths assumed, the stand-in for output_root_bytes *)
Theorem C06_src_flat_repr_def :
  (forall l, slots_of_flat l = chunks32 (N.to_nat c_cv_stack_slots) l) /\
  (forall n l, chunks32 (S n) l = firstn 32 l :: chunks32 n (skipn 32 l)) /\ (forall l, chunks32 0 l = []) /\
  (forall sl, length sl = N.to_nat c_cv_stack_slots -> Forall (fun s => length s = 32%nat) sl ->
     slots_of_flat (concat sl) = sl) /\
  (forall l, length l = N.to_nat c_cv_stack_bytes -> concat (slots_of_flat l) = l) /\
  (forall h : src_blake3_hasher (list N),
     hasher_of_flat h = mkCH (blake3_hasher_key h) (cs_of_src (blake3_hasher_chunk h))
                             (blake3_hasher_cv_stack_len h) (slots_of_flat (blake3_hasher_cv_stack h))) /\
  (forall h : src_blake3_hasher (list N),
     flat_shape h <-> hasher_shape h /\ length (blake3_hasher_cv_stack h) = N.to_nat c_cv_stack_bytes) /\
  (forall p, compress_len8 p <-> forall cv block bl ctr fl, length cv = 8%nat ->
     length (p_compress_in_place p cv block bl ctr fl) = 8%nat) /\
  (forall p, PlatformOK p -> compress_len8 p) /\
  (forall p self seek out out_len,
     m_output_root_bytes p self seek out out_len =
     match c_output_root_bytes p (output_of_src self) seek out_len with
     | Ok bs => Ok (arr_store out 0 bs) | Panic c => Panic c | OutOfFuel => OutOfFuel end) /\
  (forall (A : Type) c (r : res A),
     at_site c r = match r with Ok a => Ok a | Panic _ => Panic c | OutOfFuel => OutOfFuel end).
Proof.
  split; [reflexivity|]. split; [reflexivity|]. split; [reflexivity|].
  split; [exact slots_of_flat_concat|]. split; [exact concat_slots_of_flat|]. split; [reflexivity|].
  split; [intros h; unfold flat_shape; tauto|]. split; [intros p; unfold compress_len8; tauto|].
  split; [intros p OK cv block bl ctr fl H; apply Proofs.GenLibSmallP.p_cip_length; assumption|]. split; reflexivity.
Qed.

(* `while (input_len > BLAKE3_BLOCK_LEN) { .. }`: every fuel *)
Theorem C06_src_chunk_state_update_loop1 : forall p fuel self input,
  res_map (fun r => (cs_of_src (fst (fst r)), snd (fst r)))
          (src_chunk_state_update_loop1 (p_compress_in_place p) fuel self input (nlen input))
  = c_cs_update_loop fuel p (cs_of_src self) input.
Proof. exact src_chunk_state_update_loop1_eq. Qed.

(* the input_len the translated loop hands on is the length of the input it hands on *)
Theorem C06_src_chunk_state_update_loop1_len : forall p fuel self input s i l,
  src_chunk_state_update_loop1 (p_compress_in_place p) fuel self input (nlen input) = Ok (s, i, l) -> l = nlen i.
Proof. exact src_chunk_state_update_loop1_len. Qed.

(* every fuel that is enough (64 * fuel covers the input); the model computes S (length input' / 64) from the input
   left after the flush of the buffered block, which is one such value *)
Theorem C06_src_chunk_state_update : forall p fuel self input, cs_shape self -> (length input <= 64 * fuel)%nat ->
  res_map cs_of_src (src_chunk_state_update (p_compress_in_place p) fuel self input (nlen input))
  = c_cs_update p (cs_of_src self) input.
Proof. exact src_chunk_state_update_eq. Qed.

Theorem C06_src_chunk_state_update_model_fuel : forall p self input, cs_shape self ->
  res_map cs_of_src
    (src_chunk_state_update (p_compress_in_place p) (S (Nat.div (length input) 64)) self input (nlen input))
  = c_cs_update p (cs_of_src self) input.
Proof. exact src_chunk_state_update_model_fuel. Qed.

(* `while (self->cv_stack_len > post_merge_stack_len) { .. }`: every fuel *)
Theorem C06_src_hasher_merge_cv_stack_loop1 : forall p, compress_len8 p ->
  forall fuel (self : src_blake3_hasher (list N)) post, flat_shape self ->
  res_map hasher_of_flat (src_hasher_merge_cv_stack_loop1 (p_compress_in_place p) fuel self post)
  = c_merge_loop fuel p (hasher_of_flat self) post.
Proof. exact src_hasher_merge_cv_stack_loop1_eq. Qed.

Theorem C06_src_hasher_merge_cv_stack : forall p (self : src_blake3_hasher (list N)) total_len,
  compress_len8 p -> flat_shape self ->
  res_map hasher_of_flat (src_hasher_merge_cv_stack (p_compress_in_place p) c_merge_fuel self total_len)
  = c_merge_cv_stack p (hasher_of_flat self) total_len.
Proof. exact src_hasher_merge_cv_stack_eq. Qed.

Theorem C06_src_hasher_merge_cv_stack_shape : forall p fuel (self h' : src_blake3_hasher (list N)) total_len,
  compress_len8 p -> flat_shape self ->
  src_hasher_merge_cv_stack (p_compress_in_place p) fuel self total_len = Ok h' -> flat_shape h'.
Proof. exact src_hasher_merge_cv_stack_shape. Qed.

Theorem C06_src_hasher_push_cv : forall p (self : src_blake3_hasher (list N)) new_cv chunk_counter,
  compress_len8 p -> flat_shape self -> length new_cv = 32%nat ->
  res_map hasher_of_flat (src_hasher_push_cv (p_compress_in_place p) c_merge_fuel self new_cv chunk_counter)
  = c_push_cv p (hasher_of_flat self) new_cv chunk_counter.
Proof. exact src_hasher_push_cv_eq. Qed.

(* `while (cvs_remaining > 0) { .. }`: every fuel that covers cvs_remaining (the model recurses on cvs_remaining) *)
Theorem C06_src_blake3_hasher_finalize_seek_loop1 : forall p, compress_len8 p ->
  forall fuel (self : src_blake3_hasher (list N)) output r,
  flat_shape self -> length (output_t_input_cv output) = 8%nat -> (N.to_nat r <= fuel)%nat ->
  res_map (fun x => output_of_src (fst x))
          (src_blake3_hasher_finalize_seek_loop1 (p_compress_in_place p) fuel self output r)
  = c_finalize_loop (N.to_nat r) p (hasher_of_flat self) (output_of_src output).
Proof. exact src_blake3_hasher_finalize_seek_loop1_eq. Qed.

(* every fuel >= cv_stack_len; `out` after the call = the model's bytes stored at out[0 ..) *)
Theorem C06_src_blake3_hasher_finalize_seek : forall p fuel (self : src_blake3_hasher (list N)) seek out out_len,
  compress_len8 p -> flat_shape self -> (N.to_nat (blake3_hasher_cv_stack_len self) <= fuel)%nat ->
  src_blake3_hasher_finalize_seek (m_output_root_bytes p) (p_compress_in_place p) fuel self seek out out_len
  = res_map (fun bs => arr_store out 0 bs) (c_hasher_finalize_seek p (hasher_of_flat self) seek out_len).
Proof. exact src_blake3_hasher_finalize_seek_eq. Qed.

Theorem C06_src_blake3_hasher_finalize_seek_256 : forall p (self : src_blake3_hasher (list N)) seek out out_len,
  compress_len8 p -> flat_shape self -> blake3_hasher_cv_stack_len self < 256 ->
  src_blake3_hasher_finalize_seek (m_output_root_bytes p) (p_compress_in_place p) c_merge_fuel self seek out out_len
  = res_map (fun bs => arr_store out 0 bs) (c_hasher_finalize_seek p (hasher_of_flat self) seek out_len).
Proof. exact src_blake3_hasher_finalize_seek_eq_256. Qed.

Print Assumptions C06_src_flat_repr_def.
Print Assumptions C06_src_chunk_state_update_loop1.
Print Assumptions C06_src_chunk_state_update_loop1_len.
Print Assumptions C06_src_chunk_state_update.
Print Assumptions C06_src_chunk_state_update_model_fuel.
Print Assumptions C06_src_hasher_merge_cv_stack_loop1.
Print Assumptions C06_src_hasher_merge_cv_stack.
Print Assumptions C06_src_hasher_merge_cv_stack_shape.
Print Assumptions C06_src_hasher_push_cv.
Print Assumptions C06_src_blake3_hasher_finalize_seek_loop1.
Print Assumptions C06_src_blake3_hasher_finalize_seek.
Print Assumptions C06_src_blake3_hasher_finalize_seek_256.

(* ---- the wide core of c/blake3.c, translated (gen/GenCHasherWide.v) ---------------------------------------------
   compress_chunks_parallel, compress_parents_parallel, blake3_compress_subtree_wide (the non-TBB arm of its #if; the
   recursion is a Fixpoint on fuel with `match fuel` after the leading `if (..) { return ..; }`),
   compress_subtree_to_parent_node (its `#if MAX_SIMD_DEGREE_OR_2 > 2` block is an `if` on the build constant) and
   blake3_hasher_update_base (the empty-input return, the "finish the partial chunk" prefix with its nested `return`, the
   `while (input_len > BLAKE3_CHUNK_LEN)` loop with the shrink loop and the subtree_chunks computation INSIDE it, the
   two push_cv calls, the trailing chunk_state_update + merge), statement by statement (tools/gen_coq.py
   gen_c_hasher_wide).  A `(pointer, length)` pair is the list of all bytes from the pointer on plus the length; the
   `const uint8_t *a[N]` arrays are lists of such lists with a bounds assert at every store; writes through `out` carry
   a bounds assert with the model's code; `uint8_t *right_cvs = &cv_array[..]` splits the local array like
   split_at_mut; BLAKE3_TESTING asserts carry the model's codes.  blake3_hash_many / blake3_simd_degree /
   blake3_compress_in_place are parameters, instantiated with m_c_hash_many p / p_degree p / p_compress_in_place p.
   Each translated function equals the model with the translation's fuel discipline (c_*_with, defining equations
   below) on every argument of the declared shapes and every fuel, Panic and OutOfFuel included, EXCEPT where the model
   flags a read of stack bytes nobody wrote (Panic 306 / 307 / 309: the C text has no such check and the translation's
   zero-filled locals none either): the statements are `uninit_flag (model) \/ translation = model`.  The c_*_with
   models refine Model/CHasher.v as soon as the fuel suffices.  Hypotheses: plat_wf p (shapes of the kernels' results,
   Props/C01.v), p_max_degree p = c_MAX_SIMD_DEGREE (the build constant the text was translated with), an 8-word key,
   flat_shape for hashers, lengths below 2^64.  Proofs in Proofs/GenCHasherWideP.v. *)
From V Require Import Base.Slice gen.GenCHasherWide Model.RsWide Proofs.GenLibWideP Proofs.GenCHasherWideP.

Theorem C06_src_wide_repr_def :
  (forall p inputs num_inputs blocks key counter incr flags fs fe out,
     m_c_hash_many p inputs num_inputs blocks key counter incr flags fs fe out =
     (cvs <- p_hash_many p (map (firstn (N.to_nat (blocks * 64))) (firstn (N.to_nat num_inputs) inputs)) key counter incr
               flags fs fe (nlen out / 32) ;;
      Ok (arr_store out 0 (concat cvs)))) /\
  (forall (A : Type) (r : res A), uninit_flag r <-> (r = Panic 306 \/ r = Panic 307 \/ r = Panic 309)) /\
  (forall (A : Type) (a : list A) i v, (i < length a)%nat -> firstn (S i) (pa_set a i v) = firstn i a ++ [v]) /\
  (forall (A : Type) (a : list A) i v, length (pa_set a i v) = length a).
Proof.
  split; [reflexivity|]. split; [intros; reflexivity|]. split; [intros; apply firstn_pa_set_snoc; assumption|].
  intros. apply pa_set_length.
Qed.
Print Assumptions C06_src_wide_repr_def.

(* the models with the translation's fuel discipline *)
Theorem C06_src_cs_update_with_def : forall fuel p cs input,
  c_cs_update_with fuel p cs input =
  ('(cs, input) <-
     (if 0 <? cs_buf_len cs then
        '(cs, take) <- c_cs_fill_buf cs input ;;
        let input := skipn (N.to_nat take) input in
        if 0 <? nlen input then
          let cv := p_compress_in_place p (cs_cv cs) (cs_buf cs) c_BLOCK_LEN (cs_ctr cs)
                      (N.lor (cs_flags cs) (c_cs_start_flag cs)) in
          blocks <- mi_add 8 (cs_blocks cs) 1 ;;
          Ok (mkCS cv (cs_ctr cs) c_zero_block 0 blocks (cs_flags cs), input)
        else Ok (cs, input)
      else Ok (cs, input)) ;;
   '(cs, input) <- c_cs_update_loop fuel p cs input ;;
   '(cs, _) <- c_cs_fill_buf cs input ;;
   Ok cs).
Proof. reflexivity. Qed.
Print Assumptions C06_src_cs_update_with_def.

Theorem C06_src_chunks_parents_with_def : forall fuel p input child_cvs key chunk_counter flags cap,
  c_compress_chunks_parallel_with fuel p input key chunk_counter flags cap =
    (assert! (0 <? nlen input) code 1600 ;;
     assert! (nlen input <=? p_max_degree p * c_CHUNK_LEN) code 1601 ;;
     let '(chunks, rem) := chunks_exact_of c_CHUNK_LEN input in
     if Nat.ltb fuel (length chunks) then OutOfFuel else
     assert! (nlen_l chunks <=? p_max_degree p) code 301 ;;
     cvs <- p_hash_many p chunks key chunk_counter true flags c_flag_CHUNK_START c_flag_CHUNK_END cap ;;
     let chunks_array_len := nlen_l chunks in
     if 0 <? nlen rem then
       counter <- mi_add 64 chunk_counter chunks_array_len ;;
       let cs0 := c_cs_init key flags in
       let cs0 := mkCS (cs_cv cs0) counter (cs_buf cs0) (cs_buf_len cs0) (cs_blocks cs0) (cs_flags cs0) in
       cs <- c_cs_update_with fuel p cs0 rem ;;
       assert! (chunks_array_len + 1 <=? cap) code 302 ;;
       Ok (cvs ++ [c_output_chaining_value p (c_cs_output cs)])
     else Ok cvs) /\
  c_compress_parents_parallel_with fuel p child_cvs key flags cap =
    (let num := nlen_l child_cvs in
     assert! (2 <=? num) code 1602 ;;
     assert! (num <=? 2 * max_degree_or_2 p) code 1603 ;;
     let '(parents, odd) := pair_blocks child_cvs in
     if Nat.ltb fuel (length parents) then OutOfFuel else
     assert! (nlen_l parents <=? max_degree_or_2 p) code 303 ;;
     outs <- p_hash_many p parents key 0 false (N.lor flags c_flag_PARENT) 0 0 cap ;;
     match odd with
     | Some cv => assert! (nlen_l parents + 1 <=? cap) code 304 ;; Ok (outs ++ [cv])
     | None => Ok outs
     end).
Proof. intros. split; reflexivity. Qed.
Print Assumptions C06_src_chunks_parents_with_def.

Theorem C06_src_wide_with_def : forall fuel p input key chunk_counter flags cap,
  c_compress_subtree_wide_with fuel p input key chunk_counter flags cap =
  if nlen input <=? p_degree p * c_CHUNK_LEN then
    c_compress_chunks_parallel_with fuel p input key chunk_counter flags cap
  else match fuel with
  | O => OutOfFuel
  | S fuel' =>
      left_len <- c_left_subtree_len (nlen input) ;;
      _ <- mi_sub 64 (nlen input) left_len ;;
      let left := firstn (N.to_nat left_len) input in
      let right := skipn (N.to_nat left_len) input in
      right_counter <- mi_add 64 chunk_counter (left_len / c_CHUNK_LEN) ;;
      let array_cap := 2 * max_degree_or_2 p in
      let degree := if (c_CHUNK_LEN <? left_len) && (p_degree p =? 1) then 2 else p_degree p in
      assert! (degree <=? array_cap) code 305 ;;
      lcvs <- c_compress_subtree_wide_with fuel' p left key chunk_counter flags degree ;;
      rcvs <- c_compress_subtree_wide_with fuel' p right key right_counter flags (array_cap - degree) ;;
      let left_n := nlen_l lcvs in
      let right_n := nlen_l rcvs in
      assert! (left_n =? degree) code 306 ;;
      if left_n =? 1 then
        assert! (1 <=? right_n) code 307 ;;
        assert! (2 <=? cap) code 308 ;;
        Ok (firstn 2 (lcvs ++ rcvs))
      else
        c_compress_parents_parallel_with fuel' p (lcvs ++ rcvs) key flags cap
  end.
Proof. intros [|fuel]; reflexivity. Qed.
Print Assumptions C06_src_wide_with_def.

Theorem C06_src_tpn_with_def : forall fuel p input cvs key chunk_counter flags,
  c_condense_loop_with fuel p cvs key flags =
    (if nlen_l cvs <=? 2 then Ok cvs
     else match fuel with
          | O => OutOfFuel
          | S fuel' =>
              outs <- c_compress_parents_parallel_with fuel' p cvs key flags (max_degree_or_2 p / 2) ;;
              c_condense_loop_with fuel' p outs key flags
          end) /\
  c_compress_subtree_to_parent_node_with fuel p input key chunk_counter flags =
    (assert! (c_CHUNK_LEN <? nlen input) code 1604 ;;
     cvs <- c_compress_subtree_wide_with fuel p input key chunk_counter flags (max_degree_or_2 p) ;;
     assert! (nlen_l cvs <=? max_degree_or_2 p) code 1605 ;;
     cvs <- (if 2 <? max_degree_or_2 p then c_condense_loop_with fuel p cvs key flags else Ok cvs) ;;
     match cvs with a :: b :: _ => Ok (a ++ b) | _ => Panic 309 end).
Proof. intros [|fuel]; intros; split; reflexivity. Qed.
Print Assumptions C06_src_tpn_with_def.

Theorem C06_src_update_with_def : forall fuel p h input new_cv chunk_counter,
  c_push_cv_with fuel p h new_cv chunk_counter =
    (h <- (post <- c_popcnt chunk_counter ;; c_merge_loop fuel p h post) ;;
     assert! (ch_stack_len h <? c_cv_stack_slots) code 322 ;;
     len' <- mi_add 8 (ch_stack_len h) 1 ;;
     Ok (mkCH (ch_key h) (ch_chunk h) len' (upd_nth (N.to_nat (ch_stack_len h)) new_cv (ch_stack h)))) /\
  c_update_loop_with fuel p h input =
    (if nlen input <=? c_CHUNK_LEN then Ok (h, input)
     else match fuel with
     | O => OutOfFuel
     | S fuel' =>
         let cs := ch_chunk h in
         subtree_len <- c_round_down_to_power_of_2 (nlen input) ;;
         count_so_far <- c_count_so_far (cs_ctr cs) ;;
         subtree_len <- c_shrink_loop fuel' subtree_len count_so_far ;;
         subtree_chunks <- c_subtree_chunks subtree_len ;;
         assert! (subtree_len <=? nlen input) code 323 ;;
         h <- (if subtree_len <=? c_CHUNK_LEN then
                 let cs0 := c_cs_init (ch_key h) (cs_flags cs) in
                 let cs0 := mkCS (cs_cv cs0) (cs_ctr cs) (cs_buf cs0) (cs_buf_len cs0) (cs_blocks cs0) (cs_flags cs0) in
                 cs1 <- c_cs_update_with fuel' p cs0 (firstn (N.to_nat subtree_len) input) ;;
                 c_push_cv_with fuel' p h (c_output_chaining_value p (c_cs_output cs1)) (cs_ctr cs1)
               else
                 cv_pair <- c_compress_subtree_to_parent_node_with fuel' p (firstn (N.to_nat subtree_len) input) (ch_key h)
                              (cs_ctr cs) (cs_flags cs) ;;
                 h <- c_push_cv_with fuel' p h (firstn 32 cv_pair) (cs_ctr cs) ;;
                 rc <- c_right_cv_counter (cs_ctr cs) subtree_chunks ;;
                 c_push_cv_with fuel' p h (firstn 32 (skipn 32 cv_pair)) rc) ;;
         ctr' <- mi_add 64 (cs_ctr cs) subtree_chunks ;;
         let cs' := mkCS (cs_cv cs) ctr' (cs_buf cs) (cs_buf_len cs) (cs_blocks cs) (cs_flags cs) in
         c_update_loop_with fuel' p (ch_with_chunk h cs') (skipn (N.to_nat subtree_len) input)
     end) /\
  c_hasher_update_with fuel p h input =
    (if nlen input =? 0 then Ok h else
     clen <- c_cs_len (ch_chunk h) ;;
     r <- (if 0 <? clen then
             take <- mi_sub 64 c_CHUNK_LEN clen ;;
             let take := N.min take (nlen input) in
             cs <- c_cs_update_with fuel p (ch_chunk h) (firstn (N.to_nat take) input) ;;
             let input := skipn (N.to_nat take) input in
             if 0 <? nlen input then
               let chunk_cv := c_output_chaining_value p (c_cs_output cs) in
               h <- c_push_cv_with fuel p (ch_with_chunk h cs) chunk_cv (cs_ctr cs) ;;
               ctr' <- mi_add 64 (cs_ctr cs) 1 ;;
               Ok (ch_with_chunk h (c_cs_reset cs (ch_key h) ctr'), input, false)
             else Ok (ch_with_chunk h cs, input, true)
           else Ok (h, input, false)) ;;
     let '(h, input, done) := r in
     if done then Ok h else
     '(h, input) <- c_update_loop_with fuel p h input ;;
     if 0 <? nlen input then
       cs <- c_cs_update_with fuel p (ch_chunk h) input ;;
       (post <- c_popcnt (cs_ctr cs) ;; c_merge_loop fuel p (ch_with_chunk h cs) post)
     else Ok h).
Proof. intros [|fuel]; intros; repeat split; reflexivity. Qed.
Print Assumptions C06_src_update_with_def.

(* chunk_state_update at every fuel; only the first input_len bytes of the list matter *)
Theorem C06_src_chunk_state_update_with : forall p fuel self input n, cs_shape self -> n <= nlen input ->
  res_map cs_of_src (src_chunk_state_update (p_compress_in_place p) fuel self input n)
  = c_cs_update_with fuel p (cs_of_src self) (firstn (N.to_nat n) input).
Proof. exact src_csu_with. Qed.
Print Assumptions C06_src_chunk_state_update_with.

Theorem C06_src_compress_chunks_parallel : forall p, plat_wf p -> forall fuel input input_len key chunk_counter flags out,
  p_max_degree p = c_MAX_SIMD_DEGREE -> length key = 8%nat -> input_len <= nlen input -> nlen input < 2 ^ 64 ->
  src_compress_chunks_parallel (m_c_hash_many p) (p_compress_in_place p) fuel input input_len key chunk_counter flags out
  = res_map (fun cvs => (arr_store out 0 (concat cvs), nlen_l cvs))
      (c_compress_chunks_parallel_with fuel p (firstn (N.to_nat input_len) input) key chunk_counter flags (nlen out / 32)).
Proof. exact src_compress_chunks_parallel_eq. Qed.
Print Assumptions C06_src_compress_chunks_parallel.

(* the children: num_chaining_values CVs back to back at the front of the buffer *)
Theorem C06_src_compress_parents_parallel : forall p, plat_wf p -> forall fuel child_cvs ccv key flags out,
  p_max_degree p = c_MAX_SIMD_DEGREE -> length key = 8%nat -> cvs32 child_cvs ->
  firstn (32 * length child_cvs) ccv = concat child_cvs ->
  src_compress_parents_parallel (m_c_hash_many p) fuel ccv (nlen_l child_cvs) key flags out
  = res_map (fun cvs => (arr_store out 0 (concat cvs), nlen_l cvs))
      (c_compress_parents_parallel_with fuel p child_cvs key flags (nlen out / 32)).
Proof. exact src_compress_parents_parallel_eq. Qed.
Print Assumptions C06_src_compress_parents_parallel.

Theorem C06_src_compress_subtree_wide : forall p, plat_wf p -> forall key flags,
  p_max_degree p = c_MAX_SIMD_DEGREE -> length key = 8%nat ->
  forall fuel input input_len chunk_counter out use_tbb, input_len <= nlen input -> nlen input < 2 ^ 64 ->
  uninit_flag (c_compress_subtree_wide_with fuel p (firstn (N.to_nat input_len) input) key chunk_counter flags (nlen out / 32)) \/
  src_blake3_compress_subtree_wide (p_degree p) (m_c_hash_many p) (p_compress_in_place p) fuel input input_len key chunk_counter
    flags out use_tbb
  = res_map (fun cvs => (arr_store out 0 (concat cvs), nlen_l cvs))
      (c_compress_subtree_wide_with fuel p (firstn (N.to_nat input_len) input) key chunk_counter flags (nlen out / 32)).
Proof. exact src_compress_subtree_wide_eq. Qed.
Print Assumptions C06_src_compress_subtree_wide.

Theorem C06_src_compress_subtree_to_parent_node : forall p, plat_wf p -> forall fuel input input_len key chunk_counter flags out use_tbb,
  p_max_degree p = c_MAX_SIMD_DEGREE -> length key = 8%nat -> length out = 64%nat ->
  input_len <= nlen input -> nlen input < 2 ^ 64 ->
  uninit_flag (c_compress_subtree_to_parent_node_with fuel p (firstn (N.to_nat input_len) input) key chunk_counter flags) \/
  src_compress_subtree_to_parent_node (p_degree p) (m_c_hash_many p) (p_compress_in_place p) fuel input input_len key
    chunk_counter flags out use_tbb
  = c_compress_subtree_to_parent_node_with fuel p (firstn (N.to_nat input_len) input) key chunk_counter flags.
Proof. exact src_compress_subtree_to_parent_node_eq. Qed.
Print Assumptions C06_src_compress_subtree_to_parent_node.

(* hasher_merge_cv_stack / hasher_push_cv at every fuel (GenCHasherLoops.v states them at the model's fuel) *)
Theorem C06_src_hasher_push_cv_with : forall p fuel (self : src_blake3_hasher (list N)) new_cv chunk_counter,
  compress_len8 p -> flat_shape self -> length new_cv = 32%nat ->
  res_map hasher_of_flat (src_hasher_push_cv (p_compress_in_place p) fuel self new_cv chunk_counter)
  = c_push_cv_with fuel p (hasher_of_flat self) new_cv chunk_counter.
Proof. exact src_hasher_push_cv_with. Qed.
Print Assumptions C06_src_hasher_push_cv_with.

(* the shrink loop IS the model's, at every fuel *)
Theorem C06_src_shrink_loop : forall fuel subtree_len count_so_far, subtree_len < 2 ^ 64 ->
  src_blake3_hasher_update_base_loop2 fuel subtree_len count_so_far = c_shrink_loop fuel subtree_len count_so_far.
Proof. exact src_shrink_loop_eq. Qed.
Print Assumptions C06_src_shrink_loop.

Theorem C06_src_blake3_hasher_update_base : forall p, plat_wf p -> forall fuel (self : src_blake3_hasher (list N)) input input_len use_tbb,
  p_max_degree p = c_MAX_SIMD_DEGREE -> flat_shape self -> input_len <= nlen input -> nlen input < 2 ^ 64 ->
  uninit_flag (c_hasher_update_with fuel p (hasher_of_flat self) (firstn (N.to_nat input_len) input)) \/
  res_map hasher_of_flat
    (src_blake3_hasher_update_base (p_compress_in_place p) (p_degree p) (m_c_hash_many p) fuel self input input_len use_tbb)
  = c_hasher_update_with fuel p (hasher_of_flat self) (firstn (N.to_nat input_len) input).
Proof. exact src_blake3_hasher_update_base_eq. Qed.
Print Assumptions C06_src_blake3_hasher_update_base.

(* enough fuel *)
Theorem C06_src_wide_enough : forall p key flags, p_max_degree p <= 16 ->
  (forall fuel input chunk_counter cap, (17 <= fuel)%nat ->
     c_compress_chunks_parallel_with fuel p input key chunk_counter flags cap
     = c_compress_chunks_parallel p input key chunk_counter flags cap) /\
  (forall fuel cvs cap, (16 <= fuel)%nat ->
     c_compress_parents_parallel_with fuel p cvs key flags cap = c_compress_parents_parallel p cvs key flags cap) /\
  (forall f fuel input chunk_counter cap, (f + 17 <= fuel)%nat ->
     refines (c_compress_subtree_wide f p input key chunk_counter flags cap)
             (c_compress_subtree_wide_with fuel p input key chunk_counter flags cap)) /\
  (forall fuel input chunk_counter, (81 <= fuel)%nat ->
     refines (c_compress_subtree_to_parent_node p input key chunk_counter flags)
             (c_compress_subtree_to_parent_node_with fuel p input key chunk_counter flags)).
Proof.
  intros p key flags Hmax. assert (Hor : max_degree_or_2 p <= 16) by (unfold max_degree_or_2; apply N.max_lub; [exact Hmax|discriminate]).
  split; [intros; apply c_chunks_with_enough; assumption|]. split; [intros; apply c_parents_with_enough; assumption|].
  split; [intros; apply c_wide_with_refines; assumption|]. intros. apply c_tpn_with_refines; assumption.
Qed.
Print Assumptions C06_src_wide_enough.

Theorem C06_src_hasher_update_enough : forall p fuel h input, p_max_degree p <= 16 ->
  (S (Nat.div (length input) 1024) + 256 <= fuel)%nat ->
  refines (c_hasher_update p h input) (c_hasher_update_with fuel p h input).
Proof. exact c_hasher_update_with_refines. Qed.
Print Assumptions C06_src_hasher_update_enough.

(* hence: whenever the model's blake3_hasher_update returns (it does on every valid state: C06_step_refines_spec), the
   translated blake3_hasher_update_base returns the same hasher *)
Theorem C06_src_blake3_hasher_update_base_model : forall p, plat_wf p -> forall fuel (self : src_blake3_hasher (list N)) input use_tbb h',
  p_max_degree p = c_MAX_SIMD_DEGREE -> flat_shape self -> nlen input < 2 ^ 64 ->
  (S (Nat.div (length input) 1024) + 256 <= fuel)%nat ->
  c_hasher_update p (hasher_of_flat self) input = Ok h' ->
  res_map hasher_of_flat
    (src_blake3_hasher_update_base (p_compress_in_place p) (p_degree p) (m_c_hash_many p) fuel self input (nlen input) use_tbb)
  = Ok h'.
Proof.
  intros p WF fuel self input use_tbb h' Hmax HS Hin HF Hm.
  assert (Hmax16 : p_max_degree p <= 16) by (rewrite Hmax; discriminate).
  pose proof (refines_ok _ _ (c_hasher_update_with_refines p fuel (hasher_of_flat self) input Hmax16 HF)) as HR.
  rewrite Hm in HR. specialize (HR ltac:(discriminate)).
  destruct (src_blake3_hasher_update_base_eq p WF fuel self input (nlen input) use_tbb Hmax HS (N.le_refl _) Hin) as [HFl|HE].
  - rewrite firstn_nlen, HR in HFl. destruct HFl as [H|[H|H]]; discriminate H.
  - rewrite firstn_nlen, HR in HE. exact HE.
Qed.
Print Assumptions C06_src_blake3_hasher_update_base_model.

(* output_root_bytes: `out += n` on the written pointer moves an offset variable (out_off); the two memcpy from wide_buf
   carry the model's bounds asserts 310 / 312, the writes to `out` an assert (code 313) that they stay inside it.
   blake3_compress_xof / blake3_xof_many are parameters (m_c_compress_xof p / m_c_xof_many p: the model's kernels, the
   latter stored at the pointer it is given).  The model returns the bytes written, the translation the buffer: the
   statement is the stand-in m_output_root_bytes that GenCHasherLoops.v's blake3_hasher_finalize_seek is instantiated
   with.  xof_wf p: compress_xof returns 64 bytes, xof_many 64 per block (what `uint8_t out[64]` / `outblocks` promise);
   every platform with the portable kernels has it. *)
Theorem C06_src_xof_repr_def :
  (forall p cv block bl ctr fl out n,
     m_c_xof_many p cv block bl ctr fl out n = (bs <- p_xof_many p cv block bl ctr fl n ;; Ok (arr_store out 0 bs))) /\
  (forall p cv block bl ctr fl out, m_c_compress_xof p cv block bl ctr fl out = p_compress_xof p cv block bl ctr fl) /\
  (forall p, xof_wf p <->
     ((forall cv block bl ctr fl, length cv = 8%nat -> length block = 64%nat ->
         length (p_compress_xof p cv block bl ctr fl) = 64%nat) /\
      (forall cv block bl ctr fl n bs, length cv = 8%nat -> length block = 64%nat ->
         p_xof_many p cv block bl ctr fl n = Ok bs -> length bs = (64 * N.to_nat n)%nat))) /\
  (forall d m, xof_wf (sim_platform d m)).
Proof.
  split; [reflexivity|]. split; [reflexivity|]. split; [|exact sim_platform_xof_wf].
  intros p. split; [intros [A B]; split; assumption|intros [A B]; constructor; assumption].
Qed.
Print Assumptions C06_src_xof_repr_def.

Theorem C06_src_output_root_bytes : forall p, xof_wf p -> forall self seek out out_len,
  length (output_t_input_cv self) = 8%nat -> length (output_t_block self) = 64%nat ->
  seek < 2 ^ 64 -> out_len <= nlen out -> nlen out < 2 ^ 64 ->
  src_output_root_bytes (m_c_compress_xof p) (m_c_xof_many p) self seek out out_len
  = m_output_root_bytes p self seek out out_len.
Proof. exact src_output_root_bytes_eq. Qed.
Print Assumptions C06_src_output_root_bytes.
