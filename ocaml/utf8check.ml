(* strict UTF-8 validity (same acceptance as Rust's str::from_utf8) *)
let valid (s : string) : bool =
  let n = String.length s in
  let b i = Char.code s.[i] in
  let cont i = i < n && b i land 0xC0 = 0x80 in
  let rec go i =
    if i >= n then true
    else
      let c = b i in
      if c < 0x80 then go (i + 1)
      else if c >= 0xC2 && c <= 0xDF then cont (i + 1) && go (i + 2)
      else if c = 0xE0 then i + 2 < n && b (i + 1) >= 0xA0 && b (i + 1) <= 0xBF && cont (i + 2) && go (i + 3)
      else if (c >= 0xE1 && c <= 0xEC) || c = 0xEE || c = 0xEF then cont (i + 1) && cont (i + 2) && go (i + 3)
      else if c = 0xED then i + 2 < n && b (i + 1) >= 0x80 && b (i + 1) <= 0x9F && cont (i + 2) && go (i + 3)
      else if c = 0xF0 then i + 3 < n && b (i + 1) >= 0x90 && b (i + 1) <= 0xBF && cont (i + 2) && cont (i + 3) && go (i + 4)
      else if c >= 0xF1 && c <= 0xF3 then cont (i + 1) && cont (i + 2) && cont (i + 3) && go (i + 4)
      else if c = 0xF4 then i + 3 < n && b (i + 1) >= 0x80 && b (i + 1) <= 0x8F && cont (i + 2) && cont (i + 3) && go (i + 4)
      else false
  in
  go 0
