(* The function items the models were written against (hand-pinned), per modelled Rust file / group.
   gen/GenApi.v (regenerated from /repo on every run) must be EQUAL to these lists: a function that appears, disappears
   or moves to another impl block means the code is no longer the code that was modelled, whatever the correspondence
   runs say (new entry points such as a hand-written Clone::clone_from or an overridden trait method are not reachable
   through the case language until an operation is added for them).  Which model mirrors what:
     api_lib_core    Model/{RsChunk,RsWide,RsHasher,RsIo}.v (+ Portable/Platform for the kernels behind Platform)
     api_lib_reader  Model/RsXof.v
     api_lib_hash    Model/RsHash.v
     api_lib_secret  Model/RsDebug.v (Debug strings, zeroize)
     api_hazmat      Model/RsHasher.v (offsets, finalize_non_root), Model/Machine.v (the merge_subtrees functions), gen/GenFormulas.v
     api_traits      Model/Machine.v the OpT operations (bodies of traits.rs), api_guts  Model/RsGuts.v
     api_io          Model/RsIo.v,  api_join  Model/Concurrency.v + Model/RsWideSched.v *)
From Coq Require Import String List.
Import ListNotations.
Open Scope string_scope.

Definition expected_lib_secret : list string :=
  ["Zeroize for Hash::zeroize";
   "fmt::Debug for Hash::fmt";
   "Zeroize for Output::zeroize";
   "fmt::Debug for ChunkState::fmt";
   "Zeroize for ChunkState::zeroize";
   "fmt::Debug for Hasher::fmt";
   "Zeroize for Hasher::zeroize";
   "fmt::Debug for OutputReader::fmt";
   "Zeroize for OutputReader::zeroize"].

Definition expected_lib_hash : list string :=
  ["Hash::as_bytes";
   "Hash::from_bytes";
   "Hash::as_slice";
   "Hash::from_slice";
   "Hash::to_hex";
   "Hash::from_hex";
   "Hash::from_hex::hex_val";
   "From<[u8; OUT_LEN]> for Hash::from";
   "From<Hash> for [u8; OUT_LEN]::from";
   "core::str::FromStr for Hash::from_str";
   "PartialEq for Hash::eq";
   "PartialEq<[u8; OUT_LEN]> for Hash::eq";
   "PartialEq<[u8]> for Hash::eq";
   "fmt::Display for Hash::fmt";
   "fmt::Display for HexError::fmt"].

Definition expected_lib_reader : list string :=
  ["OutputReader::new";
   "OutputReader::fill_one_block";
   "OutputReader::fill";
   "OutputReader::position";
   "OutputReader::set_position";
   "std::io::Read for OutputReader::read";
   "std::io::Seek for OutputReader::seek"].

Definition expected_lib_core : list string :=
  ["counter_low";
   "counter_high";
   "Output::chaining_value";
   "Output::root_hash";
   "Output::root_output_block";
   "ChunkState::new";
   "ChunkState::count";
   "ChunkState::fill_buf";
   "ChunkState::start_flag";
   "ChunkState::update";
   "ChunkState::output";
   "IncrementCounter::yes";
   "largest_power_of_two_leq";
   "compress_chunks_parallel";
   "compress_parents_parallel";
   "compress_subtree_wide";
   "compress_subtree_to_parent_node";
   "hash_all_at_once";
   "hash";
   "keyed_hash";
   "derive_key";
   "parent_node_output";
   "Hasher::new_internal";
   "Hasher::new";
   "Hasher::new_keyed";
   "Hasher::new_derive_key";
   "Hasher::reset";
   "Hasher::merge_cv_stack";
   "Hasher::push_cv";
   "Hasher::update";
   "Hasher::update_with_join";
   "Hasher::final_output";
   "Hasher::finalize";
   "Hasher::finalize_xof";
   "Hasher::count";
   "Hasher::update_reader";
   "Hasher::update_rayon";
   "Hasher::update_mmap";
   "Hasher::update_mmap_rayon";
   "Default for Hasher::default";
   "std::io::Write for Hasher::write";
   "std::io::Write for Hasher::flush"].

Definition expected_hazmat : list string :=
  ["HasherExt::new_from_context_key";
   "HasherExt::set_input_offset";
   "HasherExt::finalize_non_root";
   "HasherExt for Hasher::new_from_context_key";
   "HasherExt for Hasher::set_input_offset";
   "HasherExt for Hasher::finalize_non_root";
   "max_subtree_len";
   "left_subtree_len";
   "Mode::key_words";
   "Mode::flags_byte";
   "merge_subtrees_inner";
   "merge_subtrees_non_root";
   "merge_subtrees_root";
   "merge_subtrees_root_xof";
   "hash_derive_key_context"].

Definition expected_traits : list string :=
  ["digest::Update for Hasher::update";
   "digest::Reset for Hasher::reset";
   "digest::FixedOutput for Hasher::finalize_into";
   "digest::FixedOutputReset for Hasher::finalize_into_reset";
   "digest::ExtendableOutput for Hasher::finalize_xof";
   "digest::ExtendableOutputReset for Hasher::finalize_xof_reset";
   "digest::XofReader for OutputReader::read";
   "digest::KeyInit for Hasher::new"].

Definition expected_guts : list string :=
  ["ChunkState::new";
   "ChunkState::len";
   "ChunkState::update";
   "ChunkState::finalize";
   "parent_cv"].

Definition expected_io : list string :=
  ["copy_wide";
   "maybe_mmap_file"].

Definition expected_join : list string :=
  ["Join::join";
   "Join for SerialJoin::join";
   "Join for RayonJoin::join"].

