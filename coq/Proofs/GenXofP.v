(* `OutputReader` of src/lib.rs as TRANSLATED statement by statement (gen/GenXof.v: OutputReader::new, fill_one_block,
   fill, position, set_position, std::io::Read::read, std::io::Seek::seek) equals the hand-written model
   Model/RsXof.v, for all arguments, including the Panic results.

   Representation.  The translated record keeps the platform inside `inner: Output`, the model passes it separately:
   lib_of_rd p r is the translated reader of the model reader r on platform p.  A destination `&mut [u8]` of n bytes is
   the list of its n bytes in the translation (the result contains the buffer after the call) and the number n in the
   model (the result contains the bytes written); the two results are the same list.  `platform.xof_many` stays a call
   in the translation: it is instantiated with m_xof_many, the model's p_xof_many on the number of blocks of the
   destination.  Hypotheses are type invariants of the source only: position_within_block is a u8, a slice length is a
   usize, compress_xof returns [u8; 64] and xof_many fills exactly its destination (xof_shape). *)
From Coq Require Import NArith ZArith List Bool Lia Arith.
From V Require Import Base.Res Base.Word Base.MachInt Base.Arr Base.ArrayVec Base.MutSlice Base.SInt
  gen.GenConsts gen.GenFormulas gen.GenLibSmall gen.GenLibLoops gen.GenXof
  Spec.Tree Model.Portable Model.Platform Model.RsChunk Model.RsHasher Model.RsXof
  Proofs.PortableP Proofs.C04P Proofs.GenLibSmallP Proofs.GenLibLoopsP.
Import ListNotations.
Open Scope N_scope.
(* a tactic that diverges when the generated text changes is a failure, not a hang *)
Set Default Timeout 300.

(* ---------- representation maps ---------- *)
Definition lib_of_rd (p : platform) (r : reader) : lib_OutputReader :=
  lib_OutputReader_mk (lib_of_out p (r_out r)) (r_pwb r).
Definition rd_of_lib (r : lib_OutputReader) : reader :=
  mkReader (out_of_lib (lib_OutputReader_inner r)) (lib_OutputReader_position_within_block r).
Definition lib_of_seek (s : seek_from) : lib_SeekFrom :=
  match s with
  | SeekStart x => lib_SeekFrom_Start x
  | SeekCurrent d => lib_SeekFrom_Current d
  | SeekEnd d => lib_SeekFrom_End d
  end.
(* "InvalidInput" *)
Definition InvalidInput : list N := [73; 110; 118; 97; 108; 105; 100; 73; 110; 112; 117; 116].
Definition io_of_opt (o : option N) : io_result N :=
  match o with Some q => IoOk q | None => IoErr InvalidInput end.
(* the stand-in for Platform::xof_many: the model's p_xof_many on the number of 64-byte blocks of the destination *)
Definition m_xof_many (p : platform) (cv block : list N) (block_len counter flags : N) (out : list N) : res (list N) :=
  p_xof_many p cv block block_len counter flags (nlen out / rs_BLOCK_LEN).

Lemma rd_of_lib_of_rd p r : rd_of_lib (lib_of_rd p r) = r.
Proof. destruct r as [o pwb]. unfold rd_of_lib, lib_of_rd. cbn [lib_OutputReader_inner lib_OutputReader_position_within_block r_out r_pwb].
  rewrite out_of_lib_of_out. reflexivity. Qed.
Lemma lib_of_rd_of_lib r :
  lib_of_rd (lib_Output_platform (lib_OutputReader_inner r)) (rd_of_lib r) = r.
Proof. destruct r as [o pwb]. unfold rd_of_lib, lib_of_rd. cbn [lib_OutputReader_inner lib_OutputReader_position_within_block r_out r_pwb].
  rewrite lib_of_out_of_lib. reflexivity. Qed.

(* compress_xof returns [u8; 64]; xof_many fills exactly the destination it is given *)
Definition xof_shape (p : platform) (o : output) : Prop :=
  (forall ctr fl, length (p_compress_xof p (o_cv o) (o_block o) (o_blen o) ctr fl) = 64%nat) /\
  (forall ctr fl n bs, p_xof_many p (o_cv o) (o_block o) (o_blen o) ctr fl n = Ok bs -> length bs = (64 * N.to_nat n)%nat).

Lemma xof_shape_with_counter p o c : xof_shape p o -> xof_shape p (with_counter o c).
Proof. intros H. exact H. Qed.

(* ---------- new ---------- *)
Lemma lib_OutputReader_new_eq p o : lib_OutputReader_new (lib_of_out p o) = lib_of_rd p (reader_new o).
Proof. reflexivity. Qed.

(* ---------- list helpers ---------- *)
Lemma firstn_app_exact {A} (t x : list A) : firstn (length t) (t ++ x) = t.
Proof. rewrite firstn_app, Nat.sub_diag, firstn_O, firstn_all, app_nil_r. reflexivity. Qed.
Lemma skipn_app_exact {A} (t x : list A) : skipn (length t) (t ++ x) = x.
Proof. rewrite skipn_app, skipn_all, Nat.sub_diag, skipn_O. reflexivity. Qed.

Lemma arr_store_0 (w t : list N) : arr_store w 0 t = t ++ skipn (length t) w.
Proof. unfold arr_store. cbn [firstn app Nat.add]. reflexivity. Qed.

Lemma ms_write_len (s : mslice) (t : list N) : (length t <= length (snd s))%nat ->
  ms_len (ms_write s 0 t) = ms_len s.
Proof.
  intros H. unfold ms_len, ms_write. cbn [snd]. rewrite arr_store_0, app_length, skipn_length. f_equal. lia.
Qed.

Lemma ms_write_advance (s : mslice) (t : list N) :
  ms_advance (ms_write s 0 t) (length t) = (fst s ++ t, skipn (length t) (snd s)).
Proof.
  unfold ms_advance, ms_write. cbn [fst snd]. rewrite arr_store_0, firstn_app_exact, skipn_app_exact. reflexivity.
Qed.

(* ---------- fill_one_block ---------- *)
(* the model returns the bytes written; the translation the slice after the call: what it has left behind grows by
   those bytes, what it covers shrinks by as many *)
Definition fob_map (p : platform) (s : mslice) (x : reader * list N) : lib_OutputReader * mslice :=
  (lib_of_rd p (fst x), (fst s ++ snd x, skipn (length (snd x)) (snd s))).

Lemma root_block_eq p r :
  lib_Output_root_output_block (lib_OutputReader_inner (lib_of_rd p r)) = out_root_output_block p (r_out r).
Proof. unfold lib_of_rd. cbn [lib_OutputReader_inner]. rewrite lib_Output_root_output_block_eq, out_of_lib_of_out. reflexivity. Qed.

Lemma fill_one_block_eq p r s :
  r_pwb r < 2 ^ 8 -> length (out_root_output_block p (r_out r)) = 64%nat ->
  lib_OutputReader_fill_one_block (lib_of_rd p r) s = res_map (fob_map p s) (fill_one_block p r (ms_len s)).
Proof.
  intros Hpwb Hblk. unfold lib_OutputReader_fill_one_block, fill_one_block. rewrite root_block_eq.
  set (block := out_root_output_block p (r_out r)) in *.
  change (lib_OutputReader_position_within_block (lib_of_rd p r)) with (r_pwb r).
  unfold mu at 1, mi_cast at 1. cbn [bind].
  rewrite (land_ones_small (r_pwb r) 64) by (change (2 ^ 8) with 256 in Hpwb; change (2 ^ 64) with 18446744073709551616; lia).
  unfold nlen. destruct (r_pwb r <=? N.of_nat (length block)) eqn:E60; cbn [check bind res_map]; [|reflexivity].
  apply N.leb_le in E60.
  set (ob := skipn (N.to_nat (r_pwb r)) block).
  assert (Hob : length ob = (64 - N.to_nat (r_pwb r))%nat) by (unfold ob; rewrite skipn_length, Hblk; reflexivity).
  unfold mb, mi_min. cbn [bind].
  set (take := N.min (ms_len s) (N.of_nat (length ob))).
  assert (Ht1 : take <= ms_len s) by apply N.le_min_l.
  assert (Ht2 : take <= N.of_nat (length ob)) by apply N.le_min_r.
  clearbody take.
  replace (take <=? ms_len s) with true by (symmetry; apply N.leb_le; exact Ht1).
  replace (take <=? N.of_nat (length ob)) with true by (symmetry; apply N.leb_le; exact Ht2).
  cbn [check bind].
  set (t2 := firstn (N.to_nat take) ob).
  assert (Ht2len : length t2 = N.to_nat take) by (unfold t2; rewrite firstn_length; lia).
  replace (N.of_nat (length t2) =? take) with true by (symmetry; apply N.eqb_eq; lia).
  cbn [check bind]. change (N.to_nat 0) with 0%nat.
  assert (Hle : (length t2 <= length (snd s))%nat) by (unfold ms_len in Ht1; lia).
  unfold mu, mi_cast. cbn [bind].
  rewrite (land_ones_small take 8) by (change (2 ^ 8) with 256; lia).
  destruct (mi_add 8 (r_pwb r) take) as [pwb'| |]; cbn [bind res_map]; try reflexivity.
  unfold mcmp. cbn [bind]. change (N.land rs_BLOCK_LEN (N.ones 8)) with rs_BLOCK_LEN.
  rewrite (ms_write_len s t2 Hle).
  replace (take <=? ms_len s) with true by (symmetry; apply N.leb_le; exact Ht1).
  rewrite <- Ht2len, ms_write_advance.
  unfold lib_OutputReader_set_position_within_block, lib_OutputReader_set_inner, lib_Output_set_counter, lib_of_rd, lib_of_out.
  cbn [lib_OutputReader_position_within_block lib_OutputReader_inner lib_Output_input_chaining_value lib_Output_block
       lib_Output_block_len lib_Output_counter lib_Output_flags lib_Output_platform].
  destruct (pwb' =? rs_BLOCK_LEN).
  - unfold mb. cbn [bind].
    destruct (mi_add 64 (o_ctr (r_out r)) 1) as [c| |]; cbn [bind res_map check]; reflexivity.
  - cbn [bind check res_map]. reflexivity.
Qed.

(* what the model's fill_one_block leaves behind: at most the n requested bytes, a u8 position, the same node *)
Lemma fill_one_block_post p r n r' bs : fill_one_block p r n = Ok (r', bs) ->
  nlen bs <= n /\ r_pwb r' < 2 ^ 8 /\ o_cv (r_out r') = o_cv (r_out r) /\ o_block (r_out r') = o_block (r_out r) /\
  o_blen (r_out r') = o_blen (r_out r).
Proof.
  unfold fill_one_block. intros H.
  destruct (r_pwb r <=? nlen (out_root_output_block p (r_out r))); cbn [check bind] in H; [|discriminate].
  set (ob := skipn (N.to_nat (r_pwb r)) (out_root_output_block p (r_out r))) in *.
  assert (Hlen : nlen (firstn (N.to_nat (N.min n (nlen ob))) ob) <= n).
  { unfold nlen. rewrite firstn_length. pose proof (N.le_min_l n (N.of_nat (length ob))). lia. }
  destruct (mi_add 8 (r_pwb r) (N.min n (nlen ob))) as [pwb'| |] eqn:Ea; cbn [bind] in H; try discriminate.
  assert (Hp : pwb' < 2 ^ 8).
  { unfold mi_add, fits in Ea. destruct (r_pwb r + N.min n (nlen ob) <? 2 ^ 8) eqn:E; [|discriminate].
    inversion Ea; subst. apply N.ltb_lt in E. exact E. }
  destruct (pwb' =? rs_BLOCK_LEN).
  - destruct (mi_add 64 (o_ctr (r_out r)) 1) as [c| |]; cbn [bind] in H; try discriminate.
    inversion H; subst. cbn [r_pwb r_out with_counter o_cv o_block o_blen]. repeat split; try reflexivity; exact Hlen.
  - inversion H; subst. cbn [r_pwb r_out]. repeat split; try reflexivity; assumption.
Qed.

Lemma xof_shape_same p o o' : o_cv o' = o_cv o -> o_block o' = o_block o -> o_blen o' = o_blen o ->
  xof_shape p o -> xof_shape p o'.
Proof. intros H1 H2 H3 [Ha Hb]. unfold xof_shape. rewrite H1, H2, H3. split; assumption. Qed.

Lemma xof_shape_block p o : xof_shape p o -> length (out_root_output_block p o) = 64%nat.
Proof. intros [H _]. apply H. Qed.

(* ---------- fill: the three phases ---------- *)
(* phase 3 of the translation (the trailing partial block) and phases 2-3, as they stand in gen/GenXof.v *)
Definition tfill3 (self : lib_OutputReader) (buf : mslice) : res (lib_OutputReader * list N) :=
  t9 <- (b <- (mcmp N.eqb (Ok (ms_len buf)) (Ok 0)) ;; Ok (negb b)) ;;
  '(self, buf) <- (if (t9 : bool) then
      t10 <- (mcmp N.ltb (Ok (ms_len buf)) (Ok rs_BLOCK_LEN)) ;;
      assert! t10 code 1501 ;;
      '(self, buf) <- lib_OutputReader_fill_one_block self buf ;;
      t11 <- (mcmp N.eqb (Ok (ms_len buf)) (Ok 0)) ;;
      assert! t11 code 1502 ;;
      Ok (self, buf)
    else
      Ok (self, buf)) ;;
  Ok (self, (ms_buffer buf)).

Definition tfill2 (ext_xof_many : platform -> list N -> list N -> N -> N -> N -> list N -> res (list N))
  (self : lib_OutputReader) (buf : mslice) : res (lib_OutputReader * list N) :=
  full_blocks <- (mb (mi_div 64) (Ok (ms_len buf)) (Ok rs_BLOCK_LEN)) ;;
  full_blocks_len <- (mb (mi_mul 64) (Ok full_blocks) (Ok rs_BLOCK_LEN)) ;;
  t3 <- (mcmp N.ltb (Ok 0) (Ok full_blocks)) ;;
  '(self, buf) <- (if (t3 : bool) then
      t4 <- (mcmp N.eqb (Ok 0) (Ok (lib_OutputReader_position_within_block self))) ;;
      assert! t4 code 1500 ;;
      t5 <- (mb (mi_or 8) (Ok (lib_Output_flags (lib_OutputReader_inner self))) (Ok rs_flag_ROOT)) ;;
      assert! (full_blocks_len <=? (ms_len buf)) code 41 ;;
      t6 <- ext_xof_many (lib_Output_platform (lib_OutputReader_inner self)) (lib_Output_input_chaining_value (lib_OutputReader_inner self)) (lib_Output_block (lib_OutputReader_inner self)) (lib_Output_block_len (lib_OutputReader_inner self)) (lib_Output_counter (lib_OutputReader_inner self)) t5 (firstn (N.to_nat full_blocks_len) (ms_win buf)) ;;
      let buf := ms_write buf 0%nat t6 in
      t7 <- (mb (mi_add 64) (Ok (lib_Output_counter (lib_OutputReader_inner self))) (mu (mi_cast 64) (Ok full_blocks))) ;;
      let self := lib_OutputReader_set_inner self (lib_Output_set_counter (lib_OutputReader_inner self) t7) in
      t8 <- (mb (mi_mul 64) (Ok full_blocks) (Ok rs_BLOCK_LEN)) ;;
      assert! (t8 <=? (ms_len buf)) code 40 ;;
      let buf := ms_advance buf (N.to_nat t8) in
      Ok (self, buf)
    else
      Ok (self, buf)) ;;
  tfill3 self buf.

Lemma lib_OutputReader_fill_unfold ext self buf :
  lib_OutputReader_fill ext self buf =
  (let buf := ms_of buf in
   t1 <- (mcmp N.eqb (Ok (ms_len buf)) (Ok 0)) ;;
   if (t1 : bool) then Ok (self, (ms_buffer buf))
   else
     t2 <- (mcmp nneb (Ok (lib_OutputReader_position_within_block self)) (Ok 0)) ;;
     '(self, buf) <- (if (t2 : bool) then
         '(self, buf) <- lib_OutputReader_fill_one_block self buf ;;
         Ok (self, buf)
       else
         Ok (self, buf)) ;;
     tfill2 ext self buf).
Proof. reflexivity. Qed.

(* the same phases of the model *)
Definition mfill3 (p : platform) (r : reader) (head mid : list N) (n : N) : res (reader * list N) :=
  if negb (n =? 0) then
    assert! (n <? rs_BLOCK_LEN) code 1501 ;;
    '(r, tail) <- fill_one_block p r n ;;
    assert! (nlen tail =? n) code 1502 ;;
    Ok (r, head ++ mid ++ tail)
  else Ok (r, head ++ mid).

Definition mfill2 (p : platform) (r : reader) (head : list N) (n : N) : res (reader * list N) :=
  let full_blocks := n / rs_BLOCK_LEN in
  '(r, mid, n) <- (if 0 <? full_blocks then
                     assert! (r_pwb r =? 0) code 1500 ;;
                     let o := r_out r in
                     bs <- p_xof_many p (o_cv o) (o_block o) (o_blen o) (o_ctr o) (N.lor (o_flags o) rs_flag_ROOT)
                             full_blocks ;;
                     c <- mi_add 64 (o_ctr o) full_blocks ;;
                     Ok (mkReader (with_counter o c) (r_pwb r), bs, n - full_blocks * rs_BLOCK_LEN)
                   else Ok (r, [], n)) ;;
  mfill3 p r head mid n.

Lemma reader_fill_unfold p r n :
  reader_fill p r n =
  (if n =? 0 then Ok (r, []) else
   '(r, head, n) <- (if negb (r_pwb r =? 0) then
                       '(r', bs) <- fill_one_block p r n ;; Ok (r', bs, n - nlen bs)
                     else Ok (r, [], n)) ;;
   mfill2 p r head n).
Proof. reflexivity. Qed.

Definition fill_map (p : platform) (x : reader * list N) : lib_OutputReader * list N := (lib_of_rd p (fst x), snd x).

Lemma tfill3_eq p r head mid win : r_pwb r < 2 ^ 8 -> xof_shape p (r_out r) ->
  tfill3 (lib_of_rd p r) (head ++ mid, win) = res_map (fill_map p) (mfill3 p r head mid (nlen win)).
Proof.
  intros Hpwb Hsh. unfold tfill3, mfill3, mcmp. cbn [bind].
  change (ms_len (head ++ mid, win)) with (nlen win).
  destruct (nlen win =? 0) eqn:E0; cbn [negb bind res_map].
  - apply N.eqb_eq in E0. unfold nlen in E0. destruct win; [|cbn [length] in E0; lia].
    unfold ms_buffer, fill_map. cbn [fst snd]. rewrite app_nil_r. reflexivity.
  - destruct (nlen win <? rs_BLOCK_LEN); cbn [check bind res_map]; [|reflexivity].
    rewrite (fill_one_block_eq p r (head ++ mid, win) Hpwb (xof_shape_block p _ Hsh)).
    change (ms_len (head ++ mid, win)) with (nlen win).
    destruct (fill_one_block p r (nlen win)) as [[r' tail]| |] eqn:Ef; cbn [bind res_map]; try reflexivity.
    destruct (fill_one_block_post p r _ r' tail Ef) as [Hlen _].
    unfold fob_map. cbn [fst snd]. unfold ms_len. cbn [snd]. rewrite skipn_length. unfold nlen in *.
    destruct (N.of_nat (length tail) =? N.of_nat (length win)) eqn:E2.
    + apply N.eqb_eq in E2.
      replace (N.of_nat (length win - length tail) =? 0) with true by (symmetry; apply N.eqb_eq; lia).
      cbn [check bind res_map]. unfold ms_buffer, fill_map. cbn [fst snd].
      rewrite skipn_all2 by lia. rewrite app_nil_r, app_assoc. reflexivity.
    + apply N.eqb_neq in E2.
      replace (N.of_nat (length win - length tail) =? 0) with false by (symmetry; apply N.eqb_neq; lia).
      reflexivity.
Qed.

Lemma div64_mul_le n : n / 64 * 64 <= n.
Proof. pose proof (N.mul_div_le n 64 ltac:(lia)). lia. Qed.

Lemma tfill2_eq p r head win : r_pwb r < 2 ^ 8 -> nlen win < 2 ^ 64 -> xof_shape p (r_out r) ->
  tfill2 m_xof_many (lib_of_rd p r) (head, win) = res_map (fill_map p) (mfill2 p r head (nlen win)).
Proof.
  intros Hpwb Hn Hsh. unfold tfill2, mfill2. cbv zeta.
  change (ms_len (head, win)) with (nlen win). set (n := nlen win) in *.
  change rs_BLOCK_LEN with 64.
  unfold mb, mu, mcmp, mi_div, mi_mul, mi_or, mi_cast, fits. cbn [bind]. change (64 =? 0) with false. cbv iota. cbn [bind].
  set (fb := n / 64).
  assert (Hfb : fb * 64 <= n) by apply div64_mul_le.
  assert (Hfb64 : fb < 2 ^ 64) by (change (2 ^ 64) with 18446744073709551616 in *; lia).
  replace (fb * 64 <? 2 ^ 64) with true by (symmetry; apply N.ltb_lt; change (2 ^ 64) with 18446744073709551616 in *; lia).
  cbn [bind].
  destruct (0 <? fb) eqn:Epos.
  - change (lib_OutputReader_position_within_block (lib_of_rd p r)) with (r_pwb r).
    rewrite (N.eqb_sym 0 (r_pwb r)).
    destruct (r_pwb r =? 0); cbn [check bind res_map]; [|reflexivity].
    replace (fb * 64 <=? n) with true by (symmetry; apply N.leb_le; exact Hfb).
    cbn [check bind].
    unfold lib_OutputReader_set_inner, lib_Output_set_counter, lib_of_rd, lib_of_out.
    cbn [lib_OutputReader_inner lib_OutputReader_position_within_block
         lib_Output_input_chaining_value lib_Output_block lib_Output_block_len lib_Output_counter lib_Output_flags lib_Output_platform].
    unfold ms_win. cbn [snd]. unfold m_xof_many.
    assert (Hfl : nlen (firstn (N.to_nat (fb * 64)) win) = fb * 64).
    { unfold nlen. rewrite firstn_length. unfold n, nlen in Hfb. lia. }
    rewrite Hfl. change rs_BLOCK_LEN with 64. rewrite (N.div_mul fb 64) by lia.
    destruct (p_xof_many p (o_cv (r_out r)) (o_block (r_out r)) (o_blen (r_out r)) (o_ctr (r_out r))
                (N.lor (o_flags (r_out r)) rs_flag_ROOT) fb) as [bs| |] eqn:Ex; cbn [bind res_map]; try reflexivity.
    assert (Hbs : length bs = N.to_nat (fb * 64)) by (rewrite (proj2 Hsh _ _ _ _ Ex); lia).
    rewrite (land_ones_small fb 64 Hfb64).
    destruct (mi_add 64 (o_ctr (r_out r)) fb) as [c| |]; cbn [bind res_map]; try reflexivity.
    assert (Hle : (length bs <= length (snd (head, win)))%nat) by (cbn [snd]; unfold n, nlen in Hfb; lia).
    rewrite (ms_write_len (head, win) bs Hle). change (ms_len (head, win)) with n.
    replace (fb * 64 <=? n) with true by (symmetry; apply N.leb_le; exact Hfb).
    cbn [check bind]. rewrite <- Hbs, ms_write_advance. cbn [fst snd].
    replace (n - fb * 64) with (nlen (skipn (length bs) win))
      by (unfold nlen; rewrite skipn_length, Hbs; unfold n, nlen in *; lia).
    exact (tfill3_eq p (mkReader (with_counter (r_out r) c) (r_pwb r)) head bs (skipn (length bs) win) Hpwb Hsh).
  - cbn [bind]. rewrite <- (app_nil_r head) at 1. exact (tfill3_eq p r head [] win Hpwb Hsh).
Qed.

Theorem lib_OutputReader_fill_eq p r buf : r_pwb r < 2 ^ 8 -> nlen buf < 2 ^ 64 -> xof_shape p (r_out r) ->
  lib_OutputReader_fill m_xof_many (lib_of_rd p r) buf = res_map (fill_map p) (reader_fill p r (nlen buf)).
Proof.
  intros Hpwb Hn Hsh. rewrite lib_OutputReader_fill_unfold, reader_fill_unfold. cbv zeta.
  unfold mcmp at 1. cbn [bind]. change (ms_len (ms_of buf)) with (nlen buf).
  destruct (nlen buf =? 0) eqn:E0.
  - apply N.eqb_eq in E0. unfold nlen in E0. destruct buf; [reflexivity|cbn [length] in E0; lia].
  - change (lib_OutputReader_position_within_block (lib_of_rd p r)) with (r_pwb r).
    unfold mcmp at 1, nneb. cbn [bind].
    destruct (r_pwb r =? 0); cbn [negb bind].
    + exact (tfill2_eq p r [] buf Hpwb Hn Hsh).
    + rewrite (fill_one_block_eq p r (ms_of buf) Hpwb (xof_shape_block p _ Hsh)).
      change (ms_len (ms_of buf)) with (nlen buf).
      destruct (fill_one_block p r (nlen buf)) as [[r1 bs1]| |] eqn:Ef; cbn [bind res_map]; try reflexivity.
      destruct (fill_one_block_post p r _ r1 bs1 Ef) as (Hlen & Hp1 & H1 & H2 & H3).
      unfold fob_map, ms_of. cbn [fst snd app].
      replace (nlen buf - nlen bs1) with (nlen (skipn (length bs1) buf)) by (unfold nlen in *; rewrite skipn_length; lia).
      apply tfill2_eq; [exact Hp1| |exact (xof_shape_same p _ _ H1 H2 H3 Hsh)].
      unfold nlen in *. rewrite skipn_length. lia.
Qed.

(* fill writes exactly the n requested bytes *)
Lemma mfill3_len p r head mid n r' bs : mfill3 p r head mid n = Ok (r', bs) -> nlen bs = nlen head + nlen mid + n.
Proof.
  unfold mfill3. intros H. destruct (n =? 0) eqn:E0; cbn [negb] in H.
  - apply N.eqb_eq in E0. inversion H; subst. unfold nlen. rewrite app_length. lia.
  - destruct (n <? rs_BLOCK_LEN); cbn [check bind] in H; [|discriminate].
    destruct (fill_one_block p r n) as [[r1 tail]| |]; cbn [bind] in H; try discriminate.
    destruct (nlen tail =? n) eqn:E; cbn [check bind] in H; [|discriminate].
    apply N.eqb_eq in E. inversion H; subst. unfold nlen in *. rewrite !app_length. lia.
Qed.

Lemma reader_fill_len p r n r' bs : xof_shape p (r_out r) -> reader_fill p r n = Ok (r', bs) -> nlen bs = n.
Proof.
  intros Hsh. rewrite reader_fill_unfold. destruct (n =? 0) eqn:E0.
  - apply N.eqb_eq in E0. intros H. inversion H; subst. reflexivity.
  - intros H.
    assert (Hm2 : forall r head n, xof_shape p (r_out r) -> mfill2 p r head n = Ok (r', bs) -> nlen bs = nlen head + n).
    { clear. intros r head n Hsh H. unfold mfill2 in H. cbv zeta in H. change rs_BLOCK_LEN with 64 in H.
      pose proof (div64_mul_le n) as Hd.
      destruct (0 <? n / 64).
      - destruct (r_pwb r =? 0); cbn [check bind] in H; [|discriminate].
        destruct (p_xof_many p (o_cv (r_out r)) (o_block (r_out r)) (o_blen (r_out r)) (o_ctr (r_out r))
                    (N.lor (o_flags (r_out r)) rs_flag_ROOT) (n / 64)) as [mid| |] eqn:Ex; cbn [bind] in H; try discriminate.
        destruct (mi_add 64 (o_ctr (r_out r)) (n / 64)) as [c| |]; cbn [bind] in H; try discriminate.
        apply mfill3_len in H. pose proof (proj2 Hsh _ _ _ _ Ex) as Hl. unfold nlen in *. lia.
      - cbn [bind] in H. apply mfill3_len in H. unfold nlen in *. cbn [length] in H. lia. }
    destruct (negb (r_pwb r =? 0)).
    + destruct (fill_one_block p r n) as [[r1 bs1]| |] eqn:Ef; cbn [bind] in H; try discriminate.
      destruct (fill_one_block_post p r _ r1 bs1 Ef) as (Hlen & _ & H1 & H2 & H3).
      apply Hm2 in H; [lia|exact (xof_shape_same p _ _ H1 H2 H3 Hsh)].
    + cbn [bind] in H. apply Hm2 in H; [exact H|exact Hsh].
Qed.

(* ---------- position, set_position ---------- *)
Lemma lib_OutputReader_position_eq p r : lib_OutputReader_position (lib_of_rd p r) = reader_position r.
Proof. unfold lib_OutputReader_position, reader_position, rs_position. apply bind_ret. Qed.

Lemma lib_OutputReader_set_position_eq p r q :
  lib_OutputReader_set_position (lib_of_rd p r) q = res_map (lib_of_rd p) (reader_set_position r q).
Proof.
  unfold lib_OutputReader_set_position, reader_set_position, rs_set_position_pwb, rs_set_position_ctr.
  destruct (mu (mi_cast 8) (mb (mi_rem 64) (Ok q) (mu (mi_cast 64) (Ok rs_BLOCK_LEN)))) as [pwb| |]; cbn [bind res_map]; try reflexivity.
Qed.

(* ---------- std::io::Read::read ---------- *)
Theorem lib_OutputReader_read_eq p r buf : r_pwb r < 2 ^ 8 -> nlen buf < 2 ^ 64 -> xof_shape p (r_out r) ->
  lib_OutputReader_Read_read m_xof_many (lib_of_rd p r) buf
  = res_map (fun x => (lib_of_rd p (fst x), snd x, IoOk (nlen buf))) (reader_fill p r (nlen buf)).
Proof.
  intros Hpwb Hn Hsh. unfold lib_OutputReader_Read_read. cbv zeta. change (ms_win (ms_of buf)) with buf.
  rewrite (lib_OutputReader_fill_eq p r buf Hpwb Hn Hsh).
  destruct (reader_fill p r (nlen buf)) as [[r' bs]| |] eqn:Ef; cbn [bind res_map]; try reflexivity.
  unfold fill_map. cbn [fst snd]. rewrite <- (reader_fill_len p r _ r' bs Hsh Ef). reflexivity.
Qed.

(* ---------- std::io::Seek::seek ---------- *)
Lemma rs_position_lt c pwb q : rs_position c pwb = Ok q -> q < 2 ^ 64.
Proof.
  unfold rs_position, mb. intros H.
  destruct (a <- Ok c;; b <- mu (mi_cast 64) (Ok rs_BLOCK_LEN);; mi_mul 64 a b) as [x| |]; cbn [bind] in H; try discriminate.
  unfold mu, mi_cast in H. cbn [bind] in H. unfold mi_add, fits in H.
  destruct (x + N.land pwb (N.ones 64) <? 2 ^ 64) eqn:E; [|discriminate]. inversion H; subst. apply N.ltb_lt in E. exact E.
Qed.

Lemma zi_as_u_small z : (0 <= z < 2 ^ 64)%Z -> zi_as_u 64 z = Z.to_N z.
Proof. intros H. unfold zi_as_u. change (2 ^ Z.of_N 64)%Z with (2 ^ 64)%Z. rewrite Z.mod_small by exact H. reflexivity. Qed.

Definition seek_arg_ok (s : seek_from) : Prop :=
  match s with
  | SeekStart x => x < 2 ^ 64                                   (* u64 *)
  | SeekCurrent d | SeekEnd d => (- 2 ^ 63 <= d < 2 ^ 63)%Z      (* i64 *)
  end.

Definition seek_map (p : platform) (x : reader * option N) : lib_OutputReader * io_result N :=
  (lib_of_rd p (fst x), io_of_opt (snd x)).

Lemma seek_tail_eq p r target : (0 <= target)%Z ->
  (self <- lib_OutputReader_set_position (lib_of_rd p r) (zi_as_u 64 (Z.min target (Z.of_N 18446744073709551615))) ;;
   t5 <- (lib_OutputReader_position self) ;;
   Ok (self, (IoOk t5)))
  = res_map (seek_map p)
      (r' <- reader_set_position r (Z.to_N (Z.min target (Z.of_N (2 ^ 64 - 1)))) ;;
       q <- reader_position r' ;; Ok (r', Some q)).
Proof.
  intros Ht. change (Z.of_N (2 ^ 64 - 1)) with 18446744073709551615%Z. change (Z.of_N 18446744073709551615) with 18446744073709551615%Z.
  rewrite zi_as_u_small by (change (2 ^ 64)%Z with 18446744073709551616%Z; lia).
  rewrite lib_OutputReader_set_position_eq.
  destruct (reader_set_position r (Z.to_N (Z.min target 18446744073709551615))) as [r'| |]; cbn [bind res_map]; try reflexivity.
  rewrite lib_OutputReader_position_eq.
  destruct (reader_position r') as [q| |]; cbn [bind res_map]; reflexivity.
Qed.

Theorem lib_OutputReader_seek_eq p r s : seek_arg_ok s ->
  lib_OutputReader_Seek_seek (lib_of_rd p r) (lib_of_seek s) = res_map (seek_map p) (reader_seek r s).
Proof.
  intros Hs. unfold lib_OutputReader_Seek_seek, reader_seek. cbv zeta. destruct s as [x|d|d]; cbn [lib_of_seek bind].
  - cbn [seek_arg_ok] in Hs.
    replace (Z.of_N x <? 0)%Z with false by (symmetry; apply Z.ltb_ge; lia). cbn [bind].
    lazymatch goal with |- context [Z.min _ (Z.of_N 18446744073709551615)] => idtac end.   (* the clamp to u64::MAX *)
    apply seek_tail_eq. lia.
  - cbn [seek_arg_ok] in Hs. rewrite lib_OutputReader_position_eq.
    destruct (reader_position r) as [cur| |] eqn:Ep; cbn [bind res_map]; try reflexivity.
    pose proof (rs_position_lt _ _ _ Ep) as Hcur.
    unfold zi_add, zfits. change (Z.of_N 128 - 1)%Z with 127%Z.
    replace ((- 2 ^ 127 <=? Z.of_N cur + d)%Z && (Z.of_N cur + d <? 2 ^ 127)%Z) with true.
    2:{ symmetry. apply andb_true_iff. split; [apply Z.leb_le|apply Z.ltb_lt];
        change (2 ^ 64) with 18446744073709551616 in Hcur; change (2 ^ 63)%Z with 9223372036854775808%Z in Hs;
        change (2 ^ 127)%Z with 170141183460469231731687303715884105728%Z; lia. }
    cbn [bind].
    destruct (Z.of_N cur + d <? 0)%Z eqn:Eneg; cbn [bind].
    + reflexivity.
    + lazymatch goal with |- context [Z.min _ (Z.of_N 18446744073709551615)] => idtac end.
      apply seek_tail_eq. apply Z.ltb_ge in Eneg. exact Eneg.
  - reflexivity.
Qed.

(* ---------- xof_shape holds on the platforms the checks run (portable kernels at any SIMD degree) ---------- *)
Lemma xof_shape_sim d m o : length (o_cv o) = 8%nat -> length (o_block o) = 64%nat -> xof_shape (sim_platform d m) o.
Proof.
  intros Hcv Hb. split; cbn [sim_platform p_compress_xof p_xof_many].
  - intros ctr fl. rewrite Proofs.PortableP.compress_xof_is_spec by assumption.
    rewrite bytes_of_words_length, Proofs.PortableP.compress_length by assumption. reflexivity.
  - intros ctr fl n bs H. unfold portable_xof_many in H. exact (xof_many_footprint _ _ _ _ Hcv Hb _ _ _ H).
Qed.
