(* Parses `H <mode> <platform> <ops...>` case lines into the extracted Machine.op
   type, runs Machine.run_case, prints the observations. *)
open Model
open Bytespec

let platform_of = function
  | "portable" -> sim_platform (n_of_int 1) (n_of_int 16)
  | "sse2" | "sse41" -> sim_platform (n_of_int 4) (n_of_int 16)
  | "avx2" -> sim_platform (n_of_int 8) (n_of_int 16)
  | "avx512" | "detect" -> sim_platform (n_of_int 16) (n_of_int 16)
  (* builds without AVX-512 (feature `pure`): MAX_SIMD_DEGREE = 8 *)
  | "portable8" -> sim_platform (n_of_int 1) (n_of_int 8)
  | "sse2_8" | "sse41_8" -> sim_platform (n_of_int 4) (n_of_int 8)
  | "avx2_8" | "detect8" -> sim_platform (n_of_int 8) (n_of_int 8)
  | s -> failwith ("platform " ^ s)

let mode_of (s : string) : mmode =
  match String.index_opt s '=' with
  | None -> if s = "hash" then MHash else failwith "mode"
  | Some i ->
    let k = String.sub s 0 i and v = String.sub s (i + 1) (String.length s - i - 1) in
    (match k with
     | "keyed" -> MKeyed (parse v)
     | "derive" -> MDerive (parse v)
     | "derivek" -> MDeriveK (parse v)
     | _ -> failwith "mode")

let nat_of_string s = nat_of_int (int_of_string s)

let z_of_string (s : string) : z =
  if s = "0" || s = "-0" then Z0
  else if s.[0] = '-' then
    (match n_of_string (String.sub s 1 (String.length s - 1)) with N0 -> Z0 | Npos p -> Zneg p)
  else (match n_of_string s with N0 -> Z0 | Npos p -> Zpos p)

let vref_of (s : string) : vref =
  if s.[0] = '$' then VRef (nat_of_string (String.sub s 1 (String.length s - 1))) else VLit (parse s)

let script_of (s : string) : read_item list =
  if s = "" then [] else
  List.map (fun it ->
      match it.[0] with
      | 'd' -> RDeliver (n_of_string (String.sub it 1 (String.length it - 1)))
      | 'i' -> RInterrupted
      | 'z' -> RZero
      | 'e' ->
        let k = String.sub it 1 (String.length it - 1) in
        RError (n_of_int (match k with "wouldblock" -> 1 | "unexpectedeof" -> 2 | "invaliddata" -> 3
                                       | "timedout" -> 4 | _ -> 5))
      | _ -> failwith "script item") (String.split_on_char ',' s)

let op_of (tok : string) : op =
  match String.split_on_char ':' tok with
  | ["n"] -> OpNew
  | ["u"; i; b] -> OpUpdate (nat_of_string i, parse b)
  (* update_rayon / scripted join: same function as update (C08 compares the real runs) *)
  | ["uy"; i; b] -> OpUpdate (nat_of_string i, parse b)
  | ["um"; i; b] | ["umy"; i; b] -> OpUpdate (nat_of_string i, parse b)
  | ["us"; i; b; _] -> OpUpdate (nat_of_string i, parse b)
  | ["w"; i; b] -> OpWrite (nat_of_string i, parse b)
  | ["ur"; i; b] -> OpUpdateReader (nat_of_string i, parse b, [])
  | ["ur"; i; b; sc] -> OpUpdateReader (nat_of_string i, parse b, script_of sc)
  | ["f"; i] -> OpFinalize (nat_of_string i)
  | ["x"; i; n] -> OpXof (nat_of_string i, n_of_string n)
  | ["c"; i] -> OpCount (nat_of_string i)
  | ["cl"; i] -> OpClone (nat_of_string i)
  (* clf:j:k / rcf:j:k: Clone::clone_from into a used destination; the model's clone is a value copy *)
  | ["clf"; i; _] -> OpClone (nat_of_string i)
  | ["rcf"; i; _] -> OpReaderClone (nat_of_string i)
  | ["r"; i] -> OpReset (nat_of_string i)
  | ["so"; i; off] -> OpSetOffset (nat_of_string i, n_of_string off)
  | ["nr"; i] -> OpNonRoot (nat_of_string i)
  | ["oh"; b] -> OpOneShot (parse b)
  | ["mn"; l; r] -> OpMergeNonRoot (vref_of l, vref_of r)
  | ["mr"; l; r] -> OpMergeRoot (vref_of l, vref_of r)
  | ["mx"; l; r] -> OpMergeXof (vref_of l, vref_of r)
  | ["ck"; c] -> OpContextKey (parse c)
  | ["xo"; i] -> OpReaderNew (nat_of_string i)
  | ["rf"; j; n] -> OpFill (nat_of_string j, n_of_string n)
  | ["rr"; j; n] -> OpRead (nat_of_string j, n_of_string n)
  | ["rp"; j] -> OpPos (nat_of_string j)
  | ["rs"; j; pos] -> OpSetPos (nat_of_string j, n_of_string pos)
  | ["rk"; j; "s"; v] -> OpSeek (nat_of_string j, SeekStart (n_of_string v))
  | ["rk"; j; "c"; v] -> OpSeek (nat_of_string j, SeekCurrent (z_of_string v))
  | ["rk"; j; "e"; v] -> OpSeek (nat_of_string j, SeekEnd (z_of_string v))
  | ["rc"; j] -> OpReaderClone (nat_of_string j)
  | ["tu"; i; b] -> OpTUpdate (nat_of_string i, parse b)
  | ["tr"; i] -> OpTReset (nat_of_string i)
  | ["tf"; i] -> OpTFinalize (nat_of_string i)
  | ["tfr"; i] -> OpTFinalizeReset (nat_of_string i)
  | ["tx"; i; n] -> OpTXof (nat_of_string i, n_of_string n)
  | ["txr"; i; n] -> OpTXofReset (nat_of_string i, n_of_string n)
  (* trd:j:n: XofReader::read on an existing reader; traits.rs: its body is self.fill(buffer), see the C16_src theorems *)
  | ["trd"; j; n] -> OpFill (nat_of_string j, n_of_string n)
  | ["dbg"; i] -> OpDbg (nat_of_string i)
  | ["rdbg"; j] -> OpReaderDbg (nat_of_string j)
  | ["zh"; i] -> OpZeroHasher (nat_of_string i)
  | ["zr"; j] -> OpZeroReader (nat_of_string j)
  | ["tk"] -> OpTKeyInit
  | ["td"] -> OpTDigestNew
  | _ -> failwith ("op " ^ tok)

let io_kind_name k = match int_of_n k with
  | 0 -> "invalidinput" | 1 -> "wouldblock" | 2 -> "unexpectedeof" | 3 -> "invaliddata" | 4 -> "timedout"
  | _ -> "other"

let obs_token = function
  | ObHex b -> hex_of_nlist b
  | ObXof b -> "x" ^ hex_of_nlist b
  | ObNum n -> string_of_n n
  | ObRead (n, b) -> string_of_n n ^ "x" ^ hex_of_nlist b
  | ObOk -> "ok"
  | ObErrIo k -> "ERR:io:" ^ io_kind_name k
  | ObStr s -> String.map (fun c -> if c = ' ' then '_' else c) (string_of_nlist s)
  | ObZeroed b -> if b then "zero" else "nonzero"

let status_tokens = function
  | Ok _ -> []
  | Panic c -> [if debug_only c then "PANIC_DBG" else "PANIC"]
  | OutOfFuel -> ["OUTOFFUEL"]

let pname_of plat = nlist_of_bytes (Bytes.of_string (match plat with
    | "portable" | "portable8" -> "Portable" | "sse2" | "sse2_8" -> "SSE2" | "sse41" | "sse41_8" -> "SSE41"
    | "avx2" | "avx2_8" -> "AVX2" | "avx512" -> "AVX512"
    | _ -> (try Sys.getenv "VERIF_DETECTED" with Not_found -> "AVX512")))

let run_case (k : string) (toks : string list) : string list =
  match toks with
  | "gc" :: plat :: ctr :: root :: rest ->
    let pieces = (match rest with [] | [""] -> [] | [s] -> List.map parse (String.split_on_char ',' s) | _ -> failwith "gc") in
    let p = platform_of plat in
    let us s = String.map (fun c -> if c = ' ' then '_' else c) s in
    (match guts_feed p (guts_new (n_of_string ctr)) pieces [] with
     | Ok (cs, lens) ->
       let lens = List.map string_of_n lens in
       (match guts_debug cs (pname_of plat) with
        | Ok dbg ->
          lens @ [us (string_of_nlist dbg)] @
          (match guts_finalize p cs (root = "1") with
           | Ok h -> [hex_of_nlist h]
           | Panic c -> status_tokens (Panic c)
           | OutOfFuel -> ["OUTOFFUEL"])
        | Panic c -> lens @ status_tokens (Panic c)
        | OutOfFuel -> ["OUTOFFUEL"])
     | Panic c -> status_tokens (Panic c)
     | OutOfFuel -> ["OUTOFFUEL"])
  | ["gp"; plat; l; r; root] ->
    (match guts_parent_cv (platform_of plat) (parse l) (parse r) (root = "1") with
     | Ok h -> [hex_of_nlist h]
     | Panic c -> status_tokens (Panic c)
     | OutOfFuel -> ["OUTOFFUEL"])
  (* ref <mode> <out_len> [<piece>,...]: the reference implementation model (C15) *)
  | "ref" :: mode :: out_len :: rest ->
    let pieces = (match rest with [] | [""] -> [] | [s] -> List.map parse (String.split_on_char ',' s) | _ -> failwith "ref") in
    let m = (match mode_of mode with
        | MHash -> RHash | MKeyed k -> RKeyed k | MDerive c -> RDerive c | MDeriveK c -> RDerive c) in
    (match ref_run m pieces (n_of_string out_len) with
     | Ok b -> ["x" ^ hex_of_nlist b]
     | Panic c -> status_tokens (Panic c)
     | OutOfFuel -> ["OUTOFFUEL"])
  (* the same case on the specification-only machine (property-level oracle) *)
  | "S" :: mode :: _plat :: ops ->
    (match Model.spec_run_case (mode_of mode) (List.map op_of ops) with
     | Some obs -> List.map obs_token obs
     | None -> ["UNSUPPORTED"])
  | "H" :: mode :: plat :: ops ->
    let p = platform_of plat in
    let pname = (match plat with
        | "portable" | "portable8" -> "Portable" | "sse2" | "sse2_8" -> "SSE2" | "sse41" | "sse41_8" -> "SSE41"
        | "avx2" | "avx2_8" -> "AVX2" | "avx512" -> "AVX512"
        | _ -> (try Sys.getenv "VERIF_DETECTED" with Not_found -> "AVX512")) in
    let pname = nlist_of_bytes (Bytes.of_string pname) in
    let (obs, st) = Model.run_case p pname (mode_of mode) (List.map op_of ops) in
    List.map obs_token obs @ status_tokens st
  | _ -> failwith ("unknown case kind " ^ k)
