(* Model of the hand-written fmt::Debug impls (Hasher, OutputReader, ChunkState)
   as string builders over the PUBLIC fields only, and of Zeroize (every field
   except `platform` overwritten with zeros).  Strings are lists of ASCII codes. *)
From Coq Require Import NArith List Bool.
From V Require Import Base.Res Base.Word Base.MachInt gen.GenConsts gen.GenFormulas
  Spec.Tree Model.Platform Model.RsChunk Model.RsHasher Model.RsXof.
Import ListNotations.
Open Scope N_scope.

Fixpoint dec_go (fuel : nat) (n : N) (acc : list N) : list N :=
  match fuel with
  | O => acc
  | S fuel' => if n <? 10 then (48 + n) :: acc else dec_go fuel' (n / 10) ((48 + n mod 10) :: acc)
  end.
Definition dec (n : N) : list N := dec_go 25 n [].


(* f.debug_struct("Hasher").field("flags", ..).field("platform", ..).finish() *)
Definition debug_hasher (h : hasher) (platform_name : list N) : list N :=
  [72; 97; 115; 104; 101; 114; 32; 123; 32; 102; 108; 97; 103; 115; 58; 32] (* "Hasher { flags: " *) ++ dec (h_flags h) ++ [44; 32; 112; 108; 97; 116; 102; 111; 114; 109; 58; 32] (* ", platform: " *) ++ platform_name ++ [32; 125] (* " }" *).

Definition debug_reader (r : reader) : res (list N) :=
  q <- reader_position r ;;
  Ok ([79; 117; 116; 112; 117; 116; 82; 101; 97; 100; 101; 114; 32; 123; 32; 112; 111; 115; 105; 116; 105; 111; 110; 58; 32] (* "OutputReader { position: " *) ++ dec q ++ [32; 125] (* " }" *)).

Definition debug_chunk_state (cs : chunk_state) (platform_name : list N) : res (list N) :=
  c <- cs_count cs ;;
  Ok ([67; 104; 117; 110; 107; 83; 116; 97; 116; 101; 32; 123; 32; 99; 111; 117; 110; 116; 58; 32] (* "ChunkState { count: " *) ++ dec c ++ [44; 32; 99; 104; 117; 110; 107; 95; 99; 111; 117; 110; 116; 101; 114; 58; 32] (* ", chunk_counter: " *) ++ dec (cs_ctr cs) ++ [44; 32; 102; 108; 97; 103; 115; 58; 32] (* ", flags: " *)
      ++ dec (cs_flags cs) ++ [44; 32; 112; 108; 97; 116; 102; 111; 114; 109; 58; 32] (* ", platform: " *) ++ platform_name ++ [32; 125] (* " }" *)).

(* Zeroize: every field except platform *)
Definition zero_output (o : output) : output :=
  mkOutput (repeat 0 8) (repeat 0 64) 0 0 0.
Definition zero_chunk_state (cs : chunk_state) : chunk_state :=
  mkCS (repeat 0 8) 0 (repeat 0 64) 0 0 0.
(* ArrayVec<CVBytes, 55>::zeroize: zero the elements, clear, zero the whole backing array *)
Definition zero_hasher (h : hasher) : hasher :=
  mkHasher (repeat 0 8) (zero_chunk_state (h_cs h)) 0 [].
Definition zero_reader (r : reader) : reader := mkReader (zero_output (r_out r)) 0.
