(* C16: RustCrypto trait impls and the legacy guts API agree with the inherent API.
   Statements only; proofs in Proofs/MiscP.v. *)
From Coq Require Import NArith List Bool.
From V Require Import Base.Res Base.Word Spec.Compress Spec.Tree Spec.Blake3 Model.Platform Model.RsChunk
  Model.RsHasher Model.RsXof Model.RsGuts Model.Machine Proofs.MiscP.
Import ListNotations.
Open Scope N_scope.

(* each trait method is the inherent method (same machine step, same observations) *)
Theorem C16_trait_update : forall p pn m key flags st i b,
  step p pn m key flags st (OpTUpdate i b) = step p pn m key flags st (OpUpdate i b).
Proof. exact trait_update. Qed.
Theorem C16_trait_reset : forall p pn m key flags st i,
  step p pn m key flags st (OpTReset i) = step p pn m key flags st (OpReset i).
Proof. exact trait_reset. Qed.
Theorem C16_trait_finalize : forall p pn m key flags st i,
  step p pn m key flags st (OpTFinalize i) = step p pn m key flags st (OpFinalize i).
Proof. exact trait_finalize. Qed.

(* the resetting variants leave exactly the state of finalize followed by reset *)
Theorem C16_trait_finalize_reset : forall p pn m key flags st i,
  step p pn m key flags st (OpTFinalizeReset i) =
  ('(st1, o1) <- step p pn m key flags st (OpFinalize i) ;;
   '(st2, o2) <- step p pn m key flags st1 (OpReset i) ;; Ok (st2, o1 ++ o2)).
Proof. exact trait_finalize_reset. Qed.

Theorem C16_trait_xof : forall p pn m key flags st i n,
  step p pn m key flags st (OpTXof i n) =
  ('(st1, o1) <- step p pn m key flags st (OpReaderNew i) ;;
   '(st2, o2) <- step p pn m key flags st1 (OpFill (length (st_readers st)) n) ;; Ok (st2, o1 ++ o2)).
Proof. exact trait_xof. Qed.

(* guts::ChunkState: any split of at most 1024 bytes, any chunk counter; root only for chunk 0 *)
Theorem C16_guts_chunk_spec : forall p, PlatformOK p -> forall ctr pieces,
  len (concat pieces) <= 1024 ->
  exists cs lens, guts_feed p (guts_new ctr) pieces [] = Ok (cs, lens) /\
    guts_finalize p cs false = Ok (chaining_value spec_c8 (chunk_output spec_c8 IV 0 ctr (concat pieces))) /\
    (ctr = 0 -> guts_finalize p cs true = Ok (stream spec_c64 (chunk_output spec_c8 IV 0 0 (concat pieces)) 0 32)).
Proof. exact guts_chunk_spec. Qed.

Theorem C16_guts_parent_spec : forall p, PlatformOK p -> forall l r,
  length l = 32%nat -> length r = 32%nat ->
  guts_parent_cv p l r false = Ok (chaining_value spec_c8 (parent_output IV 0 l r)) /\
  guts_parent_cv p l r true = Ok (stream spec_c64 (parent_output IV 0 l r) 0 32).
Proof. exact guts_parent_spec. Qed.

Example C16_nonvacuous :
  let p := sim_platform 4 16 in
  exists cs lens, guts_feed p (guts_new 5) [[1;2;3]; repeat 7 100; [9]] [] = Ok (cs, lens) /\ lens = [3; 103; 104].
Proof. vm_compute. eauto. Qed.

(* the functions of the modelled source are exactly the functions the model was written against
   (gen/GenApi.v is regenerated from /repo on every run; see Model/ApiSurface.v) *)
From V Require gen.GenApi Model.ApiSurface.
Theorem C16_api_traits : GenApi.api_traits = ApiSurface.expected_traits.
Proof. reflexivity. Qed.
Theorem C16_api_guts : GenApi.api_guts = ApiSurface.expected_guts.
Proof. reflexivity. Qed.

Print Assumptions C16_api_traits.
Print Assumptions C16_api_guts.
Print Assumptions C16_trait_update.
Print Assumptions C16_trait_reset.
Print Assumptions C16_trait_finalize.
Print Assumptions C16_trait_finalize_reset.
Print Assumptions C16_trait_xof.
Print Assumptions C16_guts_chunk_spec.
Print Assumptions C16_guts_parent_spec.

(* ---- the model against the source text: src/traits.rs, src/guts.rs ---------------------------------------------
   gen/GenTraits.v is the text of every RustCrypto trait method body of src/traits.rs (Update::update, Reset::reset,
   FixedOutput::finalize_into, FixedOutputReset::finalize_into_reset, ExtendableOutput::finalize_xof,
   ExtendableOutputReset::finalize_xof_reset, XofReader::read, KeyInit::new), of its associated size types, and of
   guts::ChunkState::{new, len, update, finalize} / guts::parent_cv (src/guts.rs), translated statement by statement
   (tools/gen_coq.py gen_traits, regenerated from /repo on every run): each body is the sequence of inherent-method
   calls it makes, the callees being the translations of gen/GenLibLoops.v (Hasher::reset / finalize / finalize_xof,
   ChunkState::new / count / update / output), gen/GenXof.v (OutputReader::new / fill) and gen/GenHazmat.v
   (Hasher::new_keyed).  Hasher::update (update_with_join) is not translated: it is the parameter ext_Hasher_update,
   instantiated with m_Hasher_update = the model's hasher_update through the representation maps; the other
   parameters are the models' as in Props/C02.v / Props/C03.v.  The OpT* cases of Machine.step are these bodies; the
   guts functions are Model/RsGuts.v's, on every argument and every fuel.  An `out: &mut Array<u8, U32>` is its byte
   list; guts::ChunkState(crate::ChunkState) is its one field.  Proofs in Proofs/GenTraitsP.v. *)
From V Require Import Base.MachInt gen.GenConsts gen.GenLibSmall gen.GenLibLoops gen.GenXof gen.GenHazmat gen.GenTraits
  Proofs.GenLibSmallP Proofs.GenLibLoopsP Proofs.GenXofP Proofs.GenHazmatP Proofs.GenTraitsP.

Theorem C16_src_repr_def :
  (forall h input, m_Hasher_update h input =
     GenLibLoopsP.res_map (lib_of_hasher (lib_ChunkState_platform (lib_Hasher_chunk_state h)))
       (hasher_update (lib_ChunkState_platform (lib_Hasher_chunk_state h)) (hasher_of_lib h) input)) /\
  (forall p h input, m_Hasher_update (lib_of_hasher p h) input = GenLibLoopsP.res_map (lib_of_hasher p) (hasher_update p h input)) /\
  (forall fuel h, fin_ok fuel h =
     ((length (h_stack h) <= fuel)%nat /\ (forall a, h_stack h = [a] -> cs_count (h_cs h) <> Ok 0))) /\
  (forall fuel h, hasher_shape fuel h = (fin_ok fuel h /\ length (h_key h) = 8%nat /\ length (cs_cv (h_cs h)) = 8%nat)).
Proof. split; [reflexivity|]. split; [exact m_Hasher_update_of|]. split; reflexivity. Qed.
Print Assumptions C16_src_repr_def.

(* type OutputSize = U32; type KeySize = U32; type BlockSize = U64 *)
Theorem C16_src_sizes :
  tr_OutputSizeUser_OutputSize = rs_OUT_LEN /\ tr_KeySizeUser_KeySize = rs_KEY_LEN /\ tr_BlockSizeUser_BlockSize = rs_BLOCK_LEN.
Proof. exact tr_sizes. Qed.
Print Assumptions C16_src_sizes.

Theorem C16_src_update : forall p h data,
  tr_Update_update m_Hasher_update (lib_of_hasher p h) data = GenLibLoopsP.res_map (lib_of_hasher p) (hasher_update p h data).
Proof. exact tr_Update_update_eq. Qed.
Print Assumptions C16_src_update.

Theorem C16_src_reset : forall p h, tr_Reset_reset (lib_of_hasher p h) = lib_of_hasher p (hasher_reset h).
Proof. exact tr_Reset_reset_eq. Qed.
Print Assumptions C16_src_reset.

(* out.copy_from_slice(self.finalize().as_bytes()): the digest, after the length check of copy_from_slice *)
Theorem C16_src_finalize_into : forall p fuel h out, fin_ok fuel h ->
  tr_FixedOutput_finalize_into m_parent_node_output m_Output_chaining_value m_Output_root_hash fuel (lib_of_hasher p h) out
  = (d <- hasher_finalize p h ;; assert! (N.of_nat (length d) =? N.of_nat (length out)) code 42 ;; Ok d).
Proof. exact tr_FixedOutput_finalize_into_eq. Qed.
Print Assumptions C16_src_finalize_into.

Theorem C16_src_finalize_into_32 : forall p fuel h out, fin_ok fuel h -> PlatformOK p ->
  length (h_key h) = 8%nat -> length (cs_cv (h_cs h)) = 8%nat -> length out = 32%nat ->
  tr_FixedOutput_finalize_into m_parent_node_output m_Output_chaining_value m_Output_root_hash fuel (lib_of_hasher p h) out
  = hasher_finalize p h.
Proof. exact tr_FixedOutput_finalize_into_32. Qed.
Print Assumptions C16_src_finalize_into_32.

Theorem C16_src_finalize_into_reset : forall p fuel h out, fin_ok fuel h ->
  tr_FixedOutputReset_finalize_into_reset m_parent_node_output m_Output_chaining_value m_Output_root_hash fuel
    (lib_of_hasher p h) out
  = (d <- hasher_finalize p h ;; assert! (N.of_nat (length d) =? N.of_nat (length out)) code 42 ;;
     Ok (lib_of_hasher p (hasher_reset h), d)).
Proof. exact tr_FixedOutputReset_finalize_into_reset_eq. Qed.
Print Assumptions C16_src_finalize_into_reset.

Theorem C16_src_finalize_xof : forall p fuel h, fin_ok fuel h ->
  tr_ExtendableOutput_finalize_xof m_parent_node_output m_Output_chaining_value fuel (lib_of_hasher p h)
  = GenLibLoopsP.res_map (fun o => lib_of_rd p (reader_new o)) (hasher_finalize_output p h).
Proof. exact tr_ExtendableOutput_finalize_xof_eq. Qed.
Print Assumptions C16_src_finalize_xof.

Theorem C16_src_finalize_xof_reset : forall p fuel h, fin_ok fuel h ->
  tr_ExtendableOutputReset_finalize_xof_reset m_parent_node_output m_Output_chaining_value fuel (lib_of_hasher p h)
  = GenLibLoopsP.res_map (fun o => (lib_of_hasher p (hasher_reset h), lib_of_rd p (reader_new o))) (hasher_finalize_output p h).
Proof. exact tr_ExtendableOutputReset_finalize_xof_reset_eq. Qed.
Print Assumptions C16_src_finalize_xof_reset.

Theorem C16_src_xof_reader_read : forall p r buf,
  r_pwb r < 2 ^ 8 -> N.of_nat (length buf) < 2 ^ 64 -> xof_shape p (r_out r) ->
  tr_XofReader_read m_xof_many (lib_of_rd p r) buf = GenLibLoopsP.res_map (fill_map p) (reader_fill p r (N.of_nat (length buf))).
Proof. exact tr_XofReader_read_eq. Qed.
Print Assumptions C16_src_xof_reader_read.

Theorem C16_src_key_init_new : forall key p, length key = 32%nat ->
  tr_KeyInit_new key p = lib_of_hasher p (new_internal (words_of_bytes key) rs_flag_KEYED_HASH).
Proof. exact tr_KeyInit_new_eq. Qed.
Print Assumptions C16_src_key_init_new.

(* the OpT* cases of Machine.step *)
Theorem C16_src_step_update : forall p pn m key flags st i b,
  step p pn m key flags st (OpTUpdate i b)
  = (h <- get (st_hashers st) i ;;
     h' <- tr_Update_update m_Hasher_update (lib_of_hasher p h) b ;;
     Ok (set_hasher st i (hasher_of_lib h'), [])).
Proof. exact step_TUpdate. Qed.
Print Assumptions C16_src_step_update.

Theorem C16_src_step_reset : forall p pn m key flags st i,
  step p pn m key flags st (OpTReset i)
  = (h <- get (st_hashers st) i ;; Ok (set_hasher st i (hasher_of_lib (tr_Reset_reset (lib_of_hasher p h))), [])).
Proof. exact step_TReset. Qed.
Print Assumptions C16_src_step_reset.

Theorem C16_src_step_finalize : forall p pn m key flags st fuel i, PlatformOK p ->
  (forall h, get (st_hashers st) i = Ok h -> hasher_shape fuel h) ->
  step p pn m key flags st (OpTFinalize i)
  = (h <- get (st_hashers st) i ;;
     d <- tr_FixedOutput_finalize_into m_parent_node_output m_Output_chaining_value m_Output_root_hash fuel
            (lib_of_hasher p h) (repeat 0 32%nat) ;;
     Ok (st, [ObHex d])).
Proof. exact step_TFinalize. Qed.
Print Assumptions C16_src_step_finalize.

Theorem C16_src_step_finalize_reset : forall p pn m key flags st fuel i, PlatformOK p ->
  (forall h, get (st_hashers st) i = Ok h -> hasher_shape fuel h) ->
  step p pn m key flags st (OpTFinalizeReset i)
  = (h <- get (st_hashers st) i ;;
     '(h', d) <- tr_FixedOutputReset_finalize_into_reset m_parent_node_output m_Output_chaining_value m_Output_root_hash
                   fuel (lib_of_hasher p h) (repeat 0 32%nat) ;;
     Ok (set_hasher st i (hasher_of_lib h'), [ObHex d])).
Proof. exact step_TFinalizeReset. Qed.
Print Assumptions C16_src_step_finalize_reset.

Theorem C16_src_step_xof : forall p pn m key flags st fuel i n, n < 2 ^ 64 ->
  (forall h, get (st_hashers st) i = Ok h -> fin_ok fuel h /\ forall o, hasher_finalize_output p h = Ok o -> xof_shape p o) ->
  step p pn m key flags st (OpTXof i n)
  = (h <- get (st_hashers st) i ;;
     rd <- tr_ExtendableOutput_finalize_xof m_parent_node_output m_Output_chaining_value fuel (lib_of_hasher p h) ;;
     '(rd', buf) <- tr_XofReader_read m_xof_many rd (repeat 0 (N.to_nat n)) ;;
     Ok (add_reader st (rd_of_lib rd'), [ObXof buf])).
Proof. exact step_TXof. Qed.
Print Assumptions C16_src_step_xof.

Theorem C16_src_step_xof_reset : forall p pn m key flags st fuel i n, n < 2 ^ 64 ->
  (forall h, get (st_hashers st) i = Ok h -> fin_ok fuel h /\ forall o, hasher_finalize_output p h = Ok o -> xof_shape p o) ->
  step p pn m key flags st (OpTXofReset i n)
  = (h <- get (st_hashers st) i ;;
     '(h', rd) <- tr_ExtendableOutputReset_finalize_xof_reset m_parent_node_output m_Output_chaining_value fuel
                    (lib_of_hasher p h) ;;
     '(rd', buf) <- tr_XofReader_read m_xof_many rd (repeat 0 (N.to_nat n)) ;;
     Ok (add_reader (set_hasher st i (hasher_of_lib h')) (rd_of_lib rd'), [ObXof buf])).
Proof. exact step_TXofReset. Qed.
Print Assumptions C16_src_step_xof_reset.

Theorem C16_src_step_key_init : forall p pn m key flags st k, m = MKeyed k -> length k = 32%nat ->
  step p pn m key flags st OpTKeyInit = Ok (add_hasher st (hasher_of_lib (tr_KeyInit_new k p)), []).
Proof. exact step_TKeyInit. Qed.
Print Assumptions C16_src_step_key_init.

(* digest::Digest::new() is Default::default(), which is Hasher::new() *)
Theorem C16_src_step_digest_new : forall p pn m key flags st,
  step p pn m key flags st OpTDigestNew = Ok (add_hasher st (hasher_of_lib (hz_Hasher_Default_default p)), []).
Proof. exact step_TDigestNew. Qed.
Print Assumptions C16_src_step_digest_new.

(* src/guts.rs *)
Theorem C16_src_guts_new : forall ctr p, gu_ChunkState_new ctr p = lib_of_cs p (guts_new ctr).
Proof. exact gu_ChunkState_new_eq. Qed.
Print Assumptions C16_src_guts_new.

Theorem C16_src_guts_len : forall p c, gu_ChunkState_len (lib_of_cs p c) = guts_len c.
Proof. exact gu_ChunkState_len_eq. Qed.
Print Assumptions C16_src_guts_len.

(* every fuel (cs_update_with: Props/C02.v C02_lib_src_cs_update_with_def), then the model's own fuel *)
Theorem C16_src_guts_update_fuel : forall p fuel c input, cs_buf_len c < 2 ^ 64 ->
  gu_ChunkState_update fuel (lib_of_cs p c) input = GenLibLoopsP.res_map (lib_of_cs p) (cs_update_with fuel p c input).
Proof. exact gu_ChunkState_update_fuel. Qed.
Print Assumptions C16_src_guts_update_fuel.

Theorem C16_src_guts_update : forall p fuel c input, cs_buf_len c < 2 ^ 64 -> (length input < 64 * fuel)%nat ->
  gu_ChunkState_update fuel (lib_of_cs p c) input = GenLibLoopsP.res_map (lib_of_cs p) (guts_update p c input).
Proof. exact gu_ChunkState_update_eq. Qed.
Print Assumptions C16_src_guts_update.

Theorem C16_src_guts_finalize : forall p c is_root,
  gu_ChunkState_finalize m_Output_chaining_value m_Output_root_hash (lib_of_cs p c) is_root = guts_finalize p c is_root.
Proof. exact gu_ChunkState_finalize_eq. Qed.
Print Assumptions C16_src_guts_finalize.

Theorem C16_src_guts_parent_cv : forall p l r is_root,
  gu_parent_cv m_parent_node_output m_Output_chaining_value m_Output_root_hash l r is_root p = guts_parent_cv p l r is_root.
Proof. exact gu_parent_cv_eq. Qed.
Print Assumptions C16_src_guts_parent_cv.

(* non-vacuity: the translated bodies compute, and agree with the models *)
Example C16_src_nonvacuous :
  let p := sim_platform 4 16 in
  let h := new_internal rs_IV 0 in
  GenLibLoopsP.res_map hasher_of_lib (tr_Update_update m_Hasher_update (lib_of_hasher p h) [1; 2; 3]) = hasher_update p h [1; 2; 3] /\
  (h1 <- hasher_update p h [1; 2; 3] ;;
   tr_FixedOutput_finalize_into m_parent_node_output m_Output_chaining_value m_Output_root_hash 64 (lib_of_hasher p h1)
     (repeat 0 32%nat)) = (h1 <- hasher_update p h [1; 2; 3] ;; hasher_finalize p h1) /\
  is_ok (h1 <- hasher_update p h [1; 2; 3] ;; hasher_finalize p h1) = true /\
  (h1 <- hasher_update p h [1; 2; 3] ;;
   tr_FixedOutput_finalize_into m_parent_node_output m_Output_chaining_value m_Output_root_hash 64 (lib_of_hasher p h1)
     (repeat 0 31%nat)) = Panic 42 /\
  gu_parent_cv m_parent_node_output m_Output_chaining_value m_Output_root_hash (repeat 1 32%nat) (repeat 2 32%nat) true p
    = guts_parent_cv p (repeat 1 32%nat) (repeat 2 32%nat) true.
Proof. vm_compute. repeat split. Qed.
Print Assumptions C16_src_nonvacuous.
