(* C05: rust_sse2.rs emulates _mm_blend_epi16 with (mask & b) | (andnot mask a), mask = cmpeq16(set1(imm) & bits, bits).
   For the two immediates the code uses (0xCC, 0xC0; both select whole 32-bit lanes) and registers whose lanes are
   32-bit words (what an __m128i of four u32 lanes is), the emulation IS the lane selection that Model/Kernels.v uses
   for the SSE4.1 instruction. *)
From Coq Require Import NArith List Bool Arith Lia.
From V Require Import Base.Word Model.Kernels.
Import ListNotations.
Open Scope N_scope.

Lemma land_mask32_id w : w < 2 ^ 32 -> N.land mask32 w = w.
Proof.
  intros H. unfold mask32. change 0xFFFFFFFF with (N.ones 32). rewrite N.land_comm, N.land_ones.
  apply N.mod_small. exact H.
Qed.

Definition lanes32 (v : vec) : Prop := length v = 4%nat /\ Forall (fun w => w < 2 ^ 32) v.

Lemma ln_lt (v : vec) k : lanes32 v -> ln 0 v k < 2 ^ 32.
Proof.
  intros [Hl Hf]. unfold ln. destruct (Nat.lt_ge_cases k (length v)) as [Hk|Hk].
  - rewrite Forall_forall in Hf. apply Hf. apply nth_In. exact Hk.
  - rewrite nth_overflow by exact Hk. reflexivity.
Qed.

Lemma blend_lane (m a b : N) (sel : bool) : a < 2 ^ 32 -> b < 2 ^ 32 ->
  m = (if sel then mask32 else 0) ->
  N.lor (N.land m b) (N.land (N.lxor m mask32) a) = if sel then b else a.
Proof.
  intros Ha Hb ->. destruct sel.
  - rewrite land_mask32_id by exact Hb. rewrite N.lxor_nilpotent, N.land_0_l, N.lor_0_r. reflexivity.
  - rewrite N.land_0_l, N.lxor_0_l, land_mask32_id by exact Ha. reflexivity.
Qed.

Theorem blend_sse2_is_lane_select : forall a b imm, (imm = 0xCC \/ imm = 0xC0) -> lanes32 a -> lanes32 b ->
  blend_epi16_sse2 a b imm = blend_epi16 0 a b imm.
Proof.
  intros a b imm Himm Ha Hb. unfold blend_epi16_sse2, blend_epi16.
  apply map_ext_in. intros k Hk.
  apply blend_lane; [apply ln_lt; exact Ha|apply ln_lt; exact Hb|].
  cbn [In] in Hk. destruct Himm as [-> | ->];
    (destruct Hk as [<-|[<-|[<-|[<-|[]]]]]; vm_compute; reflexivity).
Qed.

(* and the result is again a register of 32-bit lanes *)
Lemma blend_lanes32 a b imm : lanes32 a -> lanes32 b -> lanes32 (blend_epi16 0 a b imm).
Proof.
  intros Ha Hb. unfold blend_epi16. split; [reflexivity|].
  repeat constructor; (destruct (N.testbit imm _); apply ln_lt; assumption).
Qed.
