(* Proofs about Model/B3sum.v (properties C13 and C12). *)
From V Require Import Base.Res Spec.Tree Model.B3sum Proofs.ListP.
Import ListNotations.
Open Scope N_scope.

(* ========================================================================= *)
(* 1. UTF-8: the lossy decoder inverts the encoder and vice versa            *)
(* ========================================================================= *)
Lemma lossy_ascii b t : b < 128 -> utf8_lossy (b :: t) = b :: utf8_lossy t.
Proof. intros H. cbn [utf8_lossy]. replace (b <? 128) with true by lia. reflexivity. Qed.

Lemma lossy_2 b0 b1 t : 194 <= b0 <= 223 -> 128 <= b1 <= 191 ->
  utf8_lossy (b0 :: b1 :: t) = ((b0 - 192) * 64 + (b1 - 128)) :: utf8_lossy t.
Proof.
  intros H0 H1. cbn [utf8_lossy]. unfold in_range, is_cont.
  replace (b0 <? 128) with false by lia.
  replace ((194 <=? b0) && (b0 <=? 223)) with true by lia.
  replace ((128 <=? b1) && (b1 <=? 191)) with true by lia. reflexivity.
Qed.

Lemma lossy_3 b0 b1 b2 t : 224 <= b0 <= 239 -> ok_second3 b0 b1 = true -> 128 <= b2 <= 191 ->
  utf8_lossy (b0 :: b1 :: b2 :: t) = ((b0 - 224) * 4096 + (b1 - 128) * 64 + (b2 - 128)) :: utf8_lossy t.
Proof.
  intros H0 H1 H2. cbn [utf8_lossy]. rewrite H1. unfold in_range, is_cont.
  replace (b0 <? 128) with false by lia.
  replace ((194 <=? b0) && (b0 <=? 223)) with false by lia.
  replace ((224 <=? b0) && (b0 <=? 239)) with true by lia.
  replace ((128 <=? b2) && (b2 <=? 191)) with true by lia. reflexivity.
Qed.

Lemma lossy_4 b0 b1 b2 b3 t : 240 <= b0 <= 244 -> ok_second4 b0 b1 = true -> 128 <= b2 <= 191 -> 128 <= b3 <= 191 ->
  utf8_lossy (b0 :: b1 :: b2 :: b3 :: t) =
  ((b0 - 240) * 262144 + (b1 - 128) * 4096 + (b2 - 128) * 64 + (b3 - 128)) :: utf8_lossy t.
Proof.
  intros H0 H1 H2 H3. cbn [utf8_lossy]. rewrite H1. unfold in_range, is_cont.
  replace (b0 <? 128) with false by lia.
  replace ((194 <=? b0) && (b0 <=? 223)) with false by lia.
  replace ((224 <=? b0) && (b0 <=? 239)) with false by lia.
  replace ((240 <=? b0) && (b0 <=? 244)) with true by lia.
  replace ((128 <=? b2) && (b2 <=? 191)) with true by lia.
  replace ((128 <=? b3) && (b3 <=? 191)) with true by lia. reflexivity.
Qed.

Lemma lossy_encode1 c r : valid_scalar c = true -> utf8_lossy (utf8_encode1 c ++ r) = c :: utf8_lossy r.
Proof.
  unfold valid_scalar, utf8_encode1. intros V.
  destruct (c <? 128) eqn:E1.
  { cbn [app]. apply lossy_ascii. lia. }
  destruct (c <? 2048) eqn:E2.
  { cbn [app]. rewrite lossy_2 by lia. f_equal. lia. }
  destruct (c <? 65536) eqn:E3.
  { cbn [app]. rewrite lossy_3; try lia.
    - f_equal. lia.
    - unfold ok_second3, in_range.
      destruct (224 + c / 4096 =? 224) eqn:Ea; [lia|].
      destruct (224 + c / 4096 =? 237) eqn:Eb; lia. }
  cbn [app]. rewrite lossy_4; try lia.
  - f_equal. lia.
  - unfold ok_second4, in_range.
    destruct (240 + c / 262144 =? 240) eqn:Ea; [lia|].
    destruct (240 + c / 262144 =? 244) eqn:Eb; lia.
Qed.

Theorem lossy_encode s : forallb valid_scalar s = true -> utf8_lossy (utf8_encode s) = s.
Proof.
  induction s as [|c s IH]; intros H; [reflexivity|].
  cbn [forallb] in H. apply andb_true_iff in H as [Hc Hs].
  cbn [utf8_encode]. rewrite lossy_encode1 by exact Hc. f_equal. auto.
Qed.

(* the other direction: a byte string whose lossy decoding has no U+FFFD is the encoding of it *)
Definition no_repl (s : list N) : Prop := existsb (N.eqb REPL) s = false.

Lemma no_repl_cons c s : no_repl (c :: s) -> c <> REPL /\ no_repl s.
Proof.
  unfold no_repl. cbn [existsb]. intros H. apply orb_false_iff in H as [H1 H2].
  split; [|exact H2]. intros ->. rewrite N.eqb_refl in H1. discriminate.
Qed.

Lemma no_repl_REPL s : ~ no_repl (REPL :: s).
Proof. intros H. apply no_repl_cons in H as [H _]. congruence. Qed.

Lemma encode_lossy_aux : forall n bs, (length bs <= n)%nat -> no_repl (utf8_lossy bs) ->
  utf8_encode (utf8_lossy bs) = bs.
Proof.
  induction n as [|n IH]; intros bs Hl Hn.
  { destruct bs; [reflexivity|cbn in Hl; lia]. }
  destruct bs as [|b0 t0]; [reflexivity|].
  cbn [utf8_lossy] in *. cbn [length] in Hl.
  destruct (b0 <? 128) eqn:E0.
  { apply no_repl_cons in Hn as [_ Hn]. cbn [utf8_encode]. rewrite IH by (first [exact Hn | lia]).
    unfold utf8_encode1. rewrite E0. reflexivity. }
  destruct (in_range 194 223 b0) eqn:E2.
  { destruct t0 as [|b1 t1]; [exfalso; eapply no_repl_REPL; eauto|].
    destruct (is_cont b1) eqn:C1; [|exfalso; eapply no_repl_REPL; eauto].
    apply no_repl_cons in Hn as [_ Hn]. cbn [utf8_encode length] in *. rewrite IH by (first [exact Hn | lia]).
    unfold in_range, is_cont in *. unfold utf8_encode1.
    replace ((b0 - 192) * 64 + (b1 - 128) <? 128) with false by lia.
    replace ((b0 - 192) * 64 + (b1 - 128) <? 2048) with true by lia.
    cbn [app]. f_equal; [lia|]. f_equal. lia. }
  destruct (in_range 224 239 b0) eqn:E3.
  { destruct t0 as [|b1 t1]; [exfalso; eapply no_repl_REPL; eauto|].
    destruct (ok_second3 b0 b1) eqn:C1; [|exfalso; eapply no_repl_REPL; eauto].
    destruct t1 as [|b2 t2]; [exfalso; eapply no_repl_REPL; eauto|].
    destruct (is_cont b2) eqn:C2; [|exfalso; eapply no_repl_REPL; eauto].
    apply no_repl_cons in Hn as [_ Hn]. cbn [utf8_encode length] in *. rewrite IH by (first [exact Hn | lia]).
    unfold in_range, is_cont, ok_second3 in *. unfold utf8_encode1.
    assert (R : 128 <= b1 <= 191 /\ 2048 <= (b0 - 224) * 4096 + (b1 - 128) * 64 + (b2 - 128) < 65536).
    { revert C1. unfold in_range. destruct (b0 =? 224) eqn:Ea; [lia|]. destruct (b0 =? 237) eqn:Eb; lia. }
    replace ((b0 - 224) * 4096 + (b1 - 128) * 64 + (b2 - 128) <? 128) with false by lia.
    replace ((b0 - 224) * 4096 + (b1 - 128) * 64 + (b2 - 128) <? 2048) with false by lia.
    replace ((b0 - 224) * 4096 + (b1 - 128) * 64 + (b2 - 128) <? 65536) with true by lia.
    cbn [app]. f_equal; [lia|]. f_equal; [lia|]. f_equal. lia. }
  destruct (in_range 240 244 b0) eqn:E4.
  { destruct t0 as [|b1 t1]; [exfalso; eapply no_repl_REPL; eauto|].
    destruct (ok_second4 b0 b1) eqn:C1; [|exfalso; eapply no_repl_REPL; eauto].
    destruct t1 as [|b2 t2]; [exfalso; eapply no_repl_REPL; eauto|].
    destruct (is_cont b2) eqn:C2; [|exfalso; eapply no_repl_REPL; eauto].
    destruct t2 as [|b3 t3]; [exfalso; eapply no_repl_REPL; eauto|].
    destruct (is_cont b3) eqn:C3; [|exfalso; eapply no_repl_REPL; eauto].
    apply no_repl_cons in Hn as [_ Hn]. cbn [utf8_encode length] in *. rewrite IH by (first [exact Hn | lia]).
    unfold in_range, is_cont, ok_second4 in *. unfold utf8_encode1.
    assert (R : 128 <= b1 <= 191 /\
                65536 <= (b0 - 240) * 262144 + (b1 - 128) * 4096 + (b2 - 128) * 64 + (b3 - 128) < 1114112).
    { revert C1. unfold in_range. destruct (b0 =? 240) eqn:Ea; [lia|]. destruct (b0 =? 244) eqn:Eb; lia. }
    replace ((b0 - 240) * 262144 + (b1 - 128) * 4096 + (b2 - 128) * 64 + (b3 - 128) <? 128) with false by lia.
    replace ((b0 - 240) * 262144 + (b1 - 128) * 4096 + (b2 - 128) * 64 + (b3 - 128) <? 2048) with false by lia.
    replace ((b0 - 240) * 262144 + (b1 - 128) * 4096 + (b2 - 128) * 64 + (b3 - 128) <? 65536) with false by lia.
    cbn [app]. f_equal; [lia|]. f_equal; [lia|]. f_equal; [lia|]. f_equal. lia. }
  exfalso; eapply no_repl_REPL; eauto.
Qed.

Theorem encode_lossy bs : no_repl (utf8_lossy bs) -> utf8_encode (utf8_lossy bs) = bs.
Proof. apply (encode_lossy_aux (length bs)). lia. Qed.

(* two OS paths with the same replacement-free lossy string are the same path *)
Corollary lossy_injective b1 b2 :
  utf8_lossy b1 = utf8_lossy b2 -> no_repl (utf8_lossy b1) -> b1 = b2.
Proof.
  intros E H. rewrite <- (encode_lossy b1 H). rewrite E in *. apply encode_lossy. exact H.
Qed.

(* ========================================================================= *)
(* 2. escaping                                                               *)
(* ========================================================================= *)
Ltac deq := repeat match goal with
  | |- context [N.eqb ?a ?b] => destruct (N.eqb_spec a b); try lia; subst
  end.

Definition esc1 (c : N) : list N :=
  if c =? BSL then [BSL; BSL] else if c =? LF then [BSL; 110] else if c =? CR then [BSL; 114] else [c].

Lemma replace_char_app c r a b : replace_char c r (a ++ b) = replace_char c r a ++ replace_char c r b.
Proof.
  induction a as [|x a IH]; [reflexivity|]. cbn [app replace_char].
  destruct (x =? c); rewrite IH; [rewrite app_assoc|]; reflexivity.
Qed.

(* the three sequential str::replace calls are one simultaneous substitution *)
Lemma escape_path_eq s : escape_path s = flat_map esc1 s.
Proof.
  unfold escape_path. induction s as [|x s IH]; [reflexivity|].
  cbn [flat_map]. rewrite <- IH. clear IH.
  change (x :: s) with ([x] ++ s). rewrite !replace_char_app. f_equal.
  unfold esc1, BSL, LF, CR. cbn [replace_char app].
  destruct (N.eqb_spec x 92) as [->|N1].
  { cbn [replace_char app]. change (92 =? 10) with false. cbn [replace_char app]. reflexivity. }
  cbn [replace_char app].
  destruct (N.eqb_spec x 10) as [->|N2].
  { cbn [replace_char app]. change (92 =? 13) with false. change (110 =? 13) with false. reflexivity. }
  cbn [replace_char app]. destruct (N.eqb_spec x 13); reflexivity.
Qed.

Lemma unescape_escape s : unescape (flat_map esc1 s) = Some s.
Proof.
  induction s as [|x s IH]; [reflexivity|]. cbn [flat_map]. unfold esc1 at 1. unfold BSL, LF, CR in *.
  destruct (N.eqb_spec x 92) as [->|N1].
  { cbn [app unescape]. unfold BSL. change (92 =? 92) with true. cbv iota.
    change (92 =? 110) with false. change (92 =? 114) with false. cbv iota. rewrite IH. reflexivity. }
  destruct (N.eqb_spec x 10) as [->|N2].
  { cbn [app unescape]. unfold BSL, LF. change (92 =? 92) with true. cbv iota.
    change (110 =? 110) with true. cbv iota. rewrite IH. reflexivity. }
  destruct (N.eqb_spec x 13) as [->|N3].
  { cbn [app unescape]. unfold BSL, CR. change (92 =? 92) with true. cbv iota.
    change (114 =? 110) with false. change (114 =? 114) with true. cbv iota. rewrite IH. reflexivity. }
  cbn [app unescape]. unfold BSL. replace (x =? 92) with false by lia. rewrite IH. reflexivity.
Qed.

Definition nocrlf (c : N) : Prop := is_crlf c = false.

Lemma escape_nocrlf s : Forall nocrlf (flat_map esc1 s).
Proof.
  induction s as [|x s IH]; [constructor|]. cbn [flat_map]. apply Forall_app. split; [|exact IH].
  unfold esc1, nocrlf, is_crlf, BSL, LF, CR. deq; repeat constructor; deq; reflexivity.
Qed.

Lemma no_escape_nocrlf s : existsb needs_escape s = false -> Forall nocrlf s.
Proof.
  induction s as [|x s IH]; intros H; [constructor|].
  cbn [existsb] in H. apply orb_false_iff in H as [H1 H2]. constructor; [|auto].
  unfold needs_escape, nocrlf, is_crlf, BSL, LF, CR in *. lia.
Qed.

Lemma no_escape_head s c t : existsb needs_escape s = false -> s = c :: t -> c <> BSL.
Proof.
  intros H ->. cbn [existsb] in H. apply orb_false_iff in H as [H1 _].
  unfold needs_escape, BSL, LF, CR in *. lia.
Qed.

(* ========================================================================= *)
(* 3. trimming and splitting                                                 *)
(* ========================================================================= *)
Lemma trim_end_crlf t : Forall (fun c => is_crlf c = true) t -> trim_end t = [].
Proof. induction 1 as [|c t Hc _ IH]; [reflexivity|]. cbn [trim_end]. rewrite IH, Hc. reflexivity. Qed.

Lemma trim_end_app_crlf s t : Forall (fun c => is_crlf c = true) t -> trim_end (s ++ t) = trim_end s.
Proof.
  intros Ht. induction s as [|c s IH]; [cbn [app]; rewrite trim_end_crlf by exact Ht; reflexivity|].
  cbn [app trim_end]. rewrite IH. reflexivity.
Qed.

Lemma trim_end_nocrlf s : Forall nocrlf s -> trim_end s = s.
Proof.
  induction 1 as [|c s Hc _ IH]; [reflexivity|]. cbn [trim_end]. rewrite IH.
  destruct s; [rewrite Hc|]; reflexivity.
Qed.

Lemma trim_end_line s t : Forall nocrlf s -> Forall (fun c => is_crlf c = true) t -> trim_end (s ++ t) = s.
Proof. intros Hs Ht. rewrite trim_end_app_crlf by exact Ht. apply trim_end_nocrlf. exact Hs. Qed.

Lemma strip_prefix_spec pat : forall s r, strip_prefix pat s = Some r -> s = pat ++ r.
Proof.
  induction pat as [|p pat IH]; intros s r H; cbn [strip_prefix] in H.
  { destruct s; inversion H; reflexivity. }
  destruct s as [|c s]; [discriminate|].
  destruct (N.eqb_spec p c) as [->|]; [|discriminate]. cbn [app]. f_equal. auto.
Qed.

Lemma strip_prefix_app pat r : strip_prefix pat (pat ++ r) = Some r.
Proof.
  induction pat as [|p pat IH]; [destruct r; reflexivity|]. cbn [app strip_prefix].
  rewrite N.eqb_refl. exact IH.
Qed.

Lemma strip_prefix_head_ne p pat c t : p <> c -> strip_prefix (p :: pat) (c :: t) = None.
Proof. intros H. cbn [strip_prefix]. replace (p =? c) with false by lia. reflexivity. Qed.

Lemma split_once_spec pat : forall s l r, split_once pat s = Some (l, r) -> s = l ++ pat ++ r.
Proof.
  induction s as [|c s IH]; intros l r H; cbn [split_once] in H.
  - destruct (strip_prefix pat []) eqn:E; [|discriminate]. inversion H; subst.
    apply strip_prefix_spec in E. exact E.
  - destruct (strip_prefix pat (c :: s)) eqn:E.
    + inversion H; subst. apply strip_prefix_spec in E. exact E.
    + destruct (split_once pat s) as [[l' r']|] eqn:E2; [|discriminate]. inversion H; subst.
      cbn [app]. f_equal. auto.
Qed.

Lemma rsplit_once_spec pat : forall s l r, rsplit_once pat s = Some (l, r) -> s = l ++ pat ++ r.
Proof.
  induction s as [|c s IH]; intros l r H; cbn [rsplit_once] in H; [discriminate|].
  destruct (rsplit_once pat s) as [[l' r']|] eqn:E2.
  - inversion H; subst. cbn [app]. f_equal. auto.
  - destruct (strip_prefix pat (c :: s)) eqn:E; [|discriminate]. inversion H; subst.
    apply strip_prefix_spec in E. exact E.
Qed.

(* leftmost split: nothing before the separator contains its first character *)
Lemma split_once_first p pt l r :
  Forall (fun c => c <> p) l -> split_once (p :: pt) (l ++ (p :: pt) ++ r) = Some (l, r).
Proof.
  induction 1 as [|c l Hc _ IH].
  - cbn [app]. change (p :: pt ++ r) with ((p :: pt) ++ r).
    destruct ((p :: pt) ++ r) eqn:E; cbn [split_once]; rewrite <- E, strip_prefix_app; reflexivity.
  - cbn [app split_once]. rewrite strip_prefix_head_ne by congruence.
    cbn [app] in IH. rewrite IH. reflexivity.
Qed.

Lemma rsplit_once_none p pt s : Forall (fun c => c <> p) s -> rsplit_once (p :: pt) s = None.
Proof.
  induction 1 as [|c s Hc _ IH]; [reflexivity|]. cbn [rsplit_once]. rewrite IH.
  rewrite strip_prefix_head_ne by congruence. reflexivity.
Qed.

Lemma rsplit_once_app_l pat l s a b : rsplit_once pat s = Some (a, b) -> rsplit_once pat (l ++ s) = Some (l ++ a, b).
Proof.
  intros H. induction l as [|c l IH]; [exact H|]. cbn [app rsplit_once]. rewrite IH. reflexivity.
Qed.

(* rightmost split: nothing after the separator's first character contains that character *)
Lemma rsplit_once_last p pt l r :
  Forall (fun c => c <> p) (pt ++ r) -> rsplit_once (p :: pt) (l ++ (p :: pt) ++ r) = Some (l, r).
Proof.
  intros H. rewrite <- (app_nil_r l) at 2. apply rsplit_once_app_l.
  cbn [app rsplit_once]. rewrite rsplit_once_none by exact H.
  change (p :: pt ++ r) with ((p :: pt) ++ r). rewrite strip_prefix_app. reflexivity.
Qed.

(* ========================================================================= *)
(* 4. hex                                                                    *)
(* ========================================================================= *)
Definition is_lower_hex (c : N) : Prop := 48 <= c <= 57 \/ 97 <= c <= 102.
Definition bytes_ok (h : list N) : Prop := Forall (fun b => b < 256) h.

Lemma hex_digit_lower d : d < 16 -> is_lower_hex (hex_digit d).
Proof. unfold is_lower_hex, hex_digit. intros H. destruct (d <? 10) eqn:E; lia. Qed.

Lemma hex_half_digit d : d < 16 -> hex_half_byte (hex_digit d) = Some d.
Proof.
  unfold hex_half_byte, hex_digit. intros H. destruct (d <? 10) eqn:E.
  - replace ((48 <=? 48 + d) && (48 + d <=? 57)) with true by lia. f_equal. lia.
  - replace ((48 <=? 87 + d) && (87 + d <=? 57)) with false by lia.
    replace ((97 <=? 87 + d) && (87 + d <=? 102)) with true by lia. f_equal. lia.
Qed.

Lemma hex_half_some c v : hex_half_byte c = Some v -> v < 16 /\ c = hex_digit v.
Proof.
  unfold hex_half_byte, hex_digit.
  destruct ((48 <=? c) && (c <=? 57)) eqn:E1.
  { intros H; inversion H; subst. replace (c - 48 <? 10) with true by lia. lia. }
  destruct ((97 <=? c) && (c <=? 102)) eqn:E2; [|discriminate].
  intros H; inversion H; subst. replace (c - 97 + 10 <? 10) with false by lia. lia.
Qed.

Lemma hex_of_bytes_lower h : bytes_ok h -> Forall is_lower_hex (hex_of_bytes h).
Proof.
  induction 1 as [|b h Hb _ IH]; [constructor|]. cbn [hex_of_bytes].
  constructor; [apply hex_digit_lower; lia|]. constructor; [apply hex_digit_lower; lia|]. exact IH.
Qed.

Lemma lower_hex_ascii c : is_lower_hex c -> utf8_len c = 1.
Proof. unfold is_lower_hex, utf8_len. intros H. replace (c <? 128) with true by lia. reflexivity. Qed.

Lemma utf8_len_pos c : 1 <= utf8_len c.
Proof. unfold utf8_len. destruct (c <? 128), (c <? 2048), (c <? 65536); lia. Qed.

Lemma str_len_app a b : str_len (a ++ b) = str_len a + str_len b.
Proof. induction a as [|c a IH]; cbn [app str_len]; [lia|]. rewrite IH. lia. Qed.

Lemma str_len_zero s : str_len s = 0 -> s = [].
Proof. destruct s as [|c s]; [reflexivity|]. cbn [str_len]. pose proof (utf8_len_pos c). lia. Qed.

Lemma str_len_ascii s : Forall (fun c => utf8_len c = 1) s -> str_len s = N.of_nat (length s).
Proof. induction 1 as [|c s Hc _ IH]; [reflexivity|]. cbn [str_len length]. rewrite Hc, IH. lia. Qed.

Lemma str_len_hex h : bytes_ok h -> str_len (hex_of_bytes h) = 2 * N.of_nat (length h).
Proof.
  induction 1 as [|b h Hb _ IH]; [reflexivity|]. cbn [hex_of_bytes str_len length].
  rewrite IH, !lower_hex_ascii by (apply hex_digit_lower; lia). lia.
Qed.

(* decoding what hex::encode printed *)
Lemma hex_loop_encode cfg h rest : bytes_ok h ->
  hex_loop cfg (length h) (hex_of_bytes h ++ rest) = Ok (inr h).
Proof.
  induction 1 as [|b h Hb _ IH]; [reflexivity|].
  cbn [length hex_of_bytes app hex_loop].
  rewrite !hex_half_digit by lia. rewrite IH. do 3 f_equal. lia.
Qed.

(* conversely: whatever the loop accepts is the hex encoding of its result *)
Lemma hex_loop_ok cfg : forall n s h, hex_loop cfg n s = Ok (inr h) ->
  length h = n /\ bytes_ok h /\ exists rest, s = hex_of_bytes h ++ rest.
Proof.
  induction n as [|n IH]; intros s h H; cbn [hex_loop] in H.
  { inversion H; subst. repeat split; [constructor|exists s; reflexivity]. }
  destruct s as [|hi [|lo t]].
  - unfold unwrap_none in H. destruct (hex_unwrap_is_error cfg); discriminate.
  - unfold unwrap_none in H. destruct (hex_unwrap_is_error cfg); discriminate.
  - destruct (hex_half_byte hi) as [a|] eqn:Ea; [|discriminate].
    destruct (hex_half_byte lo) as [b|] eqn:Eb; [|discriminate].
    destruct (hex_loop cfg n t) as [[e|bs]| |] eqn:El; try discriminate.
    inversion H; subst. apply IH in El as (L & B & rest & ->).
    apply hex_half_some in Ea as [Ha ->]. apply hex_half_some in Eb as [Hb ->].
    repeat split.
    + cbn [length]. congruence.
    + constructor; [lia|exact B].
    + exists rest. cbn [hex_of_bytes app]. f_equal; [f_equal; lia|]. f_equal. f_equal. lia.
Qed.

Lemma hex_loop_total cfg : hex_unwrap_is_error cfg = true ->
  forall n s, exists r, hex_loop cfg n s = Ok r.
Proof.
  intros Hc. induction n as [|n IH]; intros s; cbn [hex_loop]; [eauto|].
  unfold unwrap_none. rewrite Hc.
  destruct s as [|hi [|lo t]]; eauto.
  destruct (hex_half_byte hi); eauto. destruct (hex_half_byte lo); eauto.
  destruct (IH t) as [[e|bs] ->]; eauto.
Qed.

(* ========================================================================= *)
(* 5. print -> parse                                                         *)
(* ========================================================================= *)
Definition crlf_term (t : list N) : Prop := Forall (fun c => is_crlf c = true) t.

(* what --check must make of the line printed for the OS path `b` with digest `h` *)
Definition expected (b h : list N) : presult :=
  let s := utf8_lossy b in
  match s with
  | [] => PErr EEmptyPath
  | _ => match check_for_invalid_characters s with
         | Some e => PErr e
         | None => POk s h (snd (filepath_to_string b)) (fst (filepath_to_string b))
         end
  end.

Lemma fts_cases b :
  let s := utf8_lossy b in
  (filepath_to_string b = (flat_map esc1 s, true)) \/
  (filepath_to_string b = (s, false) /\ existsb needs_escape s = false).
Proof.
  unfold filepath_to_string. cbv zeta. destruct (existsb needs_escape (utf8_lossy b)) eqn:E.
  - left. rewrite escape_path_eq. reflexivity.
  - right. split; reflexivity.
Qed.

Lemma fts_nocrlf b : Forall nocrlf (fst (filepath_to_string b)).
Proof.
  destruct (fts_cases b) as [-> | [-> H]]; cbn [fst].
  - apply escape_nocrlf.
  - apply no_escape_nocrlf. exact H.
Qed.

Lemma parse_fields_printed cfg b h : bytes_ok h -> length h = 32%nat ->
  parse_fields cfg (snd (filepath_to_string b)) (hex_of_bytes h) (fst (filepath_to_string b)) = Ok (expected b h).
Proof.
  intros B L. unfold parse_fields. rewrite str_len_hex by exact B. rewrite L.
  change (negb (2 * N.of_nat 32 =? 64)) with false. cbv iota.
  rewrite <- L. rewrite <- (app_nil_r (hex_of_bytes h)). rewrite hex_loop_encode by exact B.
  unfold expected. cbv zeta.
  destruct (fts_cases b) as [-> | [-> H]]; cbn [fst snd].
  - rewrite unescape_escape. destruct (utf8_lossy b); [reflexivity|].
    destruct (check_for_invalid_characters _); reflexivity.
  - destruct (utf8_lossy b); [reflexivity|].
    destruct (check_for_invalid_characters _); reflexivity.
Qed.

Lemma lower_hex_facts c : is_lower_hex c -> nocrlf c /\ c <> 32 /\ c <> 41 /\ c <> 66 /\ c <> BSL.
Proof. unfold is_lower_hex, nocrlf, is_crlf, BSL, CR, LF. intros H. repeat split; lia. Qed.

Lemma Forall_lower_hex (P : N -> Prop) s : (forall c, is_lower_hex c -> P c) -> Forall is_lower_hex s -> Forall P s.
Proof. intros HP H. eapply Forall_impl; [|exact H]. exact HP. Qed.

(* the two fields of a printed line are found again *)
Lemma split_printed_plain cfg fs hexs c t : hexs = c :: t -> Forall is_lower_hex hexs ->
  split_check_line cfg (hexs ++ PLAIN_SEP ++ fs) = Some (hexs, fs).
Proof.
  intros E HX.
  assert (T : split_tagged_check_line (hexs ++ PLAIN_SEP ++ fs) = None).
  { unfold split_tagged_check_line, TAG_PREFIX. rewrite E. cbn [app].
    rewrite strip_prefix_head_ne; [reflexivity|].
    rewrite E in HX. inversion HX; subst. apply lower_hex_facts in H1. intros X; symmetry in X. tauto. }
  assert (U : split_untagged_check_line (hexs ++ PLAIN_SEP ++ fs) = Some (hexs, fs)).
  { unfold split_untagged_check_line, PLAIN_SEP. apply split_once_first.
    apply Forall_lower_hex with (2 := HX). intros x Hx. apply lower_hex_facts in Hx. tauto. }
  unfold split_check_line. rewrite T, U. destruct (tagged_first cfg); reflexivity.
Qed.

Lemma split_printed_tag cfg fs hexs : tagged_first cfg = true -> Forall is_lower_hex hexs ->
  split_check_line cfg (TAG_PREFIX ++ fs ++ TAG_SEP ++ hexs) = Some (hexs, fs).
Proof.
  intros C HX. unfold split_check_line. rewrite C. unfold split_tagged_check_line.
  rewrite strip_prefix_app. unfold TAG_SEP. rewrite rsplit_once_last; [reflexivity|].
  cbn [app]. repeat (constructor; [lia|]).
  apply Forall_lower_hex with (2 := HX). intros x Hx. apply lower_hex_facts in Hx. tauto.
Qed.

Lemma consts_nocrlf : Forall nocrlf TAG_PREFIX /\ Forall nocrlf TAG_SEP /\ Forall nocrlf PLAIN_SEP /\ Forall nocrlf [BSL].
Proof. unfold nocrlf. repeat split; repeat constructor. Qed.

Theorem parse_printed cfg tag b h term :
  (tag = true -> tagged_first cfg = true) -> bytes_ok h -> length h = 32%nat -> crlf_term term ->
  parse_check_line cfg (print_body tag b (hex_of_bytes h) ++ term) = Ok (expected b h).
Proof.
  intros C B L T.
  pose proof (hex_of_bytes_lower h B) as HX.
  assert (HD : exists c t, hex_of_bytes h = c :: t).
  { destruct h as [|b0 h']; [discriminate|]. cbn [hex_of_bytes]. eauto. }
  destruct HD as (hc & ht & EH).
  pose proof (parse_fields_printed cfg b h B L) as PF.
  pose proof (fts_nocrlf b) as FN.
  unfold print_body.
  destruct (filepath_to_string b) as [fs esc] eqn:F. cbn [fst snd] in *.
  destruct consts_nocrlf as (N1 & N2 & N3 & N4).
  assert (HXN : Forall nocrlf (hex_of_bytes h)).
  { apply Forall_lower_hex with (2 := HX). intros x Hx. apply lower_hex_facts in Hx. tauto. }
  set (X := if tag then TAG_PREFIX ++ fs ++ TAG_SEP ++ hex_of_bytes h else hex_of_bytes h ++ PLAIN_SEP ++ fs).
  assert (XN : Forall nocrlf X).
  { unfold X. destruct tag; repeat (apply Forall_app; split); assumption. }
  assert (XS : split_check_line cfg X = Some (hex_of_bytes h, fs)).
  { unfold X. destruct tag.
    - apply split_printed_tag; auto.
    - eapply split_printed_plain; eauto. }
  assert (XH : exists c t, X = c :: t /\ c <> BSL).
  { unfold X. destruct tag.
    - unfold TAG_PREFIX. cbn [app]. eexists _, _. split; [reflexivity|]. unfold BSL. lia.
    - rewrite EH. cbn [app]. eexists _, _. split; [reflexivity|].
      rewrite EH in HX. inversion HX; subst. apply lower_hex_facts in H1. tauto. }
  unfold parse_check_line.
  rewrite trim_end_line; [|destruct esc; [apply Forall_app; split|]; assumption|exact T].
  destruct esc.
  - cbn [app]. rewrite N.eqb_refl. rewrite XS. exact PF.
  - cbn [app]. destruct XH as (c & t & EX & NB). rewrite EX.
    replace (c =? BSL) with false by (unfold BSL in *; lia).
    rewrite <- EX. rewrite XS. exact PF.
Qed.

Lemma std_terms : crlf_term [] /\ crlf_term [LF] /\ crlf_term [CR; LF].
Proof. unfold crlf_term. repeat split; repeat constructor. Qed.

(* a path that b3sum promises to be able to check: valid Unicode, non-empty, no NUL, no U+FFFD *)
Definition good_path (p : list N) : Prop :=
  p <> [] /\ forallb valid_scalar p = true /\ existsb (N.eqb NUL) p = false /\ existsb (N.eqb REPL) p = false.

Lemma expected_good p h : good_path p ->
  expected (utf8_encode p) h =
  POk p h (snd (filepath_to_string (utf8_encode p))) (fst (filepath_to_string (utf8_encode p))).
Proof.
  intros (NE & V & N0 & NR). unfold expected. cbv zeta. rewrite (lossy_encode p V).
  destruct p; [congruence|]. unfold check_for_invalid_characters. rewrite N0, NR. reflexivity.
Qed.

Theorem roundtrip_any cfg tag p h term :
  (tag = true -> tagged_first cfg = true) -> good_path p -> bytes_ok h -> length h = 32%nat -> crlf_term term ->
  parse_check_line cfg (print_body tag (utf8_encode p) (hex_of_bytes h) ++ term) =
  Ok (POk p h (snd (filepath_to_string (utf8_encode p))) (fst (filepath_to_string (utf8_encode p)))).
Proof. intros C G B L T. rewrite parse_printed by assumption. rewrite expected_good by exact G. reflexivity. Qed.

(* plain form: holds for the code as it is and for the repaired code *)
Theorem roundtrip_plain_any cfg p h term :
  good_path p -> bytes_ok h -> length h = 32%nat -> crlf_term term ->
  parse_check_line cfg (print_body false (utf8_encode p) (hex_of_bytes h) ++ term) =
  Ok (POk p h (snd (filepath_to_string (utf8_encode p))) (fst (filepath_to_string (utf8_encode p)))).
Proof. apply roundtrip_any. discriminate. Qed.

Theorem roundtrip_tag_fixed cfg p h term : tagged_first cfg = true ->
  good_path p -> bytes_ok h -> length h = 32%nat -> crlf_term term ->
  parse_check_line cfg (print_body true (utf8_encode p) (hex_of_bytes h) ++ term) =
  Ok (POk p h (snd (filepath_to_string (utf8_encode p))) (fst (filepath_to_string (utf8_encode p)))).
Proof. intros C. apply roundtrip_any. auto. Qed.

(* paths that cannot be represented are rejected at check time *)
Theorem unrepresentable_rejected cfg tag b h term :
  (tag = true -> tagged_first cfg = true) -> bytes_ok h -> length h = 32%nat -> crlf_term term ->
  (utf8_lossy b = [] \/ existsb (N.eqb NUL) (utf8_lossy b) = true \/ existsb (N.eqb REPL) (utf8_lossy b) = true) ->
  exists e, parse_check_line cfg (print_body tag b (hex_of_bytes h) ++ term) = Ok (PErr e).
Proof.
  intros C B L T H. rewrite parse_printed by assumption. unfold expected. cbv zeta.
  destruct (utf8_lossy b) as [|c s] eqn:E; [eauto|].
  unfold check_for_invalid_characters.
  destruct H as [H|[H|H]]; [discriminate| |]; rewrite H; [eauto|].
  destruct (existsb (N.eqb NUL) (c :: s)); eauto.
Qed.

(* invalid UTF-8 always decodes to a string with U+FFFD, hence is rejected *)
Lemma expected_ok_inv b h p x e f : expected b h = POk p x e f ->
  p = utf8_lossy b /\ x = h /\ no_repl (utf8_lossy b) /\ existsb (N.eqb NUL) p = false /\ p <> [].
Proof.
  unfold expected. cbv zeta. destruct (utf8_lossy b) as [|c s] eqn:E; [discriminate|].
  unfold check_for_invalid_characters.
  destruct (existsb (N.eqb NUL) (c :: s)) eqn:E0; [discriminate|].
  destruct (existsb (N.eqb REPL) (c :: s)) eqn:E1; [discriminate|].
  intros H; inversion H; subst. repeat split; auto. discriminate.
Qed.

(* no two different OS paths ever yield lines that parse to the same path *)
Theorem print_injective_on_parse_fixed cfg tag1 tag2 b1 b2 h1 h2 t1 t2 p x1 x2 e1 e2 f1 f2 :
  tagged_first cfg = true ->
  bytes_ok h1 -> length h1 = 32%nat -> crlf_term t1 -> bytes_ok h2 -> length h2 = 32%nat -> crlf_term t2 ->
  parse_check_line cfg (print_body tag1 b1 (hex_of_bytes h1) ++ t1) = Ok (POk p x1 e1 f1) ->
  parse_check_line cfg (print_body tag2 b2 (hex_of_bytes h2) ++ t2) = Ok (POk p x2 e2 f2) ->
  b1 = b2.
Proof.
  intros C B1 L1 T1 B2 L2 T2 P1 P2.
  rewrite parse_printed in P1 by auto. rewrite parse_printed in P2 by auto.
  inversion P1 as [Q1]. inversion P2 as [Q2].
  apply expected_ok_inv in Q1 as (E1 & _ & R1 & _). apply expected_ok_inv in Q2 as (E2 & _ & _).
  apply lossy_injective; [congruence|exact R1].
Qed.

(* ========================================================================= *)
(* 6. arbitrary lines                                                        *)
(* ========================================================================= *)
Theorem parse_total_fixed cfg line : hex_unwrap_is_error cfg = true ->
  exists r, parse_check_line cfg line = Ok r.
Proof.
  intros Hc. unfold parse_check_line. cbv zeta.
  destruct (trim_end line) as [|first rest]; [eauto|].
  destruct (split_check_line cfg _) as [[hh f]|]; [|eauto].
  unfold parse_fields. destruct (negb (str_len hh =? 64)); [eauto|].
  destruct (hex_loop_total cfg Hc 32 hh) as [[e|hs] ->]; [eauto|].
  destruct (if first =? BSL then unescape f else Some f) as [p|]; [|eauto].
  destruct p; [eauto|]. destruct (check_for_invalid_characters _); eauto.
Qed.

Lemma hex_loop_err cfg : forall n s e, hex_loop cfg n s = Ok (inl e) -> e = EHex.
Proof.
  induction n as [|n IH]; intros s e H; cbn [hex_loop] in H; [discriminate|].
  unfold unwrap_none in H.
  destruct s as [|hi [|lo t]]; try (destruct (hex_unwrap_is_error cfg); congruence).
  destruct (hex_half_byte hi); [|congruence]. destruct (hex_half_byte lo); [|congruence].
  destruct (hex_loop cfg n t) as [[e'|bs]| |] eqn:El; try discriminate.
  inversion H; subst. eauto.
Qed.

(* a hash field accepted by the length test and the loop is exactly 64 lowercase hex digits *)
Lemma hash_field_ok cfg hh h : str_len hh = 64 -> hex_loop cfg 32 hh = Ok (inr h) ->
  hh = hex_of_bytes h /\ length h = 32%nat /\ bytes_ok h /\ Forall is_lower_hex hh.
Proof.
  intros SL H. apply hex_loop_ok in H as (L & B & rest & ->).
  rewrite str_len_app, str_len_hex, L in SL by exact B.
  assert (rest = []) by (apply str_len_zero; lia). subst. rewrite app_nil_r.
  repeat split; auto. apply hex_of_bytes_lower. exact B.
Qed.

Definition esc_prefix (e : bool) : list N := if e then [BSL] else [].

Lemma split_check_line_spec cfg las hh f : split_check_line cfg las = Some (hh, f) ->
  las = hh ++ PLAIN_SEP ++ f \/ las = TAG_PREFIX ++ f ++ TAG_SEP ++ hh.
Proof.
  assert (U : forall hh f, split_untagged_check_line las = Some (hh, f) -> las = hh ++ PLAIN_SEP ++ f).
  { intros a b. apply split_once_spec. }
  assert (T : forall hh f, split_tagged_check_line las = Some (hh, f) -> las = TAG_PREFIX ++ f ++ TAG_SEP ++ hh).
  { intros a b. unfold split_tagged_check_line.
    destruct (strip_prefix TAG_PREFIX las) as [r|] eqn:E; [|discriminate].
    destruct (rsplit_once TAG_SEP r) as [[x y]|] eqn:E2; [|discriminate].
    intros H; inversion H; subst. apply strip_prefix_spec in E. apply rsplit_once_spec in E2. congruence. }
  unfold split_check_line, orelse.
  destruct (tagged_first cfg).
  - destruct (split_tagged_check_line las) as [[a b]|] eqn:E.
    + intros H; inversion H; subst. right. auto.
    + intros H. left. auto.
  - destruct (split_untagged_check_line las) as [[a b]|] eqn:E.
    + intros H; inversion H; subst. left. auto.
    + intros H. right. auto.
Qed.

(* success implies: the hash field is the 64 lowercase hex digits of the returned hash, present in
   the line in one of the two layouts, and the path is the documented unescaping of the path field *)
Theorem parse_ok_shape cfg line p h e f : parse_check_line cfg line = Ok (POk p h e f) ->
  length h = 32%nat /\ bytes_ok h /\ Forall is_lower_hex (hex_of_bytes h) /\
  (trim_end line = esc_prefix e ++ hex_of_bytes h ++ PLAIN_SEP ++ f \/
   trim_end line = esc_prefix e ++ TAG_PREFIX ++ f ++ TAG_SEP ++ hex_of_bytes h) /\
  (if e then unescape f = Some p else f = p) /\
  p <> [] /\ existsb (N.eqb NUL) p = false /\ existsb (N.eqb REPL) p = false.
Proof.
  unfold parse_check_line. cbv zeta.
  destruct (trim_end line) as [|first rest] eqn:ET; [discriminate|].
  destruct (split_check_line cfg _) as [[hh fs]|] eqn:ES; [|discriminate].
  unfold parse_fields. destruct (str_len hh =? 64) eqn:SL; [|discriminate]. cbn [negb].
  destruct (hex_loop cfg 32 hh) as [[er|hs]| |] eqn:EL; try discriminate.
  destruct (if first =? BSL then unescape fs else Some fs) as [q|] eqn:EU; [|discriminate].
  destruct q as [|q0 q]; [discriminate|].
  unfold check_for_invalid_characters.
  destruct (existsb (N.eqb NUL) (q0 :: q)) eqn:E0; [discriminate|].
  destruct (existsb (N.eqb REPL) (q0 :: q)) eqn:E1; [discriminate|].
  intros H; inversion H; subst. clear H.
  apply N.eqb_eq in SL. destruct (hash_field_ok cfg hh h SL EL) as (-> & L & B & LH).
  apply split_check_line_spec in ES.
  repeat split; auto.
  - destruct (N.eqb_spec first BSL) as [->|NE]; cbn [esc_prefix app]; destruct ES as [-> | ->]; auto.
  - destruct (first =? BSL); [exact EU|congruence].
  - discriminate.
Qed.

(* --- the documented error classes ---------------------------------------- *)
Lemma parse_line_empty cfg line : trim_end line = [] -> parse_check_line cfg line = Ok (PErr EEmptyLine).
Proof. unfold parse_check_line. intros ->. reflexivity. Qed.

Lemma parse_empty cfg : parse_check_line cfg [] = Ok (PErr EEmptyLine) /\
  parse_check_line cfg [LF] = Ok (PErr EEmptyLine) /\ parse_check_line cfg [CR; LF] = Ok (PErr EEmptyLine).
Proof. repeat split. Qed.

Definition las_of (line : list N) : bool * list N :=
  match trim_end line with
  | [] => (false, [])
  | first :: rest => if first =? BSL then (true, rest) else (false, first :: rest)
  end.

Lemma parse_line_fields cfg line : trim_end line <> [] ->
  parse_check_line cfg line =
  match split_check_line cfg (snd (las_of line)) with
  | None => Ok (PErr EFormat)
  | Some (hh, f) => parse_fields cfg (fst (las_of line)) hh f
  end.
Proof.
  unfold parse_check_line, las_of. cbv zeta. destruct (trim_end line) as [|first rest]; [congruence|].
  intros _. destruct (first =? BSL); reflexivity.
Qed.

Lemma fields_bad_length cfg e hh f : str_len hh <> 64 -> parse_fields cfg e hh f = Ok (PErr EHashLength).
Proof. intros H. unfold parse_fields. replace (str_len hh =? 64) with false by lia. reflexivity. Qed.

(* 64 bytes but not 64 lowercase hex digits (upper case, other characters, anything non-ASCII) *)
Lemma fields_bad_hex cfg e hh f : hex_unwrap_is_error cfg = true ->
  str_len hh = 64 -> ~ Forall is_lower_hex hh -> parse_fields cfg e hh f = Ok (PErr EHex).
Proof.
  intros Hc SL NH. unfold parse_fields. replace (str_len hh =? 64) with true by lia. cbn [negb].
  destruct (hex_loop_total cfg Hc 32 hh) as [[er|hs] EL]; rewrite EL.
  - apply hex_loop_err in EL. subst. reflexivity.
  - exfalso. apply NH. eapply hash_field_ok; eauto.
Qed.

Lemma non_ascii_not_hex hh c : In c hh -> 128 <= c -> ~ Forall is_lower_hex hh.
Proof. intros I G F. rewrite Forall_forall in F. apply F in I. unfold is_lower_hex in I. lia. Qed.

Lemma fields_good_hash cfg e h f : bytes_ok h -> length h = 32%nat ->
  parse_fields cfg e (hex_of_bytes h) f =
  match (if e then unescape f else Some f) with
  | None => Ok (PErr EEscape)
  | Some [] => Ok (PErr EEmptyPath)
  | Some p => match check_for_invalid_characters p with
              | Some er => Ok (PErr er)
              | None => Ok (POk p h e f)
              end
  end.
Proof.
  intros B L. unfold parse_fields. rewrite str_len_hex by exact B. rewrite L.
  change (negb (2 * N.of_nat 32 =? 64)) with false. cbv iota.
  rewrite <- L. rewrite <- (app_nil_r (hex_of_bytes h)). rewrite hex_loop_encode by exact B. reflexivity.
Qed.

Lemma invalid_nul p : existsb (N.eqb NUL) p = true -> check_for_invalid_characters p = Some ENul.
Proof. unfold check_for_invalid_characters. intros ->. reflexivity. Qed.

Lemma invalid_repl p : existsb (N.eqb NUL) p = false -> existsb (N.eqb REPL) p = true ->
  check_for_invalid_characters p = Some EReplacement.
Proof. unfold check_for_invalid_characters. intros -> ->. reflexivity. Qed.

(* unescaping: a prefix that unescapes leaves the rest to be unescaped on its own *)
Lemma unescape_app_aux : forall n s p t, (length s <= n)%nat -> unescape s = Some p ->
  unescape (s ++ t) = option_map (app p) (unescape t).
Proof.
  induction n as [|n IH]; intros s p t Hl H.
  { destruct s; [|cbn in Hl; lia]. inversion H; subst. cbn [app]. destruct (unescape t); reflexivity. }
  destruct s as [|c s]. { inversion H; subst. cbn [app]. destruct (unescape t); reflexivity. }
  cbn [app unescape] in *. cbn [length] in Hl.
  destruct (c =? BSL).
  - destruct s as [|d s]; [discriminate|]. cbn [app length] in *.
    destruct (d =? 110); [|destruct (d =? 114); [|destruct (d =? BSL); [|discriminate]]];
      (destruct (unescape s) as [q|] eqn:E; [|discriminate]; inversion H; subst;
       rewrite (IH s q t) by (auto; lia); destruct (unescape t); reflexivity).
  - destruct (unescape s) as [q|] eqn:E; [|discriminate]. inversion H; subst.
    rewrite (IH s q t) by (auto; lia). destruct (unescape t); reflexivity.
Qed.

Lemma unescape_app s p t : unescape s = Some p -> unescape (s ++ t) = option_map (app p) (unescape t).
Proof. apply (unescape_app_aux (length s)). lia. Qed.

Lemma unescape_dangling s p : unescape s = Some p -> unescape (s ++ [BSL]) = None.
Proof. intros H. rewrite (unescape_app s p) by exact H. reflexivity. Qed.

Lemma unescape_invalid s p c t : unescape s = Some p -> c <> 110 -> c <> 114 -> c <> BSL ->
  unescape (s ++ BSL :: c :: t) = None.
Proof.
  intros H N1 N2 N3. rewrite (unescape_app s p) by exact H. cbn [unescape]. rewrite N.eqb_refl.
  replace (c =? 110) with false by lia. replace (c =? 114) with false by lia.
  replace (c =? BSL) with false by (unfold BSL in *; lia). reflexivity.
Qed.

Theorem parse_errors cfg : hex_unwrap_is_error cfg = true ->
  (* empty line (also a bare LF or CRLF) *)
  (forall line, trim_end line = [] -> parse_check_line cfg line = Ok (PErr EEmptyLine)) /\
  (* neither layout *)
  (forall line, trim_end line <> [] -> split_check_line cfg (snd (las_of line)) = None ->
                parse_check_line cfg line = Ok (PErr EFormat)) /\
  (* for a line with fields (hh, f) and escape flag e: *)
  (forall line hh f, trim_end line <> [] -> split_check_line cfg (snd (las_of line)) = Some (hh, f) ->
     let e := fst (las_of line) in
     (str_len hh <> 64 -> parse_check_line cfg line = Ok (PErr EHashLength)) /\
     (str_len hh = 64 -> ~ Forall is_lower_hex hh -> parse_check_line cfg line = Ok (PErr EHex)) /\
     (forall c, str_len hh = 64 -> In c hh -> 128 <= c -> parse_check_line cfg line = Ok (PErr EHex)) /\
     (forall h, hh = hex_of_bytes h -> bytes_ok h -> length h = 32%nat ->
        (e = true -> unescape f = None -> parse_check_line cfg line = Ok (PErr EEscape)) /\
        (forall p, (if e then unescape f else Some f) = Some p ->
           (p = [] -> parse_check_line cfg line = Ok (PErr EEmptyPath)) /\
           (existsb (N.eqb NUL) p = true -> parse_check_line cfg line = Ok (PErr ENul)) /\
           (existsb (N.eqb NUL) p = false -> existsb (N.eqb REPL) p = true ->
              parse_check_line cfg line = Ok (PErr EReplacement))))).
Proof.
  intros Hc. split; [apply parse_line_empty|]. split.
  { intros line NE S. rewrite parse_line_fields by exact NE. rewrite S. reflexivity. }
  intros line hh f NE S e. rewrite parse_line_fields by exact NE. rewrite S. fold e.
  split; [apply fields_bad_length|]. split; [apply fields_bad_hex; exact Hc|]. split.
  { intros c SL I G. apply fields_bad_hex; auto. eapply non_ascii_not_hex; eauto. }
  intros h -> B L. rewrite fields_good_hash by assumption. split.
  { intros -> ->. reflexivity. }
  intros p ->. split; [intros ->; reflexivity|]. split.
  - intros H. destruct p; [discriminate|]. rewrite invalid_nul by exact H. reflexivity.
  - intros H0 H1. destruct p; [discriminate|]. rewrite invalid_repl by assumption. reflexivity.
Qed.

(* ========================================================================= *)
(* 6b. the unchanged code on its own output: never a wrong answer            *)
(* ========================================================================= *)
(* A --tag line split by the untagged rule has a hash field that starts with "BL": an error,
   not a panic, and never a success with some other path. *)
Lemma split_once_cons_ne p pt c s : p <> c ->
  split_once (p :: pt) (c :: s) =
  match split_once (p :: pt) s with Some (l, r) => Some (c :: l, r) | None => None end.
Proof.
  intros H. change (split_once (p :: pt) (c :: s)) with
    (match strip_prefix (p :: pt) (c :: s) with
     | Some r => Some ([], r)
     | None => match split_once (p :: pt) s with Some (l, r) => Some (c :: l, r) | None => None end
     end).
  rewrite strip_prefix_head_ne by exact H. reflexivity.
Qed.

Lemma split_untagged_tagged_line rest hh f :
  split_untagged_check_line (TAG_PREFIX ++ rest) = Some (hh, f) -> exists t, hh = 66 :: 76 :: t.
Proof.
  unfold split_untagged_check_line, TAG_PREFIX, PLAIN_SEP. cbn [app].
  rewrite (split_once_cons_ne 32 [32] 66) by lia. rewrite (split_once_cons_ne 32 [32] 76) by lia.
  destruct (split_once [32; 32] _) as [[l r]|]; [|discriminate].
  intros H; inversion H; subst. eauto.
Qed.

Lemma fields_BL_error cfg e t f : exists er, parse_fields cfg e (66 :: 76 :: t) f = Ok (PErr er).
Proof.
  unfold parse_fields. destruct (negb (str_len (66 :: 76 :: t) =? 64)); [eauto|].
  cbn [hex_loop]. change (hex_half_byte 66) with (@None N). eauto.
Qed.

Theorem parse_printed_any_cfg cfg tag b h term :
  bytes_ok h -> length h = 32%nat -> crlf_term term ->
  parse_check_line cfg (print_body tag b (hex_of_bytes h) ++ term) = Ok (expected b h) \/
  exists er, parse_check_line cfg (print_body tag b (hex_of_bytes h) ++ term) = Ok (PErr er).
Proof.
  intros B L T.
  destruct (tagged_first cfg) eqn:C; [left; apply parse_printed; auto|].
  destruct tag; [|left; apply parse_printed; auto; discriminate].
  (* tagged line, untagged rule first *)
  pose proof (hex_of_bytes_lower h B) as HX.
  pose proof (parse_fields_printed cfg b h B L) as PF.
  pose proof (fts_nocrlf b) as FN.
  unfold print_body.
  destruct (filepath_to_string b) as [fs esc] eqn:F. cbn [fst snd] in *.
  destruct consts_nocrlf as (N1 & N2 & N3 & N4).
  assert (HXN : Forall nocrlf (hex_of_bytes h)).
  { apply Forall_lower_hex with (2 := HX). intros x Hx. apply lower_hex_facts in Hx. tauto. }
  set (X := TAG_PREFIX ++ fs ++ TAG_SEP ++ hex_of_bytes h).
  assert (XN : Forall nocrlf X) by (unfold X; repeat (apply Forall_app; split); assumption).
  assert (XT : split_tagged_check_line X = Some (hex_of_bytes h, fs)).
  { unfold split_tagged_check_line, X. rewrite strip_prefix_app.
    unfold TAG_SEP. rewrite rsplit_once_last; [reflexivity|].
    cbn [app]. repeat (constructor; [lia|]).
    apply Forall_lower_hex with (2 := HX). intros x Hx. apply lower_hex_facts in Hx. tauto. }
  assert (P : forall e : bool, parse_check_line cfg ((if e then [BSL] else []) ++ X ++ term) =
                        match split_check_line cfg X with
                        | None => Ok (PErr EFormat)
                        | Some (hh, f) => parse_fields cfg e hh f
                        end).
  { intros e. unfold parse_check_line. rewrite app_assoc.
    rewrite trim_end_line; [|destruct e; [apply Forall_app; split|]; assumption|exact T].
    destruct e; cbn [app].
    - rewrite N.eqb_refl. reflexivity.
    - unfold X at 1 2. unfold TAG_PREFIX at 1 2. cbn [app]. change (66 =? BSL) with false.
      reflexivity. }
  rewrite <- app_assoc. rewrite P.
  unfold split_check_line. rewrite C. unfold orelse.
  destruct (split_untagged_check_line X) as [[hh f]|] eqn:U.
  - right. apply split_untagged_tagged_line in U as [t ->]. apply fields_BL_error.
  - left. rewrite XT. exact PF.
Qed.

(* hence, for the unchanged code too: no two different OS paths yield lines that parse to the same path *)
Theorem print_injective_on_parse_any cfg tag1 tag2 b1 b2 h1 h2 t1 t2 p x1 x2 e1 e2 f1 f2 :
  bytes_ok h1 -> length h1 = 32%nat -> crlf_term t1 -> bytes_ok h2 -> length h2 = 32%nat -> crlf_term t2 ->
  parse_check_line cfg (print_body tag1 b1 (hex_of_bytes h1) ++ t1) = Ok (POk p x1 e1 f1) ->
  parse_check_line cfg (print_body tag2 b2 (hex_of_bytes h2) ++ t2) = Ok (POk p x2 e2 f2) ->
  b1 = b2 /\ x1 = h1 /\ x2 = h2.
Proof.
  intros B1 L1 T1 B2 L2 T2 P1 P2.
  destruct (parse_printed_any_cfg cfg tag1 b1 h1 t1 B1 L1 T1) as [Q1|[er Q1]]; rewrite Q1 in P1; [|discriminate].
  destruct (parse_printed_any_cfg cfg tag2 b2 h2 t2 B2 L2 T2) as [Q2|[er Q2]]; rewrite Q2 in P2; [|discriminate].
  inversion P1 as [R1]. inversion P2 as [R2].
  apply expected_ok_inv in R1 as (E1 & X1 & N1 & _). apply expected_ok_inv in R2 as (E2 & X2 & _).
  split; [|split; assumption]. apply lossy_injective; [congruence|exact N1].
Qed.

(* ========================================================================= *)
(* 7. the statements of C13 in the form pinned by Props/C13.v                *)
(* ========================================================================= *)
(* the three terminators: none, LF, CRLF *)
Definition terminators : list (list N) := [[]; [LF]; [CR; LF]].

Lemma terminators_crlf t : In t terminators -> crlf_term t.
Proof.
  destruct std_terms as (T0 & T1 & T2).
  intros [<-|[<-|[<-|[]]]]; assumption.
Qed.

Lemma print_line_body tag b hexs : print_line tag b hexs = print_body tag b hexs ++ [LF].
Proof. reflexivity. Qed.

Theorem roundtrip_plain : forall cfg p h term,
  good_path p -> bytes_ok h -> length h = 32%nat -> In term terminators ->
  exists esc fstr,
    parse_check_line cfg (print_body false (utf8_encode p) (hex_of_bytes h) ++ term) = Ok (POk p h esc fstr).
Proof. intros. eexists _, _. apply roundtrip_plain_any; auto using terminators_crlf. Qed.

Theorem roundtrip_tag : forall p h term,
  good_path p -> bytes_ok h -> length h = 32%nat -> In term terminators ->
  exists esc fstr,
    parse_check_line fixed_cfg (print_body true (utf8_encode p) (hex_of_bytes h) ++ term) = Ok (POk p h esc fstr).
Proof. intros. eexists _, _. apply roundtrip_tag_fixed; auto using terminators_crlf. Qed.

Theorem print_injective_on_parse : forall cfg tag1 tag2 b1 b2 h1 h2 t1 t2 p x1 x2 e1 e2 f1 f2,
  bytes_ok h1 -> length h1 = 32%nat -> In t1 terminators ->
  bytes_ok h2 -> length h2 = 32%nat -> In t2 terminators ->
  parse_check_line cfg (print_body tag1 b1 (hex_of_bytes h1) ++ t1) = Ok (POk p x1 e1 f1) ->
  parse_check_line cfg (print_body tag2 b2 (hex_of_bytes h2) ++ t2) = Ok (POk p x2 e2 f2) ->
  b1 = b2 /\ x1 = h1 /\ x2 = h2.
Proof.
  intros. eapply (print_injective_on_parse_any cfg tag1 tag2 b1 b2 h1 h2 t1 t2);
    eauto using terminators_crlf.
Qed.

Theorem unrepresentable_path_rejected : forall tag b h term,
  bytes_ok h -> length h = 32%nat -> In term terminators ->
  (utf8_lossy b = [] \/ existsb (N.eqb NUL) (utf8_lossy b) = true \/ existsb (N.eqb REPL) (utf8_lossy b) = true) ->
  exists e, parse_check_line fixed_cfg (print_body tag b (hex_of_bytes h) ++ term) = Ok (PErr e).
Proof. intros. apply unrepresentable_rejected; auto using terminators_crlf. Qed.

(* a byte string that is not the UTF-8 encoding of its lossy decoding decodes to something with U+FFFD *)
Theorem lossy_invalid_has_fffd : forall b,
  utf8_encode (utf8_lossy b) <> b -> existsb (N.eqb REPL) (utf8_lossy b) = true.
Proof.
  intros b H. destruct (existsb (N.eqb REPL) (utf8_lossy b)) eqn:E; [reflexivity|].
  exfalso. apply H. apply encode_lossy. exact E.
Qed.

Theorem parse_total : forall line, exists r, parse_check_line fixed_cfg line = Ok r.
Proof. intros. apply parse_total_fixed. reflexivity. Qed.
