(* `&mut [u8]` output buffers for code translated statement by statement (gen/GenXof.v): a variable of type
   `&mut [u8]` that is written through and advanced from the front over a caller's buffer is the pair
     (the bytes of the buffer the slice has moved past, in order;  the bytes the slice covers now).
     buf.len()                          ms_len buf
     buf[off..][..n].copy_from_slice(s) ms_write buf off s        (after the bounds checks and `n = s.len()`)
     buf = &mut buf[a..]                ms_advance buf a          (after `a <= buf.len()`)
     the caller's buffer                ms_buffer buf             (what has been left behind ++ what is still covered)
     a fresh slice over a buffer b      ms_of b
     the bytes the slice covers         ms_win buf ;  ms_set_win buf t replaces them (a callee wrote through the slice) *)
From Coq Require Import NArith List.
From V Require Import Base.Arr.
Import ListNotations.
Open Scope N_scope.

Definition mslice : Type := (list N * list N)%type.

Definition ms_of (b : list N) : mslice := ([], b).
Definition ms_win (s : mslice) : list N := snd s.
Definition ms_len (s : mslice) : N := N.of_nat (length (snd s)).
Definition ms_write (s : mslice) (off : nat) (src : list N) : mslice := (fst s, arr_store (snd s) off src).
Definition ms_set_win (s : mslice) (w : list N) : mslice := (fst s, w).
Definition ms_advance (s : mslice) (a : nat) : mslice := (fst s ++ firstn a (snd s), skipn a (snd s)).
Definition ms_buffer (s : mslice) : list N := fst s ++ snd s.
