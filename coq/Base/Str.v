(* Rust `str` / `String` / `char` operations used by b3sum/src/main.rs, over strings as lists of
   Unicode scalar values (`list N`), with Rust's BYTE offsets: `len()`, `find`, and the range
   slices `&s[i..]` / `&s[..i]` count UTF-8 bytes, and a slice at an offset that is not a character
   boundary (or beyond the end) panics.  Plus the control monad of the statement translator
   tools/gen_coq_b3sumfns.py (early `return` / `bail!` / `?`). *)
From Coq Require Import NArith List Bool.
From V Require Import Base.Res.
Import ListNotations.
Open Scope N_scope.

(* ------------------------------------------------------------------------- *)
(* control: a statement either falls through with a value or returns from the function *)
(* ------------------------------------------------------------------------- *)
Definition ctl (R A : Type) : Type := res (R + A).
Definition cret {R A} (a : A) : ctl R A := Ok (inr a).
Definition creturn {R A} (r : R) : ctl R A := Ok (inl r).
Definition cbind {R A B} (m : ctl R A) (k : A -> ctl R B) : ctl R B :=
  match m with
  | Ok (inr a) => k a
  | Ok (inl r) => Ok (inl r)
  | Panic c => Panic c
  | OutOfFuel => OutOfFuel
  end.
(* a panicking operation / a call of another translated function *)
Definition clift {R A} (m : res A) : ctl R A :=
  match m with Ok a => Ok (inr a) | Panic c => Panic c | OutOfFuel => OutOfFuel end.
(* the `?` operator on an anyhow::Result (inl = the error message, inr = the value) *)
Definition ctry {E T A} (r : E + A) : ctl (E + T) A :=
  match r with inr v => Ok (inr v) | inl e => Ok (inl (inl e)) end.
(* end of the function body: the tail value is the result *)
Definition crun {R} (m : ctl R R) : res R :=
  match m with
  | Ok (inl r) => Ok r
  | Ok (inr r) => Ok r
  | Panic c => Panic c
  | OutOfFuel => OutOfFuel
  end.

Notation "x <~ m ;; k" := (cbind m (fun x => k))
  (at level 61, m at next level, right associativity) : res_scope.
Notation "' pat <~ m ;; k" := (cbind m (fun x => match x with pat => k end))
  (at level 61, pat pattern, m at next level, right associativity) : res_scope.

(* panic sites of the string operations (every build) *)
Definition PANIC_STR_SLICE : N := 40.    (* byte index is not a char boundary / out of range *)
Definition PANIC_UNWRAP_NONE : N := 41.  (* Option::unwrap on None *)

Definition s_unwrap {A} (o : option A) : res A :=
  match o with Some a => Ok a | None => Panic PANIC_UNWRAP_NONE end.

(* ------------------------------------------------------------------------- *)
(* characters and lengths                                                    *)
(* ------------------------------------------------------------------------- *)
(* char::len_utf8 *)
Definition s_utf8_len (c : N) : N :=
  if c <? 128 then 1 else if c <? 2048 then 2 else if c <? 65536 then 3 else 4.

(* str::len(): bytes *)
Fixpoint s_len (s : list N) : N :=
  match s with [] => 0 | c :: t => s_utf8_len c + s_len t end.

Definition s_is_empty (s : list N) : bool := match s with [] => true | _ => false end.

(* `c as u8` for a char: the low 8 bits of the scalar value *)
Definition s_char_as_u8 (c : N) : N := N.land c (N.ones 8).

(* str == str, [u8; N] == [u8; N] *)
Fixpoint s_eqb (a b : list N) : bool :=
  match a, b with
  | [], [] => true
  | x :: a', y :: b' => (x =? y) && s_eqb a' b'
  | _, _ => false
  end.

(* ------------------------------------------------------------------------- *)
(* slices at byte offsets                                                    *)
(* ------------------------------------------------------------------------- *)
(* &s[i..] *)
Fixpoint s_from_opt (s : list N) (i : N) {struct s} : option (list N) :=
  if i =? 0 then Some s
  else match s with
       | [] => None
       | c :: t => if i <? s_utf8_len c then None else s_from_opt t (i - s_utf8_len c)
       end.
(* &s[..i] *)
Fixpoint s_to_opt (s : list N) (i : N) {struct s} : option (list N) :=
  if i =? 0 then Some []
  else match s with
       | [] => None
       | c :: t => if i <? s_utf8_len c then None else option_map (cons c) (s_to_opt t (i - s_utf8_len c))
       end.
Definition s_slice_from (s : list N) (i : N) : res (list N) :=
  match s_from_opt s i with Some r => Ok r | None => Panic PANIC_STR_SLICE end.
Definition s_slice_to (s : list N) (i : N) : res (list N) :=
  match s_to_opt s i with Some r => Ok r | None => Panic PANIC_STR_SLICE end.

(* ------------------------------------------------------------------------- *)
(* searching                                                                 *)
(* ------------------------------------------------------------------------- *)
(* str::find(char): byte offset of the first occurrence *)
Fixpoint s_find_char (c : N) (s : list N) : option N :=
  match s with
  | [] => None
  | x :: t => if x =? c then Some 0 else option_map (N.add (s_utf8_len x)) (s_find_char c t)
  end.

(* str::contains(char) and str::contains([char; n]) *)
Definition s_contains_char (c : N) (s : list N) : bool := existsb (N.eqb c) s.
Definition s_contains_any (cs : list N) (s : list N) : bool :=
  existsb (fun x => existsb (N.eqb x) cs) s.

(* str::strip_prefix(&str) and str::starts_with(&str) *)
Fixpoint s_strip_prefix (pat s : list N) : option (list N) :=
  match pat, s with
  | [], _ => Some s
  | p :: pt, c :: t => if p =? c then s_strip_prefix pt t else None
  | _ :: _, [] => None
  end.
Definition s_starts_with (pat s : list N) : bool :=
  match s_strip_prefix pat s with Some _ => true | None => false end.

(* str::split_once(&str): around the LEFTMOST occurrence of a non-empty pattern *)
Fixpoint s_split_once (pat s : list N) : option (list N * list N) :=
  match s_strip_prefix pat s with
  | Some r => Some ([], r)
  | None => match s with
            | [] => None
            | c :: t => match s_split_once pat t with
                        | Some (l, r) => Some (c :: l, r)
                        | None => None
                        end
            end
  end.

(* str::rsplit_once(&str): around the RIGHTMOST occurrence of a non-empty pattern *)
Fixpoint s_rsplit_once (pat s : list N) : option (list N * list N) :=
  match s with
  | [] => None
  | c :: t => match s_rsplit_once pat t with
              | Some (l, r) => Some (c :: l, r)
              | None => match s_strip_prefix pat s with
                        | Some r => Some ([], r)
                        | None => None
                        end
              end
  end.

(* ------------------------------------------------------------------------- *)
(* rewriting                                                                 *)
(* ------------------------------------------------------------------------- *)
(* str::replace(char, &str) *)
Fixpoint s_replace_char (c : N) (r : list N) (s : list N) : list N :=
  match s with
  | [] => []
  | x :: t => if x =? c then r ++ s_replace_char c r t else x :: s_replace_char c r t
  end.

(* str::trim_end_matches([char; n]) *)
Fixpoint s_trim_end_matches (cs : list N) (s : list N) : list N :=
  match s with
  | [] => []
  | c :: t => match s_trim_end_matches cs t with
              | [] => if existsb (N.eqb c) cs then [] else [c]
              | t' => c :: t'
              end
  end.

(* Chars::next(): (item, rest of the iterator) *)
Definition s_chars_next (it : list N) : option N * list N :=
  match it with [] => (None, []) | c :: t => (Some c, t) end.

(* u64::saturating_add *)
Definition s_sat_add64 (a b : N) : N := N.min (a + b) 18446744073709551615.

(* ------------------------------------------------------------------------- *)
(* output / input of the b3sum translation (gen/GenB3sumFns2.v)              *)
(* ------------------------------------------------------------------------- *)
(* `?` inside a function whose result carries its `&mut` out-parameters and the output streams:
   the early return delivers `mk (Err e)`, the error together with the current values of those *)
Definition ctryw {E T R A} (mk : E + T -> R) (r : E + A) : ctl R A :=
  match r with inr v => Ok (inr v) | inl e => Ok (inl (mk (inl e))) end.

(* stdout / stderr are append-only lists.  Write::write_all(buf) (print!, println!, eprintln!, io::copy use it):
   EVERY element of buf is appended.  Plain Write::write(buf) may append only a prefix and returns its length `k`
   (chosen by the OS); a caller has to look at the count. *)
Definition io_write_all (w buf : list N) : list N := w ++ buf.
Definition io_write (k : N) (w buf : list N) : list N * N :=
  (w ++ firstn (N.to_nat k) buf, N.min k (N.of_nat (length buf))).

(* blake3::OutputReader = (stream, position); `fill stream position n` is the oracle for the n bytes of the
   stream that start at `position` (C03's contract).  OutputReader::fill(&mut buf): (new buf, advanced reader) *)
Definition rd_fill {St} (fill : St -> N -> N -> list N) (r : St * N) (buf : list N) : list N * (St * N) :=
  let n := N.of_nat (length buf) in (fill (fst r) (snd r) n, (fst r, snd r + n)).

(* [u8; n]::len(), <[u8]>::len() *)
Definition a_len (a : list N) : N := N.of_nat (length a).

(* hex::encode: two lower-case digits per byte *)
Definition s_hex_digit (d : N) : N := if d <? 10 then 48 + d else 87 + d.
Fixpoint s_hex_encode (bs : list N) : list N :=
  match bs with [] => [] | b :: t => s_hex_digit (b / 16) :: s_hex_digit (b mod 16) :: s_hex_encode t end.

(* std::io::copy(&mut reader.take(limit), &mut w): until the Take is exhausted, read at most `bufsz` (>= 1) bytes
   and write_all them.  Result: (bytes copied, the Take = (reader, remaining limit), w) *)
Fixpoint io_copy_take {St} (fill : St -> N -> N -> list N) (bufsz : N) (fuel : nat)
         (r : St * N) (limit : N) (w : list N) (total : N) {struct fuel} : res (N * ((St * N) * N) * list N) :=
  if limit =? 0 then Ok (total, (r, limit), w)
  else match fuel with
       | O => OutOfFuel
       | S f =>
         let n := N.min limit (N.max 1 bufsz) in
         let piece := fill (fst r) (snd r) n in
         io_copy_take fill bufsz f (fst r, snd r + n) (limit - n) (io_write_all w piece) (total + n)
       end.

(* io::BufReader over a checkfile: the pending results of BufRead::read_line, `inr text` (one line with its
   terminator; text is appended to the String and its BYTE length returned) or `inl e` (an io::Error, e.g. bytes
   that are not UTF-8; the String is left alone).  At the end of the file read_line returns Ok(0). *)
Definition s_read_line (rd : list (list N + list N)) (line : list N)
  : (list N + N) * list N * list (list N + list N) :=
  match rd with
  | [] => (inr 0, line, [])
  | inr text :: t => (inr (s_len text), line ++ text, t)
  | inl e :: t => (inl e, line, t)
  end.

(* Display of a u64: decimal digits *)
Fixpoint s_dec_digits (fuel : nat) (n : N) (acc : list N) : list N :=
  match fuel with
  | O => acc
  | S f => let acc' := (48 + n mod 10) :: acc in if n / 10 =? 0 then acc' else s_dec_digits f (n / 10) acc'
  end.
Definition s_u64_to_string (n : N) : list N := s_dec_digits 20 n [].
