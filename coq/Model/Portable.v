(* Model of src/portable.rs (and c/blake3_portable.c, which has the same shape):
   g, round (message words selected through the generated MSG_SCHEDULE),
   compress_pre, compress_in_place, compress_xof, hash1, hash_many.
   Constants come from gen/GenConsts.v (the repository's own text). *)
From Coq Require Import NArith List Bool.
From V Require Import Base.Res Base.Word Base.MachInt gen.GenConsts gen.GenFormulas.
Import ListNotations.
Open Scope N_scope.

(* fn g: same statement order as the source *)
Definition g (a b c d x y : N) : N * N * N * N :=
  let a := add32 (add32 a b) x in
  let d := rotr32 (xor32 d a) 16 in
  let c := add32 c d in
  let b := rotr32 (xor32 b c) 12 in
  let a := add32 (add32 a b) y in
  let d := rotr32 (xor32 d a) 8 in
  let c := add32 c d in
  let b := rotr32 (xor32 b c) 7 in
  (a, b, c, d).

Definition sched (r i : nat) : nat := N.to_nat (nth i (nth r rs_MSG_SCHEDULE []) 0).
Definition msgw (msg : list N) (r i : nat) : N := nth (sched r i) msg 0.

(* fn round(state, msg, round) *)
Definition round (s msg : list N) (r : nat) : list N :=
  match s with
  | [s0; s1; s2; s3; s4; s5; s6; s7; s8; s9; s10; s11; s12; s13; s14; s15] =>
      let '(s0, s4, s8, s12) := g s0 s4 s8 s12 (msgw msg r 0) (msgw msg r 1) in
      let '(s1, s5, s9, s13) := g s1 s5 s9 s13 (msgw msg r 2) (msgw msg r 3) in
      let '(s2, s6, s10, s14) := g s2 s6 s10 s14 (msgw msg r 4) (msgw msg r 5) in
      let '(s3, s7, s11, s15) := g s3 s7 s11 s15 (msgw msg r 6) (msgw msg r 7) in
      let '(s0, s5, s10, s15) := g s0 s5 s10 s15 (msgw msg r 8) (msgw msg r 9) in
      let '(s1, s6, s11, s12) := g s1 s6 s11 s12 (msgw msg r 10) (msgw msg r 11) in
      let '(s2, s7, s8, s13) := g s2 s7 s8 s13 (msgw msg r 12) (msgw msg r 13) in
      let '(s3, s4, s9, s14) := g s3 s4 s9 s14 (msgw msg r 14) (msgw msg r 15) in
      [s0; s1; s2; s3; s4; s5; s6; s7; s8; s9; s10; s11; s12; s13; s14; s15]
  | _ => s
  end.

Definition ctr_lo (counter : N) : N := match rs_counter_low counter with Ok v => v | _ => 0 end.
Definition ctr_hi (counter : N) : N := match rs_counter_high counter with Ok v => v | _ => 0 end.

(* fn compress_pre: 16 state words after 7 rounds *)
Definition compress_pre (cv block : list N) (block_len counter flags : N) : list N :=
  let block_words := words_of_bytes block in
  let state := cv ++ firstn 4 rs_IV ++ [ctr_lo counter; ctr_hi counter; block_len; flags] in
  let state := round state block_words 0 in
  let state := round state block_words 1 in
  let state := round state block_words 2 in
  let state := round state block_words 3 in
  let state := round state block_words 4 in
  let state := round state block_words 5 in
  let state := round state block_words 6 in
  state.

Definition xor_pairs (a b : list N) : list N := map (fun p => xor32 (fst p) (snd p)) (combine a b).

(* compress_in_place: new cv (8 words) *)
Definition compress_in_place (cv block : list N) (block_len counter flags : N) : list N :=
  let state := compress_pre cv block block_len counter flags in
  xor_pairs (firstn 8 state) (skipn 8 state).

(* compress_xof: 64 output bytes *)
Definition compress_xof (cv block : list N) (block_len counter flags : N) : list N :=
  let state := compress_pre cv block block_len counter flags in
  bytes_of_words (xor_pairs (firstn 8 state) (skipn 8 state) ++ xor_pairs (skipn 8 state) cv).

(* hash1: fold the blocks of one input (a multiple of 64 bytes); flags_start on the
   first block, flags_end on the last *)
Fixpoint hash1_go (fuel : nat) (cv input : list N) (counter flags block_flags flags_end : N) : list N :=
  match fuel with
  | O => cv
  | S fuel' =>
      if N.of_nat (length input) <? rs_BLOCK_LEN then cv
      else
        let block_flags := if N.of_nat (length input) =? rs_BLOCK_LEN then N.lor block_flags flags_end else block_flags in
        let cv := compress_in_place cv (firstn (N.to_nat rs_BLOCK_LEN) input) rs_BLOCK_LEN counter block_flags in
        hash1_go fuel' cv (skipn (N.to_nat rs_BLOCK_LEN) input) counter flags flags flags_end
  end.

Definition hash1 (input key : list N) (counter flags flags_start flags_end : N) : res (list N) :=
  assert! (N.of_nat (length input) mod rs_BLOCK_LEN =? 0) code 1100 ;;
  Ok (bytes_of_words (hash1_go (S (Nat.div (length input) 64)) key input counter flags (N.lor flags flags_start) flags_end)).

(* hash_many: one CV per input; `out_cap` = capacity of `out` in CVs *)
Fixpoint hash_many_go (inputs : list (list N)) (key : list N) (counter : N) (incr : bool)
         (flags flags_start flags_end : N) : res (list (list N)) :=
  match inputs with
  | [] => Ok []
  | input :: tl =>
      cv <- hash1 input key counter flags flags_start flags_end ;;
      counter' <- (if incr then mi_add 64 counter 1 else Ok counter) ;;
      rest <- hash_many_go tl key counter' incr flags flags_start flags_end ;;
      Ok (cv :: rest)
  end.

Definition hash_many (inputs : list (list N)) (key : list N) (counter : N) (incr : bool)
           (flags flags_start flags_end out_cap : N) : res (list (list N)) :=
  assert! (N.of_nat (length inputs) <=? out_cap) code 1101 ;;
  hash_many_go inputs key counter incr flags flags_start flags_end.
