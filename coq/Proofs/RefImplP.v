(* C15, reference implementation: the model of reference_impl.rs
   (Model/RefImpl.v) computes the specification for every mode, every splitting
   of the input into update calls and every output length; no index, slice or
   overflow check of the reference implementation can fail (in particular the
   54-entry CV stack never overflows) for inputs below 2^64 bytes. *)
From V Require Import Proofs.ListP.
From V Require Import Base.Res Base.Word Base.MachInt gen.GenConsts
  Spec.Compress Spec.Tree Spec.Blake3 Model.RefImpl Proofs.PortableP Proofs.TreeP Proofs.FormulasP
  Proofs.RefCompressP Proofs.RefChunkP Proofs.RefStackP.
Open Scope N_scope.

(* ---- the output stream ----------------------------------------------------------------- *)
Lemma nrange_app : forall (a b : nat) start,
  nrange start (a + b) = nrange start a ++ nrange (start + N.of_nat a) b.
Proof.
  induction a as [|a IH]; intros b start.
  - cbn [Nat.add nrange app]. f_equal. lia.
  - cbn [Nat.add nrange app]. f_equal. rewrite IH. f_equal. f_equal. lia.
Qed.

Lemma stream_app c64 o p (a b : nat) :
  stream c64 o p (a + b) = stream c64 o p a ++ stream c64 o (p + N.of_nat a) b.
Proof. unfold stream. rewrite nrange_app, map_app. reflexivity. Qed.

Lemma stream_S c64 o p (n : nat) : stream c64 o p (S n) = stream_byte c64 o p :: stream c64 o (p + 1) n.
Proof. reflexivity. Qed.

Lemma skipn_cons_nth {A} (d : A) : forall (s : nat) (l : list A), (s < length l)%nat ->
  skipn s l = nth s l d :: skipn (S s) l.
Proof.
  induction s as [|s IH]; intros l H; destruct l as [|x l]; cbn [length] in H; try lia; [reflexivity|].
  cbn [skipn nth]. rewrite (IH l) by lia. reflexivity.
Qed.

Lemma stream_in_block c64 o k : length (root_block c64 o k) = 64%nat ->
  forall (j s : nat), (s + j <= 64)%nat ->
  stream c64 o (64 * k + N.of_nat s) j = firstn j (skipn s (root_block c64 o k)).
Proof.
  intros HL. induction j as [|j IH]; intros s Hs; [reflexivity|].
  rewrite stream_S. rewrite (skipn_cons_nth 0 s) by lia. cbn [firstn]. f_equal.
  - unfold stream_byte.
    replace ((64 * k + N.of_nat s) / 64) with k by lia.
    replace (N.to_nat ((64 * k + N.of_nat s) mod 64)) with s by lia. reflexivity.
  - replace (64 * k + N.of_nat s + 1) with (64 * k + N.of_nat (S s)) by lia. apply IH. lia.
Qed.

Lemma stream_block_prefix c64 o k (j : nat) : length (root_block c64 o k) = 64%nat -> (j <= 64)%nat ->
  stream c64 o (64 * k) j = firstn j (root_block c64 o k).
Proof.
  intros HL Hj. replace (64 * k) with (64 * k + N.of_nat 0) by lia.
  apply (stream_in_block c64 o k HL j 0%nat). lia.
Qed.

Lemma root_block_length o k : length (o_cv o) = 8%nat -> length (o_block o) = 64%nat ->
  length (root_block spec_c64 o k) = 64%nat.
Proof.
  intros H1 H2. unfold root_block, spec_c64. rewrite bytes_of_words_length, compress_length by assumption.
  reflexivity.
Qed.

Lemma nth_byte l i : all_bytes l = true -> nth i l 0 < 256.
Proof.
  intros HB. unfold all_bytes in HB. rewrite forallb_forall in HB.
  destruct (nth_in_or_default i l 0) as [Hin|E]; [|rewrite E; lia].
  specialize (HB _ Hin). unfold is_byte in HB. lia.
Qed.

Lemma stream_byte_lt o i : stream_byte spec_c64 o i < 256.
Proof.
  unfold stream_byte, root_block, spec_c64. apply nth_byte. apply bytes_of_words_all_bytes.
Qed.

Lemma stream_bytes o p (n : nat) : Forall (fun b => b < 256) (stream spec_c64 o p n).
Proof.
  unfold stream. apply Forall_forall. intros b Hb. apply in_map_iff in Hb.
  destruct Hb as (i & Hi & _). rewrite <- Hi. apply stream_byte_lt.
Qed.

Lemma stream_len c64 o pos n : length (stream c64 o pos n) = n.
Proof.
  unfold stream. rewrite map_length. revert pos. induction n as [|n IH]; intros; [reflexivity|].
  cbn [nrange length]. rewrite IH. reflexivity.
Qed.

(* ---- Output::root_output_bytes ----------------------------------------------------------------- *)
Lemma ref_fill_words_spec : forall ws n,
  ref_fill_words ws n = firstn (N.to_nat n) (bytes_of_words ws).
Proof.
  induction ws as [|w ws IH]; intros n.
  - cbn [ref_fill_words]. unfold bytes_of_words. cbn [flat_map]. rewrite firstn_nil. reflexivity.
  - cbn [ref_fill_words]. destruct (n =? 0) eqn:E.
    + replace (N.to_nat n) with 0%nat by lia. reflexivity.
    + unfold bytes_of_words in *. cbn [flat_map]. rewrite firstn_app, IH.
      assert (Hl : length (bytes_of_word w) = 4%nat) by reflexivity. rewrite Hl.
      f_equal.
      * destruct (N.le_gt_cases 4 n) as [H|H].
        -- replace (N.min 4 n) with 4 by lia. rewrite !firstn_all2 by (rewrite Hl; lia). reflexivity.
        -- replace (N.min 4 n) with n by lia. reflexivity.
      * f_equal. lia.
Qed.

Lemma root_loop_unfold fuel r k rem :
  ref_root_loop (S fuel) r k rem =
  if rem =? 0 then Ok []
  else
    words <- ref_compress (ro_input_chaining_value r) (ro_block_words r) k
               (ro_block_len r) (N.lor (ro_flags r) ref_flag_ROOT) ;;
    let n := N.min (2 * ref_OUT_LEN) rem in
    let out_block := ref_fill_words words n in
    output_block_counter <- mi_add 64 k 1 ;;
    rest <- ref_root_loop fuel r output_block_counter (rem - n) ;;
    Ok (out_block ++ rest).
Proof. reflexivity. Qed.

Lemma root_compress o k : wf_out o ->
  exists ws, ref_compress (ro_input_chaining_value (ro_of o)) (ro_block_words (ro_of o)) k
               (ro_block_len (ro_of o)) (N.lor (ro_flags (ro_of o)) ref_flag_ROOT) = Ok ws /\
             bytes_of_words ws = root_block spec_c64 o k.
Proof.
  intros (H1 & H2 & _). unfold ro_of.
  cbn [ro_input_chaining_value ro_block_words ro_block_len ro_flags].
  rewrite (ref_compress_words_is_spec (o_cv o) _ (o_block o)); [|exact H1| |reflexivity].
  - eexists. split; [reflexivity|]. unfold root_block, spec_c64. reflexivity.
  - apply words_of_bytes_length. rewrite H2. reflexivity.
Qed.

Lemma root_loop_spec o : wf_out o -> forall fuel k rem,
  rem <= 64 * N.of_nat fuel -> k + rem < 2 ^ 64 ->
  ref_root_loop fuel (ro_of o) k rem = Ok (stream spec_c64 o (64 * k) (N.to_nat rem)).
Proof.
  intros Hwf.
  induction fuel as [|fuel IH]; intros k rem Hf H64.
  - assert (rem = 0) by lia. subst rem. reflexivity.
  - rewrite root_loop_unfold. destruct (rem =? 0) eqn:E.
    + replace rem with 0 by lia. reflexivity.
    + destruct (root_compress o k Hwf) as (ws & -> & Hws). cbn [bind]. cbv zeta.
      unfold mi_add, fits.
      replace (k + 1 <? 2 ^ 64) with true by lia. cbn [bind].
      change (2 * ref_OUT_LEN) with 64.
      rewrite IH by lia. cbn [bind]. f_equal.
      rewrite ref_fill_words_spec, Hws.
      destruct Hwf as (H1 & H2 & _).
      pose proof (root_block_length o k H1 H2) as HL.
      replace (N.to_nat rem) with (N.to_nat (N.min 64 rem) + N.to_nat (rem - N.min 64 rem))%nat by lia.
      rewrite stream_app. f_equal.
      * symmetry. apply stream_block_prefix; [exact HL|lia].
      * destruct (N.le_gt_cases 64 rem) as [H|H].
        -- replace (N.min 64 rem) with 64 by lia. f_equal. lia.
        -- replace (rem - N.min 64 rem) with 0 by lia. reflexivity.
Qed.

Lemma root_output_bytes_spec o out_len : wf_out o -> out_len < 2 ^ 64 ->
  ro_root_output_bytes (ro_of o) out_len = Ok (stream spec_c64 o 0 (N.to_nat out_len)).
Proof.
  intros Hwf H. unfold ro_root_output_bytes.
  rewrite (root_loop_spec o Hwf) by lia. reflexivity.
Qed.

(* ---- the Hasher ---------------------------------------------------------------------------------- *)
Section RefHasher.
  Variables (K : list N) (F : N).
  Hypothesis HK : length K = 8%nat.
  Hypothesis HKW : Forall W K.
  Hypothesis HF : W F.

  (* h has absorbed P ++ R: c complete chunks P on the stack, the bytes R in the chunk state *)
  Definition HRel (h : ref_hasher) (c : N) (P R : list N) : Prop :=
    len P = 1024 * c /\ RTight K F c (rh_chunk_state h) R /\
    rh_key_words h = K /\ rh_flags h = F /\
    StackRel K F (rh_cv_stack h) (rh_cv_stack_len h) (stack_of 1 c P).

  Definition HInv (h : ref_hasher) (m : list N) : Prop :=
    exists c P R, m = P ++ R /\ HRel h c P R /\ (R = [] -> c = 0).

  Lemma HInv_new : HInv (ref_new_internal K F) [].
  Proof.
    exists 0, [], []. split; [reflexivity|]. split; [|auto].
    unfold HRel, ref_new_internal. cbn [rh_chunk_state rh_key_words rh_flags rh_cv_stack rh_cv_stack_len].
    split; [reflexivity|]. split; [apply RTight_new; exact HK|]. split; [reflexivity|]. split; [reflexivity|].
    cbn [stack_of]. unfold StackRel. cbn [length firstn map rev].
    split; [reflexivity|]. split; [reflexivity|]. split; [lia|]. split; [reflexivity|constructor].
  Qed.

  Lemma RTight_len T cs bs : RTight K F T cs bs -> rcs_len cs = len bs /\ len bs <= 1024.
  Proof.
    intros (nb & HR & _). split; [eapply RRepr_len; [exact HK|exact HR]|]. destruct HR as (_ & _ & H). exact H.
  Qed.

  (* the `if self.chunk_state.len() == CHUNK_LEN` step of Hasher::update *)
  Lemma roll_spec h c P R : HRel h c P R -> len (P ++ R) < 2 ^ 64 ->
    exists h1 c1 P1 R1,
      (if rcs_len (rh_chunk_state h) =? ref_CHUNK_LEN then
         o <- rcs_output (rh_chunk_state h) ;;
         chunk_cv <- ro_chaining_value o ;;
         total_chunks <- mi_add 64 (rcs_chunk_counter (rh_chunk_state h)) 1 ;;
         h <- ref_add_chunk_chaining_value h chunk_cv total_chunks ;;
         Ok (rh_with_cs h (rcs_new (rh_key_words h) total_chunks (rh_flags h)))
       else Ok h) = Ok h1 /\
      HRel h1 c1 P1 R1 /\ P1 ++ R1 = P ++ R /\ len R1 < 1024.
  Proof.
    intros (HP & HT & HKh & HFh & HS) H64.
    destruct (RTight_len _ _ _ HT) as [Hlen H1024]. rewrite Hlen. change ref_CHUNK_LEN with 1024.
    destruct (len R =? 1024) eqn:E.
    - assert (HR : len R = 1024) by lia.
      rewrite (rcs_output_spec K F c HK _ _ HT). cbn [bind].
      assert (Hw : wft (Leaf c R)) by (cbn [wft]; lia).
      change (chunk_output spec_c8 K F c R) with (tout K F (Leaf c R)).
      rewrite (ro_cv_tree K F HK HKW HF _ Hw). cbn [bind].
      assert (Hctr : rcs_chunk_counter (rh_chunk_state h) = c).
      { destruct HT as (nb & (Ecs & _) & _). rewrite Ecs. reflexivity. }
      rewrite Hctr. unfold mi_add, fits.
      assert (Hc : c + 1 < 2 ^ 54).
      { rewrite len_app in H64. change (2 ^ 64) with (1024 * 2 ^ 54) in H64. lia. }
      assert (2 ^ 54 < 2 ^ 64) by (apply N.pow_lt_mono_r; lia).
      replace (c + 1 <? 2 ^ 64) with true by lia. cbn [bind].
      destruct (add_chunk_spec K F HK HKW HF h c P R HKh HFh HS HP HR H64) as (h2 & Hrun & HS2 & (Hc2 & Hk2 & Hf2)).
      rewrite Hrun. cbn [bind].
      eexists. exists (c + 1), (P ++ R), []. split; [reflexivity|].
      split; [|split; [rewrite app_nil_r; reflexivity|change (len []) with 0; lia]].
      unfold HRel, rh_with_cs. cbn [rh_chunk_state rh_key_words rh_flags rh_cv_stack rh_cv_stack_len].
      split; [rewrite len_app; lia|]. rewrite Hk2, Hf2, HKh, HFh.
      split; [apply RTight_new; exact HK|]. split; [reflexivity|]. split; [reflexivity|exact HS2].
    - exists h, c, P, R. split; [reflexivity|]. split; [exact (conj HP (conj HT (conj HKh (conj HFh HS))))|].
      split; [reflexivity|lia].
  Qed.

  Lemma update_loop_unfold fuel h x input' :
    ref_update_loop (S fuel) h (x :: input') =
    (let input := x :: input' in
     h <- (if rcs_len (rh_chunk_state h) =? ref_CHUNK_LEN then
             o <- rcs_output (rh_chunk_state h) ;;
             chunk_cv <- ro_chaining_value o ;;
             total_chunks <- mi_add 64 (rcs_chunk_counter (rh_chunk_state h)) 1 ;;
             h <- ref_add_chunk_chaining_value h chunk_cv total_chunks ;;
             Ok (rh_with_cs h (rcs_new (rh_key_words h) total_chunks (rh_flags h)))
           else Ok h) ;;
     want <- mi_sub 64 ref_CHUNK_LEN (rcs_len (rh_chunk_state h)) ;;
     let take := N.min want (rlen input) in
     cs <- rcs_update (rh_chunk_state h) (firstn (N.to_nat take) input) ;;
     ref_update_loop fuel (rh_with_cs h cs) (skipn (N.to_nat take) input)).
  Proof. reflexivity. Qed.

  Lemma update_loop_spec : forall fuel input h m,
    HInv h m -> len (m ++ input) < 2 ^ 64 -> (length input < fuel)%nat ->
    exists h', ref_update_loop fuel h input = Ok h' /\ HInv h' (m ++ input).
  Proof.
    induction fuel as [|fuel IH]; intros input h m HI H64 Hfuel; [lia|].
    destruct input as [|x input'].
    - exists h. split; [reflexivity|]. rewrite app_nil_r. exact HI.
    - rewrite update_loop_unfold. cbv zeta.
      set (input := x :: input') in *.
      assert (Hpos : 0 < len input) by (unfold input, len; cbn [length]; lia).
      destruct HI as (c & P & R & Em & HR & _).
      rewrite len_app in H64.
      destruct (roll_spec h c P R HR ltac:(rewrite <- Em; lia)) as (h1 & c1 & P1 & R1 & Hrun & HR1 & Eq & Hlt).
      rewrite Hrun. cbn [bind].
      destruct HR1 as (HP1 & HT1 & HKh1 & HFh1 & HS1).
      destruct (RTight_len _ _ _ HT1) as [Hlen1 _]. rewrite Hlen1. change ref_CHUNK_LEN with 1024.
      unfold mi_sub. replace (len R1 <=? 1024) with true by lia. cbn [bind].
      unfold rlen. fold (len input).
      set (tk := N.min (1024 - len R1) (len input)).
      assert (Htk1 : 1 <= tk) by (unfold tk; lia).
      assert (Htk2 : tk <= 1024 - len R1) by (unfold tk; lia).
      assert (Htk3 : tk <= len input) by (unfold tk; lia).
      rewrite firstn_N, skipn_N.
      destruct (rcs_update_spec K F c1 HK HKW HF _ R1 (take tk input) HT1) as (cs' & Hupd & HT2).
      { rewrite len_app, len_take. lia. }
      rewrite Hupd. cbn [bind].
      destruct (IH (drop tk input) (rh_with_cs h1 cs') (m ++ take tk input)) as (h' & Hrun' & HI').
      + exists c1, P1, (R1 ++ take tk input). split; [rewrite app_assoc, Eq, <- Em; reflexivity|].
        split.
        * unfold HRel, rh_with_cs. cbn [rh_chunk_state rh_key_words rh_flags rh_cv_stack rh_cv_stack_len].
          exact (conj HP1 (conj HT2 (conj HKh1 (conj HFh1 HS1)))).
        * intros Hnil. assert (Hz : len (R1 ++ take tk input) = 0) by (rewrite Hnil; reflexivity).
          rewrite len_app, len_take in Hz. lia.
      + rewrite <- app_assoc, take_drop, len_app. lia.
      + pose proof (len_drop tk input) as Hd. unfold len in Hd, Htk1, Hpos. lia.
      + exists h'. split; [exact Hrun'|]. rewrite <- app_assoc, take_drop in HI'. exact HI'.
  Qed.

  Theorem ref_update_spec h m input : HInv h m -> len (m ++ input) < 2 ^ 64 ->
    exists h', ref_update h input = Ok h' /\ HInv h' (m ++ input).
  Proof. intros HI H. apply update_loop_spec; [exact HI|exact H|lia]. Qed.

  Theorem ref_update_all_spec : forall pieces h m, HInv h m -> len (m ++ concat pieces) < 2 ^ 64 ->
    exists h', ref_update_all h pieces = Ok h' /\ HInv h' (m ++ concat pieces).
  Proof.
    induction pieces as [|p tl IH]; intros h m HI H.
    - exists h. split; [reflexivity|]. cbn [concat]. rewrite app_nil_r. exact HI.
    - cbn [concat ref_update_all] in *. rewrite app_assoc in H.
      destruct (ref_update_spec h m p HI) as (h1 & Hrun & HI1).
      { rewrite !len_app in H. rewrite len_app. lia. }
      rewrite Hrun. cbn [bind].
      destruct (IH h1 (m ++ p) HI1 H) as (h' & Hrun' & HI').
      exists h'. split; [exact Hrun'|]. rewrite app_assoc. exact HI'.
  Qed.

  Local Transparent ST.
  Lemma tout_ST ctr bytes : tout K F (ST ctr bytes) = subtree_output spec_c8 tree_height K F ctr bytes.
  Proof. unfold tout, ST. symmetry. apply subtree_output_tree. Qed.
  Local Opaque ST.

  Theorem ref_finalize_spec h m out_len : HInv h m -> len m < 2 ^ 64 -> out_len < 2 ^ 64 ->
    ref_finalize h out_len =
    Ok (stream spec_c64 (subtree_output spec_c8 tree_height K F 0 m) 0 (N.to_nat out_len)).
  Proof.
    intros (c & P & R & Em & (HP & HT & HKh & HFh & HS) & Hnil) H64 Hout.
    unfold ref_finalize.
    rewrite (rcs_output_spec K F c HK _ _ HT). cbn [bind].
    destruct (RTight_len _ _ _ HT) as [_ H1024].
    change (chunk_output spec_c8 K F c R) with (tout K F (Leaf c R)).
    rewrite <- (ST_leaf c R) by exact H1024.
    destruct HS as (H54 & Hn & Hle & Hfirst & Hwf).
    rewrite Hn, Nat2N.id.
    assert (HwR : wft (ST c R)) by (apply ST_wft; lia).
    rewrite (finalize_loop_spec K F HK HKW HF h HKh HFh _ _ H54 Hle Hfirst Hwf HwR). cbn [bind].
    assert (Etree : fold_stack (stack_of 1 c P) (ST c R) = ST 0 m).
    { destruct (N.eq_dec (len R) 0) as [Hz|Hnz].
      - apply len_0_nil in Hz. subst R. rewrite (Hnil eq_refl) in *.
        assert (P = []) by (apply len_0_nil; lia). subst P m. reflexivity.
      - subst m. apply fold_stack_of; [exact HP|lia|exact H64]. }
    rewrite Etree, tout_ST.
    apply root_output_bytes_spec; [|exact Hout].
    rewrite <- tout_ST. apply tout_wf; try assumption. apply ST_wft. exact H64.
  Qed.

  (* constructor with these key words and flags, any pieces, any output length *)
  Theorem ref_internal_spec pieces out_len :
    len (concat pieces) < 2 ^ 64 -> out_len < 2 ^ 64 ->
    (h <- ref_update_all (ref_new_internal K F) pieces ;; ref_finalize h out_len) =
    Ok (stream spec_c64 (subtree_output spec_c8 tree_height K F 0 (concat pieces)) 0 (N.to_nat out_len)).
  Proof.
    intros H64 Hout.
    destruct (ref_update_all_spec pieces _ [] HInv_new H64) as (h & Hrun & HI).
    rewrite Hrun. cbn [bind]. cbn [app] in HI.
    apply ref_finalize_spec; assumption.
  Qed.
End RefHasher.

(* ---- the three modes ---------------------------------------------------------------------------------- *)
Definition ref_spec_mode (m : ref_mode) : mode :=
  match m with
  | RHash => Hash
  | RKeyed k => KeyedHash k
  | RDerive c => DeriveKeyMaterial (b3_hash_mode DeriveKeyContext c)
  end.

(* keys are 32 bytes; context strings are shorter than 2^64 bytes *)
Definition ref_mode_ok (m : ref_mode) : Prop :=
  match m with
  | RHash => True
  | RKeyed k => length k = 32%nat /\ Forall (fun b => b < 256) k
  | RDerive c => len c < 2 ^ 64
  end.

Lemma subtree_root_wf K F m : length K = 8%nat -> Forall W K -> W F -> len m < 2 ^ 64 ->
  wf_out (subtree_output spec_c8 tree_height K F 0 m).
Proof.
  intros HK HKW HF H. rewrite <- (tout_ST K F). apply tout_wf; try assumption. apply ST_wft. exact H.
Qed.

Lemma ref_new_mode_spec m : ref_mode_ok m ->
  exists K F, ref_new_mode m = Ok (ref_new_internal K F) /\
              length K = 8%nat /\ Forall W K /\ W F /\
              K = mode_key (ref_spec_mode m) /\ F = mode_flags (ref_spec_mode m).
Proof.
  destruct m as [|k|c]; cbn [ref_mode_ok ref_new_mode ref_spec_mode mode_key mode_flags].
  - intros _. exists ref_IV, 0. split; [reflexivity|].
    split; [reflexivity|]. split; [apply IV_words|]. split; [unfold W; lia|]. split; reflexivity.
  - intros [Hl HB]. exists (words_of_bytes k), ref_flag_KEYED_HASH.
    unfold ref_new_keyed. rewrite (ref_words_from_le_bytes_ok k 8) by (rewrite Hl; reflexivity).
    cbn [bind]. split; [reflexivity|].
    split; [apply words_of_bytes_length; rewrite Hl; reflexivity|].
    split; [apply (words_of_bytes_W 8); [rewrite Hl; reflexivity|exact HB]|].
    split; [unfold W, ref_flag_KEYED_HASH; lia|]. split; reflexivity.
  - intros Hc. unfold ref_new_derive_key.
    pose proof (ref_internal_spec ref_IV ref_flag_DERIVE_KEY_CONTEXT eq_refl IV_words
                  ltac:(unfold W, ref_flag_DERIVE_KEY_CONTEXT; lia) [c] ref_KEY_LEN) as Hctx.
    cbn [concat ref_update_all] in Hctx. rewrite app_nil_r in Hctx.
    specialize (Hctx Hc ltac:(unfold ref_KEY_LEN; lia)).
    destruct (ref_update (ref_new_internal ref_IV ref_flag_DERIVE_KEY_CONTEXT) c) as [h1| |];
      cbn [bind] in Hctx; try discriminate.
    cbn [bind]. rewrite Hctx. cbn [bind].
    change (N.to_nat ref_KEY_LEN) with 32%nat.
    assert (Eck : stream spec_c64 (subtree_output spec_c8 tree_height ref_IV ref_flag_DERIVE_KEY_CONTEXT 0 c) 0 32
                  = b3_hash_mode DeriveKeyContext c).
    { unfold b3_hash_mode, hash_mode, root_output. cbn [mode_key mode_flags].
      change ref_IV with IV. change ref_flag_DERIVE_KEY_CONTEXT with DERIVE_KEY_CONTEXT. reflexivity. }
    rewrite Eck. clear Eck.
    set (ck := b3_hash_mode DeriveKeyContext c).
    assert (Hlen : length ck = 32%nat) by (unfold ck, b3_hash_mode, hash_mode; apply stream_len).
    assert (HB : Forall (fun b => b < 256) ck).
    { unfold ck, b3_hash_mode, hash_mode.
      apply stream_bytes. }
    rewrite (ref_words_from_le_bytes_ok ck 8) by (rewrite Hlen; reflexivity). cbn [bind].
    exists (words_of_bytes ck), ref_flag_DERIVE_KEY_MATERIAL. split; [reflexivity|].
    split; [apply words_of_bytes_length; rewrite Hlen; reflexivity|].
    split; [apply (words_of_bytes_W 8); [rewrite Hlen; reflexivity|exact HB]|].
    split; [unfold W, ref_flag_DERIVE_KEY_MATERIAL; lia|]. split; reflexivity.
Qed.

(* THE REFINEMENT THEOREM: constructor for any mode, any list of update pieces,
   finalize into out_len bytes = the specification's extendable output of the
   concatenated input; `Ok` = no panic anywhere (CV stack within its 54 entries,
   no u8/u64/usize overflow, no index or slice out of range). *)
Theorem ref_refines m pieces out_len :
  ref_mode_ok m -> len (concat pieces) < 2 ^ 64 -> out_len < 2 ^ 64 ->
  ref_run m pieces out_len = Ok (b3_xof_mode (ref_spec_mode m) (concat pieces) 0 (N.to_nat out_len)).
Proof.
  intros Hm H64 Hout. unfold ref_run.
  destruct (ref_new_mode_spec m Hm) as (K & F & Hnew & HK & HKW & HF & EK & EF).
  rewrite Hnew. cbn [bind].
  rewrite (ref_internal_spec K F HK HKW HF pieces out_len H64 Hout).
  unfold b3_xof_mode, xof_mode, root_output. rewrite <- EK, <- EF. reflexivity.
Qed.

Corollary ref_hash_spec pieces : len (concat pieces) < 2 ^ 64 ->
  ref_run RHash pieces 32 = Ok (b3_hash (concat pieces)).
Proof. intros H. apply (ref_refines RHash pieces 32 I H). lia. Qed.

Corollary ref_keyed_hash_spec key pieces :
  length key = 32%nat -> Forall (fun b => b < 256) key -> len (concat pieces) < 2 ^ 64 ->
  ref_run (RKeyed key) pieces 32 = Ok (b3_keyed_hash key (concat pieces)).
Proof. intros H1 H2 H. apply (ref_refines (RKeyed key) pieces 32 (conj H1 H2) H). lia. Qed.

Corollary ref_derive_key_spec context pieces :
  len context < 2 ^ 64 -> len (concat pieces) < 2 ^ 64 ->
  ref_run (RDerive context) pieces 32 = Ok (b3_derive_key context (concat pieces)).
Proof. intros H1 H. apply (ref_refines (RDerive context) pieces 32 H1 H). lia. Qed.
