(* Semantics of the x86 SIMD intrinsics and of the C / Rust scalar expressions that occur in
   the `load_counters*` functions of
     c/blake3_sse2.c, c/blake3_sse41.c, c/blake3_avx2.c, c/blake3_avx512.c,
     src/rust_sse2.rs, src/rust_sse41.rs, src/rust_avx2.rs.
   tools/gen_coq.py (gen_counters) translates the source text of those functions into terms
   over the definitions of this file (coq/gen/GenCounters.v); Proofs/CountersP.v proves the
   translated functions equal to the hand-written models of Model/Kernels.v.

   REGISTER MODEL.  A SIMD register is ONE representation whatever intrinsic reads it: the list
   of its 32-bit lanes, lane 0 (bits 31..0) first: __m128i = 4 lanes, __m256i = 8, __m512i = 16.
   An intrinsic that works on 64-bit elements views the register through `to64` (element k is
   lanes 2k (low half) and 2k+1 (high half)) and writes its result back through `of64`.
   Applying a 32-bit-lane intrinsic to the result of a 64-bit-lane one (or the reverse) therefore
   means what it means on the machine.  Invariant: every lane is below 2^32 (every definition
   below produces such lanes from such lanes).

   SCALARS.  A C / Rust integer expression is a mathematical integer (Z) together with a static
   type that the translator tracks; conversions are explicit (`cast_u`, `cast_s`).  An intrinsic
   that takes an `int` / `__int64` / `unsigned int` argument stores its low 32 / 64 bits
   (`bits32`, `bits64`), which is also what the implicit conversion to the parameter type does.

   Each definition is a direct reading of the Intel Intrinsics Guide entry named next to it. *)
From Coq Require Import NArith ZArith List Bool.
From V Require Import Base.Res Base.Word Model.Kernels.
Import ListNotations.
Open Scope N_scope.

(* ------------------------------------------------------------------ *)
(* scalars                                                             *)
(* ------------------------------------------------------------------ *)
(* conversion to an unsigned type of W bits: reduction modulo 2^W *)
Definition cast_u (W : Z) (z : Z) : Z := (z mod 2 ^ W)%Z.
(* conversion to a signed type of W bits (two's complement wrap; `as iW` in Rust, the
   universal behaviour of (intW_t) in C) *)
Definition cast_s (W : Z) (z : Z) : Z := ((z + 2 ^ (W - 1)) mod 2 ^ W - 2 ^ (W - 1))%Z.
(* the 32 / 64 low bits of an integer, as stored into a vector element *)
Definition bits32 (z : Z) : N := Z.to_N (z mod 4294967296)%Z.
Definition bits64 (z : Z) : N := Z.to_N (z mod 18446744073709551616)%Z.
(* C truth value of a scalar *)
Definition c_true (z : Z) : bool := negb (z =? 0)%Z.

(* ------------------------------------------------------------------ *)
(* 64-bit view of a register                                           *)
(* ------------------------------------------------------------------ *)
Fixpoint to64 (v : vec) : list N :=
  match v with
  | lo :: hi :: tl => (lo + 4294967296 * hi) :: to64 tl
  | _ => []
  end.
Definition of64 (l : list N) : vec := flat_map (fun x => [w32 x; w32 (N.shiftr x 32)]) l.
Definition add64 (a b : N) : N := N.land (a + b) (N.ones 64).

(* shift count of the immediate-count shifts: imm8[7:0] *)
Definition imm8 (z : Z) : N := Z.to_N (z mod 256)%Z.
Definition srl32 (k : N) (x : N) : N := if 31 <? k then 0 else N.shiftr x k.
Definition srl64 (k : N) (x : N) : N := if 63 <? k then 0 else N.shiftr x k.

(* ------------------------------------------------------------------ *)
(* SSE2 (__m128i, 4 lanes)                                             *)
(* ------------------------------------------------------------------ *)
(* _mm_set1_epi32 (int a): broadcast a to all elements *)
Definition mm_set1_epi32 (a : Z) : vec := vset1 4 (bits32 a).
(* _mm_set_epi32 (int e3, int e2, int e1, int e0): dst[31:0] := e0 ... dst[127:96] := e3 *)
Definition mm_set_epi32 (e3 e2 e1 e0 : Z) : vec := [bits32 e0; bits32 e1; bits32 e2; bits32 e3].
(* _mm_setr_epi32 (int e3, int e2, int e1, int e0): reverse order, dst[31:0] := e3 (the first argument) *)
Definition mm_setr_epi32 (e3 e2 e1 e0 : Z) : vec := [bits32 e3; bits32 e2; bits32 e1; bits32 e0].
(* _mm_add_epi32 (a, b): dst[i] := a[i] + b[i], 32-bit wrap *)
Definition mm_add_epi32 : vec -> vec -> vec := vadd.
(* _mm_sub_epi32 (a, b): dst[i] := a[i] - b[i], 32-bit wrap *)
Definition mm_sub_epi32 : vec -> vec -> vec := vsub.
(* _mm_and_si128 (a, b): bitwise AND *)
Definition mm_and_si128 : vec -> vec -> vec := vand.
(* _mm_andnot_si128 (a, b): (NOT a) AND b *)
Definition mm_andnot_si128 : vec -> vec -> vec := vandnot.
(* _mm_xor_si128 (a, b): bitwise XOR *)
Definition mm_xor_si128 : vec -> vec -> vec := vxor.
(* _mm_or_si128 (a, b): bitwise OR *)
Definition mm_or_si128 : vec -> vec -> vec := vmap2 N.lor.
(* _mm_cmpgt_epi32 (a, b): dst[i] := (a[i] > b[i]) ? 0xFFFFFFFF : 0, SIGNED comparison *)
Definition mm_cmpgt_epi32 : vec -> vec -> vec := vcmpgt.
(* _mm_cmplt_epi32 (a, b): dst[i] := (a[i] < b[i]) ? 0xFFFFFFFF : 0, SIGNED comparison *)
Definition mm_cmplt_epi32 (a b : vec) : vec := vcmpgt b a.
(* _mm_cmpeq_epi32 (a, b): dst[i] := (a[i] == b[i]) ? 0xFFFFFFFF : 0 *)
Definition mm_cmpeq_epi32 : vec -> vec -> vec := vmap2 (fun a b => if a =? b then mask32 else 0).
(* _mm_srli_epi32 (a, int imm8): IF imm8[7:0] > 31 THEN 0 ELSE ZeroExtend32(a[i] >> imm8[7:0]) *)
Definition mm_srli_epi32 (a : vec) (k : Z) : vec := map (srl32 (imm8 k)) a.

(* ------------------------------------------------------------------ *)
(* AVX2 (__m256i, 8 lanes)                                             *)
(* ------------------------------------------------------------------ *)
(* _mm256_set1_epi32 (int a) *)
Definition mm256_set1_epi32 (a : Z) : vec := vset1 8 (bits32 a).
(* _mm256_set_epi32 (int e7, ..., int e0): dst[31:0] := e0 ... dst[255:224] := e7 *)
Definition mm256_set_epi32 (e7 e6 e5 e4 e3 e2 e1 e0 : Z) : vec :=
  [bits32 e0; bits32 e1; bits32 e2; bits32 e3; bits32 e4; bits32 e5; bits32 e6; bits32 e7].
(* _mm256_setr_epi32 (int e7, ..., int e0): reverse order, dst[31:0] := e7 (the first argument) *)
Definition mm256_setr_epi32 (e7 e6 e5 e4 e3 e2 e1 e0 : Z) : vec :=
  [bits32 e7; bits32 e6; bits32 e5; bits32 e4; bits32 e3; bits32 e2; bits32 e1; bits32 e0].
(* _mm256_add_epi32, _mm256_sub_epi32, _mm256_and_si256, _mm256_andnot_si256, _mm256_xor_si256,
   _mm256_or_si256, _mm256_cmpgt_epi32 (signed), _mm256_cmpeq_epi32, _mm256_srli_epi32:
   as the 128-bit forms, on 8 lanes *)
Definition mm256_add_epi32 : vec -> vec -> vec := vadd.
Definition mm256_sub_epi32 : vec -> vec -> vec := vsub.
Definition mm256_and_si256 : vec -> vec -> vec := vand.
Definition mm256_andnot_si256 : vec -> vec -> vec := vandnot.
Definition mm256_xor_si256 : vec -> vec -> vec := vxor.
Definition mm256_or_si256 : vec -> vec -> vec := vmap2 N.lor.
Definition mm256_cmpgt_epi32 : vec -> vec -> vec := vcmpgt.
Definition mm256_cmpeq_epi32 : vec -> vec -> vec := vmap2 (fun a b => if a =? b then mask32 else 0).
Definition mm256_srli_epi32 (a : vec) (k : Z) : vec := map (srl32 (imm8 k)) a.
(* _mm256_set1_epi64x (long long a): broadcast the 64-bit integer a to all 4 elements *)
Definition mm256_set1_epi64x (a : Z) : vec := of64 (repeat (bits64 a) 4).
(* _mm256_set_epi64x (e3, e2, e1, e0): dst[63:0] := e0 *)
Definition mm256_set_epi64x (e3 e2 e1 e0 : Z) : vec := of64 [bits64 e0; bits64 e1; bits64 e2; bits64 e3].
(* _mm256_setr_epi64x (e3, e2, e1, e0): reverse order, dst[63:0] := e3 (the first argument) *)
Definition mm256_setr_epi64x (e3 e2 e1 e0 : Z) : vec := of64 [bits64 e3; bits64 e2; bits64 e1; bits64 e0].
(* _mm256_add_epi64 (a, b): dst[j] := a[j] + b[j] on the four 64-bit elements, 64-bit wrap *)
Definition mm256_add_epi64 (a b : vec) : vec := of64 (vmap2 add64 (to64 a) (to64 b)).
(* _mm256_srli_epi64 (a, int imm8): IF imm8[7:0] > 63 THEN 0 ELSE ZeroExtend64(a[j] >> imm8[7:0]) *)
Definition mm256_srli_epi64 (a : vec) (k : Z) : vec := of64 (map (srl64 (imm8 k)) (to64 a)).
(* _mm256_cvtepi64_epi32 (a) (AVX512F + AVX512VL): __m256i -> __m128i,
   dst[i] := Truncate32(a[j]) for the four 64-bit elements *)
Definition mm256_cvtepi64_epi32 (a : vec) : vec := map w32 (to64 a).

(* ------------------------------------------------------------------ *)
(* AVX-512 (__m512i, 16 lanes; __mmask16 = list of 16 booleans, bit 0 first) *)
(* ------------------------------------------------------------------ *)
(* _mm512_set1_epi32 (int a) *)
Definition mm512_set1_epi32 (a : Z) : vec := vset1 16 (bits32 a).
(* _mm512_set_epi32 (int e15, ..., int e0): dst[31:0] := e0 ... dst[511:480] := e15 *)
Definition mm512_set_epi32 (e15 e14 e13 e12 e11 e10 e9 e8 e7 e6 e5 e4 e3 e2 e1 e0 : Z) : vec :=
  [bits32 e0; bits32 e1; bits32 e2; bits32 e3; bits32 e4; bits32 e5; bits32 e6; bits32 e7;
   bits32 e8; bits32 e9; bits32 e10; bits32 e11; bits32 e12; bits32 e13; bits32 e14; bits32 e15].
(* _mm512_setr_epi32 (int e15, ..., int e0): reverse order, dst[31:0] := e15 (the first argument) *)
Definition mm512_setr_epi32 (e15 e14 e13 e12 e11 e10 e9 e8 e7 e6 e5 e4 e3 e2 e1 e0 : Z) : vec :=
  [bits32 e15; bits32 e14; bits32 e13; bits32 e12; bits32 e11; bits32 e10; bits32 e9; bits32 e8;
   bits32 e7; bits32 e6; bits32 e5; bits32 e4; bits32 e3; bits32 e2; bits32 e1; bits32 e0].
(* _mm512_add_epi32, _mm512_sub_epi32, _mm512_and_si512, _mm512_xor_si512, _mm512_or_si512 *)
Definition mm512_add_epi32 : vec -> vec -> vec := vadd.
Definition mm512_sub_epi32 : vec -> vec -> vec := vsub.
Definition mm512_and_si512 : vec -> vec -> vec := vand.
Definition mm512_xor_si512 : vec -> vec -> vec := vxor.
Definition mm512_or_si512 : vec -> vec -> vec := vmap2 N.lor.
(* _mm512_andnot_si512 (a, b): (NOT a) AND b *)
Definition mm512_andnot_si512 : vec -> vec -> vec := vandnot.
(* _mm512_srli_epi32 (a, unsigned int imm8): IF imm8[7:0] > 31 THEN 0 ELSE ZeroExtend32(a[i] >> imm8[7:0]) *)
Definition mm512_srli_epi32 (a : vec) (k : Z) : vec := map (srl32 (imm8 k)) a.
(* _mm512_set1_epi64 (__int64 a): broadcast the 64-bit integer a to all 8 elements *)
Definition mm512_set1_epi64 (a : Z) : vec := of64 (repeat (bits64 a) 8).
(* _mm512_set_epi64 (e7, ..., e0): dst[63:0] := e0 *)
Definition mm512_set_epi64 (e7 e6 e5 e4 e3 e2 e1 e0 : Z) : vec :=
  of64 [bits64 e0; bits64 e1; bits64 e2; bits64 e3; bits64 e4; bits64 e5; bits64 e6; bits64 e7].
(* _mm512_setr_epi64 (e7, ..., e0): reverse order, dst[63:0] := e7 (the first argument) *)
Definition mm512_setr_epi64 (e7 e6 e5 e4 e3 e2 e1 e0 : Z) : vec :=
  of64 [bits64 e7; bits64 e6; bits64 e5; bits64 e4; bits64 e3; bits64 e2; bits64 e1; bits64 e0].
(* _mm512_add_epi64 (a, b): dst[j] := a[j] + b[j] on the eight 64-bit elements, 64-bit wrap *)
Definition mm512_add_epi64 (a b : vec) : vec := of64 (vmap2 add64 (to64 a) (to64 b)).
(* _mm512_srli_epi64 (a, unsigned int imm8): IF imm8[7:0] > 63 THEN 0 ELSE ZeroExtend64(a[j] >> imm8[7:0]) *)
Definition mm512_srli_epi64 (a : vec) (k : Z) : vec := of64 (map (srl64 (imm8 k)) (to64 a)).
(* _mm512_cvtepi64_epi32 (a): __m512i -> __m256i, dst[i] := Truncate32(a[j]) for the eight 64-bit elements *)
Definition mm512_cvtepi64_epi32 (a : vec) : vec := map w32 (to64 a).

Definition kmask := list bool.
Definition vcmpmask (f : N -> N -> bool) (a b : vec) : kmask :=
  map (fun p => f (fst p) (snd p)) (combine a b).
(* _mm512_cmplt_epi32_mask (a, b): k[i] := a[i] < b[i], SIGNED *)
Definition mm512_cmplt_epi32_mask : vec -> vec -> kmask :=
  vcmpmask (fun a b => (to_signed32 a <? to_signed32 b)%Z).
(* _mm512_cmpgt_epi32_mask (a, b): k[i] := a[i] > b[i], SIGNED *)
Definition mm512_cmpgt_epi32_mask : vec -> vec -> kmask :=
  vcmpmask (fun a b => (to_signed32 b <? to_signed32 a)%Z).
(* _mm512_cmplt_epu32_mask (a, b): k[i] := a[i] < b[i], UNSIGNED *)
Definition mm512_cmplt_epu32_mask : vec -> vec -> kmask := vcmpmask N.ltb.
(* _mm512_cmpgt_epu32_mask (a, b): k[i] := a[i] > b[i], UNSIGNED *)
Definition mm512_cmpgt_epu32_mask : vec -> vec -> kmask := vcmpmask (fun a b => b <? a).
(* _mm512_maskz_set1_epi32 (__mmask16 k, int a): dst[i] := k[i] ? a : 0 *)
Definition mm512_maskz_set1_epi32 (k : kmask) (a : Z) : vec := map (fun b : bool => if b then bits32 a else 0) k.
(* _mm512_mask_set1_epi32 (src, __mmask16 k, int a): dst[i] := k[i] ? a : src[i] *)
Definition mm512_mask_set1_epi32 (s : vec) (k : kmask) (a : Z) : vec :=
  map (fun p : N * bool => if snd p then bits32 a else fst p) (combine s k).
(* _mm512_movm_epi32 (__mmask16 k) (AVX512DQ): dst[i] := k[i] ? 0xFFFFFFFF : 0 *)
Definition mm512_movm_epi32 (k : kmask) : vec := map (fun b : bool => if b then mask32 else 0) k.
