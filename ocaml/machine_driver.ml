(* placeholder until the history machine is extracted *)
let run_case (k : string) (_ : string list) : string list = failwith ("unknown case kind " ^ k)
