#!/usr/bin/env python3
"""Side module of tools/gen_coq.py: coq/gen/GenKern2.v (property C05).

What is translated here (everything else of the intrinsics kernels is in GenCounters.v / GenRounds.v / GenRows.v /
GenCascades.v, produced by gen_coq.py):

  (1) the WHOLE body of hash4 / hash8 / hash16 of every intrinsics back end (src/rust_sse2.rs, src/rust_sse41.rs,
      src/rust_avx2.rs, c/blake3_sse2.c, c/blake3_sse41.c, c/blake3_avx2.c, c/blake3_avx512.c), statement by statement:
      the key broadcast, the load_counters call, the block_flags bookkeeping, the `for block` loop, the final transposes
      and every store to `out`.
  (2) blake3_xof4/8/16_avx512 (VecFile.xof_function of gen_coq.py, whole bodies) and the four `while` loops of
      blake3_xof_many_avx512 of c/blake3_avx512.c.

Representation
  * the functions already translated in GenCounters.v / GenRounds.v (load_counters*, set1*, transpose_vecs*, the
    per-block body `<prefix>_<fn>_block`) are referenced by those names: the translation units are replayed with
    gen_coq's own _translate_counters / _translate_rounds (so every anchor of those generators is re-checked here) and
    only what is new is emitted, under the prefix k2_<file prefix>.
  * `for block in 0..blocks` / `for (size_t block = 0; block < blocks; block++)` is `fold_left` over `seq 0 blocks`;
    the state is (h_vecs, block_flags): the array the body stores into and the u8 variables it assigns.  The body must
    be  <u8 statements>  <the vector statements translated as `_block` in GenRounds.v>  <u8 statements>; the u8
    statements (`if a == b { x |= e }`, `x = e`, `x |= e`) are translated from the text.
  * u8 values are N; `a | b` on u8 is N.lor (C: the integer promotions and the conversion back to uint8_t are the
    identity on values below 256); usize / size_t loop counters and offsets are nat, as in GenRounds.v.
  * `key: &CVWords` / `const uint32_t key[8]` is a list of words, `key[k]` is `nth k key 0`.
  * `out` is the byte list the pointer points to; `storeu(e, out.as_mut_ptr().add(off))` / `storeu(e, &out[off])` rebinds
    it (Model/Intrinsics.v mm*_storeu_*); the function's result is the final `out` (Rust: in `res`, because the Rust
    load_counters is checked arithmetic).
  * blake3_xof_many_avx512: each `while` is a Fixpoint on explicit fuel (OutOfFuel when the condition still holds at
    fuel 0); uint64_t / size_t `+=` / `-=` wrap at 2^64; `out` is an output cursor: a callee declared `uint8_t out[K]`
    receives the first K bytes at the cursor and the value it returns is appended to `out_w`; the translator checks
    that the call is followed, in the same loop body, by `out += K` with the same K (then out_w is exactly what was
    written, in order).  The result of the function is out_w.
Anything that is not one of these shapes raises AnchorError.
"""
import os
import re
import sys

sys.path.insert(0, os.path.dirname(os.path.abspath(__file__)))
import gen_coq as G                                            # noqa: E402

AnchorError = G.AnchorError
READ = G.READ
from gen_coq import AnchorError, VecFile, vparse, _split_top, fn_body, src, strip_comments, find1  # noqa: E402

# file, lang, prefix, [(hashN, lanes, load_counters, block-body name)]
HASH_FILES = [(rel, lang, prefix, [(g[3], g[4]) for g in groups]) for rel, lang, prefix, groups in G.ROUND_FILES]
LC_OF = {("c/blake3_avx512.c", 4): "load_counters4", ("c/blake3_avx512.c", 8): "load_counters8",
         ("c/blake3_avx512.c", 16): "load_counters16"}
XOF_MANY = ("c/blake3_avx512.c", "blake3_xof_many_avx512",
            [("blake3_xof16_avx512", 16), ("blake3_xof8_avx512", 8), ("blake3_xof4_avx512", 4),
             ("blake3_compress_xof_avx512", 1)])

# intrinsics that only the code translated here uses (semantics: Model/Intrinsics2.v)
EXTRA_INTRINSICS = {"_mm512_castsi512_si256": ("mm512_castsi512_si256", [("v", 16)], ("v", 8))}
MASK_STORES = {"_mm256_mask_storeu_epi32": ("mm256_mask_storeu_epi32", 8)}


class K2File(VecFile):
    def rs_nat(self, ast, want, env, name, items):
        if (ast[0] == "index" and ast[1][0] == "var" and ast[1][1] in env and env[ast[1][1]][1] == "words"
                and ast[2][0] == "num" and want == 32):
            x, k = ast[1][1], ast[2][1]                         # key[k]: an element of a &CVWords
            if not k < env[x][0][1]:
                raise AnchorError(f"{name}: index {k} out of the bounds of {x}")
            return f"(nth {k} {x} 0)"
        return super().rs_nat(ast, want, env, name, items)

    # ---- u8 expressions / statements -------------------------------------------------------------
    def u8expr(self, ast, env, name):
        if ast[0] == "var" and ast[1] in env and env[ast[1]] == (("u", 8), "N"):
            return ast[1]
        if ast[0] == "bin" and ast[1] == "|":
            return f"(N.lor {self.u8expr(ast[2], env, name)} {self.u8expr(ast[3], env, name)})"
        raise AnchorError(f"{name}: unsupported u8 expression {ast!r}")

    def is_u8(self, text, env):
        try:
            self.u8expr(vparse(text, "", self.lang), env, "")
            return True
        except AnchorError:
            return False

    def u8_assign(self, text, env, name):
        """`x |= e` / `x = e` on a mutable u8 variable -> (x, term) or None"""
        m = re.fullmatch(r"([A-Za-z_]\w*)\s*(\|?=)(?!=)\s*(.*)", text, re.S)
        if not m or env.get(m.group(1)) != (("u", 8), "N"):
            return None
        x = m.group(1)
        if x not in self.k2mut:
            raise AnchorError(f"{name}: assignment to the immutable {x}")
        e = self.u8expr(vparse(m.group(3), name, self.lang), env, name)
        return x, (f"(N.lor {x} {e})" if m.group(2) == "|=" else e)

    def scalar_item(self, it, env, name, ind):
        """a u8 statement of the loop body -> ([lines], {assigned}) or None"""
        if it[0] == "stmt":
            r = self.u8_assign(it[1], env, name)
            if r is None:
                return None
            return [f"{ind}let {r[0]} := {r[1]} in\n"], {r[0]}
        if it[0] == "block":
            m = re.fullmatch(r"if \((.*)\)" if self.lang == "c" else r"if (.*)", it[1])
            if not m:
                return None
            c = vparse(m.group(1), name, self.lang)
            if c[0] != "bin" or c[1] != "==":
                raise AnchorError(f"{name}: unsupported condition {m.group(1)!r}")
            cond = f"({self.nat_expr(c[2], env, name)} =? {self.nat_expr(c[3], env, name)})%nat"
            inner = self.split_items(it[2], name)
            if len(inner) != 1 or inner[0][0] != "stmt":
                raise AnchorError(f"{name}: the body of `{it[1]}` is not one assignment")
            r = self.u8_assign(inner[0][1], env, name)
            if r is None:
                raise AnchorError(f"{name}: the body of `{it[1]}` is not a u8 assignment: {inner[0][1]!r}")
            return [f"{ind}let {r[0]} := if {cond} then {r[1]} else {r[0]} in\n"], {r[0]}
        return None

    def is_vector_item(self, it, env):
        """statements that hash_outer_ does not handle itself: left to VecFile.region (which rejects what it does not know)"""
        if it[0] != "stmt":
            return False
        flat = " ".join(it[1].split())
        if self.lang == "rs":
            if re.fullmatch(r"let \((\w+), (\w+)\) = (\w+)\((\w+), (\w+)\)", flat):
                return False
            m = re.fullmatch(r"let (mut )?(\w+) = (.*)", flat)
            if m and self.is_u8(m.group(3), env):
                return False
        else:
            if re.fullmatch(r"__m\d+i (\w+), (\w+)", flat) or re.fullmatch(r"uint8_t (\w+) = (.*)", flat):
                return False
            if re.fullmatch(r"(load_counters\w*)\((\w+), (\w+), &(\w+), &(\w+)\)", flat):
                return False
        m = re.fullmatch(r"([A-Za-z_]\w*)\s*(\|?=)(?!=)\s*(.*)", flat, re.S)
        if m and env.get(m.group(1)) == (("u", 8), "N"):
            return False
        m = re.fullmatch(r"(\w+)\((.*)\)", flat)
        if m and (m.group(1) in MASK_STORES or self.storer(m.group(1)) is not None):
            return False
        return True

    # ---- hashN, the whole function ----------------------------------------------------------------
    def hash_outer(self, fname, lanes, lcname, base_prefix):
        name = f"{self.rel}:{fname}"
        rs = self.lang == "rs"
        hdr = (r"\bfn\s+" if rs else r"\bvoid\s+") + re.escape(fname) + r"\s*\(([^()]*)\)\s*\{"
        ms = list(re.finditer(hdr, self.text))
        if len(ms) != 1:
            raise AnchorError(f"anchor {name}: {len(ms)} definitions found")
        params = [" ".join(p.split()) for p in _split_top(ms[0].group(1), ",", name) if p.strip()]
        if rs:
            want = ["inputs: &[*const u8; DEGREE]", "blocks: usize", "key: &CVWords", "counter: u64",
                    "increment_counter: IncrementCounter", "flags: u8", "flags_start: u8", "flags_end: u8",
                    "out: &mut [u8; DEGREE * OUT_LEN]"]
        else:
            want = ["const uint8_t *const *inputs", "size_t blocks", "const uint32_t key[8]", "uint64_t counter",
                    "bool increment_counter", "uint8_t flags", "uint8_t flags_start", "uint8_t flags_end", "uint8_t *out"]
        if params != want:
            raise AnchorError(f"{name}: parameters {params}, expected {want}")
        body = fn_body(self.text, hdr, name).strip()
        if rs:
            if self.const_usize("DEGREE", name) != lanes:
                raise AnchorError(f"{name}: DEGREE is not {lanes}")
            self.rs_cvwords(name)
            self.rs_crate_const("OUT_LEN", name)
            G.rs_increment_counter_yes()
            um = re.fullmatch(r"unsafe\s*\{(.*)\}", body, re.S)
            if um:
                body = um.group(1).strip()
        else:
            find1(r"#\s*include\s+<stdbool\.h>", strip_comments(src("c/blake3_impl.h")), "blake3_impl.h <stdbool.h>")
        blockcoq = f"{base_prefix}_{fname}_block"
        if not any(re.search(r"^Definition " + re.escape(blockcoq) + r"\b", d, re.M) for d in self.order):
            raise AnchorError(f"{name}: the per-block body {blockcoq} was not translated")
        saved, self.rowmeta = getattr(self, "rowmeta", None), {}
        try:
            return self.hash_outer_(fname, lanes, lcname, blockcoq, body, name)
        finally:
            self.rowmeta = saved

    def hash_outer_(self, fname, lanes, lcname, blockcoq, body, name):
        rs = self.lang == "rs"
        vt = {4: "__m128i", 8: "__m256i", 16: "__m512i"}[lanes]
        env = {"inputs": (("pp", lanes if rs else None), "bytes2"), "blocks": (("u", 64), "nat"),
               "key": (("w", 8), "words"), "counter": (("u", 64), "N"), "increment_counter": (("u", 1), "bool"),
               "flags": (("u", 8), "N"), "flags_start": (("u", 8), "N"), "flags_end": (("u", 8), "N"),
               "out": (("b", lanes * 32), "bytes")}
        self.rowmeta["key"] = {"mut": False, "mem": None, "stored": False, "init": True}
        self.rowmeta["out"] = {"mut": True, "mem": "out", "stored": False}
        self.k2mut = set()
        names, lines, nloops = set(env), [], 0
        ind = "  "

        def fresh(x):
            x = self.ident(x, name)
            if x in names:
                raise AnchorError(f"{name}: redeclaration of / name clash on {x}")
            names.add(x)
            return x

        def lc_call(f, a, b, lo, hi):
            if f != lcname:
                raise AnchorError(f"{name}: call of {f}, expected {lcname}")
            coq, kinds, ret, monadic = self.function(lcname, toplevel=True)
            if (env.get(a) != (("u", 64), "N") or env.get(b) != (("u", 1), "bool") or kinds != [("u", 64), ("u", 1)]
                    or ret != [("v", lanes), ("v", lanes)] or monadic != rs or lo == hi):
                raise AnchorError(f"{name}: unsupported call of {lcname}")
            if rs:
                lines.append(f"{ind}'({lo}, {hi}) <- ({coq} {a} {b}) ;;\n")
            else:
                lines.append(f"{ind}let '({lo}, {hi}) := ({coq} {a} {b}) in\n")
            env[lo], env[hi] = (("v", lanes), "V"), (("v", lanes), "V")

        pending = []

        def flush():
            # consecutive vector statements go through VecFile.region together (mut_array_refs! names are local to it)
            if pending:
                lets, tail = self.region(list(pending), env, names, name)
                if tail:
                    raise AnchorError(f"{name}: trailing text {tail!r}")
                lines.extend(f"{ind}let {v} := {e} in\n" for v, e in lets)
                del pending[:]

        for it in self.split_items(body, name):
            flat = " ".join(it[1].split())
            if it[0] == "tail":
                raise AnchorError(f"{name}: trailing text {it[1]!r}")
            if self.is_vector_item(it, env):
                pending.append(it)
                continue
            flush()
            if it[0] == "block":
                hm = (re.fullmatch(r"for (\w+) in 0\.\.(\w+)", it[1]) if rs else
                      re.fullmatch(r"for \(size_t (\w+) = 0; \1 < (\w+); \1\+\+\)", it[1]))
                if not hm:
                    raise AnchorError(f"{name}: unrecognised block {it[1]!r}")
                nloops += 1
                lv, bound = fresh(hm.group(1)), hm.group(2)
                if env.get(bound) != (("u", 64), "nat"):
                    raise AnchorError(f"{name}: loop bound {bound!r}")
                env[lv] = (("u", 64), "nat")
                inner = self.split_items(it[2], name)
                pre, post, mods, i, j = [], [], set(), 0, len(inner)
                ind2 = ind + "    "
                while i < len(inner):
                    r = self.scalar_item(inner[i], env, name, ind2)
                    if r is None:
                        break
                    pre.extend(r[0])
                    mods |= r[1]
                    i += 1
                tails = []
                while j > i:
                    r = self.scalar_item(inner[j - 1], env, name, ind2)
                    if r is None:
                        break
                    tails.insert(0, r)
                    j -= 1
                for r in tails:
                    post.extend(r[0])
                    mods |= r[1]
                # the vector statements in between are what gen_coq.py hash_block translated as <fn>_block (it
                # takes inner[1:-1] of a loop of exactly this shape, over the variables named below)
                if (i, j) != (1, len(inner) - 1) or lv != "block":
                    raise AnchorError(f"{name}: the loop body is not  <one u8 statement> <block body> <one u8 statement>")
                if not (env.get("h_vecs", (None,))[0] == ("a", lanes, 8) and env["h_vecs"][1]["whole"] == "h_vecs"
                        and env["h_vecs"][1]["mut"]
                        and env.get("counter_low_vec") == (("v", lanes), "V") and env.get("counter_high_vec") == (("v", lanes), "V")
                        and env.get("block_flags") == (("u", 8), "N")):
                    raise AnchorError(f"{name}: the variables of the block body are not in scope as expected")
                if mods != {"block_flags"}:
                    raise AnchorError(f"{name}: the loop assigns {sorted(mods)}, expected block_flags only")
                lines.append(f"{ind}let '(h_vecs, block_flags) :=\n"
                             f"{ind}  fold_left (fun (st : list vec * N) ({lv} : nat) =>\n"
                             f"{ind2}let '(h_vecs, block_flags) := st in\n" + "".join(pre) +
                             f"{ind2}let h_vecs := ({blockcoq} h_vecs counter_low_vec counter_high_vec block_flags inputs {lv}) in\n"
                             + "".join(post) +
                             f"{ind2}(h_vecs, block_flags)) (seq 0 {bound}) (h_vecs, block_flags) in\n")
                del env[lv]
                st = env["h_vecs"][1]
                st["whole"], st["cur"] = "h_vecs", None
                continue
            # ---- statements -------------------------------------------------------------------
            if rs:
                m = re.fullmatch(r"let \((\w+), (\w+)\) = (\w+)\((\w+), (\w+)\)", flat)
                if m:
                    lo, hi = fresh(m.group(1)), fresh(m.group(2))
                    lc_call(m.group(3), m.group(4), m.group(5), lo, hi)
                    continue
                m = re.fullmatch(r"let (mut )?(\w+) = (.*)", flat)
                if m and self.is_u8(m.group(3), env):
                    x = fresh(m.group(2))
                    lines.append(f"{ind}let {x} := {self.u8expr(vparse(m.group(3), name, 'rs'), env, name)} in\n")
                    env[x] = (("u", 8), "N")
                    if m.group(1):
                        self.k2mut.add(x)
                    continue
            else:
                m = re.fullmatch(re.escape(vt) + r" (\w+), (\w+)", flat)
                if m:
                    for x in (m.group(1), m.group(2)):
                        env[fresh(x)] = (("v", lanes), "U")
                    continue
                m = re.fullmatch(r"(\w+)\((\w+), (\w+), &(\w+), &(\w+)\)", flat)
                if m and m.group(1).startswith("load_counters"):
                    lo, hi = m.group(4), m.group(5)
                    if env.get(lo) != (("v", lanes), "U") or env.get(hi) != (("v", lanes), "U"):
                        raise AnchorError(f"{name}: {flat!r}: the outputs are not declared, unassigned registers")
                    lc_call(m.group(1), m.group(2), m.group(3), lo, hi)
                    continue
                m = re.fullmatch(r"uint8_t (\w+) = (.*)", flat)
                if m:
                    x = fresh(m.group(1))
                    lines.append(f"{ind}let {x} := {self.u8expr(vparse(m.group(2), name, 'c'), env, name)} in\n")
                    env[x] = (("u", 8), "N")
                    self.k2mut.add(x)
                    continue
            r = self.u8_assign(it[1], env, name)
            if r is not None:
                lines.append(f"{ind}let {r[0]} := {r[1]} in\n")
                continue
            m = re.fullmatch(r"(\w+)\((.*)\)", flat)
            if m and (m.group(1) in MASK_STORES or self.storer(m.group(1)) is not None):
                args = [a for a in _split_top(m.group(2), ",", name) if a.strip()]
                if m.group(1) in MASK_STORES:
                    coq, ln = MASK_STORES[m.group(1)]
                    if len(args) != 3 or self.lang != "c":
                        raise AnchorError(f"{name}: unsupported store {flat!r}")
                    self.used.add(m.group(1))
                    ptr, val = args[0], args[2]
                    k = self.c_conv(*self.c_scalar(vparse(args[1], name, "c"), env, name), ("u", 8))
                else:
                    coq, ln = self.storer(m.group(1))
                    if len(args) != 2:
                        raise AnchorError(f"{name}: unsupported store {flat!r}")
                    val, ptr, k = args[0], args[1], None
                e, kind = self.vexpr(vparse(val, name, self.lang), env, name)
                past = vparse(ptr, name, self.lang)
                if kind != ("v", ln):
                    raise AnchorError(f"{name}: {flat!r}: value of kind {kind}")
                tgt = past[2][1] if (past[0] == "un" and past[1] == "&" and past[2][0] == "index") else \
                    (past[1][1] if (past[0] == "meth" and past[1][0] == "meth") else None)
                if tgt != ("var", "out"):
                    raise AnchorError(f"{name}: {flat!r}: not a store to out")
                buf, off = self.ptr_expr(past, env, name, store=True)
                if k is None:
                    lines.append(f"{ind}let out := ({coq} {e} {buf} {off}) in\n")
                else:
                    lines.append(f"{ind}let out := ({coq} {buf} {off} {k} {e}) in\n")
                continue
            raise AnchorError(f"{name}: unrecognised statement {flat!r}")
        flush()
        if nloops != 1:
            raise AnchorError(f"{name}: {nloops} loops, expected one")
        coq = f"{self.prefix}_{fname}"
        d = (f"(* {self.rel}: {fname}, the whole function *)\n"
             f"Definition {coq} (inputs : list (list N)) (blocks : nat) (key : list N) (counter : N) (increment_counter : bool)\n"
             f"    (flags flags_start flags_end : N) (out : list N) : {'res (list N)' if rs else 'list N'} :=\n")
        d += "".join(lines) + ("  Ok out.\n" if rs else "  out.\n")
        self.order.append(d)
        return coq

    # ---- blake3_xof_many_avx512 -------------------------------------------------------------------
    def xof_many(self, fname, callees, xof1_coq):
        """callees: [(C name, blocks per call)] in source order; the last one is the single-block compress_xof, whose
           translation (GenRows.v) is referenced as xof1_coq"""
        name = f"{self.rel}:{fname}"
        hdr = (r"\bvoid\s+" + re.escape(fname) + r"\s*\(\s*const\s+uint32_t\s+cv\s*\[\s*8\s*\]\s*,\s*const\s+uint8_t\s+block\s*"
               r"\[\s*BLAKE3_BLOCK_LEN\s*\]\s*,\s*uint8_t\s+block_len\s*,\s*uint64_t\s+counter\s*,\s*uint8_t\s+flags\s*,"
               r"\s*uint8_t\s*\*\s*out\s*,\s*size_t\s+outblocks\s*\)\s*\{")
        ms = list(re.finditer(hdr, self.text))
        if len(ms) != 1:
            raise AnchorError(f"anchor {name}: {len(ms)} definitions with the expected parameter list found")
        self.c_scalar(("var", "BLAKE3_BLOCK_LEN"), {}, name)
        items = self.split_items(fn_body(self.text, hdr, name).strip(), name)
        if len(items) != len(callees):
            raise AnchorError(f"{name}: {len(items)} top-level items, expected {len(callees)} loops")
        defs, calls = [], []
        pfx = f"{self.prefix}_{fname}"
        for n, (it, (callee, deg)) in enumerate(zip(items, callees), 1):
            if it[0] != "block":
                raise AnchorError(f"{name}: item {n} is not a loop")
            hm = re.fullmatch(r"while \(outblocks (>=|>) (\d+)\)", it[1])
            if not hm:
                raise AnchorError(f"{name}: unrecognised loop header {it[1]!r}")
            cond = f"({hm.group(2)} <=? outblocks)" if hm.group(1) == ">=" else f"({hm.group(2)} <? outblocks)"
            inner = self.split_items(it[2], name)
            if any(x[0] != "stmt" for x in inner):
                raise AnchorError(f"{name}: loop {n}: unsupported body")
            lines, wrote = [], None                      # wrote: bytes written at the cursor and not yet advanced over
            for x in inner:
                flat = " ".join(x[1].split())
                m = re.fullmatch(r"(\w+)\(cv, block, block_len, counter, flags, out\)", flat)
                if m:
                    if m.group(1) != callee or wrote is not None:
                        raise AnchorError(f"{name}: loop {n}: call {flat!r}, expected {callee}")
                    # the callee's declaration: `uint8_t out[K]`
                    cm = re.search(r"\bvoid\s+" + re.escape(callee) + r"\s*\([^()]*\buint8_t\s+out\s*\[([^\]]*)\]\s*\)", self.text)
                    if not cm:
                        raise AnchorError(f"{name}: declaration of {callee} with `uint8_t out[K]` not found")
                    size = " ".join(cm.group(1).split())
                    km = re.fullmatch(r"(\d+) \* 64|64", size)
                    if not km or int(km.group(1) or 1) != deg:
                        raise AnchorError(f"{name}: {callee} fills out[{size}], expected {deg} * 64")
                    wrote = deg * 64
                    coq = xof1_coq if deg == 1 else f"{self.prefix}_{callee}"
                    lines.append(f"      let out_w := out_w ++ ({coq} cv block block_len counter flags (firstn {wrote} out)) in\n")
                    continue
                m = re.fullmatch(r"(counter|outblocks) (\+=|-=) (\d+)", flat)
                if m:
                    op = "c_wadd64" if m.group(2) == "+=" else "c_wsub64"
                    lines.append(f"      let {m.group(1)} := ({op} {m.group(1)} {m.group(3)}) in\n")
                    continue
                m = re.fullmatch(r"out \+= (?:(\d+) \* )?BLAKE3_BLOCK_LEN", flat)
                if m:
                    k = int(m.group(1) or 1) * 64
                    if wrote != k:
                        raise AnchorError(f"{name}: loop {n}: `{flat}` does not advance over the {wrote} bytes just written")
                    wrote = None
                    lines.append(f"      let out := skipn ({m.group(1) or 1} * N.to_nat c_BLOCK_LEN) out in\n")
                    continue
                raise AnchorError(f"{name}: loop {n}: unrecognised statement {flat!r}")
            if wrote is not None or not any("out_w ++" in ln for ln in lines):
                raise AnchorError(f"{name}: loop {n}: the output cursor discipline is not met")
            loop = f"{pfx}_loop{n}"
            defs.append(f"(* {self.rel}: {fname}, loop {n}: `{it[1]}` *)\n"
                        f"Fixpoint {loop} (fuel : nat) (cv block : list N) (block_len counter flags : N) (out : list N) (outblocks : N)\n"
                        f"    (out_w : list N) : res (N * list N * N * list N) :=\n"
                        f"  if {cond} then\n    match fuel with\n    | O => OutOfFuel\n    | S fuel =>\n" + "".join(lines) +
                        f"      {loop} fuel cv block block_len counter flags out outblocks out_w\n    end\n"
                        f"  else Ok (counter, out, outblocks, out_w).\n")
            calls.append(f"  '(counter, out, outblocks, out_w) <- {loop} fuel cv block block_len counter flags out outblocks out_w ;;\n")
        self.order.extend(defs)
        self.order.append(f"(* {self.rel}: {fname} *)\n"
                          f"Definition {pfx} (fuel : nat) (cv block : list N) (block_len counter flags : N) (out : list N) (outblocks : N)\n"
                          f"    : res (list N) :=\n  let out_w := [] in\n" + "".join(calls) + "  Ok out_w.\n")
        return pfx


HEADER = r"""(* GENERATED by tools/gen_coq_kern2.py (gen_kern2, hooked into tools/gen_coq.py) from the /repo working tree. Do not edit.
   (1) hash4 / hash8 / hash16 of every C-intrinsics and Rust-intrinsics back end, the WHOLE function, statement by
   statement: key broadcast, load_counters, block_flags, the `for block` loop (fold_left over seq 0 blocks; its vector
   statements are the <fn>_block of gen/GenRounds.v), the final transposes and the stores to `out` (the result).
   (2) blake3_xof4/8/16_avx512 (whole bodies, loops unrolled) and blake3_xof_many_avx512 (each `while` a Fixpoint on fuel;
   the result is the list of bytes written through the output cursor, in order).
   Conventions: see the head of tools/gen_coq_kern2.py.  u8 values are N and `|` is N.lor; usize / size_t loop counters
   and byte offsets are nat; a byte pointer is (byte list, offset). *)
From Coq Require Import NArith ZArith List.
From V Require Import Base.Res Base.Word Base.Arr Base.MachInt gen.GenConsts gen.GenFormulas Model.Kernels Model.Intrinsics
  Model.Intrinsics2 gen.GenCounters gen.GenRounds gen.GenRows.
Import ListNotations.
Open Scope N_scope.

(* uint64_t / size_t `+=` / `-=`: wrap at 2^64 *)
Definition c_wadd64 (a b : N) : N := N.land (a + b) (N.ones 64).
Definition c_wsub64 (a b : N) : N := N.land (a + 18446744073709551616 - N.land b (N.ones 64)) (N.ones 64).

"""


def gen_kern2(with_xof=True):
    saved = (dict(G.INTRINSICS), dict(G.C_SCALAR), set(G.C_TYPEWORDS))
    G.INTRINSICS.update(EXTRA_INTRINSICS)
    G.C_SCALAR["__mmask8"] = ("u", 8)                          # immintrin.h: typedef unsigned char __mmask8
    G.C_TYPEWORDS.add("__mmask8")
    try:
        return _gen_kern2(with_xof)
    finally:
        G.INTRINSICS.clear()
        G.INTRINSICS.update(saved[0])
        G.C_SCALAR.clear()
        G.C_SCALAR.update(saved[1])
        G.C_TYPEWORDS.clear()
        G.C_TYPEWORDS.update(saved[2])


def _gen_kern2(with_xof):
    out, names, used = [HEADER], [], set()
    hdr = VecFile("c/blake3_impl.h", "c", "k2_c_impl")
    chunks = []
    for rel, lang, prefix, fns in HASH_FILES:
        vf = K2File(rel, lang, prefix)
        vf.header = hdr
        for r in G.COUNTER_FILES:
            if r[0] == rel:
                G._translate_counters(vf, r[3])
        for r in G.ROUND_FILES:
            if r[0] == rel:
                G._translate_rounds(vf, r[3])
        n0 = len(vf.order)                  # everything before: the definitions of GenCounters.v / GenRounds.v
        vf.used, vf.prefix = set(), "k2_" + prefix
        for fname, lanes in fns:
            lc = LC_OF.get((rel, lanes), "load_counters")
            names.append(vf.hash_outer(fname, lanes, lc, prefix))
        if with_xof and rel == XOF_MANY[0]:
            found = sorted(set(re.findall(r"\bvoid\s+(blake3_xof\w*)\s*\(", vf.text)))
            want = sorted([f for f, _, _ in G.XOF_FUNCTIONS] + [XOF_MANY[1]])
            if found != want:
                raise AnchorError(f"{rel}: xof functions {found}, expected {want}")
            for f, lanes, lc in G.XOF_FUNCTIONS:
                names.append(vf.xof_function(f, lanes, lc))
            names.append(vf.xof_many(XOF_MANY[1], XOF_MANY[2], "c_avx512_blake3_compress_xof_avx512"))
        chunks.append("".join(d + "\n" for d in vf.order[n0:]))
        used |= vf.used
    out.extend(d + "\n" for d in hdr.order)
    out.extend(chunks)
    out.append("(* translated functions: " + ", ".join(names) + " *)\n")
    out.append("(* intrinsics that occur (besides those of the callees of GenCounters.v / GenRounds.v): " + ", ".join(sorted(used)) + " *)\n")
    return "".join(out)


if __name__ == "__main__":
    try:
        text = gen_kern2()
    except AnchorError as e:
        print("AnchorError:", e)
        sys.exit(1)
    path = os.path.join(G.OUT, "GenKern2.v")
    changed = G.write_if_changed(path, text)
    print(("written " if changed else "unchanged ") + path)
