(* C04: results do not depend on SIMD level, build flavour or feature set.
   Statements only; proofs in Proofs/C04P.v (corollaries of C01/C02/C03/C09) and
   Proofs/KernelsP.v (PlatformOK of the modelled kernels).  A "platform" is the record
   (SIMD degree, MAX_SIMD_DEGREE, four kernels); PlatformOK says the kernels equal the
   portable ones on their domain and the degree is a power of two <= MAX_SIMD_DEGREE <= 16. *)
From Coq Require Import NArith List Bool.
From V Require Import Base.Res Base.Word Spec.Tree Spec.Blake3 Model.Platform Model.Kernels Model.RsChunk Model.RsWide
  Model.RsHasher Model.RsXof Model.Machine Proofs.KernelsP Proofs.XofP Proofs.IoP Proofs.HasherP Proofs.C02P Proofs.C04P Model.SpecMachine Proofs.MachineRefinesP.
Import ListNotations.
Open Scope N_scope.

Theorem C04_hash : forall p1 p2 input, PlatformOK p1 -> PlatformOK p2 -> len input < 2 ^ 64 ->
  rs_hash p1 input = rs_hash p2 input.
Proof. exact hash_platform_independent. Qed.

Theorem C04_keyed_hash : forall p1 p2 key input, PlatformOK p1 -> PlatformOK p2 -> length key = 32%nat -> len input < 2 ^ 64 ->
  rs_keyed_hash p1 key input = rs_keyed_hash p2 key input.
Proof. exact keyed_hash_platform_independent. Qed.

Theorem C04_derive_key : forall p1 p2 ctx material, PlatformOK p1 -> PlatformOK p2 ->
  len ctx < 2 ^ 64 -> len material < 2 ^ 64 -> rs_derive_key p1 ctx material = rs_derive_key p2 ctx material.
Proof. exact derive_key_platform_independent. Qed.

Theorem C04_histories : forall p1 p2 K F pn1 pn2 m ops hs1 hs2 rs1 rs2 vs1 vs2 abs obs,
  PlatformOK p1 -> PlatformOK p2 -> length K = 8%nat ->
  Forall2 (InvS K F 0) hs1 abs -> Forall2 (InvS K F 0) hs2 abs -> arun_h K F abs ops = Some obs ->
  fst (run_ops p1 pn1 m K F (mkState hs1 rs1 vs1) (map hop_op ops) []) =
  fst (run_ops p2 pn2 m K F (mkState hs2 rs2 vs2) (map hop_op ops) []).
Proof. exact history_platform_independent. Qed.

Theorem C04_extended_output : forall p1 p2 ops r1 r2 o pos obs,
  PlatformOK p1 -> PlatformOK p2 -> Rd r1 o pos -> Rd r2 o pos -> pos <= max_pos -> arun o pos ops = Some obs ->
  rrun p1 r1 ops = rrun p2 r2 ops.
Proof. exact reader_platform_independent. Qed.

Theorem C04_subtree_cvs : forall p1 p2 K F c0 pieces,
  PlatformOK p1 -> PlatformOK p2 -> length K = 8%nat ->
  c0 < 2 ^ 54 -> 0 < len (concat pieces) -> len (concat pieces) <= 1024 * lim_of c0 -> len (concat pieces) < 2 ^ 64 ->
  exists h1 h2 cv, updates p1 (fresh K F c0) pieces = Ok h1 /\ updates p2 (fresh K F c0) pieces = Ok h2 /\
                   finalize_non_root p1 h1 = Ok cv /\ finalize_non_root p2 h2 = Ok cv.
Proof. exact subtree_cv_platform_independent. Qed.

(* the hypothesis holds for every modelled instruction-set level (kernel algorithms of C05)
   and for the portable kernels at every degree / MAX_SIMD_DEGREE the build scripts can produce *)
Theorem C04_platforms_ok :
  PlatformOK sse2_platform /\ PlatformOK sse41_platform /\ PlatformOK avx2_platform /\ PlatformOK avx512_platform /\
  PlatformOK sse41_ffi_platform /\ PlatformOK avx2_ffi_platform /\
  PlatformOK (sim_platform 1 16) /\ PlatformOK (sim_platform 1 8) /\ PlatformOK (sim_platform 1 1) /\
  PlatformOK (sim_platform 4 8) /\ PlatformOK (sim_platform 8 8).
Proof.
  split; [exact sse2_platform_ok|]. split; [exact sse41_platform_ok|]. split; [exact avx2_platform_ok|].
  split; [exact avx512_platform_ok|]. split; [exact sse41_ffi_platform_ok|]. split; [exact avx2_ffi_platform_ok|].
  repeat split; apply sim_platform_ok; (reflexivity || (intro H; discriminate H)).
Qed.

Example C04_nonvacuous :
  let input := map (fun i => N.of_nat i mod 251) (seq 0 5000) in
  rs_hash sse41_platform input = rs_hash avx512_platform input /\ rs_hash avx2_platform input = rs_hash (sim_platform 1 16) input.
Proof. vm_compute. split; reflexivity. Qed.

(* whole histories over the case language (hashers, readers, offsets, merges, trait operations): any two PlatformOK
   platforms produce identical observation sequences *)
Theorem C04_machine_platform_independent : forall p1 p2, PlatformOK p1 -> PlatformOK p2 -> forall pn1 pn2 m ops obs,
  mode_ok m -> spec_run_case m ops = Some obs ->
  Machine.run_case p1 pn1 m ops = Machine.run_case p2 pn2 m ops.
Proof. exact machine_platform_independent. Qed.

Print Assumptions C04_hash.
Print Assumptions C04_machine_platform_independent.
Print Assumptions C04_keyed_hash.
Print Assumptions C04_derive_key.
Print Assumptions C04_histories.
Print Assumptions C04_extended_output.
Print Assumptions C04_subtree_cvs.
Print Assumptions C04_platforms_ok.
