(* The reference implementation as TRANSLATED from the source text (gen/GenRefImpl.v: fn g, round, permute,
   compress, first_8_words, words_from_little_endian_bytes, Output::chaining_value, ChunkState::len / start_flag,
   parent_output, parent_cv of reference_impl/reference_impl.rs, statement by statement) equals the hand-written
   model Model/RefImpl.v, for all arguments.  Array lengths (the declared types) are the only hypotheses on arrays;
   u8 fields are below 256.  Nothing is evaluated on particular inputs.
   The model's `Ok` results (its no-panic claims: the index m[MSG_PERMUTATION[i]], the debug_assert of
   words_from_little_endian_bytes) are part of the statements. *)
From Coq Require Import NArith List Bool Lia Arith.
From V Require Import Base.Res Base.Word Base.MachInt Base.Arr gen.GenConsts gen.GenRefImpl
  Spec.Compress Model.RefImpl Proofs.PortableP Proofs.FormulasP Proofs.RefCompressP.
Import ListNotations.
Open Scope N_scope.

Tactic Notation "destruct_list" ident(l) integer(n) :=
  do n (destruct l as [|? l]; [discriminate|]); destruct l; [|discriminate].

(* the model's array primitives are Base/Arr.v's *)
Lemma upd_arr_set (l : list N) i v : upd l i v = arr_set l i v.
Proof.
  revert i. induction l as [|h tl IH]; intros [|i]; cbn [upd arr_set]; try reflexivity.
  rewrite IH. reflexivity.
Qed.

Lemma idx_arr_get l i : idx l i = arr_get l i.
Proof. reflexivity. Qed.

Lemma fold_left_ext {A B} (f g : A -> B -> A) (l : list B) :
  (forall a b, f a b = g a b) -> forall a, fold_left f l a = fold_left g l a.
Proof.
  intros H. induction l as [|x l IH]; intros a; cbn [fold_left]; [reflexivity|].
  rewrite H. apply IH.
Qed.

Lemma Ok_inj {A} (a b : A) : Ok a = Ok b -> a = b.
Proof. intros H. injection H. auto. Qed.

(* ---------- fn g: the eight statements, any state, any indices ---------- *)
Lemma refsrc_g_eq s a b c d mx my : refsrc_g s a b c d mx my = ref_g s a b c d mx my.
Proof.
  unfold refsrc_g, ref_g, idx. cbv zeta. rewrite !upd_arr_set. reflexivity.
Qed.

(* ---------- fn round: the eight calls of g with their indices ---------- *)
Lemma refsrc_round_eq s m : refsrc_round s m = ref_round s m.
Proof.
  unfold refsrc_round, ref_round. cbv zeta. rewrite !refsrc_g_eq. reflexivity.
Qed.

(* ---------- fn permute: the loop over MSG_PERMUTATION ---------- *)
Lemma refsrc_permute_eq m : length m = 16%nat -> ref_permute m = Ok (refsrc_permute m).
Proof. intros H. destruct_list m 16. reflexivity. Qed.

Lemma refsrc_permute_length m : length (refsrc_permute m) = 16%nat.
Proof. reflexivity. Qed.

(* and, without the model in between, the specification's permutation *)
Lemma refsrc_permute_is_spec m : length m = 16%nat -> refsrc_permute m = Compress.permute m.
Proof. intros H. destruct_list m 16. reflexivity. Qed.

(* ---------- fn compress ---------- *)
Lemma refsrc_compress_eq cv bw ctr bl fl : length cv = 8%nat -> length bw = 16%nat ->
  ref_compress cv bw ctr bl fl = Ok (refsrc_compress cv bw ctr bl fl).
Proof.
  intros Hcv Hbw. unfold ref_compress. cbv zeta.
  rewrite (refsrc_permute_eq bw) by assumption. cbn [bind].
  do 5 (rewrite refsrc_permute_eq by apply refsrc_permute_length; cbn [bind]).
  apply (f_equal (@Ok (list N))). unfold refsrc_compress. cbv zeta. rewrite !refsrc_round_eq.
  unfold ref_feed_forward.
  rewrite (fold_left_ext
             (fun st i => let st := upd st i (xor32 (idx st i) (idx st (i + 8))) in
                          upd st (i + 8) (xor32 (idx st (i + 8)) (idx cv i)))
             (fun (state : list N) (i : nat) =>
                let state := arr_set state i (xor32 (arr_get state i) (arr_get state (i + 8))) in
                let state := arr_set state (i + 8) (xor32 (arr_get state (i + 8)) (arr_get cv i)) in
                state)).
  - (* the sequence of round / permute steps is compared with round and permute abstracted: a source whose steps
       differ from the model's fails at once instead of sending the unifier into the round function *)
    generalize ref_round, refsrc_permute. intros R P. reflexivity.
  - intros st i. cbv zeta. rewrite !upd_arr_set. reflexivity.
Qed.

Lemma refsrc_compress_length cv bw ctr bl fl : length (refsrc_compress cv bw ctr bl fl) = 16%nat.
Proof.
  unfold refsrc_compress. cbv zeta.
  match goal with |- length (fold_left ?f _ ?s) = _ =>
    assert (Hf : forall l st, length (fold_left f l st) = length st);
    [|rewrite Hf] end.
  { induction l as [|x l IH]; intros st; cbn [fold_left]; [reflexivity|].
    rewrite IH. cbv zeta. rewrite !arr_set_length. reflexivity. }
  rewrite !refsrc_round_eq.
  repeat match goal with
         | |- length (ref_round ?s ?m) = _ =>
             let H := fresh in
             assert (H : forall s m, length s = 16%nat -> length (ref_round s m) = 16%nat);
             [clear; intros s m Hs; destruct_list s 16; reflexivity | ]
         end.
  repeat apply H. reflexivity.
Qed.

(* the translated compress is the specification's compression function (block given as its 16 words) *)
Lemma refsrc_compress_is_spec cv block ctr bl fl : length cv = 8%nat -> length block = 64%nat ->
  refsrc_compress cv (words_of_bytes block) ctr bl fl = compress cv block bl ctr fl.
Proof.
  intros Hcv Hb.
  assert (Hw : length (words_of_bytes block) = 16%nat) by (apply words_of_bytes_length; rewrite Hb; reflexivity).
  pose proof (refsrc_compress_eq cv (words_of_bytes block) ctr bl fl Hcv Hw) as E.
  rewrite (ref_compress_words_is_spec cv _ block ctr bl fl Hcv Hw eq_refl) in E.
  symmetry. apply Ok_inj. exact E.
Qed.

(* ---------- fn first_8_words ---------- *)
Lemma refsrc_first_8_words_eq w : refsrc_first_8_words w = ref_first_8_words w.
Proof. reflexivity. Qed.

(* ---------- fn words_from_little_endian_bytes: any number of words ---------- *)
Lemma fold_set_spec (v : nat -> N) n : forall w, (n <= length w)%nat ->
  length (fold_left (fun (w : list N) (i : nat) => arr_set w i (v i)) (seq 0 n) w) = length w /\
  forall i, arr_get (fold_left (fun (w : list N) (i : nat) => arr_set w i (v i)) (seq 0 n) w) i =
            if (i <? n)%nat then v i else arr_get w i.
Proof.
  induction n as [|n IH]; intros w H.
  - split; [reflexivity|]. intros i. reflexivity.
  - rewrite seq_S, fold_left_app. cbn [fold_left plus].
    destruct (IH w ltac:(lia)) as [L G]. split.
    + rewrite arr_set_length. exact L.
    + intros i. rewrite arr_get_set by lia. rewrite G.
      destruct (Nat.eqb_spec i n) as [->|Hne].
      * rewrite (proj2 (Nat.ltb_lt n (S n))) by lia. reflexivity.
      * destruct (Nat.ltb_spec i n), (Nat.ltb_spec i (S n)); try lia; reflexivity.
Qed.

Lemma words_of_bytes_get : forall i bytes, (4 * i + 4 <= length bytes)%nat ->
  arr_get (words_of_bytes bytes) i = le_load32 (arr_slice bytes (4 * i) 4).
Proof.
  induction i as [|i IH]; intros bytes H;
    destruct bytes as [|b0 [|b1 [|b2 [|b3 tl]]]]; cbn [length] in H; try lia.
  - reflexivity.
  - replace (4 * S i)%nat with (S (S (S (S (4 * i))))) by lia.
    change (arr_get (words_of_bytes tl) i = le_load32 (arr_slice tl (4 * i) 4)).
    apply IH. lia.
Qed.

Lemma refsrc_words_from_le_bytes_eq bytes words : length bytes = (4 * length words)%nat ->
  refsrc_words_from_little_endian_bytes bytes words = words_of_bytes bytes.
Proof.
  intros H. unfold refsrc_words_from_little_endian_bytes. cbv zeta.
  replace (Nat.min (Nat.div (length bytes) 4) (length words)) with (length words).
  2:{ rewrite H, Nat.mul_comm, Nat.div_mul by lia. lia. }
  destruct (fold_set_spec (fun i => le_load32 (arr_slice bytes (4 * i) 4)) (length words) words (le_n _)) as [L G].
  apply arr_ext.
  - rewrite L. symmetry. apply (words_of_bytes_length (length words)). exact H.
  - intros i Hi. rewrite L in Hi. rewrite G. rewrite (proj2 (Nat.ltb_lt _ _) Hi).
    symmetry. apply words_of_bytes_get. lia.
Qed.

(* the model takes `words` as its length; its assert 1600 is the translated debug_assert_eq! *)
Lemma refsrc_words_from_le_bytes_model bytes words :
  ref_words_from_le_bytes bytes (length words) =
  if refsrc_words_from_little_endian_bytes_debug_assert bytes words
  then Ok (refsrc_words_from_little_endian_bytes bytes words) else Panic 1600.
Proof.
  unfold refsrc_words_from_little_endian_bytes_debug_assert.
  destruct (Nat.eqb_spec (length bytes) (4 * length words)) as [E|E].
  - rewrite (ref_words_from_le_bytes_ok bytes (length words) E).
    rewrite (refsrc_words_from_le_bytes_eq bytes words E). reflexivity.
  - unfold ref_words_from_le_bytes, rlen.
    destruct (N.eqb_spec (N.of_nat (length bytes)) (4 * N.of_nat (length words))) as [E'|E']; [lia|].
    reflexivity.
Qed.

Local Opaque refsrc_compress ref_compress.

(* ---------- struct Output / ChunkState: the translated records against the model's ---------- *)
Definition ro_of_src (o : refsrc_Output) : ref_output :=
  mkRO (refsrc_Output_input_chaining_value o) (refsrc_Output_block_words o) (refsrc_Output_counter o)
       (refsrc_Output_block_len o) (refsrc_Output_flags o).

Definition rcs_of_src (c : refsrc_ChunkState) : ref_chunk_state :=
  mkRCS (refsrc_ChunkState_chaining_value c) (refsrc_ChunkState_chunk_counter c) (refsrc_ChunkState_block c)
        (refsrc_ChunkState_block_len c) (refsrc_ChunkState_blocks_compressed c) (refsrc_ChunkState_flags c).

Lemma refsrc_Output_chaining_value_eq o :
  length (refsrc_Output_input_chaining_value o) = 8%nat -> length (refsrc_Output_block_words o) = 16%nat ->
  ro_chaining_value (ro_of_src o) = Ok (refsrc_Output_chaining_value o).
Proof.
  intros H1 H2. unfold ro_chaining_value, ro_of_src.
  cbn [ro_input_chaining_value ro_block_words ro_counter ro_block_len ro_flags].
  rewrite (refsrc_compress_eq _ _ _ _ _ H1 H2). cbn [bind].
  unfold refsrc_Output_chaining_value. cbv zeta. reflexivity.
Qed.

Lemma refsrc_ChunkState_len_eq c :
  refsrc_ChunkState_blocks_compressed c < 256 -> refsrc_ChunkState_block_len c < 256 ->
  refsrc_ChunkState_len c = Ok (rcs_len (rcs_of_src c)).
Proof.
  intros H1 H2. unfold refsrc_ChunkState_len, rcs_len, rcs_of_src.
  cbn [rcs_blocks_compressed rcs_block_len]. cbv zeta.
  set (bc := refsrc_ChunkState_blocks_compressed c) in *. set (bl := refsrc_ChunkState_block_len c) in *.
  change ref_BLOCK_LEN with 64.
  pose proof two64 as T.
  unfold mu, mb, mi_cast, mi_mul, mi_add, fits. cbn [bind].
  rewrite !cast64_small by lia.
  replace (64 * bc <? 2 ^ 64) with true by (symmetry; apply N.ltb_lt; lia). cbn [bind].
  replace (64 * bc + bl <? 2 ^ 64) with true by (symmetry; apply N.ltb_lt; lia). reflexivity.
Qed.

Lemma refsrc_ChunkState_start_flag_eq c :
  refsrc_ChunkState_start_flag c = Ok (rcs_start_flag (rcs_of_src c)).
Proof.
  unfold refsrc_ChunkState_start_flag, rcs_start_flag, rcs_of_src, mcmp.
  cbn [rcs_blocks_compressed bind]. destruct (refsrc_ChunkState_blocks_compressed c =? 0); reflexivity.
Qed.

(* ---------- fn parent_output, parent_cv ---------- *)
Lemma refsrc_parent_output_eq l r k fl : length l = 8%nat -> length r = 8%nat ->
  ro_of_src (refsrc_parent_output l r k fl) = ref_parent_output l r k fl.
Proof. intros Hl Hr. destruct_list l 8. destruct_list r 8. reflexivity. Qed.

Lemma refsrc_parent_cv_eq l r k fl : length l = 8%nat -> length r = 8%nat -> length k = 8%nat ->
  ref_parent_cv l r k fl = Ok (refsrc_parent_cv l r k fl).
Proof.
  intros Hl Hr Hk. unfold ref_parent_cv, refsrc_parent_cv.
  rewrite <- (refsrc_parent_output_eq l r k fl Hl Hr).
  apply refsrc_Output_chaining_value_eq.
  - exact Hk.
  - destruct_list l 8. destruct_list r 8. reflexivity.
Qed.
