(* C07: stack-frame and callee-saved-register discipline of the hand-written Unix assembly kernels.
   tools/gen_coq.py gen_asm_frames translates every function of c/blake3_{sse2,sse41,avx2,avx512}_x86-64_unix.S into a
   row of gen/GenAsmFrames.v: the prologue's pushes, the frame size N of `sub rsp, N` (and whether `and rsp, -64`
   realigns it), every rsp-based memory operand as (offset, width), the epilogue's pops, and the callee-saved
   general registers that occur as a destination operand.  This file holds the decidable discipline and the small
   machine it is about; Proofs/AsmFrameP.v proves that the discipline implies:
     - every rsp-based access lies in [rsp, rbp): above the stack pointer (never in the red zone) and below the
       saved registers and the return address, for EVERY incoming stack alignment;
     - on return every callee-saved general register holds the caller's value. *)
From Coq Require Import NArith List Bool.
Import ListNotations.
Open Scope N_scope.

Definition frow := (list N * bool * N * list N * list N * list (N * N) * list N)%type.
Definition f_name (r : frow) := let '(n, _, _, _, _, _, _) := r in n.
Definition f_realigned (r : frow) := let '(_, b, _, _, _, _, _) := r in b.
Definition f_frame (r : frow) := let '(_, _, n, _, _, _, _) := r in n.
Definition f_pushes (r : frow) := let '(_, _, _, p, _, _, _) := r in p.
Definition f_pops (r : frow) := let '(_, _, _, _, p, _, _) := r in p.
Definition f_accesses (r : frow) := let '(_, _, _, _, _, a, _) := r in a.
Definition f_written (r : frow) := let '(_, _, _, _, _, _, w) := r in w.

Definition mem (x : N) (l : list N) : bool := existsb (N.eqb x) l.
Fixpoint nodup (l : list N) : bool := match l with [] => true | x :: tl => negb (mem x tl) && nodup tl end.
Fixpoint list_eqb (a b : list N) : bool :=
  match a, b with [], [] => true | x :: a', y :: b' => (x =? y) && list_eqb a' b' | _, _ => false end.

Definition frame_ok (r : frow) : bool :=
  forallb (fun a => fst a + snd a <=? f_frame r) (f_accesses r) &&
  list_eqb (f_pops r) (rev (f_pushes r)) &&
  nodup (f_pushes r) &&
  forallb (fun w => mem w (f_pushes r)) (f_written r).

(* the stack pointer after the prologue: sp0 is rsp after the pushes (the value kept in rbp) *)
Definition frame_sp (realigned : bool) (sp0 n : N) : N :=
  if realigned then (sp0 - n) / 64 * 64 else sp0 - n.

(* registers as a function from register code to value; a push saves, a pop restores *)
Definition regs := N -> N.
Definition set_reg (rg : regs) (r v : N) : regs := fun x => if x =? r then v else rg x.
Fixpoint do_pushes (rg : regs) (ps : list N) (stack : list N) : list N :=
  match ps with [] => stack | r :: tl => do_pushes rg tl (rg r :: stack) end.
Fixpoint do_pops (rg : regs) (ps : list N) (stack : list N) : regs :=
  match ps with
  | [] => rg
  | r :: tl => match stack with v :: st => do_pops (set_reg rg r v) tl st | [] => rg end
  end.

(* ---- Windows-GNU files (Microsoft x64 convention): additionally rsi, rdi and xmm6-xmm15 are callee-saved; the xmm
   registers are saved to slots of the frame by the prologue and reloaded by the epilogue ---- *)
Definition wrow := (list N * bool * N * list N * list N * list (N * N) * list (N * N) * list (N * N) * list N * list N)%type.
Definition w_name (r : wrow) := let '(n, _, _, _, _, _, _, _, _, _) := r in n.
Definition w_frame (r : wrow) := let '(_, _, n, _, _, _, _, _, _, _) := r in n.
Definition w_pushes (r : wrow) := let '(_, _, _, p, _, _, _, _, _, _) := r in p.
Definition w_pops (r : wrow) := let '(_, _, _, _, p, _, _, _, _, _) := r in p.
Definition w_saves (r : wrow) := let '(_, _, _, _, _, s, _, _, _, _) := r in s.
Definition w_restores (r : wrow) := let '(_, _, _, _, _, _, s, _, _, _) := r in s.
Definition w_stores (r : wrow) := let '(_, _, _, _, _, _, _, s, _, _) := r in s.
Definition w_gwritten (r : wrow) := let '(_, _, _, _, _, _, _, _, g, _) := r in g.
Definition w_xwritten (r : wrow) := let '(_, _, _, _, _, _, _, _, _, x) := r in x.

Fixpoint pairs_eqb (a b : list (N * N)) : bool :=
  match a, b with
  | [], [] => true
  | (x1, y1) :: a', (x2, y2) :: b' => (x1 =? x2) && (y1 =? y2) && pairs_eqb a' b'
  | _, _ => false
  end.

Definition disjoint16 (o1 o2 : N) : bool := (o1 + 16 <=? o2) || (o2 + 16 <=? o1).
Fixpoint slots_disjoint (offs : list N) : bool :=
  match offs with [] => true | o :: tl => forallb (disjoint16 o) tl && slots_disjoint tl end.

Definition win_ok (r : wrow) : bool :=
  list_eqb (w_pops r) (rev (w_pushes r)) && nodup (w_pushes r) &&
  forallb (fun w => mem w (w_pushes r)) (w_gwritten r) &&
  pairs_eqb (w_saves r) (w_restores r) &&
  nodup (map fst (w_saves r)) && slots_disjoint (map snd (w_saves r)) &&
  forallb (fun s => snd s + 16 <=? w_frame r) (w_saves r) &&
  forallb (fun st => (fst st + snd st <=? w_frame r) &&
                     forallb (fun s => (fst st + snd st <=? snd s) || (snd s + 16 <=? fst st)) (w_saves r)) (w_stores r) &&
  forallb (fun x => mem x (map fst (w_saves r))) (w_xwritten r).

(* xmm registers and the save slots: both as functions to (abstract) 128-bit values *)
Definition xregs := N -> N.
Definition slots := N -> N.
Fixpoint do_saves (xr : xregs) (svs : list (N * N)) (m : slots) : slots :=
  match svs with [] => m | (r, off) :: tl => do_saves xr tl (fun o => if o =? off then xr r else m o) end.
Fixpoint do_restores (xr : xregs) (svs : list (N * N)) (m : slots) : xregs :=
  match svs with [] => xr | (r, off) :: tl => do_restores (fun x => if x =? r then m off else xr x) tl m end.
