#!/usr/bin/env python3
"""Side module of tools/gen_coq.py: gen/GenHashFns.v, the `Hash` value type of src/lib.rs (property C14), function by
function from the CURRENT source text:

    Hash::as_bytes / from_bytes / as_slice / from_slice / to_hex / from_hex (+ its nested hex_val),
    From<[u8; OUT_LEN]> for Hash, From<Hash> for [u8; OUT_LEN], FromStr for Hash, PartialEq for Hash (x3),
    fmt::Display for Hash.

Representation: a Hash is the list of its bytes (`struct Hash([u8; OUT_LEN])` is anchored in GenLibSmall), so `self.0`,
`&self.0`, `Self(bytes)` and the view methods as_slice / as_str / as_ref are the identity; strings are byte lists.
Every function body is tokenised and parsed by the small expression / statement parser below; a body that is not of a
recognised shape raises AnchorError (a broken tie), nothing is skipped.  Calls of functions translated here become
calls of the generated definitions; calls into other crates become explicit `ext_` parameters named after the callee
(constant_time_eq::constant_time_eq_32 -> ext_constant_time_eq_32 ...), so that a different callee or a different
argument order changes the generated definition.  Integer expressions go through the main translator's checked
arithmetic emitter (Base/MachInt.v)."""
import os
import re
import sys

sys.path.insert(0, os.path.dirname(os.path.abspath(__file__)))
import gen_coq as G  # noqa: E402

AnchorError = G.AnchorError
READ = G.READ

_TOK = re.compile(r"""
    (?P<ws>\s+)
  | (?P<bstr>b"(?:\\.|[^"\\])*")
  | (?P<num>0[xX][0-9a-fA-F_]+|[0-9][0-9_]*)
  | (?P<id>[A-Za-z_][A-Za-z0-9_]*(?:::[A-Za-z_][A-Za-z0-9_]*)*)
  | (?P<op>\.\.=|\.\.|=>|!=|==|<<|>>|->|[-+*/%&|^!<>=().,\[\]{};:?])
""", re.X)


def toks(text, name):
    out, i = [], 0
    while i < len(text):
        m = _TOK.match(text, i)
        if not m:
            raise AnchorError(f"{name}: cannot tokenize {text[i:i + 24]!r}")
        i = m.end()
        if m.group("ws"):
            continue
        for k in ("bstr", "num", "id", "op"):
            if m.group(k) is not None:
                out.append((k, m.group(k)))
                break
    return out


def norm(text):
    return " ".join(t[1] for t in toks(text, "norm"))


def impl_fn(lib, impl_re, impl_name, fn_name):
    """(normalised signature, body text) of `fn fn_name` inside the impl block matched by impl_re.  The body starts at
    the first `{` that is not inside the angle brackets of the return type (ArrayString<{ 2 * OUT_LEN }>)."""
    impl = G.fn_body(lib, impl_re, impl_name)
    m = G.find1(r"\bfn\s+" + fn_name + r"\s*\(", impl, f"{impl_name}::{fn_name}")
    i, angle = m.end() - 1, 0
    while i < len(impl):
        c = impl[i]
        if c == "<":
            angle += 1
        elif c == ">" and impl[i - 1] != "-":
            angle -= 1
        elif c == "{" and angle == 0:
            break
        i += 1
    else:
        raise AnchorError(f"{impl_name}::{fn_name}: no body")
    depth, j = 0, i
    while j < len(impl):
        if impl[j] == "{":
            depth += 1
        elif impl[j] == "}":
            depth -= 1
            if depth == 0:
                return norm(impl[m.end() - 1:i]), impl[i + 1:j]
        j += 1
    raise AnchorError(f"{impl_name}::{fn_name}: unbalanced braces")


# ---------------------------------------------------------------------------
# delegation bodies: one expression built from views, newtype wrapping and calls
# ---------------------------------------------------------------------------
class Deleg:
    """Parses `expr` where
         expr  := '&' expr | atom postfix*
         atom  := ident | path '(' args ')' | 'Ok' '(' expr ')'
         postfix := '.' '0' | '.' view '(' ')' | '.' 'try_into' '(' ')' '?'
       and emits a Coq term.  `known` maps callee paths to generated definitions; other paths become ext_ parameters."""
    VIEWS = {"as_slice", "as_str", "as_ref"}

    def __init__(self, name, body, params, known):
        self.name, self.t, self.i = name, toks(body, name), 0
        self.params, self.known = params, known
        self.ext = []          # ext_ parameters in order of first use
        self.try_into = False

    def peek(self):
        return self.t[self.i] if self.i < len(self.t) else ("eof", "")

    def eat(self, v=None):
        k, x = self.peek()
        if v is not None and x != v:
            raise AnchorError(f"{self.name}: expected {v!r}, found {x!r}")
        self.i += 1
        return x

    def expr(self):
        if self.peek()[1] == "&":
            self.eat()
            return self.expr()        # a shared reference to a byte array is the same byte list
        k, x = self.peek()
        if k != "id":
            raise AnchorError(f"{self.name}: unexpected token {x!r}")
        self.eat()
        if self.peek()[1] == "(":
            self.eat("(")
            args = []
            while self.peek()[1] != ")":
                args.append(self.expr())
                if self.peek()[1] == ",":
                    self.eat()
            self.eat(")")
            term = self.call(x, args)
        else:
            if x not in self.params:
                raise AnchorError(f"{self.name}: free variable {x!r}")
            term = x
        while self.peek()[1] == ".":
            self.eat(".")
            k2, f = self.peek()
            self.eat()
            if f == "0" and self.peek()[1] != "(":
                continue              # the newtype's only field
            self.eat("(")
            self.eat(")")
            if f in self.VIEWS:
                continue
            if f == "try_into":
                self.eat("?")
                self.try_into = True
                term = f"(TRY {term})"
                continue
            raise AnchorError(f"{self.name}: method .{f}() is not a view")
        return term

    def call(self, path, args):
        if path in ("Self", "Hash", "Ok") and len(args) == 1:
            return args[0]           # newtype constructor / Ok(..) of an infallible tail (the `?` carries the error)
        if path in self.known:
            return "(" + " ".join([self.known[path]] + args) + ")"
        e = "ext_" + path.split("::")[-1]
        if e not in self.ext:
            self.ext.append(e)
        return "(" + " ".join([e] + args) + ")"

    def parse(self):
        term = self.expr()
        if self.peek()[0] != "eof":
            raise AnchorError(f"{self.name}: trailing tokens after the expression: {self.peek()[1]!r}")
        return term


def params_of(sig, name):
    """parameter names of a normalised signature `( &self , other : &Hash ) -> bool`"""
    m = re.match(r"\(\s*(.*?)\s*\)\s*(?:->\s*(.*))?$", sig)
    if not m:
        raise AnchorError(f"{name}: signature {sig!r}")
    ps = []
    for p in [x.strip() for x in m.group(1).split(",") if x.strip()]:
        p = re.sub(r"^&\s*(mut\s+)?", "", p)
        ps.append(p.split(":")[0].strip())
    return ps, (m.group(2) or "").strip()


def gen_hash_fns():
    lib = G.strip_comments(G.src("src/lib.rs"))
    out = ["(* GENERATED by tools/gen_coq_hash.py (side module of tools/gen_coq.py) from src/lib.rs of the /repo working tree.\n"
           "   Do not edit.  The `Hash` value type, function by function; a Hash is the list of its bytes. *)\n"
           "From Coq Require Import NArith List Bool.\n"
           "From V Require Import Base.Res Base.MachInt gen.GenConsts Model.RsHash.\n"
           "Import ListNotations.\nOpen Scope N_scope.\n\n"
           "(* <[u8; N]>::try_from(&[u8]) of core: Ok exactly for slices of N bytes *)\n"
           "Definition slice_try_into_array (n : N) (s : list N) : option (list N) :=\n"
           "  if N.of_nat (length s) =? n then Some s else None.\n"
           "(* arrayvec::ArrayString::<CAP>::push: panics (code 11) when the string is full *)\n"
           "Definition as_push (cap : N) (s : list N) (c : N) : res (list N) :=\n"
           "  if N.of_nat (length s) <? cap then Ok (s ++ [c]) else Panic 11.\n"
           "(* slice / array indexing with the bounds check (code 12), array store *)\n"
           "Definition idx12 (s : list N) (i : N) : res N :=\n"
           "  match nth_error s (N.to_nat i) with Some v => Ok v | None => Panic 12 end.\n"
           "Fixpoint upd (s : list N) (i : nat) (v : N) : list N :=\n"
           "  match s, i with [] , _ => [] | _ :: tl, O => v :: tl | x :: tl, S i => x :: upd tl i v end.\n\n"]
    known = {}
    cenv = {"OUT_LEN": "rs_OUT_LEN"}
    H = r"\bimpl\s+Hash\s*\{"

    def deleg(coq, impl_re, impl_name, fn, want_params, want_ret=None, wrap=None):
        sig, body = impl_fn(lib, impl_re, impl_name, fn)
        ps, ret = params_of(sig, coq)
        if ps != want_params:
            raise AnchorError(f"{coq}: parameters {ps!r}, expected {want_params!r}")
        if want_ret is not None and norm(ret) != norm(want_ret):
            raise AnchorError(f"{coq}: return type {ret!r}, expected {want_ret!r}")
        d = Deleg(coq, body, ps, known)
        term = d.parse()
        if d.try_into:
            m = re.fullmatch(r"\(src_Hash_from_bytes \(TRY (\w+)\)\)", term)
            if not m:
                raise AnchorError(f"{coq}: `?` outside the shape from_bytes(x.try_into()?): {term}")
            term = (f"match slice_try_into_array rs_OUT_LEN {m.group(1)} with\n  | Some a => Some (src_Hash_from_bytes a)\n"
                    f"  | None => None\n  end")
        exts = "".join(f" ({e} : list N -> list N -> bool)" for e in d.ext)
        out.append(f"(* {impl_name}::{fn}{sig} {{ {norm(body)} }} *)\n"
                   f"Definition {coq}{exts} {' '.join('(%s : list N)' % p for p in ps)} :=\n  {term}.\n\n")
        return d.ext

    # ---- impl Hash: the views and constructors -------------------------------------------------
    deleg("src_Hash_as_bytes", H, "impl Hash", "as_bytes", ["self"], "&[u8; OUT_LEN]")
    deleg("src_Hash_from_bytes", H, "impl Hash", "from_bytes", ["bytes"], "Self")
    known["Self::from_bytes"] = known["Hash::from_bytes"] = "src_Hash_from_bytes"
    deleg("src_Hash_as_slice", H, "impl Hash", "as_slice", ["self"], "&[u8]")
    deleg("src_Hash_from_slice", H, "impl Hash", "from_slice", ["bytes"], "Result<Self, core::array::TryFromSliceError>")
    deleg("src_From_array_for_Hash_from", r"\bimpl\s+From\s*<\s*\[\s*u8\s*;\s*OUT_LEN\s*\]\s*>\s*for\s+Hash\s*\{",
          "From<[u8; OUT_LEN]> for Hash", "from", ["bytes"], "Self")
    known["Hash::from"] = "src_From_array_for_Hash_from"
    deleg("src_From_Hash_for_array_from", r"\bimpl\s+From\s*<\s*Hash\s*>\s*for\s*\[\s*u8\s*;\s*OUT_LEN\s*\]\s*\{",
          "From<Hash> for [u8; OUT_LEN]", "from", ["hash"], "Self")

    # ---- Hash::to_hex ---------------------------------------------------------------------------
    sig, body = impl_fn(lib, H, "impl Hash", "to_hex")
    ps, ret = params_of(sig, "to_hex")
    m = re.fullmatch(r"ArrayString < \{ (.*) \} >", norm(ret))
    if ps != ["self"] or not m:
        raise AnchorError(f"Hash::to_hex: signature {sig!r}")
    cap = G.const_eval(G.parse_expr(m.group(1), "to_hex cap"), {"OUT_LEN": G.const_eval(G.parse_expr(G.rust_const(lib, "OUT_LEN"), "OUT_LEN"), {}, "OUT_LEN")}, "to_hex cap")
    nb = norm(body)
    m = re.fullmatch(r'let mut s = ArrayString::new \( \) ; let table = (b"[^"]*") ; for & b in self \. 0 \. iter \( \) \{ (.*) \} s', nb)
    if not m:
        raise AnchorError("Hash::to_hex: body shape " + nb[:120])
    table = [ord(c) for c in m.group(1)[2:-1]]
    pushes = [p.strip() for p in m.group(2).split(";") if p.strip()]
    steps = []
    for k, p in enumerate(pushes):
        pm = re.fullmatch(r"s \. push \( table \[ \( (.*) \) as usize \] as char \)", p)
        if not pm:
            raise AnchorError("Hash::to_hex: loop statement " + p)
        e = G.emit(G.parse_expr(pm.group(1), "to_hex index"), {"b": 8}, {}, "to_hex index", 8)
        steps.append(f"      i{k} <- {e} ;;\n      c{k} <- index_tbl table i{k} ;;\n      s <- as_push {cap} s c{k} ;;\n")
    out.append(f"(* Hash::to_hex{sig} {{ {nb} }} *)\n"
               f"Fixpoint src_Hash_to_hex_loop (table : list N) (it : list N) (s : list N) : res (list N) :=\n"
               f"  match it with\n  | [] => Ok s\n  | b :: it =>\n{''.join(steps)}      src_Hash_to_hex_loop table it s\n  end.\n"
               f"Definition src_Hash_to_hex (self : list N) : res (list N) :=\n"
               f"  let s : list N := [] in\n  let table := {G.coq_list(table)} in\n  src_Hash_to_hex_loop table self s.\n\n")
    known["self.to_hex"] = "src_Hash_to_hex"

    # ---- Hash::from_hex ---------------------------------------------------------------------------
    sig, body = impl_fn(lib, H, "impl Hash", "from_hex")
    ps, ret = params_of(sig, "from_hex")
    if ps != ["hex"] or norm(ret) != norm("Result<Self, HexError>"):
        raise AnchorError(f"Hash::from_hex: signature {sig!r}")
    # the nested `fn hex_val` (its match arms are GenConsts.rs_hex_val_arms, anchored there; Model.RsHash.hex_val
    # evaluates them in order): cut it out of the body, it must be the first item
    hv_body = G.fn_body(body, r"\bfn\s+hex_val\s*\(", "hex_val")
    j = body.index(hv_body) + len(hv_body)
    head = body[:body.index(hv_body)]
    if not re.fullmatch(r"\s*fn\s+hex_val\s*\(\s*byte\s*:\s*u8\s*\)\s*->\s*Result\s*<\s*u8\s*,\s*HexError\s*>\s*\{", head):
        raise AnchorError("Hash::from_hex: nested fn hex_val(byte: u8) -> Result<u8, HexError> is not the first item")
    rest = norm(body[j + 1:])
    m = re.fullmatch(r"let hex_bytes : & \[ u8 \] = hex \. as_ref \( \) ; "
                     r"if hex_bytes \. len \( \) != (.*?) \{ return Err \( HexError \( HexErrorInner::InvalidLen \( hex_bytes \. len \( \) \) \) \) ; \} "
                     r"let mut hash_bytes : \[ u8 ; (\w+) \] = \[ 0 ; (\w+) \] ; "
                     r"for i in 0 \.\. (\w+) \{ hash_bytes \[ i \] = (.*?) ; \} "
                     r"Ok \( (Hash::from) \( hash_bytes \) \)", rest)
    if not m:
        raise AnchorError("Hash::from_hex: body shape " + rest[:160])
    want_len, n1, n2, n3, rhs, conv = m.groups()
    if not (n1 == n2 == n3 == "OUT_LEN"):
        raise AnchorError("Hash::from_hex: array length / loop bound are not all OUT_LEN")
    if conv not in known:
        raise AnchorError("Hash::from_hex: final conversion " + conv)
    # rhs: an integer expression over hex_val(hex_bytes[<index>])? operands, evaluated left to right
    operands = re.findall(r"hex_val \( hex_bytes \[ (.*?) \] \) \?", rhs)
    if len(operands) != 2:
        raise AnchorError("Hash::from_hex: expected two hex_val(hex_bytes[..])? operands in " + rhs)
    shape = rhs
    for k, o in enumerate(operands):
        shape = shape.replace("hex_val ( hex_bytes [ %s ] ) ?" % o, "v%d" % k, 1)
    comb = G.emit(G.parse_expr(shape, "from_hex combine"), {"v0": 8, "v1": 8}, {}, "from_hex combine", 8)
    idx = [G.emit(G.parse_expr(o, "from_hex index"), {"i": 64}, {}, "from_hex index", 64) for o in operands]
    wl = G.emit(G.parse_expr(want_len, "from_hex len"), {}, cenv, "from_hex len", 64)
    out.append(f"(* Hash::from_hex{sig} {{ fn hex_val .. ; {rest} }} *)\n"
               f"Fixpoint src_Hash_from_hex_loop (is : list N) (hex_bytes hash_bytes : list N) : res hex_result :=\n"
               f"  match is with\n  | [] => Ok (HexOk ({known[conv]} hash_bytes))\n  | i :: is =>\n"
               f"      i0 <- {idx[0]} ;;\n      b0 <- idx12 hex_bytes i0 ;;\n      r0 <- hex_val b0 ;;\n"
               f"      match r0 with\n      | None => Ok (HexInvalidByte b0)\n      | Some v0 =>\n"
               f"      i1 <- {idx[1]} ;;\n      b1 <- idx12 hex_bytes i1 ;;\n      r1 <- hex_val b1 ;;\n"
               f"      match r1 with\n      | None => Ok (HexInvalidByte b1)\n      | Some v1 =>\n"
               f"      v <- {comb} ;;\n"
               f"      assert! (i <? N.of_nat (length hash_bytes)) code 12 ;;\n"
               f"      src_Hash_from_hex_loop is hex_bytes (upd hash_bytes (N.to_nat i) v)\n      end end\n  end.\n"
               f"Definition src_Hash_from_hex (hex : list N) : res hex_result :=\n"
               f"  let hex_bytes := hex in\n"
               f"  want <- {wl} ;;\n"
               f"  if negb (N.of_nat (length hex_bytes) =? want) then Ok (HexInvalidLen (N.of_nat (length hex_bytes))) else\n"
               f"  let hash_bytes := repeat 0 (N.to_nat rs_OUT_LEN) in\n"
               f"  src_Hash_from_hex_loop (map N.of_nat (seq 0 (N.to_nat rs_OUT_LEN))) hex_bytes hash_bytes.\n\n")
    known["Hash::from_hex"] = "src_Hash_from_hex"

    # ---- FromStr, PartialEq x3, Display ------------------------------------------------------------
    deleg("src_FromStr_for_Hash_from_str", r"\bimpl\s+core::str::FromStr\s+for\s+Hash\s*\{", "core::str::FromStr for Hash",
          "from_str", ["s"], "Result<Self, Self::Err>")
    exts = []
    exts.append(deleg("src_PartialEq_for_Hash_eq", r"\bimpl\s+PartialEq\s+for\s+Hash\s*\{", "PartialEq for Hash", "eq",
                      ["self", "other"], "bool"))
    exts.append(deleg("src_PartialEq_array_for_Hash_eq", r"\bimpl\s+PartialEq\s*<\s*\[\s*u8\s*;\s*OUT_LEN\s*\]\s*>\s*for\s+Hash\s*\{",
                      "PartialEq<[u8; OUT_LEN]> for Hash", "eq", ["self", "other"], "bool"))
    exts.append(deleg("src_PartialEq_slice_for_Hash_eq", r"\bimpl\s+PartialEq\s*<\s*\[\s*u8\s*\]\s*>\s*for\s+Hash\s*\{",
                      "PartialEq<[u8]> for Hash", "eq", ["self", "other"], "bool"))
    if exts != [["ext_constant_time_eq_32"], ["ext_constant_time_eq_32"], ["ext_constant_time_eq"]]:
        raise AnchorError(f"PartialEq for Hash: external callees {exts!r}")
    sig, body = impl_fn(lib, r"\bimpl\s+fmt::Display\s+for\s+Hash\s*\{", "fmt::Display for Hash", "fmt")
    nb = norm(body)
    if nb != "let hex = self . to_hex ( ) ; let hex : & str = hex . as_str ( ) ; f . write_str ( hex )":
        raise AnchorError("fmt::Display for Hash::fmt: body shape " + nb)
    out.append(f"(* fmt::Display for Hash::fmt {{ {nb} }}: what is written to the formatter *)\n"
               f"Definition src_Display_for_Hash_fmt (self : list N) : res (list N) :=\n"
               f"  hex <- src_Hash_to_hex self ;;\n  Ok hex.\n")
    return "".join(out)


if __name__ == "__main__":
    sys.stdout.write(gen_hash_fns())
