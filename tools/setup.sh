#!/bin/bash
# One-time setup after a fresh restore (offline): translate, build the whole Coq
# development (full .vo build), extract + build the OCaml model driver, and
# pre-build the Rust harness so that the per-property checks are incremental.
set -e
cd "$(dirname "$0")/.."
export CARGO_NET_OFFLINE=true
python3 tools/gen_coq.py > build_gen.log 2>&1 || { cat build_gen.log; echo "translator reported errors (continuing)"; }
rm -f build_gen.log
mkdir -p build
( cd coq && coq_makefile -f _CoqProject -o Makefile > /dev/null && timeout 3000 make -j16 2>&1 | tail -40 )
tools/build_model.sh || echo "model driver build failed (checks will report it)"
python3 - <<'PY'
import sys
sys.path.insert(0, "tools")
import verif
for flavour, profile in [("default", "debug"), ("default", "release")]:
    b, out = verif.cargo_build(flavour, profile)
    print("harness", flavour, profile, "->", b)
    if b is None:
        print(out[-2000:])
PY
echo setup done
