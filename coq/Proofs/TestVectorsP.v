(* Every entry of test_vectors/test_vectors.json equals the specification output. *)
From Coq Require Import NArith List Bool Lia.
From V Require Import Base.Word Spec.Compress Spec.Tree Spec.Blake3 gen.GenTestVectors
  Proofs.TVCommon Proofs.TV1 Proofs.TV2 Proofs.TV3 Proofs.TV4.
Import ListNotations.
Open Scope N_scope.

Theorem test_vectors_ok : forallb check_case tv_cases = true.
Proof.
  rewrite tv_slices_cover, !forallb_app.
  rewrite tv_slice_1_ok, tv_slice_2_ok, tv_slice_3_ok, tv_slice_4_ok. reflexivity.
Qed.

(* shape of the published file: 35 cases, the stated input lengths, 131 output bytes each *)
Lemma tv_shape :
  length tv_cases = 35%nat /\
  map (fun c => fst (fst (fst c))) tv_cases =
    [0; 1; 2; 3; 4; 5; 6; 7; 8; 63; 64; 65; 127; 128; 129; 1023; 1024; 1025; 2048; 2049; 3072; 3073;
     4096; 4097; 5120; 5121; 6144; 6145; 7168; 7169; 8192; 8193; 16384; 31744; 102400] /\
  forallb (fun c => let '(_, h, k, d) := c in
             Nat.eqb (length h) 131 && Nat.eqb (length k) 131 && Nat.eqb (length d) 131) tv_cases = true /\
  length tv_key = 32%nat.
Proof. vm_compute. repeat split. Qed.

Theorem test_vectors_spec n h k d : In (n, h, k, d) tv_cases ->
  b3_xof_mode Hash (paint n) 0 131 = h /\
  b3_xof_mode (KeyedHash tv_key) (paint n) 0 131 = k /\
  stream spec_c64 (root_output spec_c8 (DeriveKeyMaterial (b3_hash_mode DeriveKeyContext tv_context)) (paint n)) 0 131 = d.
Proof.
  intros Hin. apply check_case_sound.
  pose proof test_vectors_ok as H. rewrite forallb_forall in H. apply (H _ Hin).
Qed.

(* the first 32 bytes of each vector are the default-length functions *)
Lemma stream_prefix c64 o : forall (n m : nat) p, (n <= m)%nat -> stream c64 o p n = firstn n (stream c64 o p m).
Proof.
  unfold stream. induction n as [|n IH]; intros m p H; [reflexivity|].
  destruct m as [|m]; [lia|]. cbn [nrange map firstn]. f_equal. apply IH. lia.
Qed.

Theorem test_vectors_default_len n h k d : In (n, h, k, d) tv_cases ->
  b3_hash (paint n) = firstn 32 h /\ b3_keyed_hash tv_key (paint n) = firstn 32 k /\
  b3_derive_key tv_context (paint n) = firstn 32 d.
Proof.
  intros Hin. destruct (test_vectors_spec n h k d Hin) as (H1 & H2 & H3).
  subst h k d. repeat split;
  apply (stream_prefix spec_c64 _ 32 131 0); lia.
Qed.
