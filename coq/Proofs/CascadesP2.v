(* The hash_many cascades of src/rust_sse2.rs, rust_sse41.rs, rust_avx2.rs, c/blake3_portable.c, blake3_sse2.c,
   blake3_sse41.c, blake3_avx2.c, blake3_avx512.c as TRANSLATED statement by statement (gen/GenCascades.v):
   the trailing one-at-a-time loops, the remaining batch loops and the WHOLE functions, against the cascade models of
   Model/Kernels.v (batch_while / single_loop / hash_many_rs4 / _rs8 / hash_many_c4 / _c8 / _c16).
   Continues Proofs/CascadesP.v.  Every equation is result by result (Ok / Panic code); OutOfFuel is excluded by the
   stated fuel bounds (the models never return it on these domains, see the `*_not_oof` remarks). *)
From Coq Require Import NArith List Bool Lia Arith.
From V Require Import Base.Res Base.Word Base.MachInt Base.Arr gen.GenConsts gen.GenFormulas gen.GenPortable
  gen.GenLibSmall gen.GenCHasherSmall gen.GenCascades Model.Portable Model.Kernels
  Proofs.GenPortableP Proofs.GenLibSmallP Proofs.GenCHasherSmallP Proofs.CascadesP.
Import ListNotations.
Open Scope N_scope.

(* ------------------------------------------------------------------ *)
(* 0. facts about the model's loops                                    *)
(* ------------------------------------------------------------------ *)
Lemma Forall_skipn_ {A} (P : A -> Prop) : forall k (l : list A), Forall P l -> Forall P (skipn k l).
Proof.
  induction k as [|k IH]; intros l H; [exact H|]. destruct l as [|a l]; [exact H|].
  cbn [skipn]. apply IH. inversion H; assumption.
Qed.

Lemma skipn_skipn_ {A} : forall a b (l : list A), skipn a (skipn b l) = skipn (b + a) l.
Proof.
  intros a b; revert a. induction b as [|b IH]; intros a l; [reflexivity|].
  destruct l as [|x l]; cbn [skipn plus]; [destruct a; reflexivity|apply IH].
Qed.

(* batch_while does not depend on the fuel once it exceeds the number of inputs *)
Lemma batch_while_fuel deg hN cadd chk : (1 <= deg)%nat ->
  forall f1 f2 inputs blocks key counter incr flags fs fe cap, (length inputs < f1)%nat -> (length inputs < f2)%nat ->
  batch_while f1 deg hN cadd chk inputs blocks key counter incr flags fs fe cap =
  batch_while f2 deg hN cadd chk inputs blocks key counter incr flags fs fe cap.
Proof.
  intros Hd. induction f1 as [|f1 IH]; intros f2 inputs blocks key counter incr flags fs fe cap H1 H2; [lia|].
  destruct f2 as [|f2]; [lia|]. cbn [batch_while].
  destruct (Nat.leb_spec deg (length inputs)) as [Hl|Hl]; cbn [andb]; [|reflexivity].
  destruct (negb chk || (N.of_nat deg <=? cap)); [|reflexivity].
  destruct (hN (firstn deg inputs) blocks key counter incr flags fs fe) as [outs| |]; cbn [bind]; try reflexivity.
  destruct (if incr then cadd counter (N.of_nat deg) else Ok counter) as [c'| |]; cbn [bind]; try reflexivity.
  rewrite (IH f2) by (rewrite skipn_length; lia). reflexivity.
Qed.

(* what a batch loop leaves is a suffix of its inputs; it never runs out of fuel above the number of inputs *)
Lemma batch_while_rest deg hN cadd chk : forall fuel inputs blocks key counter incr flags fs fe cap outs rest c' cap',
  batch_while fuel deg hN cadd chk inputs blocks key counter incr flags fs fe cap = Ok (outs, (rest, c', cap')) ->
  exists k, rest = skipn k inputs.
Proof.
  induction fuel as [|fuel IH]; intros inputs blocks key counter incr flags fs fe cap outs rest c' cap' H; [discriminate|].
  cbn [batch_while] in H.
  destruct ((deg <=? length inputs)%nat && (negb chk || (N.of_nat deg <=? cap))).
  - destruct (hN (firstn deg inputs) blocks key counter incr flags fs fe) as [o| |]; cbn [bind] in H; try discriminate.
    destruct (if incr then cadd counter (N.of_nat deg) else Ok counter) as [c1| |]; cbn [bind] in H; try discriminate.
    destruct (batch_while fuel deg hN cadd chk (skipn deg inputs) blocks key c1 incr flags fs fe (cap - N.of_nat deg))
      as [[o' [[r c2] cap2]]| |] eqn:B; cbn [bind] in H; try discriminate.
    injection H as _ Hr _ _. subst r. destruct (IH _ _ _ _ _ _ _ _ _ _ _ _ _ B) as (k & ->).
    exists (deg + k)%nat. apply skipn_skipn_.
  - injection H as _ Hr _ _. exists 0%nat. subst rest. reflexivity.
Qed.

Lemma skipn_length_le {A} k (l : list A) : (length (skipn k l) <= length l)%nat.
Proof. rewrite skipn_length. lia. Qed.

(* with no inputs the loop does nothing, whatever `blocks` is *)
Lemma batch_while_nil fuel deg hN cadd chk blocks key counter incr flags fs fe cap : (1 <= deg)%nat ->
  batch_while (S fuel) deg hN cadd chk [] blocks key counter incr flags fs fe cap = Ok ([], ([], counter, cap)).
Proof. intros Hd. cbn [batch_while length]. replace (deg <=? 0)%nat with false by (symmetry; apply Nat.leb_gt; lia). reflexivity. Qed.

Lemma blocks_of_all n inputs : inputs <> [] -> Forall (fun i : list N => length i = n) inputs ->
  blocks_of inputs = N.to_nat (N.of_nat n / 64).
Proof.
  intros Hne Hall. destruct inputs as [|i tl]; [congruence|]. inversion Hall as [|? ? Hi _]; subst.
  unfold blocks_of. cbn [hd]. change 64 with (N.of_nat 64). rewrite <- Nat2N.inj_div. rewrite Nat2N.id. reflexivity.
Qed.

(* ------------------------------------------------------------------ *)
(* 1. the trailing `for (&input, output) in inputs.iter().zip(out.chunks_exact_mut(OUT_LEN))` of the Rust files *)
(* ------------------------------------------------------------------ *)
Section RsSingle.
  Variable cip : cip_fn.
  Variable H1 : nat -> N -> list N -> list N -> N -> N -> N -> N -> res (list N).
  Hypothesis H1_ok : forall fuel input blocks key ctr flags fs fe, (length input / 64 < fuel)%nat ->
    H1 fuel (N.of_nat (length input)) input key ctr flags fs fe = hash1_rs cip input blocks key ctr flags fs fe.
  Variable loop : nat -> N -> list (list N) -> N -> list N -> N -> bool -> N -> N -> N -> list (list N) -> res (N * list (list N)).
  Hypothesis loop_eq : forall fuel gN inputs chunks key counter increment_counter flags flags_start flags_end out_w,
    loop fuel gN inputs chunks key counter increment_counter flags flags_start flags_end out_w =
    match inputs with
    | [] => Ok (counter, out_w)
    | input :: inputs =>
        if chunks =? 0 then Ok (counter, out_w) else
          t_out <- H1 fuel gN input key counter flags flags_start flags_end ;;
          let out_w := out_w ++ [t_out] in
          counter <- (if increment_counter then
            counter <- mi_add 64 counter 1 ;;
            Ok counter
          else Ok counter) ;;
          loop fuel gN inputs (chunks - 1) key counter increment_counter flags flags_start flags_end out_w
    end.

  Lemma rs_single_ok fuel n blocks key incr flags fs fe : (n / 64 < fuel)%nat ->
    forall inputs chunks counter acc, Forall (fun i => length i = n) inputs ->
    ('(counter, out_w) <- loop fuel (N.of_nat n) inputs chunks key counter incr flags fs fe acc ;; Ok out_w)
    = (r <- single_loop (hash1_rs cip) cadd_rs true inputs blocks key counter incr flags fs fe chunks ;; Ok (acc ++ r)).
  Proof.
    intros Hf. induction inputs as [|input tl IH]; intros chunks counter acc Hall; rewrite loop_eq.
    - cbn [single_loop bind]. rewrite app_nil_r. reflexivity.
    - cbn [single_loop andb]. destruct (chunks =? 0); [cbn [bind]; rewrite app_nil_r; reflexivity|].
      inversion Hall as [|? ? Hi Htl]; subst.
      rewrite (H1_ok fuel input blocks) by assumption.
      destruct (hash1_rs cip input blocks key counter flags fs fe) as [cv| |]; cbn [bind]; try reflexivity.
      cbv zeta.
      assert (E : (if incr then counter0 <- mi_add 64 counter 1 ;; Ok counter0 else Ok counter)
                  = (if incr then cadd_rs counter 1 else Ok counter))
        by (unfold cadd_rs; destruct incr; [destruct (mi_add 64 counter 1)|]; reflexivity).
      rewrite E. destruct (if incr then cadd_rs counter 1 else Ok counter) as [c'| |]; cbn [bind]; try reflexivity.
      rewrite IH by assumption.
      destruct (single_loop (hash1_rs cip) cadd_rs true tl blocks key c' incr flags fs fe (chunks - 1)); cbn [bind]; try reflexivity.
      rewrite <- app_assoc. reflexivity.
  Qed.
End RsSingle.

Lemma src_rs_sse2_hash_many_loop2_eq hN ext : forall fuel gN inputs chunks key counter increment_counter flags flags_start flags_end out_w,
    src_rs_sse2_hash_many_loop2 hN ext fuel gN inputs chunks key counter increment_counter flags flags_start flags_end out_w =
    match inputs with
    | [] => Ok (counter, out_w)
    | input :: inputs =>
        if chunks =? 0 then Ok (counter, out_w) else
          t_out <- src_rs_sse2_hash1 ext fuel gN input key counter flags flags_start flags_end ;;
          let out_w := out_w ++ [t_out] in
          counter <- (if increment_counter then
            counter <- mi_add 64 counter 1 ;;
            Ok counter
          else Ok counter) ;;
          src_rs_sse2_hash_many_loop2 hN ext fuel gN inputs (chunks - 1) key counter increment_counter flags flags_start flags_end out_w
    end.
Proof. intros fuel gN inputs; destruct inputs; reflexivity. Qed.
Lemma src_rs_sse41_hash_many_loop2_eq hN ext : forall fuel gN inputs chunks key counter increment_counter flags flags_start flags_end out_w,
    src_rs_sse41_hash_many_loop2 hN ext fuel gN inputs chunks key counter increment_counter flags flags_start flags_end out_w =
    match inputs with
    | [] => Ok (counter, out_w)
    | input :: inputs =>
        if chunks =? 0 then Ok (counter, out_w) else
          t_out <- src_rs_sse41_hash1 ext fuel gN input key counter flags flags_start flags_end ;;
          let out_w := out_w ++ [t_out] in
          counter <- (if increment_counter then
            counter <- mi_add 64 counter 1 ;;
            Ok counter
          else Ok counter) ;;
          src_rs_sse41_hash_many_loop2 hN ext fuel gN inputs (chunks - 1) key counter increment_counter flags flags_start flags_end out_w
    end.
Proof. intros fuel gN inputs; destruct inputs; reflexivity. Qed.

(* the trailing loop of src/rust_sse2.rs / rust_sse41.rs hash_many is single_loop over hash1_rs, stopping when `out`
   is exhausted (chunks = out.len() / OUT_LEN); every input is `&[u8; N]` with N = n; acc = what was written before *)
Theorem src_rs_sse2_hash_many_loop2_ok hN cip fuel n blocks inputs chunks key counter incr flags fs fe acc :
  (n / 64 < fuel)%nat -> Forall (fun i => length i = n) inputs ->
  ('(counter, out_w) <- src_rs_sse2_hash_many_loop2 hN (okc cip) fuel (N.of_nat n) inputs chunks key counter incr flags fs fe acc ;; Ok out_w)
  = (r <- single_loop (hash1_rs cip) cadd_rs true inputs blocks key counter incr flags fs fe chunks ;; Ok (acc ++ r)).
Proof.
  intros Hf Hall.
  apply (rs_single_ok cip (src_rs_sse2_hash1 (okc cip)) (src_rs_sse2_hash1_ok cip)
           (src_rs_sse2_hash_many_loop2 hN (okc cip)) (src_rs_sse2_hash_many_loop2_eq hN (okc cip))); assumption.
Qed.
Theorem src_rs_sse41_hash_many_loop2_ok hN cip fuel n blocks inputs chunks key counter incr flags fs fe acc :
  (n / 64 < fuel)%nat -> Forall (fun i => length i = n) inputs ->
  ('(counter, out_w) <- src_rs_sse41_hash_many_loop2 hN (okc cip) fuel (N.of_nat n) inputs chunks key counter incr flags fs fe acc ;; Ok out_w)
  = (r <- single_loop (hash1_rs cip) cadd_rs true inputs blocks key counter incr flags fs fe chunks ;; Ok (acc ++ r)).
Proof.
  intros Hf Hall.
  apply (rs_single_ok cip (src_rs_sse41_hash1 (okc cip)) (src_rs_sse41_hash1_ok cip)
           (src_rs_sse41_hash_many_loop2 hN (okc cip)) (src_rs_sse41_hash_many_loop2_eq hN (okc cip))); assumption.
Qed.

(* ------------------------------------------------------------------ *)
(* 2. the degree-8 batch loop of src/rust_avx2.rs                      *)
(* ------------------------------------------------------------------ *)
Section RsBatch8.
  Variable hN : hashN_fn.
  Variable loop : nat -> N -> list (list N) -> list N -> N -> bool -> N -> N -> N -> N -> list (list N) ->
                  res (list (list N) * N * N * list (list N)).
  Hypothesis loop_eq : forall fuel gN inputs key counter increment_counter flags flags_start flags_end out_len out_w,
    loop fuel gN inputs key counter increment_counter flags flags_start flags_end out_len out_w =
    if ((8 <=? (N.of_nat (length inputs))) && (256 <=? out_len)) then
      match fuel with
      | O => OutOfFuel
      | S fuel =>
        let input_ptrs := firstn 8 inputs in
        blocks <- (mi_div 64 gN rs_BLOCK_LEN) ;;
        assert! (256 <=? out_len) code 54 ;;
        t_out <- hN input_ptrs (N.to_nat blocks) key counter increment_counter flags flags_start flags_end ;;
        let out_w := out_w ++ t_out in
        counter <- (if increment_counter then
          counter <- mi_add 64 counter 8 ;;
          Ok counter
        else Ok counter) ;;
        assert! (8 <=? N.of_nat (length inputs)) code 40 ;;
        let inputs := skipn (N.to_nat 8) inputs in
        assert! (256 <=? out_len) code 40 ;;
        let out_len := out_len - 256 in
        loop fuel gN inputs key counter increment_counter flags flags_start flags_end out_len out_w
      end
    else Ok (inputs, counter, out_len, out_w).

  Lemma rs_batch8_ok : forall fuel gN inputs key counter incr flags fs fe cap acc, (length inputs < fuel)%nat ->
    loop fuel gN inputs key counter incr flags fs fe (32 * cap) acc =
    ('(outs, st) <- batch_while fuel 8 hN cadd_rs true inputs (N.to_nat (gN / 64)) key counter incr flags fs fe cap ;;
     let '(rest, c', cap') := st in Ok (rest, c', 32 * cap', acc ++ outs)).
  Proof.
    induction fuel as [|fuel IH]; intros gN inputs key counter incr flags fs fe cap acc Hf; [lia|].
    rewrite loop_eq. cbn [batch_while negb orb]. change (N.of_nat 8) with 8.
    replace (8 <=? N.of_nat (length inputs)) with (8 <=? length inputs)%nat
      by (destruct (Nat.leb_spec 8 (length inputs)); symmetry; [apply N.leb_le|apply N.leb_gt]; lia).
    replace (256 <=? 32 * cap) with (8 <=? cap)
      by (destruct (N.leb_spec 8 cap); symmetry; [apply N.leb_le|apply N.leb_gt]; lia).
    destruct (Nat.leb_spec 8 (length inputs)) as [H8|H8]; cbn [andb];
      [|cbn [bind]; rewrite app_nil_r; reflexivity].
    destruct (N.leb_spec 8 cap) as [Hc|Hc]; [|cbn [bind]; rewrite app_nil_r; reflexivity].
    cbv zeta. unfold mi_div. change (rs_BLOCK_LEN =? 0) with false. change rs_BLOCK_LEN with 64. cbn [bind check].
    destruct (hN (firstn 8 inputs) (N.to_nat (gN / 64)) key counter incr flags fs fe) as [outs| |]; cbn [bind]; try reflexivity.
    assert (E : (if incr then counter0 <- mi_add 64 counter 8 ;; Ok counter0 else Ok counter)
                = (if incr then cadd_rs counter 8 else Ok counter))
      by (unfold cadd_rs; destruct incr; [destruct (mi_add 64 counter 8)|]; reflexivity).
    rewrite E. destruct (if incr then cadd_rs counter 8 else Ok counter) as [c'| |]; cbn [bind]; try reflexivity.
    change (N.to_nat 8) with 8%nat.
    replace (32 * cap - 256) with (32 * (cap - 8)) by lia.
    rewrite IH by (rewrite skipn_length; lia).
    destruct (batch_while fuel 8 hN cadd_rs true (skipn 8 inputs) (N.to_nat (gN / 64)) key c' incr flags fs fe (cap - 8))
      as [[o [[r c''] cap'']]| |]; cbn [bind]; try reflexivity.
    rewrite app_assoc. reflexivity.
  Qed.
End RsBatch8.

Lemma src_rs_avx2_hash_many_loop1_eq hN ext : forall fuel gN inputs key counter increment_counter flags flags_start flags_end out_len out_w,
    src_rs_avx2_hash_many_loop1 hN ext fuel gN inputs key counter increment_counter flags flags_start flags_end out_len out_w =
    if ((8 <=? (N.of_nat (length inputs))) && (256 <=? out_len)) then
      match fuel with
      | O => OutOfFuel
      | S fuel =>
        let input_ptrs := firstn 8 inputs in
        blocks <- (mi_div 64 gN rs_BLOCK_LEN) ;;
        assert! (256 <=? out_len) code 54 ;;
        t_out <- hN input_ptrs (N.to_nat blocks) key counter increment_counter flags flags_start flags_end ;;
        let out_w := out_w ++ t_out in
        counter <- (if increment_counter then
          counter <- mi_add 64 counter 8 ;;
          Ok counter
        else Ok counter) ;;
        assert! (8 <=? N.of_nat (length inputs)) code 40 ;;
        let inputs := skipn (N.to_nat 8) inputs in
        assert! (256 <=? out_len) code 40 ;;
        let out_len := out_len - 256 in
        src_rs_avx2_hash_many_loop1 hN ext fuel gN inputs key counter increment_counter flags flags_start flags_end out_len out_w
      end
    else Ok (inputs, counter, out_len, out_w).
Proof. intros fuel; destruct fuel; reflexivity. Qed.

(* the degree-8 loop of src/rust_avx2.rs hash_many is batch_while 8 (out.len() = 32 * cap; blocks = N / BLOCK_LEN) *)
Theorem src_rs_avx2_hash_many_loop1_ok hN ext fuel gN inputs key counter incr flags fs fe cap acc : (length inputs < fuel)%nat ->
  src_rs_avx2_hash_many_loop1 hN ext fuel gN inputs key counter incr flags fs fe (32 * cap) acc =
  ('(outs, st) <- batch_while fuel 8 hN cadd_rs true inputs (N.to_nat (gN / 64)) key counter incr flags fs fe cap ;;
   let '(rest, c', cap') := st in Ok (rest, c', 32 * cap', acc ++ outs)).
Proof. apply (rs_batch8_ok hN _ (src_rs_avx2_hash_many_loop1_eq hN ext)). Qed.

(* ------------------------------------------------------------------ *)
(* 3. the whole hash_many of rust_sse2.rs / rust_sse41.rs / rust_avx2.rs *)
(* ------------------------------------------------------------------ *)
(* the prologue `debug_assert!(out.len() >= inputs.len() * OUT_LEN)` with out.len() = 32 * cap *)
Lemma rs_prologue {B} (len cap : N) (k : res B) : len * 32 < 2 ^ 64 ->
  (t_b <- mi_mul 64 len rs_OUT_LEN ;; assert! (t_b <=? 32 * cap) code 1101 ;; k)
  = (assert! (len <=? cap) code 1101 ;; k).
Proof.
  intros Hlen. unfold mi_mul, fits. change rs_OUT_LEN with 32.
  replace (len * 32 <? 2 ^ 64) with true by (symmetry; apply N.ltb_lt; exact Hlen). cbn [bind].
  replace (len * 32 <=? 32 * cap) with (len <=? cap)
    by (destruct (N.leb_spec len cap); symmetry; [apply N.leb_le|apply N.leb_gt]; lia).
  reflexivity.
Qed.

Lemma div32 cap : 32 * cap / rs_OUT_LEN = cap.
Proof. change rs_OUT_LEN with 32. rewrite N.mul_comm, N.div_mul; [reflexivity|discriminate]. Qed.

Section RsWhole4.
  Variable hN : hashN_fn.
  Variable cip : cip_fn.
  Variable loop1 : nat -> N -> list (list N) -> list N -> N -> bool -> N -> N -> N -> N -> list (list N) ->
                  res (list (list N) * N * N * list (list N)).
  Variable loop2 : nat -> N -> list (list N) -> N -> list N -> N -> bool -> N -> N -> N -> list (list N) -> res (N * list (list N)).
  Hypothesis loop1_ok : forall fuel gN inputs key counter incr flags fs fe cap acc, (length inputs < fuel)%nat ->
    loop1 fuel gN inputs key counter incr flags fs fe (32 * cap) acc =
    ('(outs, st) <- batch_while fuel 4 hN cadd_rs true inputs (N.to_nat (gN / 64)) key counter incr flags fs fe cap ;;
     let '(rest, c', cap') := st in Ok (rest, c', 32 * cap', acc ++ outs)).
  Hypothesis loop2_ok : forall fuel n blocks inputs chunks key counter incr flags fs fe acc,
    (n / 64 < fuel)%nat -> Forall (fun i => length i = n) inputs ->
    ('(counter, out_w) <- loop2 fuel (N.of_nat n) inputs chunks key counter incr flags fs fe acc ;; Ok out_w)
    = (r <- single_loop (hash1_rs cip) cadd_rs true inputs blocks key counter incr flags fs fe chunks ;; Ok (acc ++ r)).

  Lemma rs_whole4_ok fuel n inputs key counter incr flags fs fe cap :
    (length inputs < fuel)%nat -> (n / 64 < fuel)%nat -> Forall (fun i => length i = n) inputs ->
    N.of_nat (length inputs) * 32 < 2 ^ 64 ->
    (let out_w : list (list N) := [] in
     t_b <- (mi_mul 64 (N.of_nat (length inputs)) rs_OUT_LEN) ;;
     assert! (t_b <=? 32 * cap) code 1101 ;;
     '(inputs, counter, out_len, out_w) <- loop1 fuel (N.of_nat n) inputs key counter incr flags fs fe (32 * cap) out_w ;;
     '(counter, out_w) <- loop2 fuel (N.of_nat n) inputs (out_len / rs_OUT_LEN) key counter incr flags fs fe out_w ;;
     Ok out_w)
    = (assert! (N.of_nat (length inputs) <=? cap) code 1101 ;;
       '(outs, (rest, counter', cap')) <-
          batch_while (S (length inputs)) 4 hN cadd_rs true inputs (blocks_of inputs) key counter incr flags fs fe cap ;;
       outs' <- single_loop (hash1_rs cip) cadd_rs true rest (blocks_of inputs) key counter' incr flags fs fe cap' ;;
       Ok (outs ++ outs')).
  Proof.
    intros Hf1 Hf2 Hall Hlen. cbv zeta. rewrite rs_prologue by exact Hlen.
    destruct (N.of_nat (length inputs) <=? cap); cbn [check bind]; [|reflexivity].
    rewrite loop1_ok by exact Hf1.
    rewrite (batch_while_fuel 4 hN cadd_rs true ltac:(lia) fuel (S (length inputs))) by lia.
    destruct inputs as [|i0 tl] eqn:Ei.
    - rewrite !batch_while_nil by lia. cbn [bind]. rewrite div32.
      rewrite (loop2_ok fuel n (blocks_of []) [] cap key counter incr flags fs fe ([] ++ []) Hf2 Hall). reflexivity.
    - rewrite <- Ei in *. rewrite (blocks_of_all n inputs) by (try assumption; subst; discriminate).
      destruct (batch_while (S (length inputs)) 4 hN cadd_rs true inputs (N.to_nat (N.of_nat n / 64)) key counter incr flags fs fe cap)
        as [[outs [[rest c'] cap']]| |] eqn:B; cbn [bind]; try reflexivity.
      destruct (batch_while_rest _ _ _ _ _ _ _ _ _ _ _ _ _ _ _ _ _ _ B) as (k & Hk).
      rewrite div32.
      rewrite (loop2_ok fuel n (N.to_nat (N.of_nat n / 64)) rest cap' key c' incr flags fs fe ([] ++ outs) Hf2)
        by (rewrite Hk; apply Forall_skipn_; exact Hall).
      reflexivity.
  Qed.
End RsWhole4.

(* src/rust_sse2.rs / src/rust_sse41.rs hash_many = the cascade model hash_many_rs4, for every list of inputs
   `&[u8; N]` (N = n), every fuel above inputs.len() and N / 64, out.len() = 32 * cap, inputs.len() * 32 < 2^64
   (a usize product).  Every result (Ok value, Panic code) is the same. *)
Theorem src_rs_sse2_hash_many_ok lc4 cip fuel n inputs key counter incr flags fs fe cap :
  (length inputs < fuel)%nat -> (n / 64 < fuel)%nat -> Forall (fun i => length i = n) inputs ->
  N.of_nat (length inputs) * 32 < 2 ^ 64 ->
  src_rs_sse2_hash_many (hashN_gen 4 transpose_msg_vecs4 lc4 store4) (okc cip) fuel (N.of_nat n) inputs key counter incr flags fs fe (32 * cap)
  = hash_many_rs4 lc4 cip inputs key counter incr flags fs fe cap.
Proof.
  intros Hf1 Hf2 Hall Hlen. unfold src_rs_sse2_hash_many, hash_many_rs4.
  apply (rs_whole4_ok (hashN_gen 4 transpose_msg_vecs4 lc4 store4) cip
           (src_rs_sse2_hash_many_loop1 (hashN_gen 4 transpose_msg_vecs4 lc4 store4) (okc cip))
           (src_rs_sse2_hash_many_loop2 (hashN_gen 4 transpose_msg_vecs4 lc4 store4) (okc cip))
           (src_rs_sse2_hash_many_loop1_ok _ _)
           (fun fuel n blocks inputs chunks key counter incr flags fs fe acc =>
              src_rs_sse2_hash_many_loop2_ok _ cip fuel n blocks inputs chunks key counter incr flags fs fe acc)); assumption.
Qed.
Theorem src_rs_sse41_hash_many_ok lc4 cip fuel n inputs key counter incr flags fs fe cap :
  (length inputs < fuel)%nat -> (n / 64 < fuel)%nat -> Forall (fun i => length i = n) inputs ->
  N.of_nat (length inputs) * 32 < 2 ^ 64 ->
  src_rs_sse41_hash_many (hashN_gen 4 transpose_msg_vecs4 lc4 store4) (okc cip) fuel (N.of_nat n) inputs key counter incr flags fs fe (32 * cap)
  = hash_many_rs4 lc4 cip inputs key counter incr flags fs fe cap.
Proof.
  intros Hf1 Hf2 Hall Hlen. unfold src_rs_sse41_hash_many, hash_many_rs4.
  apply (rs_whole4_ok (hashN_gen 4 transpose_msg_vecs4 lc4 store4) cip
           (src_rs_sse41_hash_many_loop1 (hashN_gen 4 transpose_msg_vecs4 lc4 store4) (okc cip))
           (src_rs_sse41_hash_many_loop2 (hashN_gen 4 transpose_msg_vecs4 lc4 store4) (okc cip))
           (src_rs_sse41_hash_many_loop1_ok _ _)
           (fun fuel n blocks inputs chunks key counter incr flags fs fe acc =>
              src_rs_sse41_hash_many_loop2_ok _ cip fuel n blocks inputs chunks key counter incr flags fs fe acc)); assumption.
Qed.

(* src/rust_avx2.rs hash_many, with `crate::sse41::hash_many` the translated function above, = hash_many_rs8 *)
Theorem src_rs_avx2_hash_many_ok lc8 lc4 cip fuel n inputs key counter incr flags fs fe cap :
  (length inputs < fuel)%nat -> (n / 64 < fuel)%nat -> Forall (fun i => length i = n) inputs ->
  N.of_nat (length inputs) * 32 < 2 ^ 64 ->
  src_rs_avx2_hash_many (hashN_gen 8 transpose_msg_vecs8 lc8 store8)
    (src_rs_sse41_hash_many (hashN_gen 4 transpose_msg_vecs4 lc4 store4) (okc cip) fuel)
    fuel (N.of_nat n) inputs key counter incr flags fs fe (32 * cap)
  = hash_many_rs8 lc8 lc4 cip inputs key counter incr flags fs fe cap.
Proof.
  intros Hf1 Hf2 Hall Hlen. unfold src_rs_avx2_hash_many, hash_many_rs8. cbv zeta.
  rewrite rs_prologue by exact Hlen.
  destruct (N.of_nat (length inputs) <=? cap); cbn [check bind]; [|reflexivity].
  rewrite src_rs_avx2_hash_many_loop1_ok by exact Hf1.
  rewrite (batch_while_fuel 8 _ cadd_rs true ltac:(lia) fuel (S (length inputs))) by lia.
  destruct inputs as [|i0 tl] eqn:Ei.
  - rewrite !batch_while_nil by lia. cbn [bind].
    rewrite (src_rs_sse41_hash_many_ok lc4 cip fuel n [] key counter incr flags fs fe cap) by assumption.
    destruct (hash_many_rs4 lc4 cip [] key counter incr flags fs fe cap); reflexivity.
  - rewrite <- Ei in *. rewrite (blocks_of_all n inputs) by (try assumption; subst; discriminate).
    destruct (batch_while (S (length inputs)) 8 (hashN_gen 8 transpose_msg_vecs8 lc8 store8) cadd_rs true inputs
                (N.to_nat (N.of_nat n / 64)) key counter incr flags fs fe cap)
      as [[outs [[rest c'] cap']]| |] eqn:B; cbn [bind]; try reflexivity.
    destruct (batch_while_rest _ _ _ _ _ _ _ _ _ _ _ _ _ _ _ _ _ _ B) as (k & Hk).
    assert (Lr : (length rest <= length inputs)%nat) by (rewrite Hk; apply skipn_length_le).
    rewrite (src_rs_sse41_hash_many_ok lc4 cip fuel n rest key c' incr flags fs fe cap')
      by (try lia; rewrite Hk; apply Forall_skipn_; exact Hall).
    destruct (hash_many_rs4 lc4 cip rest key c' incr flags fs fe cap'); reflexivity.
Qed.

(* ------------------------------------------------------------------ *)
(* 4. the `while (num_inputs >= DEGREE)` loops of the C files          *)
(* ------------------------------------------------------------------ *)
(* num_inputs = the number of input pointers; acc = what was written before the loop; `out'` = where the `out` pointer
   stands after the loop (it only depends on the number of iterations; nothing reads through it in these loops) *)
Section CBatch.
  Variable dn : nat.
  Hypothesis dn_pos : (1 <= dn)%nat.
  Variable hN : hashN_fn.
  Variable loop : nat -> list (list N) -> N -> N -> list N -> N -> bool -> N -> N -> N -> list N -> list (list N) ->
                  res (list (list N) * N * N * list N * list (list N)).
  Hypothesis loop_eq : forall fuel inputs num_inputs blocks key counter increment_counter flags flags_start flags_end out out_w,
    loop fuel inputs num_inputs blocks key counter increment_counter flags flags_start flags_end out out_w =
    if (N.of_nat dn <=? num_inputs) then
      match fuel with
      | O => OutOfFuel
      | S fuel =>
        t_out <- hN (firstn dn inputs) (N.to_nat blocks) key counter increment_counter flags flags_start flags_end ;;
        let out_w := out_w ++ t_out in
        counter <- (if increment_counter then
          let counter := c_wadd 64 counter (N.of_nat dn) in
          Ok counter
        else Ok counter) ;;
        let inputs := skipn dn inputs in
        let num_inputs := c_wsub 64 num_inputs (N.of_nat dn) in
        let out := skipn (32 * dn) out in
        loop fuel inputs num_inputs blocks key counter increment_counter flags flags_start flags_end out out_w
      end
    else Ok (inputs, num_inputs, counter, out, out_w).

  Lemma c_batch_ok : forall fuel inputs blocks key counter incr flags fs fe out acc,
    (length inputs < fuel)%nat -> N.of_nat (length inputs) < 2 ^ 64 ->
    exists out', loop fuel inputs (N.of_nat (length inputs)) blocks key counter incr flags fs fe out acc =
      ('(outs, st) <- batch_while fuel dn hN cadd_c false inputs (N.to_nat blocks) key counter incr flags fs fe 0 ;;
       let '(rest, c', _) := st in Ok (rest, N.of_nat (length rest), c', out', acc ++ outs)).
  Proof.
    induction fuel as [|fuel IH]; intros inputs blocks key counter incr flags fs fe out acc Hf Hn; [lia|].
    rewrite loop_eq. cbn [batch_while negb orb].
    replace (N.of_nat dn <=? N.of_nat (length inputs)) with (dn <=? length inputs)%nat
      by (destruct (Nat.leb_spec dn (length inputs)); symmetry; [apply N.leb_le|apply N.leb_gt]; lia).
    destruct (Nat.leb_spec dn (length inputs)) as [Hd|Hd]; cbn [andb];
      [|exists out; cbn [bind]; rewrite app_nil_r; reflexivity].
    destruct (hN (firstn dn inputs) (N.to_nat blocks) key counter incr flags fs fe) as [outs| |]; cbn [bind];
      [|exists out; reflexivity|exists out; reflexivity].
    cbv zeta.
    assert (E : (if incr then Ok (c_wadd 64 counter (N.of_nat dn)) else Ok counter)
                = (if incr then cadd_c counter (N.of_nat dn) else Ok counter)) by reflexivity.
    rewrite E. destruct (if incr then cadd_c counter (N.of_nat dn) else Ok counter) as [c'| |]; cbn [bind];
      [|exists out; reflexivity|exists out; reflexivity].
    rewrite c_wsub_small by lia.
    replace (N.of_nat (length inputs) - N.of_nat dn) with (N.of_nat (length (skipn dn inputs))) by (rewrite skipn_length; lia).
    destruct (IH (skipn dn inputs) blocks key c' incr flags fs fe (skipn (32 * dn) out) (acc ++ outs)) as (out' & E');
      [rewrite skipn_length; lia|rewrite skipn_length; lia|].
    exists out'. rewrite E'. rewrite N.sub_0_l.
    destruct (batch_while fuel dn hN cadd_c false (skipn dn inputs) (N.to_nat blocks) key c' incr flags fs fe 0)
      as [[o [[r c''] cap'']]| |]; cbn [bind]; try reflexivity.
    rewrite app_assoc. reflexivity.
  Qed.
End CBatch.

Ltac c_batch_eq := intros fuel; destruct fuel; reflexivity.

Lemma src_c_sse2_blake3_hash_many_sse2_loop1_eq hN ext : forall fuel inputs num_inputs blocks key counter increment_counter flags flags_start flags_end out out_w,
    src_c_sse2_blake3_hash_many_sse2_loop1 hN ext fuel inputs num_inputs blocks key counter increment_counter flags flags_start flags_end out out_w =
    if (4 <=? num_inputs) then
      match fuel with
      | O => OutOfFuel
      | S fuel =>
        t_out <- hN (firstn 4 inputs) (N.to_nat blocks) key counter increment_counter flags flags_start flags_end ;;
        let out_w := out_w ++ t_out in
        counter <- (if increment_counter then
          let counter := c_wadd 64 counter 4 in
          Ok counter
        else Ok counter) ;;
        let inputs := skipn 4 inputs in
        let num_inputs := c_wsub 64 num_inputs 4 in
        let out := skipn 128 out in
        src_c_sse2_blake3_hash_many_sse2_loop1 hN ext fuel inputs num_inputs blocks key counter increment_counter flags flags_start flags_end out out_w
      end
    else Ok (inputs, num_inputs, counter, out, out_w).
Proof. c_batch_eq. Qed.
Lemma src_c_sse41_blake3_hash_many_sse41_loop1_eq hN ext : forall fuel inputs num_inputs blocks key counter increment_counter flags flags_start flags_end out out_w,
    src_c_sse41_blake3_hash_many_sse41_loop1 hN ext fuel inputs num_inputs blocks key counter increment_counter flags flags_start flags_end out out_w =
    if (4 <=? num_inputs) then
      match fuel with
      | O => OutOfFuel
      | S fuel =>
        t_out <- hN (firstn 4 inputs) (N.to_nat blocks) key counter increment_counter flags flags_start flags_end ;;
        let out_w := out_w ++ t_out in
        counter <- (if increment_counter then
          let counter := c_wadd 64 counter 4 in
          Ok counter
        else Ok counter) ;;
        let inputs := skipn 4 inputs in
        let num_inputs := c_wsub 64 num_inputs 4 in
        let out := skipn 128 out in
        src_c_sse41_blake3_hash_many_sse41_loop1 hN ext fuel inputs num_inputs blocks key counter increment_counter flags flags_start flags_end out out_w
      end
    else Ok (inputs, num_inputs, counter, out, out_w).
Proof. c_batch_eq. Qed.
Lemma src_c_avx2_blake3_hash_many_avx2_loop1_eq hN ext : forall fuel inputs num_inputs blocks key counter increment_counter flags flags_start flags_end out out_w,
    src_c_avx2_blake3_hash_many_avx2_loop1 hN ext fuel inputs num_inputs blocks key counter increment_counter flags flags_start flags_end out out_w =
    if (8 <=? num_inputs) then
      match fuel with
      | O => OutOfFuel
      | S fuel =>
        t_out <- hN (firstn 8 inputs) (N.to_nat blocks) key counter increment_counter flags flags_start flags_end ;;
        let out_w := out_w ++ t_out in
        counter <- (if increment_counter then
          let counter := c_wadd 64 counter 8 in
          Ok counter
        else Ok counter) ;;
        let inputs := skipn 8 inputs in
        let num_inputs := c_wsub 64 num_inputs 8 in
        let out := skipn 256 out in
        src_c_avx2_blake3_hash_many_avx2_loop1 hN ext fuel inputs num_inputs blocks key counter increment_counter flags flags_start flags_end out out_w
      end
    else Ok (inputs, num_inputs, counter, out, out_w).
Proof. c_batch_eq. Qed.
Lemma src_c_avx512_blake3_hash_many_avx512_loop2_eq h16 h8 h4 ext : forall fuel inputs num_inputs blocks key counter increment_counter flags flags_start flags_end out out_w,
    src_c_avx512_blake3_hash_many_avx512_loop2 h16 h8 h4 ext fuel inputs num_inputs blocks key counter increment_counter flags flags_start flags_end out out_w =
    if (8 <=? num_inputs) then
      match fuel with
      | O => OutOfFuel
      | S fuel =>
        t_out <- h8 (firstn 8 inputs) (N.to_nat blocks) key counter increment_counter flags flags_start flags_end ;;
        let out_w := out_w ++ t_out in
        counter <- (if increment_counter then
          let counter := c_wadd 64 counter 8 in
          Ok counter
        else Ok counter) ;;
        let inputs := skipn 8 inputs in
        let num_inputs := c_wsub 64 num_inputs 8 in
        let out := skipn 256 out in
        src_c_avx512_blake3_hash_many_avx512_loop2 h16 h8 h4 ext fuel inputs num_inputs blocks key counter increment_counter flags flags_start flags_end out out_w
      end
    else Ok (inputs, num_inputs, counter, out, out_w).
Proof. c_batch_eq. Qed.
Lemma src_c_avx512_blake3_hash_many_avx512_loop3_eq h16 h8 h4 ext : forall fuel inputs num_inputs blocks key counter increment_counter flags flags_start flags_end out out_w,
    src_c_avx512_blake3_hash_many_avx512_loop3 h16 h8 h4 ext fuel inputs num_inputs blocks key counter increment_counter flags flags_start flags_end out out_w =
    if (4 <=? num_inputs) then
      match fuel with
      | O => OutOfFuel
      | S fuel =>
        t_out <- h4 (firstn 4 inputs) (N.to_nat blocks) key counter increment_counter flags flags_start flags_end ;;
        let out_w := out_w ++ t_out in
        counter <- (if increment_counter then
          let counter := c_wadd 64 counter 4 in
          Ok counter
        else Ok counter) ;;
        let inputs := skipn 4 inputs in
        let num_inputs := c_wsub 64 num_inputs 4 in
        let out := skipn 128 out in
        src_c_avx512_blake3_hash_many_avx512_loop3 h16 h8 h4 ext fuel inputs num_inputs blocks key counter increment_counter flags flags_start flags_end out out_w
      end
    else Ok (inputs, num_inputs, counter, out, out_w).
Proof. c_batch_eq. Qed.
Lemma src_c_avx512_blake3_hash_many_avx512_loop1_eq h16 h8 h4 ext : forall fuel inputs num_inputs blocks key counter increment_counter flags flags_start flags_end out out_w,
    src_c_avx512_blake3_hash_many_avx512_loop1 h16 h8 h4 ext fuel inputs num_inputs blocks key counter increment_counter flags flags_start flags_end out out_w =
    if (16 <=? num_inputs) then
      match fuel with
      | O => OutOfFuel
      | S fuel =>
        t_out <- h16 (firstn 16 inputs) (N.to_nat blocks) key counter increment_counter flags flags_start flags_end ;;
        let out_w := out_w ++ t_out in
        counter <- (if increment_counter then
          let counter := c_wadd 64 counter 16 in
          Ok counter
        else Ok counter) ;;
        let inputs := skipn 16 inputs in
        let num_inputs := c_wsub 64 num_inputs 16 in
        let out := skipn 512 out in
        src_c_avx512_blake3_hash_many_avx512_loop1 h16 h8 h4 ext fuel inputs num_inputs blocks key counter increment_counter flags flags_start flags_end out out_w
      end
    else Ok (inputs, num_inputs, counter, out, out_w).
Proof. c_batch_eq. Qed.

(* each `while (num_inputs >= DEGREE)` loop is batch_while DEGREE with the wrapping counter and no capacity test *)
Theorem src_c_sse2_blake3_hash_many_sse2_loop1_ok hN ext : forall fuel inputs blocks key counter incr flags fs fe out acc,
  (length inputs < fuel)%nat -> N.of_nat (length inputs) < 2 ^ 64 ->
  exists out', src_c_sse2_blake3_hash_many_sse2_loop1 hN ext fuel inputs (N.of_nat (length inputs)) blocks key counter incr flags fs fe out acc =
    ('(outs, st) <- batch_while fuel 4 hN cadd_c false inputs (N.to_nat blocks) key counter incr flags fs fe 0 ;;
     let '(rest, c', _) := st in Ok (rest, N.of_nat (length rest), c', out', acc ++ outs)).
Proof. apply (c_batch_ok 4 ltac:(lia) hN _ (src_c_sse2_blake3_hash_many_sse2_loop1_eq hN ext)). Qed.
Theorem src_c_sse41_blake3_hash_many_sse41_loop1_ok hN ext : forall fuel inputs blocks key counter incr flags fs fe out acc,
  (length inputs < fuel)%nat -> N.of_nat (length inputs) < 2 ^ 64 ->
  exists out', src_c_sse41_blake3_hash_many_sse41_loop1 hN ext fuel inputs (N.of_nat (length inputs)) blocks key counter incr flags fs fe out acc =
    ('(outs, st) <- batch_while fuel 4 hN cadd_c false inputs (N.to_nat blocks) key counter incr flags fs fe 0 ;;
     let '(rest, c', _) := st in Ok (rest, N.of_nat (length rest), c', out', acc ++ outs)).
Proof. apply (c_batch_ok 4 ltac:(lia) hN _ (src_c_sse41_blake3_hash_many_sse41_loop1_eq hN ext)). Qed.
Theorem src_c_avx2_blake3_hash_many_avx2_loop1_ok hN ext : forall fuel inputs blocks key counter incr flags fs fe out acc,
  (length inputs < fuel)%nat -> N.of_nat (length inputs) < 2 ^ 64 ->
  exists out', src_c_avx2_blake3_hash_many_avx2_loop1 hN ext fuel inputs (N.of_nat (length inputs)) blocks key counter incr flags fs fe out acc =
    ('(outs, st) <- batch_while fuel 8 hN cadd_c false inputs (N.to_nat blocks) key counter incr flags fs fe 0 ;;
     let '(rest, c', _) := st in Ok (rest, N.of_nat (length rest), c', out', acc ++ outs)).
Proof. apply (c_batch_ok 8 ltac:(lia) hN _ (src_c_avx2_blake3_hash_many_avx2_loop1_eq hN ext)). Qed.
Theorem src_c_avx512_blake3_hash_many_avx512_loop1_ok' h16 h8 h4 ext : forall fuel inputs blocks key counter incr flags fs fe out acc,
  (length inputs < fuel)%nat -> N.of_nat (length inputs) < 2 ^ 64 ->
  exists out', src_c_avx512_blake3_hash_many_avx512_loop1 h16 h8 h4 ext fuel inputs (N.of_nat (length inputs)) blocks key counter incr flags fs fe out acc =
    ('(outs, st) <- batch_while fuel 16 h16 cadd_c false inputs (N.to_nat blocks) key counter incr flags fs fe 0 ;;
     let '(rest, c', _) := st in Ok (rest, N.of_nat (length rest), c', out', acc ++ outs)).
Proof. apply (c_batch_ok 16 ltac:(lia) h16 _ (src_c_avx512_blake3_hash_many_avx512_loop1_eq h16 h8 h4 ext)). Qed.
Theorem src_c_avx512_blake3_hash_many_avx512_loop2_ok h16 h8 h4 ext : forall fuel inputs blocks key counter incr flags fs fe out acc,
  (length inputs < fuel)%nat -> N.of_nat (length inputs) < 2 ^ 64 ->
  exists out', src_c_avx512_blake3_hash_many_avx512_loop2 h16 h8 h4 ext fuel inputs (N.of_nat (length inputs)) blocks key counter incr flags fs fe out acc =
    ('(outs, st) <- batch_while fuel 8 h8 cadd_c false inputs (N.to_nat blocks) key counter incr flags fs fe 0 ;;
     let '(rest, c', _) := st in Ok (rest, N.of_nat (length rest), c', out', acc ++ outs)).
Proof. apply (c_batch_ok 8 ltac:(lia) h8 _ (src_c_avx512_blake3_hash_many_avx512_loop2_eq h16 h8 h4 ext)). Qed.
Theorem src_c_avx512_blake3_hash_many_avx512_loop3_ok h16 h8 h4 ext : forall fuel inputs blocks key counter incr flags fs fe out acc,
  (length inputs < fuel)%nat -> N.of_nat (length inputs) < 2 ^ 64 ->
  exists out', src_c_avx512_blake3_hash_many_avx512_loop3 h16 h8 h4 ext fuel inputs (N.of_nat (length inputs)) blocks key counter incr flags fs fe out acc =
    ('(outs, st) <- batch_while fuel 4 h4 cadd_c false inputs (N.to_nat blocks) key counter incr flags fs fe 0 ;;
     let '(rest, c', _) := st in Ok (rest, N.of_nat (length rest), c', out', acc ++ outs)).
Proof. apply (c_batch_ok 4 ltac:(lia) h4 _ (src_c_avx512_blake3_hash_many_avx512_loop3_eq h16 h8 h4 ext)). Qed.

(* ------------------------------------------------------------------ *)
(* 5. the trailing `while (num_inputs > 0)` loops of the C files       *)
(* ------------------------------------------------------------------ *)
Section CSingle.
  (* the translated hash_one_*, the model's one-input function, the block count and the fixed arguments *)
  Variable H1 : nat -> list N -> N -> list N -> N -> N -> N -> N -> list N -> res (list N).
  Variable h1 : hash1_fn.
  Variable bn : nat.
  Variable key : list N.
  Variables flags fs fe : N.
  (* invariant of each input, and of the `out` area when k inputs are still to be hashed *)
  Variable P : list N -> Prop.
  Variable Io : nat -> list N -> Prop.
  Hypothesis H1_ok : forall fuel input ctr out k, (bn < fuel)%nat -> P input -> Io (S k) out ->
    H1 fuel input (N.of_nat bn) key ctr flags fs fe (firstn 32 out) = h1 input bn key ctr flags fs fe.
  Hypothesis Io_step : forall k out, Io (S k) out -> Io k (skipn 32 out).
  Variable loop : nat -> list (list N) -> N -> N -> list N -> N -> bool -> N -> N -> N -> list N -> list (list N) ->
                  res (list (list N) * N * N * list N * list (list N)).
  Hypothesis loop_eq : forall fuel inputs num_inputs blocks key counter increment_counter flags flags_start flags_end out out_w,
    loop fuel inputs num_inputs blocks key counter increment_counter flags flags_start flags_end out out_w =
    if (0 <? num_inputs) then
      match fuel with
      | O => OutOfFuel
      | S fuel =>
        t_out <- H1 fuel (nth 0 inputs []) blocks key counter flags flags_start flags_end (firstn 32 out) ;;
        let out_w := out_w ++ [t_out] in
        counter <- (if increment_counter then
          let counter := c_wadd 64 counter 1 in
          Ok counter
        else Ok counter) ;;
        let inputs := skipn 1 inputs in
        let num_inputs := c_wsub 64 num_inputs 1 in
        let out := skipn 32 out in
        loop fuel inputs num_inputs blocks key counter increment_counter flags flags_start flags_end out out_w
      end
    else Ok (inputs, num_inputs, counter, out, out_w).

  Lemma c_single_ok : forall inputs fuel counter incr out acc,
    (length inputs + bn < fuel)%nat -> N.of_nat (length inputs) < 2 ^ 64 -> Forall P inputs -> Io (length inputs) out ->
    ('(inputs, num_inputs, counter, out, out_w) <-
        loop fuel inputs (N.of_nat (length inputs)) (N.of_nat bn) key counter incr flags fs fe out acc ;; Ok out_w)
    = (r <- single_loop h1 cadd_c false inputs bn key counter incr flags fs fe 0 ;; Ok (acc ++ r)).
  Proof.
    induction inputs as [|input tl IH]; intros fuel counter incr out acc Hf Hn Hall Ho; rewrite loop_eq.
    - cbn [length single_loop]. change (0 <? N.of_nat 0) with false. cbn [bind]. rewrite app_nil_r. reflexivity.
    - destruct fuel as [|fuel]; [lia|]. cbn [length] in Hf, Hn, Ho.
      replace (0 <? N.of_nat (length (input :: tl))) with true by (symmetry; apply N.ltb_lt; cbn [length]; lia).
      cbn [nth single_loop andb]. inversion Hall as [|? ? Hi Htl]; subst.
      rewrite (H1_ok fuel input counter out (length tl)) by (try assumption; lia).
      destruct (h1 input bn key counter flags fs fe) as [cv| |]; cbn [bind]; try reflexivity.
      cbv zeta.
      assert (E : (if incr then Ok (c_wadd 64 counter 1) else Ok counter) = (if incr then cadd_c counter 1 else Ok counter))
        by reflexivity.
      rewrite E. destruct (if incr then cadd_c counter 1 else Ok counter) as [c'| |]; cbn [bind]; try reflexivity.
      rewrite c_wsub_small by (cbn [length]; lia).
      replace (N.of_nat (length (input :: tl)) - 1) with (N.of_nat (length tl)) by (cbn [length]; lia).
      cbn [skipn]. rewrite IH by (try assumption; try lia; apply Io_step; exact Ho).
      rewrite N.sub_0_l.
      destruct (single_loop h1 cadd_c false tl bn key c' incr flags fs fe 0); cbn [bind]; try reflexivity.
      rewrite <- app_assoc. reflexivity.
  Qed.
End CSingle.

(* compress_in_place keeps a chaining value 8 words long (the C `uint32_t cv[8]`) *)
Definition cip_len8 (cip : cip_fn) : Prop :=
  forall cv block bl ctr fl, length cv = 8%nat -> length (cip cv block bl ctr fl) = 8%nat.

Lemma hash_one_go_len8 cip : cip_len8 cip -> forall blocks cv input ctr fl bf fe, length cv = 8%nat ->
  length (hash_one_go cip blocks cv input ctr fl bf fe) = 8%nat.
Proof.
  intros Hc. induction blocks as [|blocks IH]; intros cv input ctr fl bf fe L; [exact L|].
  cbn [hash_one_go]. apply IH. apply Hc. exact L.
Qed.

Definition no_out (_ : nat) (_ : list N) : Prop := True.
Definition long_enough (bn : nat) (input : list N) : Prop := (64 * bn <= length input)%nat.

Ltac c_single_eq := intros fuel; destruct fuel; reflexivity.
Lemma src_c_sse2_blake3_hash_many_sse2_loop2_eq hN ext : forall fuel inputs num_inputs blocks key counter increment_counter flags flags_start flags_end out out_w,
    src_c_sse2_blake3_hash_many_sse2_loop2 hN ext fuel inputs num_inputs blocks key counter increment_counter flags flags_start flags_end out out_w =
    if (0 <? num_inputs) then
      match fuel with
      | O => OutOfFuel
      | S fuel =>
        t_out <- src_c_sse2_hash_one_sse2 ext fuel (nth 0 inputs []) blocks key counter flags flags_start flags_end (firstn 32 out) ;;
        let out_w := out_w ++ [t_out] in
        counter <- (if increment_counter then
          let counter := c_wadd 64 counter 1 in
          Ok counter
        else Ok counter) ;;
        let inputs := skipn 1 inputs in
        let num_inputs := c_wsub 64 num_inputs 1 in
        let out := skipn 32 out in
        src_c_sse2_blake3_hash_many_sse2_loop2 hN ext fuel inputs num_inputs blocks key counter increment_counter flags flags_start flags_end out out_w
      end
    else Ok (inputs, num_inputs, counter, out, out_w).
Proof. c_single_eq. Qed.
Lemma src_c_sse41_blake3_hash_many_sse41_loop2_eq hN ext : forall fuel inputs num_inputs blocks key counter increment_counter flags flags_start flags_end out out_w,
    src_c_sse41_blake3_hash_many_sse41_loop2 hN ext fuel inputs num_inputs blocks key counter increment_counter flags flags_start flags_end out out_w =
    if (0 <? num_inputs) then
      match fuel with
      | O => OutOfFuel
      | S fuel =>
        t_out <- src_c_sse41_hash_one_sse41 ext fuel (nth 0 inputs []) blocks key counter flags flags_start flags_end (firstn 32 out) ;;
        let out_w := out_w ++ [t_out] in
        counter <- (if increment_counter then
          let counter := c_wadd 64 counter 1 in
          Ok counter
        else Ok counter) ;;
        let inputs := skipn 1 inputs in
        let num_inputs := c_wsub 64 num_inputs 1 in
        let out := skipn 32 out in
        src_c_sse41_blake3_hash_many_sse41_loop2 hN ext fuel inputs num_inputs blocks key counter increment_counter flags flags_start flags_end out out_w
      end
    else Ok (inputs, num_inputs, counter, out, out_w).
Proof. c_single_eq. Qed.
Lemma src_c_avx512_blake3_hash_many_avx512_loop4_eq h16 h8 h4 ext : forall fuel inputs num_inputs blocks key counter increment_counter flags flags_start flags_end out out_w,
    src_c_avx512_blake3_hash_many_avx512_loop4 h16 h8 h4 ext fuel inputs num_inputs blocks key counter increment_counter flags flags_start flags_end out out_w =
    if (0 <? num_inputs) then
      match fuel with
      | O => OutOfFuel
      | S fuel =>
        t_out <- src_c_avx512_hash_one_avx512 ext fuel (nth 0 inputs []) blocks key counter flags flags_start flags_end (firstn 32 out) ;;
        let out_w := out_w ++ [t_out] in
        counter <- (if increment_counter then
          let counter := c_wadd 64 counter 1 in
          Ok counter
        else Ok counter) ;;
        let inputs := skipn 1 inputs in
        let num_inputs := c_wsub 64 num_inputs 1 in
        let out := skipn 32 out in
        src_c_avx512_blake3_hash_many_avx512_loop4 h16 h8 h4 ext fuel inputs num_inputs blocks key counter increment_counter flags flags_start flags_end out out_w
      end
    else Ok (inputs, num_inputs, counter, out, out_w).
Proof. c_single_eq. Qed.
Lemma src_c_portable_blake3_hash_many_portable_loop1_eq : forall fuel inputs num_inputs blocks key counter increment_counter flags flags_start flags_end out out_w,
    src_c_portable_blake3_hash_many_portable_loop1 fuel inputs num_inputs blocks key counter increment_counter flags flags_start flags_end out out_w =
    if (0 <? num_inputs) then
      match fuel with
      | O => OutOfFuel
      | S fuel =>
        t_out <- src_c_portable_hash_one_portable fuel (nth 0 inputs []) blocks key counter flags flags_start flags_end (firstn 32 out) ;;
        let out_w := out_w ++ [t_out] in
        counter <- (if increment_counter then
          let counter := c_wadd 64 counter 1 in
          Ok counter
        else Ok counter) ;;
        let inputs := skipn 1 inputs in
        let num_inputs := c_wsub 64 num_inputs 1 in
        let out := skipn 32 out in
        src_c_portable_blake3_hash_many_portable_loop1 fuel inputs num_inputs blocks key counter increment_counter flags flags_start flags_end out out_w
      end
    else Ok (inputs, num_inputs, counter, out, out_w).
Proof. c_single_eq. Qed.

(* the trailing loop of blake3_hash_many_sse2 / _sse41 / _avx512 is single_loop over hash_one_c with the wrapping
   counter: num_inputs = the number of input pointers, every input has at least 64 * blocks bytes, the key has 8
   words, fuel above num_inputs + blocks (the inner hash_one loop runs on the same fuel), compress_in_place keeps the
   cv 8 words long; `out` is arbitrary (hash_one_* only writes through it) *)
Theorem src_c_sse2_blake3_hash_many_sse2_loop2_ok hN (cip : cip_fn) bn key flags fs fe : cip_len8 cip -> length key = 8%nat ->
  N.of_nat bn < 2 ^ 64 -> forall inputs fuel counter incr out acc,
  (length inputs + bn < fuel)%nat -> N.of_nat (length inputs) < 2 ^ 64 -> Forall (long_enough bn) inputs ->
  ('(inputs, num_inputs, counter, out, out_w) <-
      src_c_sse2_blake3_hash_many_sse2_loop2 hN cip fuel inputs (N.of_nat (length inputs)) (N.of_nat bn) key counter incr flags fs fe out acc ;; Ok out_w)
  = (r <- single_loop (hash_one_c cip) cadd_c false inputs bn key counter incr flags fs fe 0 ;; Ok (acc ++ r)).
Proof.
  intros Hc Lk Hb inputs fuel counter incr out acc Hf Hn Hall.
  apply (c_single_ok (src_c_sse2_hash_one_sse2 cip) (hash_one_c cip) bn key flags fs fe (long_enough bn) no_out
           (fun fuel input ctr out k Hfu Hp _ => src_c_sse2_hash_one_sse2_ok cip fuel input bn key ctr flags fs fe (firstn 32 out)
              Lk Hfu Hb Hp (hash_one_go_len8 cip Hc bn key input ctr flags (N.lor flags fs) fe Lk))
           (fun _ _ _ => I)
           (src_c_sse2_blake3_hash_many_sse2_loop2 hN cip) (src_c_sse2_blake3_hash_many_sse2_loop2_eq hN cip));
    try assumption; exact I.
Qed.
Theorem src_c_sse41_blake3_hash_many_sse41_loop2_ok hN (cip : cip_fn) bn key flags fs fe : cip_len8 cip -> length key = 8%nat ->
  N.of_nat bn < 2 ^ 64 -> forall inputs fuel counter incr out acc,
  (length inputs + bn < fuel)%nat -> N.of_nat (length inputs) < 2 ^ 64 -> Forall (long_enough bn) inputs ->
  ('(inputs, num_inputs, counter, out, out_w) <-
      src_c_sse41_blake3_hash_many_sse41_loop2 hN cip fuel inputs (N.of_nat (length inputs)) (N.of_nat bn) key counter incr flags fs fe out acc ;; Ok out_w)
  = (r <- single_loop (hash_one_c cip) cadd_c false inputs bn key counter incr flags fs fe 0 ;; Ok (acc ++ r)).
Proof.
  intros Hc Lk Hb inputs fuel counter incr out acc Hf Hn Hall.
  apply (c_single_ok (src_c_sse41_hash_one_sse41 cip) (hash_one_c cip) bn key flags fs fe (long_enough bn) no_out
           (fun fuel input ctr out k Hfu Hp _ => src_c_sse41_hash_one_sse41_ok cip fuel input bn key ctr flags fs fe (firstn 32 out)
              Lk Hfu Hb Hp (hash_one_go_len8 cip Hc bn key input ctr flags (N.lor flags fs) fe Lk))
           (fun _ _ _ => I)
           (src_c_sse41_blake3_hash_many_sse41_loop2 hN cip) (src_c_sse41_blake3_hash_many_sse41_loop2_eq hN cip));
    try assumption; exact I.
Qed.
Theorem src_c_avx512_blake3_hash_many_avx512_loop4_ok h16 h8 h4 (cip : cip_fn) bn key flags fs fe : cip_len8 cip -> length key = 8%nat ->
  N.of_nat bn < 2 ^ 64 -> forall inputs fuel counter incr out acc,
  (length inputs + bn < fuel)%nat -> N.of_nat (length inputs) < 2 ^ 64 -> Forall (long_enough bn) inputs ->
  ('(inputs, num_inputs, counter, out, out_w) <-
      src_c_avx512_blake3_hash_many_avx512_loop4 h16 h8 h4 cip fuel inputs (N.of_nat (length inputs)) (N.of_nat bn) key counter incr flags fs fe out acc ;; Ok out_w)
  = (r <- single_loop (hash_one_c cip) cadd_c false inputs bn key counter incr flags fs fe 0 ;; Ok (acc ++ r)).
Proof.
  intros Hc Lk Hb inputs fuel counter incr out acc Hf Hn Hall.
  apply (c_single_ok (src_c_avx512_hash_one_avx512 cip) (hash_one_c cip) bn key flags fs fe (long_enough bn) no_out
           (fun fuel input ctr out k Hfu Hp _ => src_c_avx512_hash_one_avx512_ok cip fuel input bn key ctr flags fs fe (firstn 32 out)
              Lk Hfu Hb Hp (hash_one_go_len8 cip Hc bn key input ctr flags (N.lor flags fs) fe Lk))
           (fun _ _ _ => I)
           (src_c_avx512_blake3_hash_many_avx512_loop4 h16 h8 h4 cip) (src_c_avx512_blake3_hash_many_avx512_loop4_eq h16 h8 h4 cip));
    try assumption; exact I.
Qed.

(* ------------------------------------------------------------------ *)
(* 6. the whole blake3_hash_many_sse2 / _sse41 / _avx2 / _avx512       *)
(* ------------------------------------------------------------------ *)
Section CWhole4.
  Variable hN : hashN_fn.
  Variable cip : cip_fn.
  Variable bn : nat.
  Variable key : list N.
  Variables flags fs fe : N.
  Variable loop1 loop2 : nat -> list (list N) -> N -> N -> list N -> N -> bool -> N -> N -> N -> list N -> list (list N) ->
                  res (list (list N) * N * N * list N * list (list N)).
  Hypothesis loop1_ok : forall fuel inputs blocks key counter incr flags fs fe out acc,
    (length inputs < fuel)%nat -> N.of_nat (length inputs) < 2 ^ 64 ->
    exists out', loop1 fuel inputs (N.of_nat (length inputs)) blocks key counter incr flags fs fe out acc =
      ('(outs, st) <- batch_while fuel 4 hN cadd_c false inputs (N.to_nat blocks) key counter incr flags fs fe 0 ;;
       let '(rest, c', _) := st in Ok (rest, N.of_nat (length rest), c', out', acc ++ outs)).
  Hypothesis loop2_ok : forall inputs fuel counter incr out acc,
    (length inputs + bn < fuel)%nat -> N.of_nat (length inputs) < 2 ^ 64 -> Forall (long_enough bn) inputs ->
    ('(inputs, num_inputs, counter, out, out_w) <-
        loop2 fuel inputs (N.of_nat (length inputs)) (N.of_nat bn) key counter incr flags fs fe out acc ;; Ok out_w)
    = (r <- single_loop (hash_one_c cip) cadd_c false inputs bn key counter incr flags fs fe 0 ;; Ok (acc ++ r)).

  Lemma c_whole4_ok fuel inputs counter incr out :
    (length inputs + bn < fuel)%nat -> N.of_nat (length inputs) < 2 ^ 64 -> Forall (long_enough bn) inputs ->
    (let out_w : list (list N) := [] in
     '(inputs, num_inputs, counter, out, out_w) <-
        loop1 fuel inputs (N.of_nat (length inputs)) (N.of_nat bn) key counter incr flags fs fe out out_w ;;
     '(inputs, num_inputs, counter, out, out_w) <-
        loop2 fuel inputs num_inputs (N.of_nat bn) key counter incr flags fs fe out out_w ;;
     Ok out_w)
    = ('(outs, (rest, counter', _)) <-
         batch_while (S (length inputs)) 4 hN cadd_c false inputs bn key counter incr flags fs fe 0 ;;
       outs' <- single_loop (hash_one_c cip) cadd_c false rest bn key counter' incr flags fs fe 0 ;;
       Ok (outs ++ outs')).
  Proof.
    intros Hf Hn Hall. cbv zeta.
    destruct (loop1_ok fuel inputs (N.of_nat bn) key counter incr flags fs fe out [] ltac:(lia) Hn) as (out' & E).
    rewrite E, Nat2N.id.
    rewrite (batch_while_fuel 4 hN cadd_c false ltac:(lia) fuel (S (length inputs))) by lia.
    destruct (batch_while (S (length inputs)) 4 hN cadd_c false inputs bn key counter incr flags fs fe 0)
      as [[outs [[rest c'] cap']]| |] eqn:B; cbn [bind]; try reflexivity.
    destruct (batch_while_rest _ _ _ _ _ _ _ _ _ _ _ _ _ _ _ _ _ _ B) as (k & Hk).
    assert (Lr : (length rest <= length inputs)%nat) by (rewrite Hk; apply skipn_length_le).
    rewrite loop2_ok by (try lia; rewrite Hk; apply Forall_skipn_; exact Hall).
    reflexivity.
  Qed.
End CWhole4.

(* blake3_hash_many_sse2 / blake3_hash_many_sse41 (c/blake3_sse2.c, c/blake3_sse41.c) = the cascade model hash_many_c4,
   for every list of inputs of at least 64 * blocks bytes each, num_inputs = their number, a key of 8 words, every fuel
   above num_inputs + blocks, any `out` pointer.  No result is a Panic on either side unless the 4-way kernel panics. *)
Theorem src_c_sse2_blake3_hash_many_sse2_ok lc4 (cip : cip_fn) fuel inputs bn key counter incr flags fs fe out :
  cip_len8 cip -> length key = 8%nat -> N.of_nat bn < 2 ^ 64 ->
  (length inputs + bn < fuel)%nat -> N.of_nat (length inputs) < 2 ^ 64 -> Forall (long_enough bn) inputs ->
  src_c_sse2_blake3_hash_many_sse2 (hashN_gen 4 transpose_msg_vecs4 lc4 store4) cip fuel inputs (N.of_nat (length inputs))
    (N.of_nat bn) key counter incr flags fs fe out
  = hash_many_c4 lc4 cip inputs bn key counter incr flags fs fe.
Proof.
  intros Hc Lk Hb Hf Hn Hall. unfold src_c_sse2_blake3_hash_many_sse2, hash_many_c4.
  apply (c_whole4_ok (hashN_gen 4 transpose_msg_vecs4 lc4 store4) cip bn key flags fs fe
           (src_c_sse2_blake3_hash_many_sse2_loop1 (hashN_gen 4 transpose_msg_vecs4 lc4 store4) cip)
           (src_c_sse2_blake3_hash_many_sse2_loop2 (hashN_gen 4 transpose_msg_vecs4 lc4 store4) cip)
           (src_c_sse2_blake3_hash_many_sse2_loop1_ok _ cip)
           (src_c_sse2_blake3_hash_many_sse2_loop2_ok _ cip bn key flags fs fe Hc Lk Hb)); assumption.
Qed.
Theorem src_c_sse41_blake3_hash_many_sse41_ok lc4 (cip : cip_fn) fuel inputs bn key counter incr flags fs fe out :
  cip_len8 cip -> length key = 8%nat -> N.of_nat bn < 2 ^ 64 ->
  (length inputs + bn < fuel)%nat -> N.of_nat (length inputs) < 2 ^ 64 -> Forall (long_enough bn) inputs ->
  src_c_sse41_blake3_hash_many_sse41 (hashN_gen 4 transpose_msg_vecs4 lc4 store4) cip fuel inputs (N.of_nat (length inputs))
    (N.of_nat bn) key counter incr flags fs fe out
  = hash_many_c4 lc4 cip inputs bn key counter incr flags fs fe.
Proof.
  intros Hc Lk Hb Hf Hn Hall. unfold src_c_sse41_blake3_hash_many_sse41, hash_many_c4.
  apply (c_whole4_ok (hashN_gen 4 transpose_msg_vecs4 lc4 store4) cip bn key flags fs fe
           (src_c_sse41_blake3_hash_many_sse41_loop1 (hashN_gen 4 transpose_msg_vecs4 lc4 store4) cip)
           (src_c_sse41_blake3_hash_many_sse41_loop2 (hashN_gen 4 transpose_msg_vecs4 lc4 store4) cip)
           (src_c_sse41_blake3_hash_many_sse41_loop1_ok _ cip)
           (src_c_sse41_blake3_hash_many_sse41_loop2_ok _ cip bn key flags fs fe Hc Lk Hb)); assumption.
Qed.

(* blake3_hash_many_avx2 (c/blake3_avx2.c), with `blake3_hash_many_sse41` the translated function above, = hash_many_c8 *)
Theorem src_c_avx2_blake3_hash_many_avx2_ok lc8 lc4 (cip : cip_fn) fuel inputs bn key counter incr flags fs fe out :
  cip_len8 cip -> length key = 8%nat -> N.of_nat bn < 2 ^ 64 ->
  (length inputs + bn < fuel)%nat -> N.of_nat (length inputs) < 2 ^ 64 -> Forall (long_enough bn) inputs ->
  src_c_avx2_blake3_hash_many_avx2 (hashN_gen 8 transpose_msg_vecs8 lc8 store8)
    (src_c_sse41_blake3_hash_many_sse41 (hashN_gen 4 transpose_msg_vecs4 lc4 store4) cip fuel)
    fuel inputs (N.of_nat (length inputs)) (N.of_nat bn) key counter incr flags fs fe out
  = hash_many_c8 lc8 lc4 cip inputs bn key counter incr flags fs fe.
Proof.
  intros Hc Lk Hb Hf Hn Hall. unfold src_c_avx2_blake3_hash_many_avx2, hash_many_c8. cbv zeta.
  destruct (src_c_avx2_blake3_hash_many_avx2_loop1_ok (hashN_gen 8 transpose_msg_vecs8 lc8 store8)
              (src_c_sse41_blake3_hash_many_sse41 (hashN_gen 4 transpose_msg_vecs4 lc4 store4) cip fuel)
              fuel inputs (N.of_nat bn) key counter incr flags fs fe out [] ltac:(lia) Hn) as (out' & E).
  rewrite E, Nat2N.id.
  rewrite (batch_while_fuel 8 _ cadd_c false ltac:(lia) fuel (S (length inputs))) by lia.
  destruct (batch_while (S (length inputs)) 8 (hashN_gen 8 transpose_msg_vecs8 lc8 store8) cadd_c false inputs bn key counter incr flags fs fe 0)
    as [[outs [[rest c'] cap']]| |] eqn:B; cbn [bind]; try reflexivity.
  destruct (batch_while_rest _ _ _ _ _ _ _ _ _ _ _ _ _ _ _ _ _ _ B) as (k & Hk).
  assert (Lr : (length rest <= length inputs)%nat) by (rewrite Hk; apply skipn_length_le).
  rewrite (src_c_sse41_blake3_hash_many_sse41_ok lc4 cip fuel rest bn key c' incr flags fs fe out')
    by (try assumption; try lia; rewrite Hk; apply Forall_skipn_; exact Hall).
  destruct (hash_many_c4 lc4 cip rest bn key c' incr flags fs fe); reflexivity.
Qed.

(* blake3_hash_many_avx512 (c/blake3_avx512.c): 16, 8, 4, 1 = hash_many_c16 *)
Theorem src_c_avx512_blake3_hash_many_avx512_ok (cip : cip_fn) fuel inputs bn key counter incr flags fs fe out :
  cip_len8 cip -> length key = 8%nat -> N.of_nat bn < 2 ^ 64 ->
  (length inputs + bn < fuel)%nat -> N.of_nat (length inputs) < 2 ^ 64 -> Forall (long_enough bn) inputs ->
  src_c_avx512_blake3_hash_many_avx512 hash16_avx512 hash8_avx512 hash4_avx512 cip fuel inputs (N.of_nat (length inputs))
    (N.of_nat bn) key counter incr flags fs fe out
  = hash_many_c16 cip inputs bn key counter incr flags fs fe.
Proof.
  intros Hc Lk Hb Hf Hn Hall. unfold src_c_avx512_blake3_hash_many_avx512, hash_many_c16. cbv zeta.
  (* 16 *)
  destruct (src_c_avx512_blake3_hash_many_avx512_loop1_ok' hash16_avx512 hash8_avx512 hash4_avx512 cip
              fuel inputs (N.of_nat bn) key counter incr flags fs fe out [] ltac:(lia) Hn) as (out1 & E1).
  rewrite E1, Nat2N.id.
  rewrite (batch_while_fuel 16 _ cadd_c false ltac:(lia) fuel (S (length inputs))) by lia.
  destruct (batch_while (S (length inputs)) 16 hash16_avx512 cadd_c false inputs bn key counter incr flags fs fe 0)
    as [[o16 [[r1 c1] cap1]]| |] eqn:B1; cbn [bind]; try reflexivity.
  destruct (batch_while_rest _ _ _ _ _ _ _ _ _ _ _ _ _ _ _ _ _ _ B1) as (k1 & Hk1).
  assert (L1 : (length r1 <= length inputs)%nat) by (rewrite Hk1; apply skipn_length_le).
  assert (A1 : Forall (long_enough bn) r1) by (rewrite Hk1; apply Forall_skipn_; exact Hall).
  (* 8 *)
  destruct (src_c_avx512_blake3_hash_many_avx512_loop2_ok hash16_avx512 hash8_avx512 hash4_avx512 cip
              fuel r1 (N.of_nat bn) key c1 incr flags fs fe out1 ([] ++ o16) ltac:(lia) ltac:(lia)) as (out2 & E2).
  rewrite E2, Nat2N.id.
  rewrite (batch_while_fuel 8 _ cadd_c false ltac:(lia) fuel (S (length r1))) by lia.
  destruct (batch_while (S (length r1)) 8 hash8_avx512 cadd_c false r1 bn key c1 incr flags fs fe 0)
    as [[o8 [[r2 c2] cap2]]| |] eqn:B2; cbn [bind]; try reflexivity.
  destruct (batch_while_rest _ _ _ _ _ _ _ _ _ _ _ _ _ _ _ _ _ _ B2) as (k2 & Hk2).
  assert (L2 : (length r2 <= length r1)%nat) by (rewrite Hk2; apply skipn_length_le).
  assert (A2 : Forall (long_enough bn) r2) by (rewrite Hk2; apply Forall_skipn_; exact A1).
  (* 4 *)
  destruct (src_c_avx512_blake3_hash_many_avx512_loop3_ok hash16_avx512 hash8_avx512 hash4_avx512 cip
              fuel r2 (N.of_nat bn) key c2 incr flags fs fe out2 (([] ++ o16) ++ o8) ltac:(lia) ltac:(lia)) as (out3 & E3).
  rewrite E3, Nat2N.id.
  rewrite (batch_while_fuel 4 _ cadd_c false ltac:(lia) fuel (S (length r2))) by lia.
  destruct (batch_while (S (length r2)) 4 hash4_avx512 cadd_c false r2 bn key c2 incr flags fs fe 0)
    as [[o4 [[r3 c3] cap3]]| |] eqn:B3; cbn [bind]; try reflexivity.
  destruct (batch_while_rest _ _ _ _ _ _ _ _ _ _ _ _ _ _ _ _ _ _ B3) as (k3 & Hk3).
  assert (L3 : (length r3 <= length r2)%nat) by (rewrite Hk3; apply skipn_length_le).
  assert (A3 : Forall (long_enough bn) r3) by (rewrite Hk3; apply Forall_skipn_; exact A2).
  (* 1 *)
  rewrite (src_c_avx512_blake3_hash_many_avx512_loop4_ok hash16_avx512 hash8_avx512 hash4_avx512 cip bn key flags fs fe Hc Lk Hb
             r3 fuel c3 incr out3 ((([] ++ o16) ++ o8) ++ o4)) by (try assumption; lia).
  destruct (single_loop (hash_one_c cip) cadd_c false r3 bn key c3 incr flags fs fe 0); cbn [bind]; try reflexivity.
  cbn [app]. rewrite <- !app_assoc. reflexivity.
Qed.

(* the side condition cip_len8 holds of the compress_in_place the models are instantiated with *)
Lemma cip_len8_portable : cip_len8 Portable.compress_in_place.
Proof. intros cv block bl ctr fl L. apply Proofs.KernelsP.compress_in_place_length. exact L. Qed.
Lemma cip_len8_rows : cip_len8 compress_in_place_rows.
Proof.
  intros cv block bl ctr fl L. rewrite Proofs.KernelsP.compress_in_place_rows_ok by exact L.
  apply Proofs.KernelsP.compress_in_place_length. exact L.
Qed.

(* ------------------------------------------------------------------ *)
(* 7. blake3_hash_many_portable (c/blake3_portable.c)                  *)
(* ------------------------------------------------------------------ *)
Definition exact_len (bn : nat) (input : list N) : Prop := length input = (bn * 64)%nat.
Definition out_room (k : nat) (out : list N) : Prop := (32 * k <= length out)%nat.
Definition portable_hash1 : hash1_fn := fun input _ key counter flags fs fe => Portable.hash1 input key counter flags fs fe.

(* the general relation: the C function is the one-at-a-time loop over Portable.hash1 with the WRAPPING uint64_t
   counter (cadd_c); every input has exactly blocks * 64 bytes, `out` has room for num_inputs * 32 bytes *)
Theorem src_c_portable_blake3_hash_many_portable_single fuel inputs bn key counter incr flags fs fe out :
  length key = 8%nat -> N.of_nat bn < 2 ^ 64 ->
  (length inputs + bn < fuel)%nat -> N.of_nat (length inputs) < 2 ^ 64 -> Forall (exact_len bn) inputs ->
  (32 * length inputs <= length out)%nat ->
  src_c_portable_blake3_hash_many_portable fuel inputs (N.of_nat (length inputs)) (N.of_nat bn) key counter incr flags fs fe out
  = single_loop portable_hash1 cadd_c false inputs bn key counter incr flags fs fe 0.
Proof.
  intros Lk Hb Hf Hn Hall Ho. unfold src_c_portable_blake3_hash_many_portable. cbv zeta.
  rewrite (c_single_ok src_c_portable_hash_one_portable portable_hash1 bn key flags fs fe (exact_len bn) out_room
             (fun fuel input ctr out k Hfu Hp Hr =>
                src_c_portable_hash_one_portable_ok fuel input bn key ctr flags fs fe (firstn 32 out) Lk
                  ltac:(rewrite firstn_length; unfold out_room in Hr; lia) Hp Hfu Hb)
             ltac:(intros k o Hr; unfold out_room in *; rewrite skipn_length; lia)
             src_c_portable_blake3_hash_many_portable_loop1 src_c_portable_blake3_hash_many_portable_loop1_eq
             inputs fuel counter incr out [] Hf Hn Hall Ho).
  destruct (single_loop portable_hash1 cadd_c false inputs bn key counter incr flags fs fe 0); reflexivity.
Qed.

(* the wrapping and the checked counter agree as long as the counter does not pass 2^64 *)
Lemma single_loop_portable_go : forall inputs bn key counter incr flags fs fe,
  (incr = true -> counter + N.of_nat (length inputs) < 2 ^ 64) ->
  single_loop portable_hash1 cadd_c false inputs bn key counter incr flags fs fe 0
  = hash_many_go inputs key counter incr flags fs fe.
Proof.
  induction inputs as [|input tl IH]; intros bn key counter incr flags fs fe Hc; [reflexivity|].
  cbn [single_loop hash_many_go andb]. unfold portable_hash1 at 1.
  destruct (Portable.hash1 input key counter flags fs fe) as [cv| |]; cbn [bind]; try reflexivity.
  cbn [length] in Hc.
  assert (E : (if incr then cadd_c counter 1 else Ok counter) = (if incr then mi_add 64 counter 1 else Ok counter)).
  { destruct incr; [|reflexivity]. specialize (Hc eq_refl). unfold cadd_c, mi_add, fits.
    replace (counter + 1 <? 2 ^ 64) with true by (symmetry; apply N.ltb_lt; lia).
    rewrite N.land_ones, N.mod_small by lia. reflexivity. }
  rewrite E.
  assert (Hv : forall c', (if incr then mi_add 64 counter 1 else Ok counter) = Ok c' ->
                          incr = true -> c' + N.of_nat (length tl) < 2 ^ 64).
  { intros c' Hc' Hi. subst incr. specialize (Hc eq_refl). unfold mi_add in Hc'.
    destruct (fits 64 (counter + 1)); [|discriminate]. injection Hc' as <-. lia. }
  destruct (if incr then mi_add 64 counter 1 else Ok counter) as [c'| |]; cbn [bind]; try reflexivity.
  rewrite N.sub_0_l, IH by (apply Hv; reflexivity). reflexivity.
Qed.

(* hence, when out has room for `cap >= num_inputs` CVs and the counter stays below 2^64 (the only situation in which
   portable.rs hash_many, whose `counter += 1` is overflow-checked in debug builds, differs from the C `uint64_t`),
   blake3_hash_many_portable = Portable.hash_many *)
Theorem src_c_portable_blake3_hash_many_portable_ok fuel inputs bn key counter incr flags fs fe out cap :
  length key = 8%nat -> N.of_nat bn < 2 ^ 64 ->
  (length inputs + bn < fuel)%nat -> N.of_nat (length inputs) < 2 ^ 64 -> Forall (exact_len bn) inputs ->
  (32 * length inputs <= length out)%nat -> N.of_nat (length inputs) <= cap ->
  (incr = true -> counter + N.of_nat (length inputs) < 2 ^ 64) ->
  src_c_portable_blake3_hash_many_portable fuel inputs (N.of_nat (length inputs)) (N.of_nat bn) key counter incr flags fs fe out
  = Portable.hash_many inputs key counter incr flags fs fe cap.
Proof.
  intros Lk Hb Hf Hn Hall Ho Hcap Hc.
  rewrite src_c_portable_blake3_hash_many_portable_single by assumption.
  rewrite single_loop_portable_go by exact Hc. unfold Portable.hash_many.
  replace (N.of_nat (length inputs) <=? cap) with true by (symmetry; apply N.leb_le; exact Hcap). reflexivity.
Qed.
