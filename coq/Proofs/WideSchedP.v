(* C08: the scheduled recursion equals the serial one for EVERY schedule tree. *)
From V Require Import Proofs.ListP.
From V Require Import Base.Res Base.Word Base.MachInt gen.GenConsts gen.GenFormulas
  Spec.Tree Model.Portable Model.Platform Model.RsChunk Model.RsWide Model.Concurrency Model.RsWideSched
  Proofs.ConcurrencyP.
Open Scope N_scope.

Lemma weave_interleave {A} : forall order (l r : list A), Interleave l r (weave order l r).
Proof.
  induction order as [|b o IH]; intros l r; cbn [weave].
  - apply interleave_left_first.
  - destruct b.
    + destruct l as [|a l']; [|apply IL_left; apply IH].
      replace r with ([] ++ r) at 2 by reflexivity. apply interleave_left_first.
    + destruct r as [|c r']; [|apply IL_right; apply IH].
      rewrite <- (app_nil_r l) at 2. apply interleave_left_first.
Qed.

(* conversely every interleaving is the weave of some order: the schedules quantified over are all of them *)
Lemma interleave_is_weave {A} : forall (l r m : list A), Interleave l r m -> exists order, m = weave order l r.
Proof.
  intros l r m H. induction H as [|x l r m H [o Ho]|x l r m H [o Ho]].
  - exists []. reflexivity.
  - exists (true :: o). cbn [weave]. rewrite Ho. reflexivity.
  - exists (false :: o). cbn [weave]. rewrite Ho. reflexivity.
Qed.

Theorem wide_sched_eq p (Hdeg : p_degree p <= p_max_degree p) : forall fuel s input key ctr flags cap,
  compress_subtree_wide_sched fuel p s input key ctr flags cap = compress_subtree_wide fuel p input key ctr flags cap.
Proof.
  induction fuel as [|fuel IH]; intros s input key ctr flags cap; [reflexivity|].
  cbn [compress_subtree_wide_sched compress_subtree_wide].
  destruct (nlen input <=? p_degree p * rs_CHUNK_LEN); [reflexivity|].
  destruct (MachInt.popcount (p_degree p) =? 1); cbn [check bind]; [|reflexivity].
  destruct (rs_CHUNK_LEN <? nlen input); cbn [check bind]; [|reflexivity].
  destruct (rs_left_subtree_len (nlen input)) as [left_len| |]; cbn [bind]; try reflexivity.
  destruct (left_len <=? nlen input); cbn [check bind]; [|reflexivity].
  destruct (rs_right_chunk_counter ctr left_len) as [rc| |]; cbn [bind]; try reflexivity.
  set (dres := if left_len =? rs_CHUNK_LEN then _ else _).
  destruct dres as [degree| |] eqn:Ed; cbn [bind]; try reflexivity.
  destruct (degree <=? 2 * max_degree_or_2 p) eqn:Ecap; cbn [check bind]; [|reflexivity].
  rewrite !IH.
  destruct (compress_subtree_wide fuel p (firstn (N.to_nat left_len) input) key ctr flags degree) as [lcvs| |]; cbn [bind]; try reflexivity.
  destruct (compress_subtree_wide fuel p (skipn (N.to_nat left_len) input) key rc flags (2 * max_degree_or_2 p - degree)) as [rcvs| |]; cbn [bind]; try reflexivity.
  destruct (N.of_nat (length lcvs) =? degree) eqn:El; cbn [check bind]; [|reflexivity].
  destruct ((1 <=? N.of_nat (length rcvs)) && (N.of_nat (length rcvs) <=? N.of_nat (length lcvs))) eqn:Er; cbn [check bind]; [|reflexivity].
  assert (Hd : degree <= max_degree_or_2 p).
  { subst dres. unfold max_degree_or_2. destruct (left_len =? rs_CHUNK_LEN).
    - destruct (p_degree p =? 1); cbn [check bind] in Ed; inversion Ed; lia.
    - inversion Ed. lia. }
  rewrite split_node_schedule_independent; [reflexivity| | |apply weave_interleave]; lia.
Qed.

Corollary to_parent_node_sched_eq p (Hdeg : p_degree p <= p_max_degree p) s input key ctr flags :
  compress_subtree_to_parent_node_sched p s input key ctr flags = compress_subtree_to_parent_node p input key ctr flags.
Proof. unfold compress_subtree_to_parent_node_sched, compress_subtree_to_parent_node. rewrite wide_sched_eq by exact Hdeg. reflexivity. Qed.

Corollary hash_all_at_once_sched_eq p (Hdeg : p_degree p <= p_max_degree p) s input key flags :
  hash_all_at_once_sched p s input key flags = hash_all_at_once p input key flags.
Proof. unfold hash_all_at_once_sched, hash_all_at_once. rewrite to_parent_node_sched_eq by exact Hdeg. reflexivity. Qed.

(* ---- the hasher: update_with_join::<J> = update, for every schedule ---- *)
From V Require Import Model.RsHasher Model.RsHasherSched.

Lemma update_loop_sched_eq p (Hdeg : p_degree p <= p_max_degree p) sch : forall fuel h input,
  update_loop_sched fuel p sch h input = update_loop fuel p h input.
Proof.
  induction fuel as [|fuel IH]; intros h input; [reflexivity|].
  cbn [update_loop_sched update_loop].
  destruct (nlen input <=? rs_CHUNK_LEN); [reflexivity|].
  destruct (cs_count (h_cs h)) as [c| |]; cbn [bind]; try reflexivity.
  destruct (c =? 0); cbn [check bind]; [|reflexivity].
  destruct (rs_largest_power_of_two_leq (nlen input)) as [sl0| |]; cbn [bind]; try reflexivity.
  destruct (rs_count_so_far (cs_ctr (h_cs h))) as [csf| |]; cbn [bind]; try reflexivity.
  destruct (shrink_loop 64 sl0 csf) as [sl| |]; cbn [bind]; try reflexivity.
  destruct (rs_subtree_chunks sl) as [sc| |]; cbn [bind]; try reflexivity.
  destruct (sl <=? nlen input); cbn [check bind]; [|reflexivity].
  rewrite to_parent_node_sched_eq by exact Hdeg.
  match goal with |- (x <- ?A ;; _) = (y <- ?A ;; _) => destruct A as [h1| |] end; cbn [bind]; try reflexivity.
  destruct (mi_add 64 (cs_ctr (h_cs h)) sc) as [ctr'| |]; cbn [bind]; try reflexivity.
  apply IH.
Qed.

Theorem hasher_update_sched_eq p (Hdeg : p_degree p <= p_max_degree p) sch h input :
  hasher_update_sched p sch h input = hasher_update p h input.
Proof.
  unfold hasher_update_sched, hasher_update, hasher_update_tail_sched, hasher_update_tail.
  destruct (rs_input_offset (h_init h)) as [io| |]; cbn [bind]; try reflexivity.
  destruct (rs_max_subtree_len io) as [msl| |]; cbn [bind]; try reflexivity.
  match goal with |- (x <- ?A ;; _) = (y <- ?A ;; _) => destruct A as [u| |] end; cbn [bind]; try reflexivity.
  destruct (cs_count (h_cs h)) as [c| |]; cbn [bind]; try reflexivity.
  match goal with |- (x <- ?A ;; _) = (y <- ?A ;; _) => destruct A as [[[h1 in1] dn]| |] end; cbn [bind]; try reflexivity.
  destruct dn; [reflexivity|].
  rewrite update_loop_sched_eq by exact Hdeg. reflexivity.
Qed.

(* any history of updates, each under its own schedule, reaches the state of the serial history *)
Theorem updates_sched_eq p (Hdeg : p_degree p <= p_max_degree p) : forall pieces h,
  updates_sched p h pieces = updates_serial p h (map snd pieces).
Proof.
  induction pieces as [|[sch x] tl IH]; intros h; [reflexivity|].
  cbn [updates_sched updates_serial map snd]. rewrite hasher_update_sched_eq by exact Hdeg.
  destruct (hasher_update p h x) as [h'| |]; cbn [bind]; try reflexivity. apply IH.
Qed.
