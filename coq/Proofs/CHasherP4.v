(* C06, part E: the full hasher invariant of the C library.  CInv h m: the hasher h has absorbed exactly the
   bytes m (in-place CV stack = the specification subtrees of the completed chunks, chunk state = the rest).
   finalize_seek of such a state is the specification stream of m (the roll-up loop), hasher_init_base
   establishes it for the empty message and hasher_update preserves it from ANY such state (finish the partial
   chunk, the subtree loop of Proofs/CHasherP3.v, the final partial chunk and the extra merge). *)
From V Require Import Proofs.ListP.
From V Require Import Base.Res Base.Word Base.MachInt gen.GenConsts gen.GenFormulas
  Spec.Compress Spec.Tree Spec.Blake3 Model.Portable Model.Platform Model.RsChunk Model.RsWide Model.RsXof Model.CHasher
  Proofs.PortableP Proofs.ChunkP Proofs.TreeP Proofs.FormulasP Proofs.WideP Proofs.C01P Proofs.XofP
  Proofs.StackArithP Proofs.HasherP Proofs.CFormulasP Proofs.CHasherP Proofs.CHasherP2 Proofs.CHasherP3.
Open Scope N_scope.

(* ---- sp (CHasherP3) and st (HasherP, opaque) are the same tree ------------------------------------------ *)
Lemma sp_st ctr b : sp ctr b = st ctr b.
Proof. unfold sp. symmetry. apply st_unfold. Qed.

Lemma Segs_trees : forall l ctr bs, Segs ctr l bs -> map snd l = trees_of ctr bs (exps l).
Proof.
  induction l as [|[e t] l IH]; intros ctr bs H; [reflexivity|].
  cbn [Segs] in H. destruct H as (H1 & H2 & H3).
  cbn [map snd exps fst trees_of]. rewrite <- sp_st, <- H2. f_equal. apply IH. exact H3.
Qed.

Lemma Segs_wf : forall l ctr bs, len bs < 2 ^ 64 -> Segs ctr l bs -> Forall wf_tree (map snd l).
Proof.
  induction l as [|[e t] l IH]; intros ctr bs H64 H; [constructor|].
  cbn [Segs] in H. destruct H as (H1 & H2 & H3). cbn [map snd]. constructor.
  - rewrite H2, sp_st. apply st_wf. rewrite len_take. rewrite two64 in H64.
    change (1024 * 2 ^ 64) with 18889465931478580854784. lia.
  - apply (IH (ctr + 2 ^ e) (drop (1024 * 2 ^ e) bs)); [rewrite len_drop; lia|exact H3].
Qed.

Lemma length_snoc {A} (l : list A) x : length (l ++ [x]) = S (length l).
Proof. rewrite app_length. cbn [length]. lia. Qed.

Lemma nth_snoc {A} (l : list A) x d : nth (length l) (l ++ [x]) d = x.
Proof. rewrite app_nth2 by lia. rewrite Nat.sub_diag. reflexivity. Qed.

Section Full.
  Variable p : platform.
  Hypothesis POK : PlatformOK p.
  Variables (K : list N) (F : N).
  Hypothesis HK : length K = 8%nat.

  Notation tcv := (tree_cv spec_c8 K F).
  Notation tout := (tree_out spec_c8 K F).
  Notation TightC := (Tight spec_c8 K F).
  Notation Hcip' := (Hcip spec_c8 p POK spec_c8_cip).

  Lemma tout_wf t : wf_tree t -> wf_output (tout t).
  Proof. apply (tree_out_wf spec_c8 p POK spec_c8_cip spec_c8_len K F HK). Qed.

  Lemma c_ocv_tree t : wf_tree t -> c_output_chaining_value p (tout t) = tcv t.
  Proof. intros W. rewrite (c_ocv p POK) by (apply tout_wf; exact W). symmetry. apply tree_cv_out. Qed.

  (* ---- the chunk state ------------------------------------------------------------------------------ *)
  Lemma TightC_len T cs bs : TightC T cs bs -> c_cs_len cs = Ok (len bs).
  Proof.
    intros (nb & [-> [Hl H1024]] & _). unfold c_cs_len. cbn [cs_blocks cs_buf_len].
    rewrite c_chunk_state_len_spec by lia. f_equal. lia.
  Qed.

  Lemma TightC_nil T cs : TightC T cs [] -> cs = mkCS K T c_zero_block 0 0 F.
  Proof.
    intros (nb & [-> [Hl _]] & _). change (len []) with 0 in *.
    assert (nb = 0%nat) by lia. subst nb. reflexivity.
  Qed.

  Lemma TightC_new T : TightC T (mkCS K T c_zero_block 0 0 F) [].
  Proof. apply (Tight_new spec_c8 p Hcip' spec_c8_len K F T HK). Qed.

  Lemma TightC_output T cs bs : TightC T cs bs -> c_cs_output cs = tout (Leaf T bs).
  Proof.
    intros HT. change (c_cs_output cs) with (cs_output cs).
    rewrite (cs_output_spec spec_c8 p Hcip' spec_c8_len K F T HK cs bs HT). reflexivity.
  Qed.

  (* ---- the roll-up loop of finalize_seek --------------------------------------------------------------- *)
  Lemma c_finalize_loop_spec h : ch_key h = K -> ch_flags h = F -> forall ts t,
    firstn (length ts) (ch_stack h) = map tcv ts -> (length ts <= 55)%nat ->
    Forall wf_tree ts -> wf_tree t ->
    c_finalize_loop (length ts) p h (tout t) = Ok (tout (spine ts t)).
  Proof.
    intros Hk Hf ts. induction ts as [|x ts IH] using rev_ind; intros t Hst Hlen Wts Wt; [reflexivity|].
    apply Forall_app in Wts. destruct Wts as [Wts Wx]. apply Forall_inv in Wx.
    rewrite length_snoc in *. cbn [c_finalize_loop].
    unfold c_cv_stack_slots. change (c_cv_stack_bytes / c_OUT_LEN) with 55.
    replace (N.of_nat (length ts) <? 55) with true by lia. cbn [check bind].
    assert (Hslot : slot (ch_stack h) (N.of_nat (length ts)) = tcv x).
    { unfold slot. rewrite Nat2N.id. rewrite <- (nth_firstn_lt [] (ch_stack h) (S (length ts)) (length ts)) by lia.
      rewrite Hst, map_app. cbn [map]. rewrite <- (map_length tcv ts). apply nth_snoc. }
    rewrite Hslot, Hk, Hf. rewrite c_ocv_tree by exact Wt.
    change (c_parent_output (tcv x ++ tcv t) K F) with (tout (Node x t)).
    rewrite spine_snoc. apply IH.
    - rewrite map_app in Hst. cbn [map] in Hst.
      replace (S (length ts)) with (length (map tcv ts ++ [tcv x])) in Hst
        by (rewrite length_snoc, map_length; reflexivity).
      apply firstn_app_prefix in Hst. rewrite map_length in Hst. exact Hst.
    - lia.
    - exact Wts.
    - split; assumption.
  Qed.

  Lemma c_finalize_loop_rel h l1 l2 t : StackRel K F h (l1 ++ l2) -> wf_tree t ->
    c_finalize_loop (length l1) p h (tout t) = Ok (tout (spine (map snd l1) t)).
  Proof.
    intros HS Wt. pose proof (StackRel_le K F HK h _ HS) as Hle. destruct HS as (S1 & S2 & S3 & S4 & S5 & S6).
    rewrite app_length in Hle.
    rewrite <- (map_length snd l1). apply c_finalize_loop_spec; try assumption.
    - rewrite map_app in S2.
      replace (length (l1 ++ l2)) with (length (map (cvof K F) l1 ++ map (cvof K F) l2)) in S2
        by (rewrite !app_length, !map_length; reflexivity).
      apply firstn_app_prefix in S2. rewrite !map_length in *. rewrite S2. rewrite map_map. reflexivity.
    - rewrite map_length. lia.
    - apply Forall_app in S4. destruct S4 as [S4 _]. apply Forall_map. exact S4.
  Qed.

  (* ---- the invariant: h has absorbed exactly m ------------------------------------------------------------ *)
  Definition CInv (h : c_hasher) (m : list N) : Prop :=
    exists l,
      StackRel K F h l /\ Dom (exps l) /\ 1024 * sum2 (exps l) <= len m /\
      Segs 0 l (take (1024 * sum2 (exps l)) m) /\
      TightC (sum2 (exps l)) (ch_chunk h) (drop (1024 * sum2 (exps l)) m) /\
      (0 < len m - 1024 * sum2 (exps l) -> SDom (exps l)) /\
      (len m = 1024 * sum2 (exps l) -> sum2 (exps l) = 0 \/ (2 <= length l)%nat) /\
      len m < 2 ^ 64.

  Lemma snoc_cases' {A} (l : list A) : l = [] \/ exists l' a, l = l' ++ [a].
  Proof. induction l as [|x l IH] using rev_ind; [left; reflexivity|right; eauto]. Qed.

  Lemma bound64 n : n < 2 ^ 64 -> n <= 1024 * 2 ^ 64.
  Proof. rewrite two64. change (1024 * 2 ^ 64) with 18889465931478580854784. lia. Qed.

  Theorem c_final_output_spec h m : CInv h m -> c_final_output p h = Ok (tout (st 0 m)).
  Proof.
    intros (l & HS & HD & Hle & HSeg & HT & Hpart & Hempty & H64).
    set (T := sum2 (exps l)) in *.
    pose proof HS as (S1 & S2 & S3 & S4 & S5 & S6).
    destruct (Tight_fields _ _ _ _ _ _ HT) as (Hctr & Hfl & Hp1024). rewrite len_drop in Hp1024.
    pose proof (bound64 _ H64) as Hb64.
    assert (Htr : map snd l = trees_of 0 m (exps l)).
    { rewrite (Segs_trees _ _ _ HSeg). rewrite <- (take_drop (1024 * T) m) at 2. symmetry.
      apply trees_of_ext. rewrite len_take. fold T. lia. }
    unfold c_final_output. rewrite S1.
    destruct (snoc_cases' l) as [->|(l' & [a ta] & ->)].
    - cbn [length]. change (N.of_nat 0 =? 0) with true. cbn iota.
      unfold T in *. cbn [exps map sum2] in *. rewrite N.mul_0_r, drop_0 in HT.
      rewrite (TightC_output _ _ _ HT). rewrite st_leaf by lia. reflexivity.
    - rewrite length_snoc. replace (N.of_nat (S (length l')) =? 0) with false by lia.
      rewrite (TightC_len _ _ _ HT), bind_ret. rewrite len_drop.
      assert (Hsum : T = sum2 (exps l') + 2 ^ a).
      { unfold T. rewrite exps_app, sum2_app. cbn [exps map fst sum2]. lia. }
      pose proof (pow2_pos a) as Hpa.
      destruct (0 <? len m - 1024 * T) eqn:Epart.
      + (* a partial chunk on top of a fully merged stack *)
        rewrite bind_ret. cbn beta iota. rewrite Nat2N.id. rewrite <- length_snoc with (x := (a, ta)).
        rewrite (TightC_output _ _ _ HT).
        rewrite (c_finalize_loop_rel h (l' ++ [(a, ta)]) [] (Leaf T (drop (1024 * T) m))).
        * rewrite Htr. rewrite <- (st_leaf T) by (rewrite len_drop; lia).
          replace T with (0 + sum2 (exps (l' ++ [(a, ta)]))) at 1 by (fold T; lia).
          fold T. unfold T at 2. rewrite spine_st; [reflexivity| fold T; lia|exact Hb64|].
          apply SDom_DomR; [apply Hpart; lia|fold T; lia].
        * rewrite app_nil_r. exact HS.
        * cbn [wf_tree]. rewrite len_drop. lia.
      + (* no partial chunk: the top two entries are the children of the last parent *)
        assert (Hfull : len m = 1024 * T) by lia.
        destruct (Hempty Hfull) as [Hz|Hk2]; [lia|]. rewrite length_snoc in Hk2.
        destruct (snoc_cases' l') as [->|(l1 & [b tb] & ->)]; [cbn [length] in Hk2; lia|].
        rewrite length_snoc.
        replace (2 <=? N.of_nat (S (S (length l1)))) with true by lia. cbn [check bind].
        replace (N.of_nat (S (S (length l1))) - 2) with (N.of_nat (length l1)) by lia.
        pose proof (StackRel_le K F HK h _ HS) as Hlen. rewrite !length_snoc in Hlen.
        unfold c_cv_stack_slots. change (c_cv_stack_bytes / c_OUT_LEN) with 55.
        replace (N.of_nat (length l1) + 2 <=? 55) with true by lia. cbn [check bind]. cbn beta iota.
        rewrite (StackRel_slot K F h _ (length l1) HS) by (rewrite !length_snoc; lia).
        replace (N.of_nat (length l1) + 1) with (N.of_nat (S (length l1))) by lia.
        rewrite (StackRel_slot K F h _ (S (length l1)) HS) by (rewrite !length_snoc; lia).
        rewrite <- app_assoc. cbn [app]. rewrite map_app.
        rewrite !app_nth2 by (rewrite map_length; lia). rewrite map_length.
        rewrite Nat.sub_diag. replace (S (length l1) - length l1)%nat with 1%nat by lia. cbn [map nth cvof snd].
        rewrite S5, S6. rewrite Nat2N.id. unfold cvof. cbn [snd].
        change (c_parent_output (tcv tb ++ tcv ta) K F) with (tout (Node tb ta)).
        assert (W : wf_tree tb /\ wf_tree ta).
        { rewrite !Forall_app in S4. destruct S4 as [[_ Wb] Wa]. apply Forall_inv in Wb. apply Forall_inv in Wa.
          cbn [snd] in *. auto. }
        rewrite (c_finalize_loop_rel h l1 [(b, tb); (a, ta)] (Node tb ta)).
        * rewrite <- spine_snoc.
          replace (map snd l1 ++ [tb]) with (map snd (l1 ++ [(b, tb)])) by (rewrite map_app; reflexivity).
          rewrite exps_app in Htr. rewrite trees_of_app, map_app in Htr. cbn [exps map fst snd trees_of] in Htr.
          apply app_inj_tail in Htr. destruct Htr as [Htr Hta].
          fold (exps (l1 ++ [(b, tb)])) in Htr, Hta, Hsum. rewrite Htr, Hta.
          rewrite take_all by (rewrite len_drop; lia).
          rewrite spine_st; [reflexivity|lia|exact Hb64|].
          replace (len m - 1024 * sum2 (exps (l1 ++ [(b, tb)]))) with (1024 * 2 ^ a) by lia.
          apply DomR_app. rewrite exps_app in HD. exact HD.
        * rewrite <- app_assoc in HS. exact HS.
        * exact W.
  Qed.

  Lemma CInv_bound h m : CInv h m -> len m < 2 ^ 64.
  Proof. intros (l & _ & _ & _ & _ & _ & _ & _ & H). exact H. Qed.

  Lemma CInv_fields h m : CInv h m -> ch_key h = K /\ ch_flags h = F /\ length (ch_stack h) = 55%nat.
  Proof. intros (l & (_ & _ & S3 & _ & S5 & S6) & _). auto. Qed.

  Lemma root_is_st m : subtree_output spec_c8 tree_height K F 0 m = tout (st 0 m).
  Proof. rewrite subtree_output_tree. rewrite (st_unfold 0 m). reflexivity. Qed.

  Theorem c_finalize_seek_spec h m seek out_len : CInv h m -> seek + out_len <= 2 ^ 64 - 1 ->
    c_hasher_finalize_seek p h seek out_len =
    Ok (stream spec_c64 (subtree_output spec_c8 tree_height K F 0 m) seek (N.to_nat out_len)).
  Proof.
    intros HI Hmax. unfold c_hasher_finalize_seek.
    destruct (out_len =? 0) eqn:E0.
    { replace out_len with 0 by lia. reflexivity. }
    rewrite (c_final_output_spec h m HI), bind_ret.
    rewrite root_is_st.
    apply (c_output_root_bytes_spec p POK); [|exact Hmax].
    apply tout_wf. apply st_wf. apply bound64. apply (CInv_bound h m HI).
  Qed.

  (* ---- hasher_init_base ------------------------------------------------------------------------------------ *)
  Lemma CInv_init mem : length mem = 55%nat -> CInv (c_hasher_init_base mem K F) [].
  Proof.
    intros Hm. exists []. cbn [exps map sum2]. change (len []) with 0. rewrite N.mul_0_r.
    split.
    { unfold StackRel, c_hasher_init_base, ch_flags, c_cs_init.
      cbn [ch_stack_len ch_stack ch_key ch_chunk length firstn map cs_flags]. repeat split; auto. }
    split; [exact I|]. split; [lia|]. split; [reflexivity|]. split.
    { change (drop 0 []) with (@nil N). apply TightC_new. }
    split; [intros; lia|]. split; [auto|]. rewrite two64. lia.
  Qed.

  (* ---- hasher_update ------------------------------------------------------------------------------------------ *)
  Lemma StackRel_with_chunk h l cs : StackRel K F h l -> cs_flags cs = F -> StackRel K F (ch_with_chunk h cs) l.
  Proof.
    intros (S1 & S2 & S3 & S4 & S5 & S6) Hc. unfold StackRel, ch_with_chunk, ch_flags.
    cbn [ch_stack_len ch_stack ch_key ch_chunk]. auto 10.
  Qed.

  (* the subtree loop, the final partial chunk and the extra merge *)
  Definition c_update_tail (h : c_hasher) (input : list N) : res c_hasher :=
    '(h, input) <- c_update_loop (S (Nat.div (length input) 1024)) p h input ;;
    if 0 <? nlen input then
      cs <- c_cs_update p (ch_chunk h) input ;;
      c_merge_cv_stack p (ch_with_chunk h cs) (cs_ctr cs)
    else Ok h.

  Lemma c_hasher_update_unfold h input :
    c_hasher_update p h input =
    if nlen input =? 0 then Ok h else
    clen <- c_cs_len (ch_chunk h) ;;
    r <- (if 0 <? clen then
            take <- mi_sub 64 c_CHUNK_LEN clen ;;
            let take := N.min take (nlen input) in
            cs <- c_cs_update p (ch_chunk h) (firstn (N.to_nat take) input) ;;
            let input := skipn (N.to_nat take) input in
            if 0 <? nlen input then
              let chunk_cv := c_output_chaining_value p (c_cs_output cs) in
              h <- c_push_cv p (ch_with_chunk h cs) chunk_cv (cs_ctr cs) ;;
              ctr' <- mi_add 64 (cs_ctr cs) 1 ;;
              Ok (ch_with_chunk h (c_cs_reset cs (ch_key h) ctr'), input, false)
            else Ok (ch_with_chunk h cs, input, true)
          else Ok (h, input, false)) ;;
    let '(h, input, done) := r in
    if done then Ok h else c_update_tail h input.
  Proof. reflexivity. Qed.

  Lemma c_update_tail_spec h m l input :
    LInv K F h m l -> len (m ++ input) < 2 ^ 64 ->
    (len input = 0 -> sum2 (exps l) = 0 \/ (2 <= length l)%nat) ->
    exists h', c_update_tail h input = Ok h' /\ CInv h' (m ++ input).
  Proof.
    intros HL Htot Hemp.
    destruct (c_update_loop_spec p POK K F HK (S (Nat.div (length input) 1024)) h m l input HL Htot)
      as (h2 & l2 & k & Hrun & HL2 & Hk1 & Hk2 & Hk3).
    { unfold len. rewrite N2Nat.inj_div, Nat2N.id. change (N.to_nat 1024) with 1024%nat. lia. }
    unfold c_update_tail. rewrite Hrun, bind_ret. cbn beta iota.
    unfold nlen. fold (len (drop k input)). rewrite len_drop.
    destruct HL2 as (HS2 & HD2 & HSeg2 & Hck2). set (T2 := sum2 (exps l2)) in *.
    pose proof (Segs_len _ _ _ HSeg2) as Hlen2. fold T2 in Hlen2.
    assert (Hall : (m ++ take k input) ++ drop k input = m ++ input) by (rewrite <- app_assoc, take_drop; reflexivity).
    assert (Hlall : len (m ++ input) = 1024 * T2 + (len input - k)).
    { rewrite <- Hall, len_app, Hlen2, len_drop. reflexivity. }
    set (rest := drop k input) in *.
    assert (Hrl : len rest = len input - k) by (unfold rest; apply len_drop).
    destruct (0 <? len input - k) eqn:E.
    - rewrite Hck2.
      destruct (c_cs_update_spec p POK K F HK T2 _ [] rest (TightC_new T2)) as (cs3 & Hu & HT3); [cbn [app]; lia|].
      cbn [app] in HT3. rewrite Hu, bind_ret.
      destruct (Tight_fields _ _ _ _ _ _ HT3) as (Hctr3 & Hfl3 & _). rewrite Hctr3.
      destruct (c_merge_cv_stack_spec p POK K F HK (ch_with_chunk h2 cs3) l2 T2
                  (StackRel_with_chunk h2 l2 cs3 HS2 Hfl3) HD2 eq_refl ltac:(lia))
        as (h3 & l3 & Hm & HS3 & HSD3 & Hsum3 & Hch3 & Hseg3 & _).
      exists h3. split; [exact Hm|]. exists l3. rewrite Hsum3.
      split; [exact HS3|]. split; [apply SDom_Dom; exact HSD3|]. split; [lia|].
      assert (Htk : take (1024 * T2) (m ++ input) = m ++ take k input).
      { rewrite <- Hall. rewrite take_app_le by lia. apply take_all. lia. }
      assert (Hdk : drop (1024 * T2) (m ++ input) = rest).
      { rewrite <- Hall. rewrite drop_app_ge by lia. rewrite Hlen2, N.sub_diag. apply drop_0. }
      split; [rewrite Htk; apply Hseg3; [lia|exact HSeg2]|].
      split; [rewrite Hdk, Hch3; exact HT3|].
      split; [intros _; exact HSD3|]. split; [intros; lia|exact Htot].
    - exists h2. split; [reflexivity|].
      assert (Hd : rest = []) by (apply len_0_nil; lia).
      rewrite <- Hall. fold rest. rewrite Hd, app_nil_r. exists l2. fold T2.
      split; [exact HS2|]. split; [exact HD2|]. split; [lia|].
      split; [rewrite take_all by lia; exact HSeg2|].
      split; [rewrite drop_all by lia; rewrite Hck2; apply TightC_new|].
      split; [intros; lia|]. split; [|lia].
      intros _. destruct Hk3 as [(-> & -> & ->)|[Hk0 Hex]].
      + apply Hemp. lia.
      + right. destruct (Hex ltac:(lia)) as (pre & a & Hpre).
        rewrite <- (exps_length l2), Hpre, app_length. cbn [length]. lia.
  Qed.

  Theorem c_hasher_update_spec h m input :
    CInv h m -> len (m ++ input) < 2 ^ 64 ->
    exists h', c_hasher_update p h input = Ok h' /\ CInv h' (m ++ input).
  Proof.
    intros HI Htot. pose proof HI as (l & HS & HD & Hle & HSeg & HT & Hpart & Hempty & H64).
    rewrite c_hasher_update_unfold. unfold nlen. fold (len input).
    destruct (len input =? 0) eqn:E0.
    { exists h. split; [reflexivity|]. rewrite (len_0_nil input) by lia. rewrite app_nil_r. exact HI. }
    rewrite (TightC_len _ _ _ HT), bind_ret. rewrite len_drop.
    set (T := sum2 (exps l)) in *. set (part := drop (1024 * T) m) in *.
    assert (Hpl : len part = len m - 1024 * T) by (unfold part; apply len_drop).
    destruct (Tight_fields _ _ _ _ _ _ HT) as (Hctr & Hfl & Hp1024). rewrite Hpl in Hp1024.
    rewrite len_app in Htot. rewrite two64 in Htot, H64.
    destruct (0 <? len m - 1024 * T) eqn:Ec.
    - (* finish the partial chunk first *)
      assert (HSD : SDom (exps l)) by (apply Hpart; lia).
      change c_CHUNK_LEN with 1024. unfold mi_sub. replace (len m - 1024 * T <=? 1024) with true by lia.
      rewrite bind_ret. cbn zeta.
      set (t := N.min (1024 - (len m - 1024 * T)) (len input)). rewrite firstn_N, skipn_N.
      destruct (c_cs_update_spec p POK K F HK T (ch_chunk h) part (take t input) HT) as (cs1 & Hu & HT1).
      { rewrite len_app, len_take. unfold t. lia. }
      rewrite Hu, bind_ret. unfold nlen. fold (len (drop t input)). rewrite len_drop.
      destruct (Tight_fields _ _ _ _ _ _ HT1) as (Hctr1 & Hfl1 & _).
      destruct (0 <? len input - t) eqn:Er.
      + (* the chunk is complete and more input follows *)
        assert (Ht : t = 1024 - (len m - 1024 * T)) by (unfold t; lia).
        set (seg := part ++ take t input) in *.
        assert (Hsl : len seg = 1024) by (unfold seg; rewrite len_app, len_take; lia).
        rewrite (TightC_output _ _ _ HT1). rewrite c_ocv_tree by (cbn [wf_tree]; lia). rewrite Hctr1.
        destruct (c_push_cv_spec p POK K F HK (ch_with_chunk h cs1) l T 0 (Leaf T seg)
                    (StackRel_with_chunk h l cs1 HS Hfl1) HD eq_refl
                    ltac:(change (2 ^ 54) with 18014398509481984; lia) ltac:(cbn [wf_tree]; lia))
          as (h2 & l' & Hp & HS2 & _ & _ & Hch2 & _ & Hid).
        specialize (Hid HSD). subst l'.
        rewrite Hp, bind_ret. unfold mi_add, fits. replace (T + 1 <? 2 ^ 64) with true by (rewrite two64; lia).
        rewrite !bind_ret. cbn beta iota.
        pose proof HS2 as (_ & _ & _ & _ & Hk2 & _). rewrite Hk2.
        set (l2 := l ++ [(0, Leaf T seg)]) in *.
        assert (Hm2 : m ++ take t input = take (1024 * T) m ++ seg).
        { unfold seg, part. rewrite app_assoc, take_drop. reflexivity. }
        destruct (c_update_tail_spec (ch_with_chunk h2 (c_cs_reset cs1 K (T + 1))) (m ++ take t input) l2 (drop t input))
          as (h' & Hrun & HI').
        { assert (Hs2 : sum2 (exps l2) = T + 1).
          { unfold l2. rewrite exps_app, sum2_app. cbn [exps map fst sum2]. fold (exps l). fold T. change (2 ^ 0) with 1. lia. }
          split; [|split; [|split]].
          - apply StackRel_with_chunk; [exact HS2|]. unfold c_cs_reset. cbn [cs_flags]. exact Hfl1.
          - unfold l2. rewrite exps_app. cbn [exps map fst]. fold (exps l). apply dom_push; [exact HSD|].
            change (2 ^ 0) with 1. apply N.divide_1_l.
          - rewrite Hm2. unfold l2. rewrite <- (sp_leaf T seg) by lia.
            replace T with (0 + sum2 (exps l)) at 2 by (fold T; lia).
            apply Segs_snoc; [exact HSeg|]. rewrite Hsl. reflexivity.
          - unfold ch_with_chunk, c_cs_reset. cbn [ch_chunk]. rewrite Hs2, Hfl1. reflexivity. }
        { rewrite <- app_assoc, take_drop, len_app, two64. lia. }
        { rewrite len_drop. intros Hz. lia. }
        rewrite <- app_assoc, take_drop in HI'. exists h'. split; [exact Hrun|exact HI'].
      + (* all of the input fitted into the chunk state *)
        rewrite bind_ret. cbn beta iota. exists (ch_with_chunk h cs1). split; [reflexivity|].
        assert (Hti : take t input = input) by (apply take_all; lia). rewrite Hti in HT1.
        exists l. fold T. split; [apply StackRel_with_chunk; assumption|]. split; [exact HD|].
        split; [rewrite len_app; lia|].
        split; [rewrite take_app_le by lia; exact HSeg|].
        split; [rewrite drop_app_le by lia; exact HT1|].
        split; [intros _; exact HSD|]. split; [rewrite len_app; intros; lia|rewrite len_app, two64; lia].
    - (* the chunk state is empty: straight to the subtree loop *)
      rewrite bind_ret. cbn beta iota.
      assert (Hpe : part = []) by (apply len_0_nil; lia).
      rewrite Hpe in HT. pose proof (TightC_nil _ _ HT) as Hcs.
      apply (c_update_tail_spec h m l input).
      + split; [exact HS|]. split; [exact HD|]. split; [|exact Hcs].
        rewrite take_all in HSeg by (fold T; lia). exact HSeg.
      + rewrite len_app, two64. lia.
      + intros _. apply Hempty. fold T. lia.
  Qed.

  (* ---- any sequence of updates, then finalize_seek ------------------------------------------------------------ *)
  Definition c_updates (h : c_hasher) (pieces : list (list N)) : res c_hasher :=
    fold_left (fun r x => h <- r ;; c_hasher_update p h x) pieces (Ok h).

  Lemma c_updates_spec : forall pieces h m,
    CInv h m -> len (m ++ concat pieces) < 2 ^ 64 ->
    exists h', c_updates h pieces = Ok h' /\ CInv h' (m ++ concat pieces).
  Proof.
    unfold c_updates. induction pieces as [|x tl IH]; intros h m HI Hl.
    - exists h. cbn [concat fold_left]. rewrite app_nil_r. auto.
    - cbn [concat fold_left] in *. rewrite app_assoc in Hl. rewrite bind_ret.
      destruct (c_hasher_update_spec h m x HI) as (h1 & Hu & HI1).
      { rewrite !len_app in *. lia. }
      rewrite Hu. destruct (IH h1 (m ++ x) HI1 Hl) as (h' & Hr & HI').
      exists h'. rewrite <- app_assoc in HI'. auto.
  Qed.

  Theorem c_update_refines mem pieces seek out_len :
    length mem = 55%nat -> len (concat pieces) < 2 ^ 64 -> seek + out_len <= 2 ^ 64 - 1 ->
    exists h, c_updates (c_hasher_init_base mem K F) pieces = Ok h /\
      c_hasher_finalize_seek p h seek out_len =
      Ok (stream spec_c64 (subtree_output spec_c8 tree_height K F 0 (concat pieces)) seek (N.to_nat out_len)).
  Proof.
    intros Hmem Hl Hmax.
    destruct (c_updates_spec pieces (c_hasher_init_base mem K F) [] (CInv_init mem Hmem) Hl) as (h & Hu & HI).
    exists h. split; [exact Hu|]. cbn [app] in HI. apply c_finalize_seek_spec; assumption.
  Qed.

  Theorem c_one_shot_spec mem m seek out_len :
    length mem = 55%nat -> len m < 2 ^ 64 -> seek + out_len <= 2 ^ 64 - 1 ->
    (h <- c_hasher_update p (c_hasher_init_base mem K F) m ;; c_hasher_finalize_seek p h seek out_len) =
    Ok (stream spec_c64 (subtree_output spec_c8 tree_height K F 0 m) seek (N.to_nat out_len)).
  Proof.
    intros Hmem Hl Hmax.
    destruct (c_hasher_update_spec (c_hasher_init_base mem K F) [] m (CInv_init mem Hmem) Hl) as (h & Hu & HI).
    rewrite Hu, bind_ret. cbn [app] in HI. apply c_finalize_seek_spec; assumption.
  Qed.

  (* ---- reset; finalize is a query: updates may continue after it ------------------------------------------------ *)
  Lemma CInv_reset h m : CInv h m -> CInv (c_hasher_reset h) [].
  Proof.
    intros HI. destruct (CInv_fields h m HI) as (Hk & Hf & Hl).
    replace (c_hasher_reset h) with (c_hasher_init_base (ch_stack h) K F); [apply CInv_init; exact Hl|].
    unfold c_hasher_reset, c_hasher_init_base, c_cs_reset, c_cs_init, ch_flags in *. rewrite Hk, Hf. reflexivity.
  Qed.

  Theorem c_reset_refines mem pieces1 pieces2 seek out_len :
    length mem = 55%nat -> len (concat pieces1) < 2 ^ 64 -> len (concat pieces2) < 2 ^ 64 ->
    seek + out_len <= 2 ^ 64 - 1 ->
    exists h1 h, c_updates (c_hasher_init_base mem K F) pieces1 = Ok h1 /\
      c_updates (c_hasher_reset h1) pieces2 = Ok h /\
      c_hasher_finalize_seek p h seek out_len =
      Ok (stream spec_c64 (subtree_output spec_c8 tree_height K F 0 (concat pieces2)) seek (N.to_nat out_len)).
  Proof.
    intros Hmem Hl1 Hl2 Hmax.
    destruct (c_updates_spec pieces1 (c_hasher_init_base mem K F) [] (CInv_init mem Hmem) Hl1) as (h1 & Hu1 & HI1).
    destruct (c_updates_spec pieces2 (c_hasher_reset h1) [] (CInv_reset h1 _ HI1) Hl2) as (h & Hu & HI).
    exists h1, h. split; [exact Hu1|]. split; [exact Hu|]. cbn [app] in HI. apply c_finalize_seek_spec; assumption.
  Qed.

  Theorem c_finalize_then_continue mem pieces1 pieces2 seek1 n1 seek2 n2 :
    length mem = 55%nat -> len (concat (pieces1 ++ pieces2)) < 2 ^ 64 ->
    seek1 + n1 <= 2 ^ 64 - 1 -> seek2 + n2 <= 2 ^ 64 - 1 ->
    exists h1 h2, c_updates (c_hasher_init_base mem K F) pieces1 = Ok h1 /\
      c_hasher_finalize_seek p h1 seek1 n1 =
      Ok (stream spec_c64 (subtree_output spec_c8 tree_height K F 0 (concat pieces1)) seek1 (N.to_nat n1)) /\
      c_updates h1 pieces2 = Ok h2 /\
      c_hasher_finalize_seek p h2 seek2 n2 =
      Ok (stream spec_c64 (subtree_output spec_c8 tree_height K F 0 (concat (pieces1 ++ pieces2))) seek2 (N.to_nat n2)).
  Proof.
    intros Hmem Hl Hm1 Hm2. rewrite concat_app in *. rewrite len_app in Hl.
    destruct (c_updates_spec pieces1 (c_hasher_init_base mem K F) [] (CInv_init mem Hmem)) as (h1 & Hu1 & HI1).
    { cbn [app]. lia. }
    cbn [app] in HI1.
    destruct (c_updates_spec pieces2 h1 _ HI1) as (h2 & Hu2 & HI2).
    { rewrite len_app. exact Hl. }
    exists h1, h2. split; [exact Hu1|]. split; [apply c_finalize_seek_spec; assumption|].
    split; [exact Hu2|]. apply c_finalize_seek_spec; assumption.
  Qed.
End Full.

(* ---- the other initialisers: keyed_hash and derive_key ------------------------------------------------------------ *)
Section Modes.
  Variable p : platform.
  Hypothesis POK : PlatformOK p.

  Lemma c_init_keyed_spec mem key : length key = 32%nat ->
    c_hasher_init_keyed mem key = Ok (c_hasher_init_base mem (words_of_bytes key) c_flag_KEYED_HASH) /\
    length (words_of_bytes key) = 8%nat.
  Proof.
    intros Hk. unfold c_hasher_init_keyed, nlen. rewrite Hk. change (c_KEY_LEN <=? N.of_nat 32) with true.
    cbn [check bind]. change (N.to_nat c_KEY_LEN) with 32%nat. rewrite firstn_all2 by lia.
    split; [reflexivity|]. apply words_of_bytes_length. rewrite Hk. reflexivity.
  Qed.

  (* the context key is the specification's hash of the context string in DERIVE_KEY_CONTEXT mode *)
  Lemma c_init_derive_key_raw_spec mem ctx : len ctx < 2 ^ 64 ->
    c_hasher_init_derive_key_raw p mem ctx =
    Ok (c_hasher_init_base mem
          (words_of_bytes (stream spec_c64 (subtree_output spec_c8 tree_height c_IV c_flag_DERIVE_KEY_CONTEXT 0 ctx) 0 32))
          c_flag_DERIVE_KEY_MATERIAL).
  Proof.
    intros Hl. unfold c_hasher_init_derive_key_raw.
    destruct (c_hasher_update_spec p POK c_IV c_flag_DERIVE_KEY_CONTEXT eq_refl
                (c_hasher_init_base c_local_stack c_IV c_flag_DERIVE_KEY_CONTEXT) [] ctx
                (CInv_init p POK c_IV c_flag_DERIVE_KEY_CONTEXT eq_refl c_local_stack eq_refl) Hl) as (h & Hu & HI).
    rewrite Hu, bind_ret. unfold c_hasher_finalize. cbn [app] in HI.
    rewrite (c_finalize_seek_spec p POK c_IV c_flag_DERIVE_KEY_CONTEXT eq_refl h ctx 0 c_KEY_LEN HI)
      by (rewrite two64; change c_KEY_LEN with 32; lia).
    rewrite bind_ret. reflexivity.
  Qed.

  Lemma derive_key_len ctx :
    length (words_of_bytes (stream spec_c64 (subtree_output spec_c8 tree_height c_IV c_flag_DERIVE_KEY_CONTEXT 0 ctx) 0 32)) = 8%nat.
  Proof. apply words_of_bytes_length. rewrite stream_length. reflexivity. Qed.

  Theorem c_update_refines_hash mem pieces seek out_len :
    length mem = 55%nat -> len (concat pieces) < 2 ^ 64 -> seek + out_len <= 2 ^ 64 - 1 ->
    exists h, c_updates p (c_hasher_init mem) pieces = Ok h /\
      c_hasher_finalize_seek p h seek out_len = Ok (b3_xof_mode Hash (concat pieces) seek (N.to_nat out_len)).
  Proof. exact (c_update_refines p POK IV 0 eq_refl mem pieces seek out_len). Qed.

  Theorem c_update_refines_keyed mem key pieces seek out_len :
    length key = 32%nat -> length mem = 55%nat -> len (concat pieces) < 2 ^ 64 -> seek + out_len <= 2 ^ 64 - 1 ->
    exists h0 h, c_hasher_init_keyed mem key = Ok h0 /\ c_updates p h0 pieces = Ok h /\
      c_hasher_finalize_seek p h seek out_len = Ok (b3_xof_mode (KeyedHash key) (concat pieces) seek (N.to_nat out_len)).
  Proof.
    intros Hk Hmem Hl Hmax. destruct (c_init_keyed_spec mem key Hk) as [Hi H8].
    destruct (c_update_refines p POK (words_of_bytes key) c_flag_KEYED_HASH H8 mem pieces seek out_len Hmem Hl Hmax)
      as (h & Hu & Hf).
    exists (c_hasher_init_base mem (words_of_bytes key) c_flag_KEYED_HASH), h.
    split; [exact Hi|]. split; [exact Hu|]. exact Hf.
  Qed.

  Theorem c_update_refines_derive_key mem ctx pieces seek out_len :
    len ctx < 2 ^ 64 -> length mem = 55%nat -> len (concat pieces) < 2 ^ 64 -> seek + out_len <= 2 ^ 64 - 1 ->
    exists h0 h, c_hasher_init_derive_key_raw p mem ctx = Ok h0 /\ c_updates p h0 pieces = Ok h /\
      c_hasher_finalize_seek p h seek out_len =
      Ok (b3_xof_mode (DeriveKeyMaterial (b3_hash_mode DeriveKeyContext ctx)) (concat pieces) seek (N.to_nat out_len)).
  Proof.
    intros Hc Hmem Hl Hmax.
    destruct (c_update_refines p POK _ c_flag_DERIVE_KEY_MATERIAL (derive_key_len ctx) mem pieces seek out_len Hmem Hl Hmax)
      as (h & Hu & Hf).
    eexists. exists h. split; [apply (c_init_derive_key_raw_spec mem ctx Hc)|]. split; [exact Hu|]. exact Hf.
  Qed.
End Modes.
