// Line-oriented probe of b3sum's private functions.
//   <id> parse <cfg> <hex of UTF-8 line>        -> ok <path> <hash> <esc> <file_string> | err <kind> | PANIC
//   <id> fts <hex of OS path bytes>       -> <string hex> <is_escaped> <has U+FFFD>
//   <id> unescape <hex>                   -> ok <hex> | err <kind> | PANIC
//   <id> inv <hex>                        -> ok | err <kind>
//   <id> half <scalar decimal>            -> ok <v> | err hex
//   <id> print <plain|tag> <path hex> <hash hex>  -> <hex of the printed line>
//   <id> rt <cfg> <plain|tag> <lf|crlf|none> <path hex> <hash hex> -> printed line hex, then the parse result of it
// `-` stands for the empty byte string. <cfg> (two digits) selects the model configuration on the
// model side and is ignored here.
use b3sum_lib::probe::*;
use std::io::{BufRead, Write};

fn unhex(s: &str) -> Vec<u8> {
    if s == "-" {
        Vec::new()
    } else {
        hex::decode(s).expect("hex")
    }
}

fn run(toks: &[&str]) -> String {
    match toks {
        ["parse", _cfg, h] => match String::from_utf8(unhex(h)) {
            Ok(s) => parse(&s),
            Err(_) => "nonutf8".to_string(),
        },
        ["fts", h] => fts(&unhex(h)),
        ["unescape", h] => match String::from_utf8(unhex(h)) {
            Ok(s) => unesc(&s),
            Err(_) => "nonutf8".to_string(),
        },
        ["inv", h] => match String::from_utf8(unhex(h)) {
            Ok(s) => invalid_chars(&s),
            Err(_) => "nonutf8".to_string(),
        },
        ["half", c] => match char::from_u32(c.parse().unwrap()) {
            Some(c) => half(c),
            None => "nochar".to_string(),
        },
        ["print", form, p, h] => hexs(print_line(&unhex(p), h, *form == "tag").as_bytes()),
        ["rt", _cfg, form, term, p, h] => {
            let mut line = print_line(&unhex(p), h, *form == "tag");
            line.pop();
            match *term {
                "lf" => line.push('\n'),
                "crlf" => line.push_str("\r\n"),
                _ => {}
            }
            format!("{} {}", hexs(line.as_bytes()), parse(&line))
        }
        _ => "BADCASE".to_string(),
    }
}

fn main() {
    std::panic::set_hook(Box::new(|_| {}));
    let stdin = std::io::stdin();
    let stdout = std::io::stdout();
    let mut out = stdout.lock();
    for line in stdin.lock().lines() {
        let line = line.unwrap();
        let toks: Vec<&str> = line.split_whitespace().collect();
        if toks.is_empty() {
            continue;
        }
        writeln!(out, "{} {}", toks[0], run(&toks[1..])).unwrap();
    }
}
