From Coq Require Import NArith ZArith List Bool Arith Lia ZifyBool ZifyN.
From V Require Import Model.AsmFrame.
Import ListNotations.
Open Scope N_scope.
Ltac Zify.zify_post_hook ::= Z.div_mod_to_equations.

(* every access allowed by frame_ok lies inside [sp, sp0) for every incoming alignment *)
Theorem frame_access_inside : forall realigned sp0 n off w,
  n + 63 <= sp0 -> off + w <= n ->
  let sp := frame_sp realigned sp0 n in
  sp <= sp + off /\ sp + off + w <= sp0 /\ sp0 - n - 63 <= sp.
Proof.
  intros realigned sp0 n off w Hs Ha. unfold frame_sp. destruct realigned; cbn zeta; lia.
Qed.

Lemma mem_In x l : mem x l = true <-> In x l.
Proof.
  unfold mem. rewrite existsb_exists. split.
  - intros (y & Hy & E). apply N.eqb_eq in E. subst. exact Hy.
  - intros H. exists x. split; [exact H|apply N.eqb_refl].
Qed.

Lemma list_eqb_eq : forall a b, list_eqb a b = true -> a = b.
Proof.
  induction a as [|x a IH]; intros [|y b] H; cbn in H; try discriminate; [reflexivity|].
  apply andb_true_iff in H. destruct H as [E H]. apply N.eqb_eq in E. subst. f_equal. apply IH. exact H.
Qed.

Lemma nodup_NoDup : forall l, nodup l = true -> NoDup l.
Proof.
  induction l as [|x l IH]; intros H; [constructor|]. cbn in H. apply andb_true_iff in H. destruct H as [H1 H2].
  constructor; [|apply IH; exact H2]. intros Hin. apply mem_In in Hin. rewrite Hin in H1. discriminate.
Qed.

(* popping rev ps from the stack that pushing ps built restores exactly the pushed registers *)
Lemma pops_restore : forall ps (rg0 rg1 : regs) stack,
  NoDup ps ->
  forall r, do_pops rg1 (rev ps) (do_pushes rg0 ps stack) r = if mem r ps then rg0 r else rg1 r.
Proof.
  induction ps as [|p ps IH]; intros rg0 rg1 stack Hnd r; [reflexivity|].
  inversion Hnd as [|? ? Hnotin Hnd']; subst.
  cbn [rev do_pushes].
  (* pops of (rev ps ++ [p]) : first the pops of rev ps, then p *)
  assert (Happ : forall l1 rg st, (length l1 <= length st)%nat ->
            do_pops rg (l1 ++ [p]) st = match skipn (length l1) st with
                                         | v :: _ => set_reg (do_pops rg l1 (firstn (length l1) st)) p v
                                         | [] => do_pops rg l1 (firstn (length l1) st) end).
  { induction l1 as [|a l1 IHl]; intros rg st Hl; cbn [app do_pops length skipn firstn].
    - destruct st; reflexivity.
    - destruct st as [|v st]; [cbn in Hl; lia|]. cbn [length] in Hl. rewrite IHl by lia. reflexivity. }
  (* the stack after pushing ps on top of (rg0 p :: stack) *)
  assert (Hst : forall l rg st, exists top, do_pushes rg l st = top ++ st /\ length top = length l).
  { induction l as [|a l IHl]; intros rg st; [exists []; split; reflexivity|].
    cbn [do_pushes]. destruct (IHl rg (rg a :: st)) as (top & E & L). exists (top ++ [rg a]).
    rewrite <- app_assoc. split; [exact E|]. rewrite app_length, L. cbn. lia. }
  destruct (Hst ps rg0 (rg0 p :: stack)) as (top & Etop & Ltop).
  rewrite Happ by (rewrite Etop, app_length, rev_length; lia).
  rewrite rev_length, Etop, <- Ltop, skipn_app, skipn_all, Nat.sub_diag, firstn_app, firstn_all, Nat.sub_diag.
  cbn [skipn firstn app]. rewrite app_nil_r.
  (* do_pops over rev ps on `top` equals the same on top ++ [] : use IH with stack := [] after rewriting *)
  specialize (IH rg0 rg1 (rg0 p :: stack) Hnd').
  assert (Etop2 : forall rg, do_pops rg (rev ps) top = do_pops rg (rev ps) (top ++ rg0 p :: stack)).
  { assert (G : forall l rg t rest, length l = length t -> do_pops rg l t = do_pops rg l (t ++ rest)).
    { induction l as [|a l IHl]; intros rg t rest L; [reflexivity|]. destruct t as [|v t]; [discriminate|].
      cbn [do_pops app]. apply IHl. cbn in L. lia. }
    intros rg. apply G. rewrite rev_length. symmetry. exact Ltop. }
  rewrite Etop2, <- Etop. unfold set_reg. cbn [mem existsb].
  destruct (r =? p) eqn:E.
  - apply N.eqb_eq in E. subst. reflexivity.
  - cbn [orb]. rewrite IH. reflexivity.
Qed.

(* the discipline: on return every callee-saved register the body may have written holds the caller's value *)
Theorem callee_saved_preserved : forall pushes pops written (rg0 rg1 : regs) stack,
  list_eqb pops (rev pushes) = true -> nodup pushes = true ->
  forallb (fun w => mem w pushes) written = true ->
  (forall r, mem r written = false -> rg1 r = rg0 r) ->         (* the body writes only `written` *)
  forall r, do_pops rg1 pops (do_pushes rg0 pushes stack) r = rg0 r.
Proof.
  intros pushes pops written rg0 rg1 stack Hp Hn Hw Hbody r.
  apply list_eqb_eq in Hp. subst pops. rewrite pops_restore by (apply nodup_NoDup; exact Hn).
  destruct (mem r pushes) eqn:E; [reflexivity|].
  apply Hbody. destruct (mem r written) eqn:Ew; [|reflexivity].
  rewrite forallb_forall in Hw. apply mem_In in Ew. specialize (Hw r Ew). rewrite E in Hw. discriminate.
Qed.

(* ---- Windows: the xmm save slots ---- *)
Lemma pairs_eqb_eq : forall a b, pairs_eqb a b = true -> a = b.
Proof.
  induction a as [|[x1 y1] a IH]; intros [|[x2 y2] b] H; cbn in H; try discriminate; [reflexivity|].
  apply andb_true_iff in H. destruct H as [H H3]. apply andb_true_iff in H. destruct H as [H1 H2].
  apply N.eqb_eq in H1, H2. subst. f_equal. apply IH. exact H3.
Qed.

Lemma restores_other : forall svs (xr : xregs) m r, ~ In r (map fst svs) -> do_restores xr svs m r = xr r.
Proof.
  induction svs as [|[r0 off] tl IH]; intros xr m r Hn; [reflexivity|]. cbn [do_restores map fst] in *.
  rewrite IH by (intros H; apply Hn; right; exact H).
  destruct (r =? r0) eqn:E; [|reflexivity]. apply N.eqb_eq in E. subst. exfalso. apply Hn. left. reflexivity.
Qed.

Lemma restores_get : forall svs (xr : xregs) m r off, NoDup (map fst svs) -> In (r, off) svs ->
  do_restores xr svs m r = m off.
Proof.
  induction svs as [|[r0 o0] tl IH]; intros xr m r off Hnd Hin; [destruct Hin|].
  cbn [map fst] in Hnd. inversion Hnd as [|? ? Hnotin Hnd']; subst. cbn [do_restores].
  destruct Hin as [E|Hin].
  - injection E as -> ->. rewrite restores_other by exact Hnotin. rewrite N.eqb_refl. reflexivity.
  - apply IH; assumption.
Qed.

Lemma saves_other : forall svs (xr : xregs) m o, ~ In o (map snd svs) -> do_saves xr svs m o = m o.
Proof.
  induction svs as [|[r0 off] tl IH]; intros xr m o Hn; [reflexivity|]. cbn [do_saves map snd] in *.
  rewrite IH by (intros H; apply Hn; right; exact H).
  destruct (o =? off) eqn:E; [|reflexivity]. apply N.eqb_eq in E. subst. exfalso. apply Hn. left. reflexivity.
Qed.

Lemma saves_get : forall svs (xr : xregs) m r off, NoDup (map snd svs) -> In (r, off) svs ->
  do_saves xr svs m off = xr r.
Proof.
  induction svs as [|[r0 o0] tl IH]; intros xr m r off Hnd Hin; [destruct Hin|].
  cbn [map snd] in Hnd. inversion Hnd as [|? ? Hnotin Hnd']; subst. cbn [do_saves].
  destruct Hin as [E|Hin].
  - injection E as -> ->. rewrite saves_other by exact Hnotin. rewrite N.eqb_refl. reflexivity.
  - apply IH; assumption.
Qed.

Lemma slots_disjoint_NoDup : forall offs, slots_disjoint offs = true -> NoDup offs.
Proof.
  induction offs as [|o tl IH]; intros H; [constructor|]. cbn in H. apply andb_true_iff in H. destruct H as [H1 H2].
  constructor; [|apply IH; exact H2]. intros Hin. rewrite forallb_forall in H1. specialize (H1 o Hin).
  unfold disjoint16 in H1. lia.
Qed.

(* saves in the prologue, a body that leaves the save slots alone and writes only `written` xmm registers, restores
   from the same slots in the epilogue: every xmm register holds the caller's value again *)
Theorem xmm_preserved : forall saves restores written (x0 x1 : xregs) (m0 m1 : slots),
  pairs_eqb saves restores = true -> nodup (map fst saves) = true -> slots_disjoint (map snd saves) = true ->
  forallb (fun x => mem x (map fst saves)) written = true ->
  (forall off, In off (map snd saves) -> m1 off = do_saves x0 saves m0 off) ->   (* the body does not store into a save slot *)
  (forall r, mem r written = false -> x1 r = x0 r) ->                            (* the body writes only `written` *)
  forall r, do_restores x1 restores m1 r = x0 r.
Proof.
  intros saves restores written x0 x1 m0 m1 He Hn Hd Hw Hm Hx r.
  apply pairs_eqb_eq in He. subst restores.
  apply nodup_NoDup in Hn. apply slots_disjoint_NoDup in Hd.
  destruct (in_dec N.eq_dec r (map fst saves)) as [Hin|Hnin].
  - apply in_map_iff in Hin. destruct Hin as ([r' off] & E & Hin). cbn in E. subst r'.
    rewrite (restores_get saves x1 m1 r off Hn Hin).
    rewrite Hm by (apply in_map_iff; exists (r, off); split; [reflexivity|exact Hin]).
    apply saves_get; assumption.
  - rewrite restores_other by exact Hnin. apply Hx.
    destruct (mem r written) eqn:E; [|reflexivity].
    rewrite forallb_forall in Hw. apply mem_In in E. specialize (Hw r E). apply mem_In in Hw. contradiction.
Qed.
