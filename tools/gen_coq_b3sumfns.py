#!/usr/bin/env python3
"""Side module of tools/gen_coq.py: statement-by-statement translation of the checkfile functions of
b3sum/src/main.rs into coq/gen/GenB3sumFns.v (properties C13 / C12).

    gen_b3sum_fns()   ->  text of GenB3sumFns.v   (the checkfile parser)
    gen_b3sum_fns2()  ->  text of GenB3sumFns2.v  (check_one_line, check_one_checkfile, write_hex_output, write_raw_output,
                                                   hash_one_input, the closure of main; conventions at class FnW)

The source text is tokenised and parsed by a small recursive-descent parser for the Rust subset these functions use;
every statement / expression / method that has no translation rule below raises AnchorError (a broken tie).

Conventions (part of the trusted base):
  * `&str` / `String` / `Cow<str>` / `Chars` are lists of Unicode scalars (`list N`); `str::len`, `find` and the range
    slices count UTF-8 BYTES (Base/Str.v: s_len, s_find_char, s_slice_from / s_slice_to, which panic off a char boundary);
  * `&Path` / `PathBuf` is whatever the caller uses for OS paths; `Path::to_string_lossy` is the parameter
    `ext_to_string_lossy`; `String -> PathBuf` (`.into()`) and `[u8; 32] -> blake3::Hash` (`.into()`) are the identity;
  * `cfg!(windows)` is the parameter `cfg_windows`;
  * a function body is a term of the control monad `ctl R A` of Base/Str.v: `return e` / `bail!(m)` = `creturn`,
    `e?` = `ctry`, panicking operations and calls of translated functions = `clift`; `anyhow::Result<T>` is
    `list N + T` (inl = the message of `bail!` / `ensure!`, as scalars);
  * machine arithmetic is Base/MachInt.v at the operand's width (u8: 8, usize / u64: 64);
  * `while let` is a Fixpoint on explicit fuel (`OutOfFuel` when exhausted); `for x in &mut arr` is recursion over the array;
  * mutable variables are re-bound (`let x := .. in`); an `if` / `match` statement whose arms assign variables binds the
    tuple of the assigned variables;
  * `String::with_capacity(2 * path.len())` is the empty string (the capacity hint is not modelled).
"""
import os
import re
import sys

sys.path.insert(0, os.path.dirname(os.path.abspath(__file__)))
import gen_coq as G  # noqa: E402

AnchorError = G.AnchorError
READ = G.READ
FILE = "b3sum/src/main.rs"

TOKRE = re.compile(r"""
  (?P<ws>\s+|//[^\n]*|/\*.*?\*/)
 |(?P<char>'(?:\\u\{[0-9a-fA-F]+\}|\\.|[^'\\])')
 |(?P<str>"(?:\\.|[^"\\])*")
 |(?P<num>[0-9][0-9_]*(?:u8|u16|u32|u64|usize)?)
 |(?P<macro>[A-Za-z_][A-Za-z0-9_]*!(?!=))
 |(?P<id>[A-Za-z_][A-Za-z0-9_]*(?:::[A-Za-z_][A-Za-z0-9_]*)*)
 |(?P<op>\.\.|=>|==|!=|<=|>=|-=|\+=|&&|\|\||->|[-+*/%&|^!<>=(){}\[\].,;:?\#])
""", re.X | re.S)

ESC = {"\\\\": 92, "\\n": 10, "\\r": 13, "\\t": 9, "\\0": 0, "\\'": 39, '\\"': 34}


COQ_RESERVED = {"left", "right", "fst", "snd", "tt", "inl", "inr", "fuel", "iter", "end", "fun", "fix", "O", "S", "at", "using", "with", "then", "forall", "exists"}


def tokenize(text):
    toks, i = [], 0
    while i < len(text):
        m = TOKRE.match(text, i)
        if not m:
            raise AnchorError("b3sumfns: cannot tokenise %r" % text[i:i + 30])
        i = m.end()
        k = m.lastgroup
        if k == "ws":
            continue
        v = m.group(k)
        if k == "id" and v in COQ_RESERVED:
            v += "_"            # Rust variable names that are Coq constructors / names used by the translation
        toks.append((k, v))
    return toks


def char_code(body, where):
    if body in ESC:
        return ESC[body]
    m = re.fullmatch(r"\\u\{([0-9a-fA-F]+)\}", body)
    if m:
        return int(m.group(1), 16)
    if len(body) == 1:
        return ord(body)
    raise AnchorError("%s: unsupported character literal %r" % (where, body))


def str_codes(body, where):
    out, i = [], 0
    while i < len(body):
        if body[i] == "\\":
            m = re.match(r"\\u\{[0-9a-fA-F]+\}", body[i:])
            n = len(m.group(0)) if m else 2
            out.append(char_code(body[i:i + n], where))
            i += n
        else:
            out.append(ord(body[i]))
            i += 1
    return out


# ---------------------------------------------------------------------------
# parser
# ---------------------------------------------------------------------------
class Parser:
    def __init__(self, toks, pos, name):
        self.t, self.p, self.name = toks, pos, name

    def err(self, msg):
        ctx = " ".join(v for _, v in self.t[self.p:self.p + 8])
        raise AnchorError("%s: %s near `%s`" % (self.name, msg, ctx))

    def peek(self, k=0):
        return self.t[self.p + k] if self.p + k < len(self.t) else ("eof", "")

    def at(self, v, k=0):
        return self.peek(k)[1] == v and self.peek(k)[0] in ("op", "id")

    def eat(self, v):
        if not self.at(v):
            self.err("expected `%s`" % v)
        self.p += 1

    def opt(self, v):
        if self.at(v):
            self.p += 1
            return True
        return False

    def ident(self):
        k, v = self.peek()
        if k != "id" or "::" in v:
            self.err("identifier expected")
        self.p += 1
        return v

    # ---- types (kept as normalised text) ----
    def type_text(self, stops):
        depth, out = 0, []
        while True:
            k, v = self.peek()
            if k == "eof":
                self.err("unterminated type")
            if depth == 0 and v in stops and k == "op":
                break
            if v in "(<[" and k == "op":
                depth += 1
            if v in ")>]" and k == "op":
                depth -= 1
            out.append(v)
            self.p += 1
        return "".join(out)

    # ---- patterns ----
    def pattern(self):
        k, v = self.peek()
        if k == "char":
            self.p += 1
            return ("pchar", char_code(v[1:-1], self.name))
        if self.at("("):
            self.p += 1
            ps = []
            while not self.at(")"):
                ps.append(self.pattern())
                if not self.opt(","):
                    break
            self.eat(")")
            return ("ptuple", ps)
        if k == "id":
            self.p += 1
            if v == "_":
                return ("pwild",)
            if v == "mut":
                return ("pvar", self.ident())
            if self.at("("):
                self.p += 1
                ps = []
                while not self.at(")"):
                    ps.append(self.pattern())
                    if not self.opt(","):
                        break
                self.eat(")")
                return ("pctor", v, ps)
            if self.at("{") and v[0].isupper():
                self.p += 1
                fs = []
                while not self.at("}"):
                    fs.append(self.ident())
                    if not self.opt(","):
                        break
                self.eat("}")
                return ("pstruct", v, fs)
            if v == "None":
                return ("pctor", "None", [])
            return ("pvar", v)
        self.err("unsupported pattern")

    # ---- expressions ----
    PREC = [("||",), ("&&",), ("==", "!=", "<", ">", "<=", ">="), ("+", "-"), ("*", "/", "%")]

    def expr(self, nostruct=False, lvl=0):
        if lvl == len(self.PREC):
            return self.cast(nostruct)
        a = self.expr(nostruct, lvl + 1)
        while self.peek()[0] == "op" and self.peek()[1] in self.PREC[lvl]:
            op = self.peek()[1]
            self.p += 1
            b = self.expr(nostruct, lvl + 1)
            a = ("bin", op, a, b)
            if lvl == 2:
                break
        return a

    def cast(self, nostruct):
        a = self.unary(nostruct)
        while self.at("as"):
            self.p += 1
            a = ("cast", a, self.ident())
        return a

    def unary(self, nostruct):
        if self.at("!"):
            self.p += 1
            return ("un", "!", self.unary(nostruct))
        if self.at("&"):
            self.p += 1
            if self.opt("mut"):
                return ("un", "&mut", self.unary(nostruct))
            return ("un", "&", self.unary(nostruct))
        if self.at("*"):
            self.p += 1
            return ("un", "*", self.unary(nostruct))
        if self.at("-"):
            self.err("unary minus is not supported")
        return self.postfix(nostruct)

    def args(self, close=")"):
        out = []
        while not self.at(close):
            out.append(self.expr())
            if not self.opt(","):
                break
        self.eat(close)
        return out

    def postfix(self, nostruct):
        a = self.primary(nostruct)
        while True:
            if self.at("."):
                self.p += 1
                m = self.ident()
                if self.opt("("):
                    a = ("mcall", a, m, self.args())
                else:
                    a = ("field", a, m)
            elif self.at("?"):
                self.p += 1
                a = ("try", a)
            elif self.at("["):
                self.p += 1
                lo = hi = None
                if not self.at(".."):
                    lo = self.expr()
                if self.opt(".."):
                    if not self.at("]"):
                        hi = self.expr()
                    idx = ("range", lo, hi)
                else:
                    idx = lo
                self.eat("]")
                a = ("index", a, idx)
            elif self.at("(") and a[0] == "var":
                self.p += 1
                a = ("call", a[1], self.args())
            else:
                return a

    def primary(self, nostruct):
        k, v = self.peek()
        if k == "num":
            self.p += 1
            m = re.fullmatch(r"([0-9_]+)(u8|u16|u32|u64|usize)?", v)
            return ("num", int(m.group(1).replace("_", "")), m.group(2))
        if k == "char":
            self.p += 1
            return ("char", char_code(v[1:-1], self.name))
        if k == "str":
            self.p += 1
            return ("str", str_codes(v[1:-1], self.name), v[1:-1])
        if k == "macro":
            self.p += 1
            self.eat("(")
            return ("macro", v[:-1], self.args())
        if self.at("("):
            self.p += 1
            es = self.args()
            if len(es) == 1 and self.t[self.p - 2][1] != ",":
                return es[0]
            return ("tuple", es)
        if self.at("["):
            self.p += 1
            first = self.expr()
            if self.opt(";"):
                n = self.expr()
                self.eat("]")
                return ("repeat", first, n)
            es = [first]
            while self.opt(","):
                if self.at("]"):
                    break
                es.append(self.expr())
            self.eat("]")
            return ("array", es)
        if self.at("if"):
            return self.if_expr()
        if self.at("match"):
            return self.match_expr()
        if k == "id":
            self.p += 1
            if self.at("{") and not nostruct and v[0].isupper() and "::" not in v:
                self.p += 1
                fs = []
                while not self.at("}"):
                    f = self.ident()
                    e = self.expr() if self.opt(":") else ("var", f)
                    fs.append((f, e))
                    if not self.opt(","):
                        break
                self.eat("}")
                return ("struct", v, fs)
            return ("var", v)
        self.err("unsupported expression")

    def cond(self):
        if self.at("let"):
            self.p += 1
            pat = self.pattern()
            self.eat("=")
            return ("let", pat, self.expr(nostruct=True))
        return self.expr(nostruct=True)

    def if_expr(self):
        self.eat("if")
        c = self.cond()
        th = self.block()
        el = None
        if self.opt("else"):
            el = [("expr", self.if_expr(), False)] if self.at("if") else self.block()
        return ("if", c, th, el)

    def match_expr(self):
        self.eat("match")
        scrut = self.expr(nostruct=True)
        self.eat("{")
        arms = []
        while not self.at("}"):
            pat = self.pattern()
            self.eat("=>")
            if self.at("{"):
                body = self.block()
                self.opt(",")
            else:
                body = [("expr", self.expr(), False)]
                if not self.opt(","):
                    if not self.at("}"):
                        self.err("`,` expected after a match arm")
            arms.append((pat, body))
        self.eat("}")
        return ("match", scrut, arms)

    # ---- statements ----
    def block(self):
        self.eat("{")
        ss = []
        while not self.at("}"):
            ss.append(self.stmt())
        self.eat("}")
        return ss

    def stmt(self):
        if self.at("let"):
            self.p += 1
            pat = self.pattern()
            ty = None
            if self.opt(":"):
                ty = self.type_text(("=", ";"))
            init = els = None
            if self.opt("="):
                init = self.expr()
                if self.at("else"):
                    self.p += 1
                    els = self.block()
            self.eat(";")
            return ("let", pat, ty, init, els)
        if self.at("return"):
            self.p += 1
            e = None if self.at(";") else self.expr()
            self.eat(";")
            return ("return", e)
        if self.at("while"):
            self.p += 1
            c = self.cond()
            return ("while", c, self.block())
        if self.at("loop"):
            self.p += 1
            return ("loop", self.block())
        if self.at("for"):
            self.p += 1
            pat = self.pattern()
            self.eat("in")
            it = self.expr(nostruct=True)
            return ("for", pat, it, self.block())
        if self.at("if") or self.at("match"):
            e = self.if_expr() if self.at("if") else self.match_expr()
            semi = self.opt(";")
            return ("expr", e, semi or not self.at("}"))
        e = self.expr()
        if self.opt("="):
            rhs = self.expr()
            self.eat(";")
            return ("assign", e, rhs)
        for cop in ("-=", "+="):
            if self.opt(cop):       # compound assignment: x op= e  is  x = x op e
                rhs = self.expr()
                self.eat(";")
                return ("assign", e, ("bin", cop[0], e, rhs))
        semi = self.opt(";")
        if not semi and not self.at("}"):
            self.err("`;` expected")
        return ("expr", e, semi)


def find_fn(toks, name):
    hits = [i for i in range(len(toks) - 2) if toks[i] == ("id", "fn") and toks[i + 1] == ("id", name) and toks[i + 2] == ("op", "(")]
    if len(hits) != 1:
        raise AnchorError("b3sumfns: fn %s found %d times" % (name, len(hits)))
    p = Parser(toks, hits[0] + 3, name)
    params = []
    while not p.at(")"):
        p.opt("mut")
        pn = p.ident()
        p.eat(":")
        params.append((pn, p.type_text((",", ")"))))
        if not p.opt(","):
            break
    p.eat(")")
    ret = "()"
    if p.opt("->"):
        ret = p.type_text(("{",))
    body = p.block()
    return params, ret, body


def find_struct(toks, name):
    hits = [i for i in range(len(toks) - 2) if toks[i] == ("id", "struct") and toks[i + 1] == ("id", name) and toks[i + 2] == ("op", "{")]
    if len(hits) != 1:
        raise AnchorError("b3sumfns: struct %s found %d times" % (name, len(hits)))
    p = Parser(toks, hits[0] + 3, name)
    fs = []
    while not p.at("}"):
        f = p.ident()
        p.eat(":")
        fs.append((f, p.type_text((",", "}"))))
        if not p.opt(","):
            break
    return fs


# ---------------------------------------------------------------------------
# types
# ---------------------------------------------------------------------------
STRUCTS = {}
NUMW = {"u8": 8, "usize": 64, "u64": 64}


def rust_type(txt, where):
    t = txt.replace(" ", "")
    simple = {"&str": "str", "String": "str", "&String": "str", "char": "char", "u8": "u8", "usize": "usize", "u64": "u64",
              "bool": "bool", "()": "unit", "&Path": "path", "PathBuf": "path", "blake3::Hash": "hash", "&mutu64": "u64",
              "&Args": "args", "blake3::OutputReader": "reader"}
    if t in simple:
        return simple[t]
    m = re.fullmatch(r"anyhow::Result<(.*)>", t)
    if m:
        return ("res", rust_type(m.group(1), where))
    m = re.fullmatch(r"Option<(.*)>", t)
    if m:
        return ("opt", rust_type(m.group(1), where))
    if t.startswith("(") and t.endswith(")"):
        return ("tup", [rust_type(x, where) for x in G._p_split_top(t[1:-1], ",")])
    if t in STRUCTS:
        return ("struct", t)
    raise AnchorError("%s: unsupported type `%s`" % (where, txt))


def coq_ty(t):
    if t in ("str", "path", "hash", "arr", "chars", "err"):
        return "list N"
    if t == "reader":
        return "(stream * N)"
    if t == "take":
        return "((stream * N) * N)"
    if t == "lines":
        return "(list (list N + list N))"
    if t in ("stdout_handle", "stdout_lock"):
        return "unit"
    if t in ("char", "u8", "usize", "u64", "int"):
        return "N"
    if t == "bool":
        return "bool"
    if t == "unit":
        return "unit"
    if t[0] == "opt":
        return "(option %s)" % coq_ty(t[1])
    if t[0] == "res":
        return "(list N + %s)" % coq_ty(t[1])
    if t[0] == "tup":
        return "(%s)" % " * ".join(coq_ty(x) for x in t[1])
    if t[0] == "struct":
        return "(%s)" % " * ".join(coq_ty(ft) for _, ft in STRUCTS[t[1]])
    raise AnchorError("b3sumfns: no Coq type for %r" % (t,))


def coq_list(v):
    return "[" + "; ".join(str(x) for x in v) + "]"


def tuple_of(names):
    return names[0] if len(names) == 1 else "(" + ", ".join(names) + ")"


# ---------------------------------------------------------------------------
# translation of one function
# ---------------------------------------------------------------------------
FNS = {}  # name -> (param types, ret type, needs_fuel, coq name)
FNW = {}  # effectful functions (GenB3sumFns2.v): name -> [(parameter, is `&mut`)] of the translated parameters
FN_TEXT = {}
WORLD = ["w_out", "w_err"]      # stdout, stderr: append-only lists threaded through the effectful functions
MACRO_STREAM = {"print": "w_out", "println": "w_out", "eprintln": "w_err"}
SECTION_VARS = [("ext_to_string_lossy", "list N -> list N"), ("cfg_windows", "bool")]


def names_in(node, acc):
    if isinstance(node, tuple):
        if node and node[0] == "var":
            acc.add(node[1])
        for x in node[1:]:
            names_in(x, acc)
    elif isinstance(node, list):
        for x in node:
            names_in(x, acc)
    return acc


def mutated_in(node, acc):
    """variables assigned or mutated through a method inside `node`, in order of first occurrence"""
    if isinstance(node, tuple):
        if node and node[0] == "assign":
            tgt = node[1]
            while tgt[0] == "un":
                tgt = tgt[2]
            if tgt[0] == "var" and tgt[1] not in acc:
                acc.append(tgt[1])
        if node and node[0] == "mcall" and node[2] in ("push_str", "next", "clear", "fill", "read_line") and node[1][0] == "var" and node[1][1] not in acc:
            acc.append(node[1][1])
        if node and node[0] == "mcall" and node[2] in ("fill", "read_line"):
            for a in node[3]:
                if a[0] == "un" and a[1] == "&mut" and a[2][0] == "var" and a[2][1] not in acc:
                    acc.append(a[2][1])
        if node and node[0] == "macro" and node[1] in MACRO_STREAM and MACRO_STREAM[node[1]] not in acc:
            acc.append(MACRO_STREAM[node[1]])
        if node and node[0] == "call" and node[1] in FNW:
            for a, (pn, mutref) in zip(node[2], FNW[node[1]]):
                while a[0] == "un":
                    a = a[2]
                if mutref and a[0] == "var" and a[1] not in acc:
                    acc.append(a[1])
            for w in WORLD:
                if w not in acc:
                    acc.append(w)
        for x in node[1:]:
            mutated_in(x, acc)
    elif isinstance(node, list):
        for x in node:
            mutated_in(x, acc)
    return acc


def diverges(ss):
    if not ss:
        return False
    s = ss[-1]
    if s[0] == "return":
        return True
    if s[0] == "expr" and s[1][0] == "macro" and s[1][1] == "bail":
        return True
    if s[0] == "expr" and s[1][0] == "if" and s[1][3] is not None:
        return diverges(s[1][2]) and diverges(s[1][3])
    return False


class Fn:
    def __init__(self, toks, name):
        self.name = name
        self.coq = "gen_" + name
        params, ret, self.body = find_fn(toks, name)
        self.params = [(n, rust_type(t, name)) for n, t in params]
        self.ret = rust_type(ret, name)
        self.R = coq_ty(self.ret)
        self.tmp = 0
        self.aux = []       # auxiliary Fixpoints (loops)
        self.nloops = 0
        self.fuel = self.uses_fuel(self.body)

    # hooks of the effectful variant (FnW): what an early return delivers, and the `?` operator
    def wrap(self, t):
        return t

    def try_term(self, t):
        return "ctry %s" % t

    def uses_fuel(self, node):
        if isinstance(node, tuple):
            if node and node[0] in ("while", "loop"):
                return True
            if node and node[0] == "call" and node[1] in FNS and FNS[node[1]][2]:
                return True
            return any(self.uses_fuel(x) for x in node[1:])
        if isinstance(node, list):
            return any(self.uses_fuel(x) for x in node)
        return False

    def err(self, msg):
        raise AnchorError("%s: %s" % (self.name, msg))

    def fresh(self):
        self.tmp += 1
        return "t%d" % self.tmp

    # ---------------- expressions: (binds, term, type) ----------------
    def lift(self, binds, m, ty):
        t = self.fresh()
        binds.append("%s <~ clift (%s) ;;\n" % (t, m))
        return binds, t, ty

    def ex(self, e, env, want=None):
        k = e[0]
        if k == "num":
            return [], str(e[1]), (e[2] or "int")
        if k == "char":
            return [], str(e[1]), "char"
        if k == "str":
            return [], coq_list(e[1]), "str"
        if k == "var":
            v = e[1]
            if v in env:
                if env[v] is None:
                    self.err("variable %s read before it is assigned" % v)
                return [], v, env[v]
            if v == "None":
                return [], "None", ("opt", "any")
            if v in ("true", "false"):
                return [], v, "bool"
            if v == "blake3::OUT_LEN":
                G.src("src/lib.rs")
                return [], "rs_OUT_LEN", "usize"
            self.err("unknown name `%s`" % v)
        if k == "un":
            if e[1] == "!":
                b, t, ty = self.ex(e[2], env)
                if ty != "bool":
                    self.err("`!` on a non-bool")
                return b, "(negb %s)" % t, "bool"
            return self.ex(e[2], env, want)      # & / &mut / * : references are transparent
        if k == "cast":
            b, t, ty = self.ex(e[1], env)
            if ty == "char" and e[2] == "u8":
                return b, "(s_char_as_u8 %s)" % t, "u8"
            self.err("unsupported cast %s as %s" % (ty, e[2]))
        if k == "bin":
            return self.binop(e, env)
        if k == "try":
            b, t, ty = self.ex(e[1], env)
            if ty[0] != "res" or self.ret[0] != "res":
                self.err("`?` on a non-Result")
            v = self.fresh()
            b.append("%s <~ %s ;;\n" % (v, self.try_term(t)))
            return b, v, ty[1]
        if k == "tuple":
            if not e[1]:
                return [], "tt", "unit"
            bs, ts, tys = [], [], []
            for x in e[1]:
                b, t, ty = self.ex(x, env)
                bs += b
                ts.append(t)
                tys.append(ty)
            return bs, "(" + ", ".join(ts) + ")", ("tup", tys)
        if k == "repeat":
            b, t, ty = self.ex(e[1], env)
            b2, n, _ = self.ex(e[2], env)
            if b or b2:
                self.err("unsupported array initialiser")
            return [], "(repeat %s (N.to_nat %s))" % (t, n), "arr"
        if k == "struct":
            if e[1] not in STRUCTS:
                self.err("unknown struct %s" % e[1])
            given = dict(e[2])
            if sorted(given) != sorted(f for f, _ in STRUCTS[e[1]]) or len(given) != len(e[2]):
                self.err("struct literal %s: fields do not match the declaration" % e[1])
            bs, ts = [], {}
            for f, x in e[2]:       # evaluation in written order
                b, t, ty = self.ex(x, env)
                want_t = rust_type(dict(STRUCTS_TXT[e[1]])[f], self.name)
                if coq_ty(ty) != coq_ty(want_t):
                    self.err("field %s of %s has type %r" % (f, e[1], ty))
                bs += b
                ts[f] = t
            return bs, "(" + ", ".join(ts[f] for f, _ in STRUCTS[e[1]]) + ")", ("struct", e[1])
        if k == "macro":
            if e[1] == "cfg" and e[2] == [("var", "windows")]:
                return [], "cfg_windows", "bool"
            self.err("macro %s! in expression position" % e[1])
        if k == "call":
            return self.call(e, env)
        if k == "mcall":
            return self.mcall(e, env, want)
        if k == "index":
            b, r, ty = self.ex(e[1], env)
            idx = e[2]
            if ty != "str" or idx is None or idx[0] != "range":
                self.err("unsupported index expression")
            lo, hi = idx[1], idx[2]
            if (lo is None) == (hi is None):
                self.err("unsupported range")
            b2, i, ity = self.ex(lo if hi is None else hi, env)
            if ity not in ("usize", "int"):
                self.err("range bound is not a usize")
            return self.lift(b + b2, "%s %s %s" % ("s_slice_from" if hi is None else "s_slice_to", r, i), "str")
        if k == "if":
            return self.if_value(e, env)
        self.err("unsupported expression %r" % (k,))

    def binop(self, e, env):
        op = e[1]
        b1, a, ta = self.ex(e[2], env)
        b2, b, tb = self.ex(e[3], env)
        if ta == "int":
            ta = tb
        if tb == "int":
            tb = ta
        if op in ("&&", "||"):
            if b2 or ta != "bool" or tb != "bool":
                self.err("unsupported operand of %s" % op)
            return b1, "(%s %s %s)" % ("andb" if op == "&&" else "orb", a, b), "bool"
        if coq_ty(ta) != coq_ty(tb) and not (ta == "str" and tb == "str"):
            self.err("operands of %s have types %r and %r" % (op, ta, tb))
        bs = b1 + b2
        if op in ("==", "!="):
            if coq_ty(ta) == "N":
                t = "(%s =? %s)" % (a, b)
            elif coq_ty(ta) == "list N":
                t = "(s_eqb %s %s)" % (a, b)
            else:
                self.err("unsupported == on %r" % (ta,))
            return bs, t if op == "==" else "(negb %s)" % t, "bool"
        if op in ("<", "<=", ">", ">="):
            if coq_ty(ta) != "N":
                self.err("unsupported comparison on %r" % (ta,))
            t = {"<": "(%s <? %s)" % (a, b), "<=": "(%s <=? %s)" % (a, b), ">": "(%s <? %s)" % (b, a), ">=": "(%s <=? %s)" % (b, a)}[op]
            return bs, t, "bool"
        if op in ("+", "-", "*"):
            if ta == "str" and op == "+":
                return bs, "(%s ++ %s)" % (a, b), "str"
            if ta not in NUMW:
                self.err("arithmetic on %r" % (ta,))
            f = {"+": "mi_add", "-": "mi_sub", "*": "mi_mul"}[op]
            return self.lift(bs, "%s %d %s %s" % (f, NUMW[ta], a, b), ta)
        self.err("unsupported operator %s" % op)

    def call(self, e, env):
        f, args = e[1], e[2]
        if f in ("Ok", "Some"):
            if len(args) != 1:
                self.err("%s with %d arguments" % (f, len(args)))
            b, t, ty = self.ex(args[0], env)
            return (b, "(inr %s)" % t, ("res", ty)) if f == "Ok" else (b, "(Some %s)" % t, ("opt", ty))
        if f == "String::with_capacity":
            a = args[0] if len(args) == 1 else None
            if not (a and a[0] == "bin" and a[1] == "*" and a[2] == ("num", 2, None) and a[3][0] == "mcall" and a[3][2] == "len"
                    and a[3][1][0] == "var" and env.get(a[3][1][1]) == "str" and a[3][3] == []):
                self.err("String::with_capacity: unrecognised capacity expression")
            return [], "[]", "str"
        if f in FNS:
            ptys, rty, fuel, cn = FNS[f]
            if len(args) != len(ptys):
                self.err("call of %s with %d arguments" % (f, len(args)))
            bs, ts = [], []
            for x, pt in zip(args, ptys):
                b, t, ty = self.ex(x, env)
                if coq_ty(ty) != coq_ty(pt):
                    self.err("argument of %s has type %r" % (f, ty))
                bs += b
                ts.append(t)
            return self.lift(bs, "%s %s%s" % (cn, "fuel " if fuel else "", " ".join(ts)), rty)
        self.err("call of untranslated function `%s`" % f)

    def char_set(self, a):
        if a[0] == "array" and a[1] and all(x[0] == "char" for x in a[1]):
            return [x[1] for x in a[1]]
        self.err("character set expected")

    def mcall(self, e, env, want):
        recv, m, args = e[1], e[2], e[3]
        # Chars::next on a variable advances the variable
        if m == "next" and not args and recv[0] == "var" and env.get(recv[1]) == "chars":
            t = self.fresh()
            return ["let '(%s, %s) := s_chars_next %s in\n" % (t, recv[1], recv[1])], t, ("opt", "char")
        b, r, ty = self.ex(recv, env)
        n = len(args)
        if ty == "path" and m == "to_string_lossy" and n == 0:
            return b, "(ext_to_string_lossy %s)" % r, "str"
        if ty == "str" and m == "to_string" and n == 0:
            return b, r, "str"
        if m == "into" and n == 0 and ty in ("str", "arr"):
            return b, r, ty          # the let annotation / field type decides (checked there)
        if ty == "str" and m == "replace" and n == 2 and args[0][0] == "char" and args[1][0] == "str":
            return b, "(s_replace_char %d %s %s)" % (args[0][1], coq_list(args[1][1]), r), "str"
        if ty == "str" and m == "contains" and n == 1:
            if args[0][0] == "char":
                return b, "(s_contains_char %d %s)" % (args[0][1], r), "bool"
            return b, "(s_contains_any %s %s)" % (coq_list(self.char_set(args[0])), r), "bool"
        if ty == "str" and m == "trim_end_matches" and n == 1:
            return b, "(s_trim_end_matches %s %s)" % (coq_list(self.char_set(args[0])), r), "str"
        if ty == "str" and m == "find" and n == 1 and args[0][0] == "char":
            return b, "(s_find_char %d %s)" % (args[0][1], r), ("opt", "usize")
        if ty == "str" and m == "len" and n == 0:
            return b, "(s_len %s)" % r, "usize"
        if ty == "str" and m == "is_empty" and n == 0:
            return b, "(s_is_empty %s)" % r, "bool"
        if ty == "str" and m == "chars" and n == 0:
            return b, r, "chars"
        if ty == "chars" and m == "next" and n == 0:
            return b, "(fst (s_chars_next %s))" % r, ("opt", "char")
        if ty[0] == "opt" and m == "unwrap" and n == 0:
            return self.lift(b, "s_unwrap %s" % r, ty[1])
        if ty == "str" and m in ("starts_with", "split_once", "rsplit_once") and n == 1:
            b2, p, pty = self.ex(args[0], env)
            if pty != "str" or b2:
                self.err("%s: pattern must be a &str" % m)
            if m == "starts_with":
                return b, "(s_starts_with %s %s)" % (p, r), "bool"
            return b, "(s_%s %s %s)" % (m, p, r), ("opt", ("tup", ["str", "str"]))
        if ty == "u64" and m == "saturating_add" and n == 1 and args[0][0] == "num":
            return b, "(s_sat_add64 %s %d)" % (r, args[0][1]), "u64"
        self.err("no translation for method `%s` on %r" % (m, ty))

    def if_value(self, e, env):
        """`if c { a } else { b }` used as a value"""
        c, th, el = e[1], e[2], e[3]
        if el is None or (isinstance(c, tuple) and c[0] == "let"):
            self.err("unsupported if-expression")
        b, ct, cty = self.ex(c, env)
        if cty != "bool":
            self.err("condition is not a bool")
        tys = []
        V = [v for v in mutated_in([th, el], []) if v in env]

        def fin(env2, v):
            if v is None:
                self.err("if-expression arm without a value")
            tys.append(v[1])
            for x in V:
                if env2[x] is None or coq_ty(env2[x]) != coq_ty(env[x]):
                    self.err("variable %s changes its type in an if-expression" % x)
            return "cret %s" % tuple_of([v[0]] + V)
        a1 = self.block(th, dict(env), fin)
        a2 = self.block(el, dict(env), fin)
        if len(tys) != 2 or coq_ty(tys[0]) != coq_ty(tys[1]):
            self.err("if-expression arms of different types")
        t = self.fresh()
        b.append("%s <~ (if %s then\n%s\nelse\n%s) ;;\n" % (t if not V else "'" + tuple_of([t] + V), ct, a1, a2))
        return b, t, tys[0]

    # ---------------- patterns ----------------
    def pat(self, p, ty, env):
        """Coq pattern; binds the variables in env"""
        if p[0] == "pvar":
            env[p[1]] = ty
            return p[1]
        if p[0] == "pwild":
            return "_"
        if p[0] == "ptuple":
            if ty[0] != "tup" or len(ty[1]) != len(p[1]):
                self.err("tuple pattern against %r" % (ty,))
            return "(" + ", ".join(self.pat(q, t, env) for q, t in zip(p[1], ty[1])) + ")"
        if p[0] == "pctor" and p[1] == "Some" and len(p[2]) == 1 and ty[0] == "opt":
            return "Some " + self.pat(p[2][0], ty[1], env)
        if p[0] == "pstruct" and ty == ("struct", p[1]):
            if p[2] != [f for f, _ in STRUCTS[p[1]]]:
                self.err("struct pattern %s: fields must be listed in declaration order" % p[1])
            for f, ft in STRUCTS[p[1]]:
                env[f] = ft
            return "(" + ", ".join(p[2]) + ")"
        self.err("unsupported pattern %r against %r" % (p, ty))

    # ---------------- statements ----------------
    def msg(self, e):
        if e[0] != "str" or "{" in e[2]:
            self.err("message must be a plain string literal")
        return coq_list(e[1])

    def block(self, ss, env, fin):
        if not ss:
            return fin(env, None)
        s, rest = ss[0], ss[1:]
        k = s[0]
        if k == "let":
            return self.let(s, rest, env, fin)
        if k == "assign":
            tgt = s[1]
            while tgt[0] == "un" and tgt[1] == "*":
                tgt = tgt[2]
            if tgt[0] != "var" or tgt[1] not in env:
                self.err("unsupported assignment target")
            b, t, ty = self.ex(s[2], env)
            if env[tgt[1]] is not None and coq_ty(env[tgt[1]]) != coq_ty(ty):
                self.err("assignment changes the type of %s" % tgt[1])
            if env[tgt[1]] is None or env[tgt[1]] == "int":
                env[tgt[1]] = ty
            return "".join(b) + "let %s := %s in\n" % (tgt[1], t) + self.block(rest, env, fin)
        if k == "return":
            if rest:
                self.err("statements after return")
            b, t, ty = self.ex(s[1], env) if s[1] is not None else ([], "tt", "unit")
            self.check_ret(ty)
            return "".join(b) + "creturn %s" % self.wrap(t)
        if k == "while":
            return self.while_let(s, rest, env, fin)
        if k == "for":
            return self.for_mut(s, rest, env, fin)
        if k == "expr":
            e = s[1]
            if e[0] == "macro" and e[1] == "bail":
                if rest or len(e[2]) != 1 or self.ret[0] != "res":
                    self.err("unsupported bail!")
                return "creturn %s" % self.wrap("(inl %s)" % self.msg(e[2][0]))
            if e[0] == "macro" and e[1] == "ensure":
                if len(e[2]) != 2 or self.ret[0] != "res":
                    self.err("unsupported ensure!")
                b, c, cty = self.ex(e[2][0], env)
                if cty != "bool":
                    self.err("ensure! on a non-bool")
                return "".join(b) + "if %s then\n%s\nelse creturn %s" % (c, self.block(rest, env, fin), self.wrap("(inl %s)" % self.msg(e[2][1])))
            if e[0] == "mcall" and e[2] == "push_str" and e[1][0] == "var" and env.get(e[1][1]) == "str" and len(e[3]) == 1 and s[2]:
                b, t, ty = self.ex(e[3][0], env)
                if ty != "str":
                    self.err("push_str of a non-str")
                v = e[1][1]
                return "".join(b) + "let %s := %s ++ %s in\n" % (v, v, t) + self.block(rest, env, fin)
            if e[0] == "if" and (s[2] or rest or e[3] is None):
                return self.if_stmt(e, rest, env, fin)
            if e[0] == "match" and (s[2] or rest):
                return self.match_stmt(e, rest, env, fin)
            if not rest and not s[2]:
                b, t, ty = self.ex(e, env)
                return "".join(b) + fin(env, (t, ty))
            if e[0] == "try" and s[2]:
                b, t, ty = self.ex(e, env)
                return "".join(b) + self.block(rest, env, fin)
            self.err("unsupported expression statement %r" % (e[0],))
        self.err("unsupported statement %r" % (k,))

    def check_ret(self, ty):
        def ok(a, want):
            if isinstance(a, tuple) and isinstance(want, tuple) and a[0] == want[0] and a[0] in ("res", "opt"):
                return a[1] == "any" or ok(a[1], want[1])
            return coq_ty(a) == coq_ty(want)
        if not ok(ty, self.ret):
            self.err("returned value of type %r, function returns %r" % (ty, self.ret))

    def let(self, s, rest, env, fin):
        _, pat, tytxt, init, els = s
        if init is None:
            if pat[0] != "pvar":
                self.err("unsupported declaration")
            env[pat[1]] = None
            return self.block(rest, env, fin)
        b, t, ty = self.ex(init, env)
        if tytxt is not None:
            want = rust_type(tytxt, self.name)
            if coq_ty(want) != coq_ty(ty):
                self.err("let annotation %s does not fit %r" % (tytxt, ty))
            ty = want
        if els is not None:
            if not diverges(els):
                self.err("let-else whose else block does not diverge")
            d = self.block(els, dict(env), fin)
            cp = self.pat(pat, ty, env)
            return "".join(b) + "match %s with\n| %s =>\n%s\n| _ => %s\nend" % (t, cp, self.block(rest, env, fin), d)
        if pat[0] == "pvar":
            env[pat[1]] = ty
            return "".join(b) + "let %s := %s in\n" % (pat[1], t) + self.block(rest, env, fin)
        cp = self.pat(pat, ty, env)
        return "".join(b) + "let '%s := %s in\n" % (cp, t) + self.block(rest, env, fin)

    def cond_open(self, c, env, env_then):
        """(binds, coq text up to and including the `then` / `=>`, text between the arms, closing text)"""
        if isinstance(c, tuple) and c[0] == "let":
            b, t, ty = self.ex(c[2], env)
            cp = self.pat(c[1], ty, env_then)
            return b, "match %s with\n| %s =>\n" % (t, cp), "\n| _ =>\n", "\nend"
        b, t, ty = self.ex(c, env)
        if ty != "bool":
            self.err("condition is not a bool")
        return b, "if %s then\n" % t, "\nelse\n", ""

    def if_stmt(self, e, rest, env, fin):
        c, th, el = e[1], e[2], e[3]
        if el is None and diverges(th):
            env_t = dict(env)
            b, op, mid, cl = self.cond_open(c, env, env_t)
            a1 = self.block(th, env_t, fin)
            return "".join(b) + op + a1 + mid + self.block(rest, env, fin) + cl
        # arms assign variables of the enclosing scope (or diverge): bind the tuple of the assigned variables
        V = [v for v in mutated_in(("if", None, th, el), []) if v in env]
        if not V:
            self.err("if statement without effect on the translated state")
        tys = {}

        def fin_v(env2, v):
            if v is not None:
                self.err("unexpected value in a statement arm")
            for x in V:
                if env2[x] is None:
                    self.err("variable %s is not assigned on every path" % x)
                if x in tys and coq_ty(tys[x]) != coq_ty(env2[x]):
                    self.err("variable %s gets different types" % x)
                tys.setdefault(x, env2[x])
            return "cret %s" % tuple_of(V)
        text = self.if_chain(("if", c, th, el), env, fin_v)
        for x in V:
            env[x] = tys[x]
        pat = V[0] if len(V) == 1 else "'" + tuple_of(V)
        return "%s <~ (%s) ;;\n" % (pat, text) + self.block(rest, env, fin)

    def if_chain(self, e, env, fin_v):
        c, th, el = e[1], e[2], e[3]
        env_t = dict(env)
        b, op, mid, cl = self.cond_open(c, env, env_t)
        a1 = self.block(th, env_t, fin_v)
        if el is None:
            a2 = fin_v(dict(env), None)
        elif len(el) == 1 and el[0][0] == "expr" and el[0][1][0] == "if":
            a2 = self.if_chain(el[0][1], env, fin_v)
        else:
            a2 = self.block(el, dict(env), fin_v)
        return "".join(b) + op + a1 + mid + a2 + cl     # effects of an `else if` condition are evaluated inside the else arm

    def match_stmt(self, e, rest, env, fin):
        b, t, ty = self.ex(e[1], env)
        arms = e[2]
        if ty != "char" or not arms or arms[-1][0] != ("pwild",) or any(p[0] != "pchar" for p, _ in arms[:-1]):
            self.err("unsupported match (char literals and a final `_` arm expected)")
        V = [v for v in mutated_in([a for _, a in arms], []) if v in env]
        tys = {}

        def fin_v(env2, v):
            for x in V:
                tys.setdefault(x, env2[x])
            return "cret %s" % (tuple_of(V) if V else "tt")
        text = ""
        for p, a in arms[:-1]:
            text += "if %s =? %d then\n%s\nelse " % (t, p[1], self.arm(a, dict(env), fin_v))
        text += self.arm(arms[-1][1], dict(env), fin_v)
        pat = "_" if not V else (V[0] if len(V) == 1 else "'" + tuple_of(V))
        return "".join(b) + "%s <~ (%s) ;;\n" % (pat, text) + self.block(rest, env, fin)

    def arm(self, a, env, fin_v):
        # an arm written as an expression is a statement here
        if len(a) == 1 and a[0][0] == "expr" and not a[0][2]:
            a = [("expr", a[0][1], True)]
        return self.block(a, env, fin_v)

    def loop_sig(self, body_nodes, env, exclude=()):
        used = names_in(body_nodes, set())
        S = [v for v in mutated_in(body_nodes, []) if v in env and v not in exclude]
        Rd = [v for v in env if v in used and v not in S and v not in exclude and env[v] is not None]
        return S, Rd

    def while_let(self, s, rest, env, fin):
        c, body = s[1], s[2]
        if not (isinstance(c, tuple) and c[0] == "let"):
            self.err("only `while let` loops are translated")
        self.nloops += 1
        fname = "%s_while%d" % (self.coq, self.nloops)
        S, Rd = self.loop_sig([c[2], body], env)
        if not S:
            self.err("while loop without state")
        lenv = dict(env)
        b, t, ty = self.ex(c[2], lenv)
        benv = dict(lenv)
        cp = self.pat(c[1], ty, benv)
        call = "%s fuel %s" % (fname, " ".join(Rd + S))
        btxt = self.block(body, benv, lambda env2, v: call)
        sig = " ".join("(%s : %s)" % (v, coq_ty(env[v])) for v in Rd + S)
        sty = " * ".join(coq_ty(env[v]) for v in S)
        self.aux.append("Fixpoint %s (fuel : nat) %s {struct fuel} : ctl %s (%s) :=\n%smatch %s with\n| %s =>\nmatch fuel with\n| O => OutOfFuel\n| S fuel =>\n%s\nend\n| _ => cret %s\nend.\n"
                        % (fname, sig, self.R, sty, "".join(b), t, cp, btxt, tuple_of(S)))
        pat = S[0] if len(S) == 1 else "'" + tuple_of(S)
        return "%s <~ %s ;;\n" % (pat, call) + self.block(rest, env, fin)

    def for_mut(self, s, rest, env, fin):
        pat, it, body = s[1], s[2], s[3]
        if not (pat[0] == "pvar" and it[0] == "un" and it[1] == "&mut" and it[2][0] == "var" and env.get(it[2][1]) == "arr"):
            self.err("only `for x in &mut <array>` loops are translated")
        x, arr = pat[1], it[2][1]
        last = body[-1] if body else None
        if not (last and last[0] == "assign" and last[1] == ("un", "*", ("var", x))):
            self.err("for loop must end with `*%s = ..;`" % x)
        self.nloops += 1
        fname = "%s_for%d" % (self.coq, self.nloops)
        S, Rd = self.loop_sig(body, env, exclude=(arr, x))
        if arr in names_in(body, set()):
            self.err("for loop body uses the array it iterates over")
        benv = dict(env)
        benv[x] = "u8"
        rec = "%s %s" % (fname, " ".join(Rd + ["iter"] + S))
        outs = ["iter"] + S
        btxt = self.block(body, benv, lambda env2, v: "'%s <~ %s ;;\ncret (%s)" % (tuple_of(outs), rec, ", ".join(["%s :: iter" % x] + S)))
        sig = " ".join(["(%s : %s)" % (v, coq_ty(env[v])) for v in Rd] + ["(iter : list N)"] + ["(%s : %s)" % (v, coq_ty(env[v])) for v in S])
        sty = " * ".join(["list N"] + [coq_ty(env[v]) for v in S])
        self.aux.append("Fixpoint %s %s {struct iter} : ctl %s (%s) :=\nmatch iter with\n| [] => cret (%s)\n| %s :: iter =>\n%s\nend.\n"
                        % (fname, sig, self.R, sty, ", ".join(["[]"] + S), x, btxt))
        call = "%s %s" % (fname, " ".join(Rd + [arr] + S))
        return "'%s <~ %s ;;\n" % (tuple_of([arr] + S), call) + self.block(rest, env, fin)

    # ---------------- whole function ----------------
    def translate(self):
        env = {n: t for n, t in self.params}

        def fin(env2, v):
            if v is None:
                if self.ret != "unit":
                    self.err("function body ends without a value")
                return "cret tt"
            self.check_ret(v[1])
            return "cret %s" % v[0]
        body = self.block(self.body, env, fin)
        sig = "".join(" (%s : %s)" % (n, coq_ty(t)) for n, t in self.params)
        head = "(* fn %s *)\n" % self.name
        return head + "".join(a + "\n" for a in self.aux) + "Definition %s%s%s : res %s :=\ncrun (\n%s).\n" % (
            self.coq, " (fuel : nat)" if self.fuel else "", sig, self.R, body)



# ---------------------------------------------------------------------------
# effectful functions (GenB3sumFns2.v): check_one_line, check_one_checkfile, write_hex_output, write_raw_output
#
# Additional conventions (part of the trusted base):
#   * stdout / stderr are the append-only lists `w_out` / `w_err` (scalars for text, bytes for --raw); every translated
#     function takes them as two extra parameters and returns (value, <its `&mut` parameters>, w_out, w_err); an early
#     return / `?` delivers the current values.  print! / println! / eprintln! are `io_write_all` of the formatted text
#     (only `{}` placeholders with str / anyhow::Error arguments; an error displays as its message);
#   * `args: &Args` is not a parameter: `args.quiet()`, `args.len()`, `args.seek()` are the Section variables
#     args_quiet, args_len, args_seek;
#   * `blake3::OutputReader` is (stream, position); `OutputReader::fill` is Base/Str.v rd_fill over the oracle `ext_fill`;
#     `hash_path` is `gen_hash_path` of the header (oracle `ext_hash_file`, position = args.seek(): its last three
#     statements are pinned textually);
#   * opening the checkfile (stdin or File::open, wrapped in a BufReader) is the oracle `ext_open_checkfile`, which
#     delivers the pending `read_line` results (Base/Str.v s_read_line); that `if` statement is matched as a whole;
#   * `std::io::copy(&mut reader.take(n), &mut stdout.lock())` is Base/Str.v io_copy_take (write_all of every piece);
#     plain `Write::write` has no translation;
#   * `loop { .. }` (last statement, left by `return` only) and `while cond { .. }` are Fixpoints on explicit fuel;
#   * usize and u64 are both 64 bits wide (`as usize` / `as u64` between them is the identity).
# ---------------------------------------------------------------------------
SECTION_VARS2 = [("ext_to_string_lossy", "list N -> list N"), ("cfg_windows", "bool"), ("stream", "Type"), ("ext_hash_file", "list N -> list N + stream"),
                 ("ext_fill", "stream -> N -> N -> list N"), ("ext_open_checkfile", "list N -> list N + list (list N + list N)"),
                 ("ext_copy_buf", "N"), ("args_quiet", "bool"), ("args_len", "N"), ("args_seek", "N"),
                 ("args_raw", "bool"), ("args_no_names", "bool"), ("args_tag", "bool"), ("args_check", "bool"),
                 ("args_file_args", "list (list N)")]
ARGS_METHODS = {"quiet": ("args_quiet", "bool"), "len": ("args_len", "u64"), "seek": ("args_seek", "u64"),
                "raw": ("args_raw", "bool"), "no_names": ("args_no_names", "bool"), "tag": ("args_tag", "bool"),
                "check": ("args_check", "bool")}
ORDER2 = ["check_one_line", "check_one_checkfile", "write_hex_output", "write_raw_output", "hash_one_input"]
# main: the statements before the closure (argument parsing, thread pool) are pinned textually; the closure body is translated.
# `std::process::exit(c)` ends the run with Ok(c); an Err leaving the closure (`?`) is main's Err (status 1 from the runtime).
MAIN_PREFIX = r"""fn main\(\) -> anyhow::Result<\(\)> \{
    let args = Args::parse\(\)\?;
    let mut thread_pool_builder = rayon_core::ThreadPoolBuilder::new\(\);
    if let Some\(num_threads\) = args\.num_threads\(\) \{
        thread_pool_builder = thread_pool_builder\.num_threads\(num_threads\);
    \}
    let thread_pool = thread_pool_builder\.build\(\)\?;
    thread_pool\.install\(\|\| \{"""

OPEN_TEMPLATE = """{ if path == Path::new("-") {
        stdin = io::stdin();
        stdin_lock = stdin.lock();
        bufreader = io::BufReader::new(&mut stdin_lock);
    } else {
        file = File::open(path)?;
        bufreader = io::BufReader::new(&mut file);
    } }"""
HASH_PATH_TAIL = r"let mut output_reader = hasher\.finalize_xof\(\);\s*output_reader\.set_position\(args\.seek\(\)\);\s*Ok\(output_reader\)\s*\}\s*$"


def strip_ref(a):
    while a[0] == "un" and a[1] in ("&", "&mut", "*"):
        a = a[2]
    return a


class FnW(Fn):
    def __init__(self, toks, name, parsed=None):
        self.name = name
        self.coq = "gen_" + name
        params, ret, self.body = parsed if parsed else find_fn(toks, name)
        self.params, self.mutrefs, self.args_name = [], [], ("args" if parsed else None)
        for n, t in params:
            ty = rust_type(t, name)
            if ty == "args":
                self.args_name = n
                continue
            self.params.append((n, ty))
            if t.replace(" ", "").startswith("&mut"):
                self.mutrefs.append(n)
        self.ret = ret if parsed else rust_type(ret, name)
        self.outs = self.mutrefs + WORLD
        ptys = dict(self.params)
        self.R = "(%s)" % " * ".join([coq_ty(self.ret)] + [coq_ty(ptys[m]) for m in self.mutrefs] + ["list N"] * len(WORLD))
        self.tmp = 0
        self.aux = []
        self.nloops = 0
        self.fuel = self.uses_fuel(self.body)
        self.open_ast = Parser(tokenize(OPEN_TEMPLATE), 0, "template").block()[0][1]

    def uses_fuel(self, node):
        if isinstance(node, tuple) and node and node[0] == "call" and node[1] == "std::io::copy":
            return True
        return Fn.uses_fuel(self, node)

    def wrap(self, t):
        return "(%s)" % ", ".join([t] + self.outs)

    def try_term(self, t):
        return "ctryw (fun r_ => %s) %s" % (self.wrap("r_"), t)

    # ---------------- expressions ----------------
    def ex(self, e, env, want=None):
        k = e[0]
        if k == "var" and e[1] == "NAME" and "NAME" not in env:
            m = G.find1(r'const NAME: &str = "([^"\\]*)";', G.src(FILE), "b3sum NAME")
            return [], coq_list(str_codes(m.group(1), self.name)), "str"
        if k == "var" and e[1] == "blake3::BLOCK_LEN":
            G.src("src/lib.rs")
            return [], "rs_BLOCK_LEN", "usize"
        if k == "mcall" and strip_ref(e[1]) == ("var", self.args_name) and self.args_name not in env:
            if e[2] not in ARGS_METHODS or e[3]:
                self.err("no translation for args.%s" % e[2])
            return [], ARGS_METHODS[e[2]][0], ARGS_METHODS[e[2]][1]
        if k == "cast" and e[2] in ("u64", "usize"):
            b, t, ty = self.ex(e[1], env)
            if ty in ("u64", "usize"):
                return b, t, e[2]
            self.err("unsupported cast %r as %s" % (ty, e[2]))
        if k == "index" and e[2] == ("range", None, None):
            b, t, ty = self.ex(e[1], env)
            if ty != "arr":
                self.err("unsupported full-range index")
            return b, t, ty
        if k == "match":
            return self.match_value(e, env)
        return Fn.ex(self, e, env, want)

    def call(self, e, env):
        f, args = e[1], e[2]
        if f in FNW or f == "hash_path":
            args = [a for a in args if strip_ref(a) != ("var", self.args_name)]
        if f == "hash_path":
            if len(args) != 1:
                self.err("hash_path: unexpected arguments")
            b, t, ty = self.ex(args[0], env)
            if ty != "path":
                self.err("hash_path of a non-path")
            return b, "(gen_hash_path %s)" % t, ("res", "reader")
        if f in FNW:
            ptys, rty, fuel, cn = FNS[f]
            if len(args) != len(ptys):
                self.err("call of %s with %d arguments" % (f, len(args)))
            bs, ts, outs = [], [], []
            for x, pt, (pn, mutref) in zip(args, ptys, FNW[f]):
                if mutref:
                    v = strip_ref(x)
                    if not (v[0] == "var" and (x[:2] == ("un", "&mut") or v[1] in self.mutrefs) and env.get(v[1]) is not None):
                        self.err("argument %s of %s must be a `&mut` variable" % (pn, f))
                    outs.append(v[1])
                b, t, ty = self.ex(x, env)
                if coq_ty(ty) != coq_ty(pt):
                    self.err("argument of %s has type %r" % (f, ty))
                bs += b
                ts.append(t)
            t = self.fresh()
            bs.append("'%s <~ clift (%s %s%s) ;;\n" % (tuple_of([t] + outs + WORLD), cn, "fuel " if fuel else "", " ".join(ts + WORLD)))
            return bs, t, rty
        if f == "String::new" and not args:
            return [], "[]", "str"
        if f == "std::io::stdout" and not args:
            return [], "tt", "stdout_handle"
        if f == "hex::encode" and len(args) == 1:
            b, t, ty = self.ex(args[0], env)
            if ty != "arr":
                self.err("hex::encode of %r" % (ty,))
            return b, "(s_hex_encode %s)" % t, "str"
        if f == "cmp::min" and len(args) == 2:
            b1, a, ta = self.ex(args[0], env)
            b2, c, tc = self.ex(args[1], env)
            if ta != tc or ta not in NUMW:
                self.err("cmp::min of %r and %r" % (ta, tc))
            return b1 + b2, "(N.min %s %s)" % (a, c), ta
        if f == "std::io::copy" and len(args) == 2:
            r, w = args
            if not (r[:2] == ("un", "&mut") and r[2][0] == "var" and env.get(r[2][1]) == "take"
                    and w[:2] == ("un", "&mut") and w[2][0] == "var" and env.get(w[2][1]) == "stdout_lock"):
                self.err("io::copy: only `&mut <OutputReader.take(n)>` into `&mut <stdout lock>` is translated")
            rv = r[2][1]
            t = self.fresh()
            return (["'(%s, %s, w_out) <~ clift (io_copy_take ext_fill ext_copy_buf fuel (fst %s) (snd %s) w_out 0) ;;\n" % (t, rv, rv, rv)],
                    "(inr %s)" % t, ("res", "u64"))
        return Fn.call(self, e, env)

    def mcall(self, e, env, want):
        recv, m, args = e[1], e[2], e[3]
        rv = strip_ref(recv)
        rty = env.get(rv[1]) if rv[0] == "var" else None
        if rty == "lines" and m == "read_line" and len(args) == 1 and args[0][:2] == ("un", "&mut") and args[0][2][0] == "var" \
                and env.get(args[0][2][1]) == "str":
            t = self.fresh()
            ln = args[0][2][1]
            return ["let '(%s, %s, %s) := s_read_line %s %s in\n" % (t, ln, rv[1], rv[1], ln)], t, ("res", "usize")
        if rty == "reader" and m == "take" and len(args) == 1:
            b, n, nty = self.ex(args[0], env)
            if nty != "u64":
                self.err("take of a non-u64")
            return b, "(%s, %s)" % (rv[1], n), "take"
        if rty == "stdout_handle" and m == "lock" and not args:
            return [], "tt", "stdout_lock"
        if rty == "arr" and m == "len" and not args:
            return [], "(a_len %s)" % rv[1], "usize"
        if rty in ("reader", "take", "lines", "stdout_handle", "stdout_lock"):
            self.err("no translation for method `%s` on %r" % (m, rty))
        return Fn.mcall(self, e, env, want)

    def pat(self, p, ty, env):
        if p[0] == "pctor" and p[1] in ("Ok", "Err") and len(p[2]) == 1 and ty[0] == "res":
            return ("inr " if p[1] == "Ok" else "inl ") + self.pat(p[2][0], ty[1] if p[1] == "Ok" else "err", env)
        return Fn.pat(self, p, ty, env)

    def fmt(self, args, env, newline):
        """text of print!/println!/eprintln!: (binds, term)"""
        if not args:
            return [], coq_list([10] if newline else [])
        f = args[0]
        if f[0] != "str":
            self.err("format string must be a literal")
        pieces = f[2].split("{}")
        if any("{" in p or "}" in p for p in pieces) or len(pieces) != len(args):
            self.err("unsupported format string %r" % f[2])
        bs, parts = [], []
        for i, p in enumerate(pieces):
            if p:
                parts.append(coq_list(str_codes(p, self.name)))
            if i < len(pieces) - 1:
                b, t, ty = self.ex(args[i + 1], env)
                if ty == "u64":
                    t = "(s_u64_to_string %s)" % t
                elif ty not in ("str", "err"):
                    self.err("format argument of type %r" % (ty,))
                bs += b
                parts.append(t)
        if newline:
            parts.append("[10]")
        return bs, "(" + " ++ ".join(parts) + ")" if parts else "[]"

    def arms_res(self, e, env):
        b, t, ty = self.ex(e[1], env)
        arms = e[2]
        if ty[0] != "res" or len(arms) != 2 or sorted(p[1] if p[0] == "pctor" else "?" for p, _ in arms) != ["Err", "Ok"] \
                or any(len(p[2]) != 1 for p, _ in arms):
            self.err("unsupported match (a Result with one `Ok(..)` and one `Err(..)` arm expected)")
        return b, t, ty, arms

    def match_value(self, e, env):
        b, t, ty, arms = self.arms_res(e, env)
        V = [v for v in mutated_in([a for _, a in arms if not diverges(a)], []) if v in env]
        tys = []

        def fin(env2, v):
            if v is None:
                self.err("match arm without a value")
            tys.append(v[1])
            for x in V:
                if env2[x] is None or coq_ty(env2[x]) != coq_ty(env[x]):
                    self.err("variable %s changes its type in a match" % x)
            return "cret %s" % tuple_of([v[0]] + V)
        text = "match %s with\n" % t
        for p, a in arms:
            env_a = dict(env)
            cp = self.pat(p[2][0], ty[1] if p[1] == "Ok" else "err", env_a)
            text += "| %s %s =>\n%s\n" % ("inr" if p[1] == "Ok" else "inl", cp, self.block(a, env_a, fin))
        text += "end"
        if not tys or any(coq_ty(x) != coq_ty(tys[0]) for x in tys):
            self.err("match arms of different types")
        r = self.fresh()
        b.append("%s <~ (%s) ;;\n" % (r if not V else "'" + tuple_of([r] + V), text))
        return b, r, tys[0]

    def match_stmt(self, e, rest, env, fin):
        if e[1][0] == "call" and e[1][1] in ("hash_path",) or (e[1][0] == "var" and isinstance(env.get(e[1][1]), tuple) and env[e[1][1]][0] == "res"):
            b, t, ty, arms = self.arms_res(e, env)
            V = [v for v in mutated_in([a for _, a in arms if not diverges(a)], []) if v in env]
            if not V:
                self.err("match statement without effect on the translated state")
            tys = {}

            def fin_v(env2, v):
                if v is not None:
                    self.err("unexpected value in a statement arm")
                for x in V:
                    if env2[x] is None:
                        self.err("variable %s is not assigned on every path" % x)
                    if x in tys and coq_ty(tys[x]) != coq_ty(env2[x]):
                        self.err("variable %s gets different types" % x)
                    tys.setdefault(x, env2[x])
                return "cret %s" % tuple_of(V)
            text = "match %s with\n" % t
            for p, a in arms:
                env_a = dict(env)
                cp = self.pat(p[2][0], ty[1] if p[1] == "Ok" else "err", env_a)
                text += "| %s %s =>\n%s\n" % ("inr" if p[1] == "Ok" else "inl", cp, self.block(a, env_a, fin_v))
            text += "end"
            for x in V:
                env[x] = tys[x]
            pat = V[0] if len(V) == 1 else "'" + tuple_of(V)
            return "".join(b) + "%s <~ (%s) ;;\n" % (pat, text) + self.block(rest, env, fin)
        return Fn.match_stmt(self, e, rest, env, fin)

    # ---------------- statements ----------------
    def block(self, ss, env, fin):
        if ss:
            s, rest = ss[0], ss[1:]
            if s[0] == "expr":
                e = s[1]
                if e[0] == "macro" and e[1] in MACRO_STREAM and s[2]:
                    b, t = self.fmt(e[2], env, e[1] != "print")
                    w = MACRO_STREAM[e[1]]
                    return "".join(b) + "let %s := io_write_all %s %s in\n" % (w, w, t) + self.block(rest, env, fin)
                if e[0] == "mcall" and e[2] == "fill" and s[2] and len(e[3]) == 1 and e[1][0] == "var" and env.get(e[1][1]) == "reader" \
                        and e[3][0][:2] == ("un", "&mut") and e[3][0][2][0] == "var" and env.get(e[3][0][2][1]) == "arr":
                    r, a = e[1][1], e[3][0][2][1]
                    return "let '(%s, %s) := rd_fill ext_fill %s %s in\n" % (a, r, r, a) + self.block(rest, env, fin)
                if e[0] == "mcall" and e[2] == "clear" and s[2] and not e[3] and e[1][0] == "var" and env.get(e[1][1]) == "str":
                    return "let %s := [] in\n" % e[1][1] + self.block(rest, env, fin)
                if e[0] == "if" and e == self.open_ast:
                    if env.get("path") != "path" or "bufreader" not in env or env["bufreader"] is not None:
                        self.err("checkfile opening idiom in an unexpected context")
                    t = self.fresh()
                    env["bufreader"] = "lines"
                    return "%s <~ %s ;;\nlet bufreader := %s in\n" % (t, self.try_term("(ext_open_checkfile path)"), t) + self.block(rest, env, fin)
                if e[0] == "call" and e[1] == "std::process::exit" and len(e[2]) == 1 and s[2] and not rest and self.ret == ("res", "int"):
                    b, t, ty = self.ex(e[2][0], env)
                    if ty != "int":
                        self.err("exit status must be a literal choice")
                    return "".join(b) + "creturn %s" % self.wrap("(inr %s)" % t)
            if s[0] == "loop":
                return self.loop_stmt(s, rest, env, fin)
            if s[0] == "for" and strip_ref(s[2]) == ("field", ("var", self.args_name), "file_args") and self.args_name not in env:
                return self.for_paths(s, rest, env, fin)
            if s[0] == "while" and not (isinstance(s[1], tuple) and s[1][0] == "let"):
                return self.while_cond(s, rest, env, fin)
        return Fn.block(self, ss, env, fin)

    def loop_stmt(self, s, rest, env, fin):
        if rest:
            self.err("`loop` must be the last statement (it is left by `return` only)")
        body = s[1]
        self.nloops += 1
        fname = "%s_loop%d" % (self.coq, self.nloops)
        S, Rd = self.loop_sig([body], env)
        if any(env[v] is None for v in S):
            self.err("loop state is not initialised")
        call = "%s fuel %s" % (fname, " ".join(Rd + S))
        sty = {v: coq_ty(env[v]) for v in S}

        def back(env2, v):
            if v is not None or any(coq_ty(env2[x]) != sty[x] for x in S):
                self.err("loop body changes the type of its state")
            return call
        btxt = self.block(body, dict(env), back)
        sig = " ".join("(%s : %s)" % (v, coq_ty(env[v])) for v in Rd + S)
        self.aux.append("Fixpoint %s (fuel : nat) %s {struct fuel} : ctl %s %s :=\nmatch fuel with\n| O => OutOfFuel\n| S fuel =>\n%s\nend.\n"
                        % (fname, sig, self.R, self.R, btxt))
        return call

    def for_paths(self, s, rest, env, fin):
        pat, body = s[1], s[3]
        if pat[0] != "pvar" or pat[1] in env:
            self.err("unsupported for pattern")
        x = pat[1]
        if body and body[-1][0] == "expr" and body[-1][1][0] in ("if", "match") and not body[-1][2]:
            body = body[:-1] + [("expr", body[-1][1], True)]        # the last `if` of a loop body is a statement
        self.nloops += 1
        fname = "%s_for%d" % (self.coq, self.nloops)
        S, Rd = self.loop_sig([body], env)
        if not S or any(env[v] is None for v in S):
            self.err("for loop without (initialised) state")
        fl = "fuel " if self.fuel else ""
        rec = "%s %s%s" % (fname, fl, " ".join(Rd + ["iter"] + S))
        sty = {v: coq_ty(env[v]) for v in S}

        def back(env2, v):
            if v is not None or any(coq_ty(env2[y]) != sty[y] for y in S):
                self.err("loop body changes the type of its state")
            return rec
        benv = dict(env)
        benv[x] = "path"
        btxt = self.block(body, benv, back)
        sig = " ".join(["(%s : %s)" % (v, coq_ty(env[v])) for v in Rd] + ["(iter : list (list N))"] + ["(%s : %s)" % (v, sty[v]) for v in S])
        self.aux.append("Fixpoint %s %s%s {struct iter} : ctl %s (%s) :=\nmatch iter with\n| [] => cret %s\n| %s :: iter =>\n%s\nend.\n"
                        % (fname, "(fuel : nat) " if self.fuel else "", sig, self.R, " * ".join(sty[v] for v in S), tuple_of(S), x, btxt))
        pat_s = S[0] if len(S) == 1 else "'" + tuple_of(S)
        return "%s <~ %s %s%s ;;\n" % (pat_s, fname, fl, " ".join(Rd + ["args_file_args"] + S)) + self.block(rest, env, fin)

    def while_cond(self, s, rest, env, fin):
        c, body = s[1], s[2]
        self.nloops += 1
        fname = "%s_while%d" % (self.coq, self.nloops)
        S, Rd = self.loop_sig([c, body], env)
        if not S or any(env[v] is None for v in S):
            self.err("while loop without (initialised) state")
        b, t, ty = self.ex(c, dict(env))
        if b or ty != "bool":
            self.err("unsupported while condition")
        call = "%s fuel %s" % (fname, " ".join(Rd + S))
        sty = {v: coq_ty(env[v]) for v in S}

        def back(env2, v):
            if v is not None or any(coq_ty(env2[x]) != sty[x] for x in S):
                self.err("loop body changes the type of its state")
            return call
        btxt = self.block(body, dict(env), back)
        sig = " ".join("(%s : %s)" % (v, coq_ty(env[v])) for v in Rd + S)
        self.aux.append("Fixpoint %s (fuel : nat) %s {struct fuel} : ctl %s (%s) :=\nif %s then\nmatch fuel with\n| O => OutOfFuel\n| S fuel =>\n%s\nend\nelse cret %s.\n"
                        % (fname, sig, self.R, " * ".join(sty[v] for v in S), t, btxt, tuple_of(S)))
        pat = S[0] if len(S) == 1 else "'" + tuple_of(S)
        return "%s <~ %s ;;\n" % (pat, call) + self.block(rest, env, fin)

    def translate(self):
        env = {n: t for n, t in self.params}
        for w in WORLD:
            if w in env:
                self.err("parameter named %s" % w)
            env[w] = "str"

        def fin(env2, v):
            if v is None:
                if self.ret != "unit":
                    self.err("function body ends without a value")
                return "cret %s" % self.wrap("tt")
            self.check_ret(v[1])
            return "cret %s" % self.wrap(v[0])
        body = self.block(self.body, env, fin)
        sig = "".join(" (%s : %s)" % (n, coq_ty(t)) for n, t in self.params) + "".join(" (%s : list N)" % w for w in WORLD)
        head = "(* fn %s *)\n" % self.name
        return head + "".join(a + "\n" for a in self.aux) + "Definition %s%s%s : res %s :=\ncrun (\n%s).\n" % (
            self.coq, " (fuel : nat)" if self.fuel else "", sig, self.R, body)


def fn1_section_vars(name, seen=()):
    text = FN_TEXT[name]
    used = {v for v, _ in SECTION_VARS if re.search(r"\b%s\b" % v, text)}
    for other in FN_TEXT:
        if other != name and other not in seen and re.search(r"\bgen_%s\b" % other, text):
            used |= fn1_section_vars(other, seen + (name,))
    return used


def gen_b3sum_fns2():
    gen_b3sum_fns()                 # the functions of GenB3sumFns.v are callable from here
    FNW.clear()
    source = G.src(FILE)
    toks = tokenize(source)
    for name in list(FN_TEXT):
        used = fn1_section_vars(name)
        for v in used:
            if v not in dict(SECTION_VARS2):
                raise AnchorError("b3sumfns2: %s needs the parameter %s" % (name, v))
        p, r, fuel, cn = FNS[name]
        FNS[name] = (p, r, fuel, " ".join([cn] + [v for v, _ in SECTION_VARS if v in used]))
    m = re.search(r"\nfn hash_path\(args: &Args, path: &Path\) -> anyhow::Result<blake3::OutputReader> \{\n(.*?\n\})\n", source, re.S)
    if not m or not re.search(HASH_PATH_TAIL, m.group(1)) or len(re.findall(r"set_position", source)) != 1 or "return" in m.group(1):
        raise AnchorError("b3sumfns2: hash_path does not end with finalize_xof / set_position(args.seek()) / Ok(output_reader)")
    for meth, (var, ty) in ARGS_METHODS.items():
        field = {"len": "length"}.get(meth, meth)
        G.find1(r"fn %s\(&self\) -> %s \{\s*self\.inner\.%s\s*\}" % (meth, "bool" if ty == "bool" else "u64", field), source, "Args::" + meth)
    out = ["(* GENERATED by tools/gen_coq_b3sumfns.py (side module of tools/gen_coq.py) from b3sum/src/main.rs. Do not edit. *)\n"
           "From Coq Require Import NArith List Bool.\nFrom V Require Import Base.Res Base.MachInt Base.Str gen.GenConsts gen.GenB3sumFns.\n"
           "Import ListNotations.\nOpen Scope N_scope.\n\nSection B3sumFns2.\n"]
    for v, t in SECTION_VARS2:
        out.append("Variable %s : %s.\n" % (v, t))
    out.append("\n(* fn hash_path: hashing the file is the oracle ext_hash_file; the reader starts at args.seek() (tail of the body pinned textually) *)\n"
               "Definition gen_hash_path (path : list N) : list N + (stream * N) :=\n"
               "  match ext_hash_file path with inl e => inl e | inr s => inr (s, args_seek) end.\n\n")
    for name in ORDER2:
        f = FnW(toks, name)
        text = f.translate()
        FNS[name] = ([t for _, t in f.params], f.ret, f.fuel, f.coq)
        FNW[name] = [(n, n in f.mutrefs) for n, _ in f.params]
        out.append(indent(text) + "\n")
    # main: the closure run by the thread pool
    m = re.search(MAIN_PREFIX, source)
    if not m or len(re.findall(r"\|\|\s*\{", source)) != 1:
        raise AnchorError("b3sumfns2: main does not start as expected")
    hits = [i for i in range(len(toks) - 5) if toks[i:i + 6] == [("id", "thread_pool"), ("op", "."), ("id", "install"), ("op", "("), ("op", "||"), ("op", "{")]]
    if len(hits) != 1:
        raise AnchorError("b3sumfns2: thread_pool.install(|| {..}) found %d times" % len(hits))
    p = Parser(toks, hits[0] + 5, "main")
    body = p.block()
    if [v for _, v in toks[p.p:p.p + 3]] != [")", "}", "#"]:
        raise AnchorError("b3sumfns2: main continues after the closure")
    f = FnW(toks, "main", parsed=([], ("res", "int"), body))
    out.append(indent(f.translate()) + "\n")
    out.append("End B3sumFns2.\n")
    return "".join(out)


def indent(text):
    """cosmetic: indent by nesting of match/end and parentheses"""
    out, depth = [], 0
    for line in text.split("\n"):
        s = line.strip()
        if s.startswith("end") or s.startswith(")"):
            depth = max(0, depth - 1)
        out.append(("  " * depth + s) if s else "")
        opens = len(re.findall(r"\bmatch\b", s)) + s.count("(")
        closes = len(re.findall(r"\bend\b", s)) + s.count(")")
        if s.startswith("end") or s.startswith(")"):
            closes -= 1
        depth = max(0, depth + opens - closes)
    return "\n".join(out)


STRUCTS_TXT = {}
ORDER = ["hex_half_byte", "filepath_to_string", "check_for_invalid_characters", "unescape",
         "split_untagged_check_line", "split_tagged_check_line", "parse_check_line"]


def gen_b3sum_fns():
    toks = tokenize(G.src(FILE))
    STRUCTS.clear()
    STRUCTS_TXT.clear()
    FNS.clear()
    for sname in ("FilepathString", "ParsedCheckLine"):
        fs = find_struct(toks, sname)
        STRUCTS_TXT[sname] = fs
        STRUCTS[sname] = []
    for sname in STRUCTS_TXT:
        STRUCTS[sname] = [(f, rust_type(t, sname)) for f, t in STRUCTS_TXT[sname]]
    out = ["(* GENERATED by tools/gen_coq_b3sumfns.py (side module of tools/gen_coq.py) from b3sum/src/main.rs. Do not edit. *)\n"
           "From Coq Require Import NArith List Bool.\nFrom V Require Import Base.Res Base.MachInt Base.Str gen.GenConsts.\n"
           "Import ListNotations.\nOpen Scope N_scope.\n\n"
           "(* struct fields in declaration order *)\n"]
    for sname, fs in STRUCTS.items():
        out.append("Definition gen_%s : Type := %s.  (* %s *)\n" % (sname, coq_ty(("struct", sname)), ", ".join(f for f, _ in fs)))
    out.append("\nSection B3sumFns.\n")
    for v, t in SECTION_VARS:
        out.append("Variable %s : %s.\n" % (v, t))
    out.append("\n")
    for name in ORDER:
        f = Fn(toks, name)
        text = f.translate()
        FNS[name] = ([t for _, t in f.params], f.ret, f.fuel, f.coq)
        FN_TEXT[name] = text
        out.append(indent(text) + "\n")
    out.append("End B3sumFns.\n")
    return "".join(out)


if __name__ == "__main__":
    try:
        text = gen_b3sum_fns()
    except AnchorError as e:
        print("AnchorError:", e)
        sys.exit(1)
    path = os.path.join(G.OUT, "GenB3sumFns.v")
    print("changed" if G.write_if_changed(path, text) else "unchanged", path)
    try:
        text2 = gen_b3sum_fns2()
    except AnchorError as e:
        print("AnchorError:", e)
        sys.exit(1)
    path = os.path.join(G.OUT, "GenB3sumFns2.v")
    print("changed" if G.write_if_changed(path, text2) else "unchanged", path)
