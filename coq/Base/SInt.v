(* Signed machine integers (i64 / i128) and std::io::Result for code translated statement by statement
   (gen/GenXof.v, Seek::seek).  Values are Z, invariant -2^(W-1) <= v < 2^(W-1); `+ - *` panic outside that range in a
   debug build (the codes of Base/MachInt.v); `x as uW` keeps the low W bits. *)
From Coq Require Import NArith ZArith List.
From V Require Import Base.Res.
Import ListNotations.
Open Scope N_scope.

Definition zfits (W : N) (x : Z) : bool :=
  ((- 2 ^ (Z.of_N W - 1) <=? x) && (x <? 2 ^ (Z.of_N W - 1)))%Z%bool.
Definition zi_max (W : N) : Z := (2 ^ (Z.of_N W - 1) - 1)%Z.
Definition zi_add (W : N) (a b : Z) : res Z := if zfits W (a + b) then Ok (a + b)%Z else Panic 1001.
Definition zi_sub (W : N) (a b : Z) : res Z := if zfits W (a - b) then Ok (a - b)%Z else Panic 1002.
Definition zi_mul (W : N) (a b : Z) : res Z := if zfits W (a * b) then Ok (a * b)%Z else Panic 1003.
(* `x as uW` of a signed x: two's complement truncation *)
Definition zi_as_u (W : N) (x : Z) : N := Z.to_N (x mod 2 ^ Z.of_N W).

(* std::io::Result<A>: Ok(a) / Err(e) with e.kind() = the ErrorKind variant whose name is `kind` (ASCII codes) *)
Inductive io_result (A : Type) : Type :=
| IoOk (a : A)
| IoErr (kind : list N).
Arguments IoOk {A} a.
Arguments IoErr {A} kind.
