(* gen/GenKern2.v (the WHOLE hash4 / hash8 / hash16 functions of the intrinsics back ends, translated statement by
   statement by tools/gen_coq_kern2.py) equals the kernel models of Model/Kernels.v (hashN_gen ..), for all arguments in
   the documented domain; hence (Proofs/KernelsP.v hN_ok) Portable.hash1 on every input.
     A  the `for block` loop (fold_left over seq) = hashN_loop, for any per-block function that equals vcompress
     B  chains of unaligned stores into `out`
     C  the three store shapes (hash4: two 4x4 transposes, interleaved; hash8: one 8x8; hash16: padded 16x16, masked
        256-bit stores)
     D  one theorem per translated function *)
From Coq Require Import NArith ZArith List Bool Arith Lia.
From V Require Import Base.Res Base.Word Base.MachInt gen.GenConsts gen.GenFormulas Model.Portable Model.Kernels
  Model.Intrinsics Model.Intrinsics2 gen.GenCounters gen.GenRounds gen.GenRows gen.GenKern2
  Proofs.ListP Proofs.KernelsP Proofs.CountersP Proofs.RoundsP.
Import ListNotations.
Open Scope N_scope.

(* ------------------------------------------------------------------ *)
(* A. the loop                                                         *)
(* ------------------------------------------------------------------ *)
Section Loop.
  Variables (n : nat) (tmsg : list (list N) -> nat -> list vec)
            (blockf : list vec -> vec -> vec -> N -> list (list N) -> nat -> list vec)
            (P : list vec -> Prop) (inputs : list (list N)) (clo chi : vec) (flags fe : N) (blocks : nat).
  Hypothesis Hflags : W flags.
  Hypothesis Hfe : W fe.
  Hypothesis Hblock : forall h bf block, P h -> W bf -> (block < blocks)%nat ->
    blockf h clo chi bf inputs block = vcompress n h (tmsg inputs (block * 64)%nat) clo chi rs_BLOCK_LEN bf /\
    P (vcompress n h (tmsg inputs (block * 64)%nat) clo chi rs_BLOCK_LEN bf).

  (* the loop body exactly as tools/gen_coq_kern2.py prints it *)
  Definition stepf (st : list vec * N) (block : nat) : list vec * N :=
    let '(h_vecs, block_flags) := st in
    let block_flags := if ((block + 1) =? blocks)%nat then (N.lor block_flags fe) else block_flags in
    let h_vecs := (blockf h_vecs clo chi block_flags inputs block) in
    let block_flags := flags in
    (h_vecs, block_flags).

  Lemma fold_loop : forall todo block bf h, P h -> W bf -> (block + todo <= blocks)%nat ->
    fst (fold_left stepf (seq block todo) (h, bf)) = hashN_loop n tmsg inputs clo chi flags fe todo block blocks bf h /\
    P (hashN_loop n tmsg inputs clo chi flags fe todo block blocks bf h).
  Proof.
    induction todo as [|todo IH]; intros block bf h Ph Wbf Hb.
    - cbn. split; [reflexivity|exact Ph].
    - rewrite hashN_loop_S. cbn [seq fold_left]. unfold stepf at 2. cbv zeta.
      set (bf' := if (block + 1 =? blocks)%nat then N.lor bf fe else bf).
      assert (Wbf' : W bf') by (subst bf'; destruct (block + 1 =? blocks)%nat; [apply W_lor; assumption|exact Wbf]).
      destruct (Hblock h bf' block Ph Wbf' ltac:(lia)) as [E Pc]. rewrite E.
      apply IH; [exact Pc|exact Hflags|lia].
  Qed.
End Loop.

Lemma W_u8 x : x < 256 -> W x.
Proof. unfold W. lia. Qed.

(* vcompress keeps 8 vectors of n lanes *)
Lemma vcompress_wf n tmsg inputs clo chi h bl bf block : (0 < n)%nat -> tmsg_ok n tmsg ->
  (forall j, (j < n)%nat -> (block * 64 + 64 <= length (inp inputs j))%nat) ->
  wf n clo -> wf n chi -> length h = 8%nat -> Forall (wf n) h ->
  length (vcompress n h (tmsg inputs (block * 64)%nat) clo chi bl bf) = 8%nat /\
  Forall (wf n) (vcompress n h (tmsg inputs (block * 64)%nat) clo chi bl bf).
Proof.
  intros Hn Ht Hlen Wlo Whi Lh Fh. destruct (Ht inputs (block * 64)%nat 0%nat Hn Hlen) as (Fm & Lm & _).
  destruct (vcompress_lane n 0 h _ clo chi bl bf Hn Lh Lm Fh Fm Wlo Whi) as (F & L & _). split; assumption.
Qed.

(* ------------------------------------------------------------------ *)
(* B. chains of stores                                                 *)
(* ------------------------------------------------------------------ *)
Lemma store_step (k : nat) (pre rest : list N) (off : nat) (d : list N) : off = length pre -> length d = k ->
  firstn off (pre ++ rest) ++ d ++ skipn (off + k) (pre ++ rest) = (pre ++ d) ++ skipn k rest.
Proof.
  intros -> Ld. rewrite firstn_app, Nat.sub_diag, firstn_O, app_nil_r, firstn_all.
  rewrite skipn_app, skipn_all2 by lia. replace (length pre + k - length pre)%nat with k by lia.
  rewrite <- app_assoc. reflexivity.
Qed.
Lemma storeu128_step pre rest off v : off = length pre -> length (to8 v) = 16%nat ->
  mm_storeu_si128 (pre ++ rest) off v = (pre ++ to8 v) ++ skipn 16 rest.
Proof. intros. unfold mm_storeu_si128. apply store_step; assumption. Qed.
Lemma storeu256_step pre rest off v : off = length pre -> length (to8 v) = 32%nat ->
  mm256_storeu_si256 (pre ++ rest) off v = (pre ++ to8 v) ++ skipn 32 rest.
Proof. intros. unfold mm256_storeu_si256. apply store_step; assumption. Qed.
Lemma store32_step pre rest off x : off = length pre ->
  store32 (pre ++ rest) off x = (pre ++ bytes_of_word x) ++ skipn 4 rest.
Proof. intros. unfold store32. apply store_step; [assumption|reflexivity]. Qed.

(* ------------------------------------------------------------------ *)
(* C. the store shapes                                                 *)
(* ------------------------------------------------------------------ *)
Ltac explode_vecs n :=
  repeat match goal with H : wf n ?v |- _ => unfold wf in H; lanes_of v n H; clear H end.
Ltac skip_tail Lo :=
  rewrite ?skipn_skipn; rewrite skipn_all2 by (rewrite Lo; cbn; lia); rewrite app_nil_r.

(* hash4: transpose_vecs(h[0..4]); transpose_vecs(h[4..8]); storeu(h[0], out + 0); storeu(h[4], out + 16); storeu(h[1], ..) *)
Lemma store4_chain h out : length h = 8%nat -> Forall (wf 4) h -> length out = 128%nat ->
  let a := transpose_vecs_128 0 [vk h 0; vk h 1; vk h 2; vk h 3] in
  let b := transpose_vecs_128 0 [vk h 4; vk h 5; vk h 6; vk h 7] in
  mm_storeu_si128 (mm_storeu_si128 (mm_storeu_si128 (mm_storeu_si128 (mm_storeu_si128 (mm_storeu_si128
    (mm_storeu_si128 (mm_storeu_si128 out 0 (vk a 0)) 16 (vk b 0)) 32 (vk a 1)) 48 (vk b 1)) 64 (vk a 2)) 80 (vk b 2))
    96 (vk a 3)) 112 (vk b 3) = concat (store4 h).
Proof.
  intros L F Lo. lanes_of h 8%nat L. forall_inv. explode_vecs 4%nat. intros a b. subst a b.
  change out with ([] ++ out) at 1.
  do 8 (rewrite storeu128_step by reflexivity).
  skip_tail Lo. reflexivity.
Qed.

(* hash8: transpose_vecs(h); storeu(h[k], out + 32 k) *)
Lemma store8_chain h out : length h = 8%nat -> Forall (wf 8) h -> length out = 256%nat ->
  let a := transpose_vecs_256 0 h in
  mm256_storeu_si256 (mm256_storeu_si256 (mm256_storeu_si256 (mm256_storeu_si256 (mm256_storeu_si256 (mm256_storeu_si256
    (mm256_storeu_si256 (mm256_storeu_si256 out 0 (vk a 0)) 32 (vk a 1)) 64 (vk a 2)) 96 (vk a 3)) 128 (vk a 4)) 160 (vk a 5))
    192 (vk a 6)) 224 (vk a 7) = concat (store8 h).
Proof.
  intros L F Lo. lanes_of h 8%nat L. forall_inv. explode_vecs 8%nat. intros a. subst a.
  change out with ([] ++ out) at 1.
  do 8 (rewrite storeu256_step by reflexivity).
  skip_tail Lo. reflexivity.
Qed.

(* _mm256_mask_storeu_epi32 with the full mask (__mmask8)-1 = 255 is a 32-byte store *)
Lemma mask_store_step pre rest off (a : vec) : off = length pre -> length a = 8%nat ->
  mm256_mask_storeu_epi32 (pre ++ rest) off 255 a = (pre ++ to8 a) ++ skipn 32 rest.
Proof.
  intros Ho La. lanes_of a 8%nat La. unfold mm256_mask_storeu_epi32. cbn [seq fold_left].
  repeat match goal with |- context [Z.testbit 255 (Z.of_nat ?k)] => change (Z.testbit 255 (Z.of_nat k)) with true end.
  cbv beta iota. cbn [nth].
  do 8 (rewrite store32_step by (subst off; rewrite ?app_length; cbn [length bytes_of_word]; lia)).
  rewrite !skipn_skipn. rewrite <- !app_assoc. reflexivity.
Qed.

(* hash16: pad with eight zero vectors, one 16x16 transpose, the low 256 bits of each of the 16 vectors *)
Lemma store16_chain h out : length h = 8%nat -> Forall (wf 16) h -> length out = 512%nat ->
  let z := vset1 16 0 in
  let p := transpose_vecs_512 0 [vk h 0; vk h 1; vk h 2; vk h 3; vk h 4; vk h 5; vk h 6; vk h 7; z; z; z; z; z; z; z; z] in
  let c k := mm512_castsi512_si256 (vk p k) in
  mm256_mask_storeu_epi32 (mm256_mask_storeu_epi32 (mm256_mask_storeu_epi32 (mm256_mask_storeu_epi32
  (mm256_mask_storeu_epi32 (mm256_mask_storeu_epi32 (mm256_mask_storeu_epi32 (mm256_mask_storeu_epi32
  (mm256_mask_storeu_epi32 (mm256_mask_storeu_epi32 (mm256_mask_storeu_epi32 (mm256_mask_storeu_epi32
  (mm256_mask_storeu_epi32 (mm256_mask_storeu_epi32 (mm256_mask_storeu_epi32 (mm256_mask_storeu_epi32 out
    0 255 (c 0%nat)) 32 255 (c 1%nat)) 64 255 (c 2%nat)) 96 255 (c 3%nat)) 128 255 (c 4%nat)) 160 255 (c 5%nat))
    192 255 (c 6%nat)) 224 255 (c 7%nat)) 256 255 (c 8%nat)) 288 255 (c 9%nat)) 320 255 (c 10%nat)) 352 255 (c 11%nat))
    384 255 (c 12%nat)) 416 255 (c 13%nat)) 448 255 (c 14%nat)) 480 255 (c 15%nat) = concat (store16 h).
Proof.
  intros L F Lo. lanes_of h 8%nat L. forall_inv. explode_vecs 16%nat. intros z p c. subst z p c. cbv beta.
  change out with ([] ++ out) at 1.
  do 16 (rewrite mask_store_step by reflexivity).
  skip_tail Lo. reflexivity.
Qed.

(* ------------------------------------------------------------------ *)
(* D. the translated functions                                         *)
(* ------------------------------------------------------------------ *)
Definition Pwf (n : nat) (h : list vec) : Prop := length h = 8%nat /\ Forall (wf n) h.

Lemma init_Pwf n (k0 k1 k2 k3 k4 k5 k6 k7 : N) :
  Pwf n [vset1 n k0; vset1 n k1; vset1 n k2; vset1 n k3; vset1 n k4; vset1 n k5; vset1 n k6; vset1 n k7].
Proof. split; [reflexivity|]. repeat (apply Forall_cons; [apply vset1_length|]). constructor. Qed.

(* the per-block obligation of fold_loop for the back ends whose block theorem is unconditional *)
Lemma block_wf n tmsg blockf inputs clo chi blocks : (0 < n)%nat -> tmsg_ok n tmsg ->
  (forall h clo chi bf inputs block, length h = 8%nat -> bf < 4294967296 ->
     blockf h clo chi bf inputs block = vcompress n h (tmsg inputs (block * 64)%nat) clo chi rs_BLOCK_LEN bf) ->
  (forall j, (j < n)%nat -> length (inp inputs j) = (blocks * 64)%nat) -> wf n clo -> wf n chi ->
  forall h bf block, Pwf n h -> W bf -> (block < blocks)%nat ->
    blockf h clo chi bf inputs block = vcompress n h (tmsg inputs (block * 64)%nat) clo chi rs_BLOCK_LEN bf /\
    Pwf n (vcompress n h (tmsg inputs (block * 64)%nat) clo chi rs_BLOCK_LEN bf).
Proof.
  intros Hn Ht Hb Hlen Wlo Whi h bf block [L F] Wbf Hbl. split; [apply Hb; assumption|].
  apply vcompress_wf; try assumption. intros j Hj. rewrite (Hlen j Hj). nia.
Qed.

(* the last step.  `apply` unifies up to conversion (the offsets `(2 * 4) * 4` against 32, the store helpers against
   the intrinsics); on a changed source that unification can run for a very long time, hence the time limit: a store
   chain that is not the lemma's fails within 30 seconds instead of diverging *)
Ltac finish_store lem out L F Lo := f_equal; timeout 30 (apply lem; assumption).

Theorem k2_rs_sse41_hash4_ok inputs blocks key counter incr flags fs fe out :
  length key = 8%nat -> Forall W key ->
  (forall j, (j < 4)%nat -> length (inp inputs j) = (blocks * 64)%nat) ->
  counter + 4 <= 2 ^ 64 -> flags < 256 -> fs < 256 -> fe < 256 -> length out = 128%nat ->
  k2_rs_sse41_hash4 inputs blocks key counter incr flags fs fe out =
  (outs <- hash4_rs inputs blocks key counter incr flags fs fe ;; Ok (concat outs)).
Proof.
  intros Lk Wk Hlen Hc Hf Hfs Hfe Lo.
  unfold k2_rs_sse41_hash4, hash4_rs, hashN_gen. cbv zeta.
  rewrite rs_sse41_load_counters_model.
  destruct (load_counters_rs_ok 4 counter incr Hc) as (clo & chi & -> & Wlo & Whi & _). cbn [bind].
  lanes_of key 8%nat Lk. forall_inv. cbn [nth map seq].
  rewrite !rs_sse41_set1_ok by assumption.
  match goal with
  | |- context [fold_left ?f (seq 0 blocks) (?h0, ?bf0)] =>
      destruct (fold_loop 4 transpose_msg_vecs4 rs_sse41_hash4_block (Pwf 4) inputs clo chi flags fe blocks (W_u8 _ Hf) (W_u8 _ Hfe)
                  (block_wf 4 transpose_msg_vecs4 rs_sse41_hash4_block inputs clo chi blocks ltac:(lia) tmsg_ok_4
                     (fun h clo chi bf inputs block => rs_sse41_hash4_block_ok h clo chi bf inputs block) Hlen Wlo Whi)
                  blocks 0%nat bf0 h0 (init_Pwf 4 _ _ _ _ _ _ _ _)
                  ltac:(apply W_lor; apply W_u8; assumption) ltac:(lia)) as [E [L F]];
      change (fold_left f (seq 0 blocks) (h0, bf0)) with
        (fold_left (stepf rs_sse41_hash4_block inputs clo chi flags fe blocks) (seq 0 blocks) (h0, bf0))
  end.
  destruct (fold_left _ _ _) as [h' bf']. cbn [fst] in E. subst h'. cbn [bind].
  unfold k2_rs_sse41_storeu. rewrite !rs_sse41_transpose_vecs_ok.
  finish_store store4_chain out L F Lo.
Qed.

(* the common script: fold -> hashN_loop, then the stores *)
Ltac loop_to_model n tmsg tmsgok blockf blockok inputs clo chi flags fe blocks Hlen Wlo Whi Hf Hfs Hfe :=
  match goal with
  | |- context [fold_left ?f (seq 0 blocks) (?h0, ?bf0)] =>
      let E := fresh "E" in let L := fresh "L" in let F := fresh "F" in
      destruct (fold_loop n tmsg blockf (Pwf n) inputs clo chi flags fe blocks (W_u8 _ Hf) (W_u8 _ Hfe)
                  (block_wf n tmsg blockf inputs clo chi blocks ltac:(lia) tmsgok blockok Hlen Wlo Whi)
                  blocks 0%nat bf0 h0 (init_Pwf n _ _ _ _ _ _ _ _)
                  ltac:(apply W_lor; apply W_u8; assumption) ltac:(lia)) as [E [L F]];
      change (fold_left f (seq 0 blocks) (h0, bf0)) with
        (fold_left (stepf blockf inputs clo chi flags fe blocks) (seq 0 blocks) (h0, bf0));
      let h' := fresh "h'" in let bf' := fresh "bf'" in
      destruct (fold_left _ _ _) as [h' bf']; cbn [fst] in E; subst h'; cbn [bind]
  end.
(* C: the pair returned by the translated load_counters is the model's *)
Ltac c_counters M lcok Hc clo chi Wlo Whi :=
  let Em := fresh "Em" in
  destruct (lcok Hc) as (clo & chi & Em & Wlo & Whi & _); rewrite Em in M;
  match type of M with Ok ?x = Ok ?y => let M' := fresh "M'" in assert (M' : x = y) by congruence; rewrite M', Em end; cbn [bind].

Theorem k2_rs_sse2_hash4_ok inputs blocks key counter incr flags fs fe out :
  length key = 8%nat -> Forall W key ->
  (forall j, (j < 4)%nat -> length (inp inputs j) = (blocks * 64)%nat) ->
  counter + 4 <= 2 ^ 64 -> flags < 256 -> fs < 256 -> fe < 256 -> length out = 128%nat ->
  k2_rs_sse2_hash4 inputs blocks key counter incr flags fs fe out =
  (outs <- hash4_rs inputs blocks key counter incr flags fs fe ;; Ok (concat outs)).
Proof.
  intros Lk Wk Hlen Hc Hf Hfs Hfe Lo.
  unfold k2_rs_sse2_hash4, hash4_rs, hashN_gen. cbv zeta.
  rewrite rs_sse2_load_counters_model.
  destruct (load_counters_rs_ok 4 counter incr Hc) as (clo & chi & -> & Wlo & Whi & _). cbn [bind].
  lanes_of key 8%nat Lk. forall_inv. cbn [nth map seq].
  rewrite !rs_sse2_set1_ok by assumption.
  loop_to_model 4%nat transpose_msg_vecs4 tmsg_ok_4 rs_sse2_hash4_block
    (fun h clo chi bf inputs block => rs_sse2_hash4_block_ok h clo chi bf inputs block)
    inputs clo chi flags fe blocks Hlen Wlo Whi Hf Hfs Hfe.
  unfold k2_rs_sse2_storeu. rewrite !rs_sse2_transpose_vecs_ok.
  finish_store store4_chain out L F Lo.
Qed.

Theorem k2_rs_avx2_hash8_ok inputs blocks key counter incr flags fs fe out :
  length key = 8%nat -> Forall W key ->
  (forall j, (j < 8)%nat -> length (inp inputs j) = (blocks * 64)%nat) ->
  counter + 8 <= 2 ^ 64 -> flags < 256 -> fs < 256 -> fe < 256 -> length out = 256%nat ->
  k2_rs_avx2_hash8 inputs blocks key counter incr flags fs fe out =
  (outs <- hash8_rs inputs blocks key counter incr flags fs fe ;; Ok (concat outs)).
Proof.
  intros Lk Wk Hlen Hc Hf Hfs Hfe Lo.
  unfold k2_rs_avx2_hash8, hash8_rs, hashN_gen. cbv zeta.
  rewrite rs_avx2_load_counters_model.
  destruct (load_counters_rs_ok 8 counter incr Hc) as (clo & chi & -> & Wlo & Whi & _). cbn [bind].
  lanes_of key 8%nat Lk. forall_inv. cbn [nth map seq].
  rewrite !rs_avx2_set1_ok by assumption.
  loop_to_model 8%nat transpose_msg_vecs8 tmsg_ok_8 rs_avx2_hash8_block
    (fun h clo chi bf inputs block => rs_avx2_hash8_block_ok h clo chi bf inputs block)
    inputs clo chi flags fe blocks Hlen Wlo Whi Hf Hfs Hfe.
  unfold k2_rs_avx2_storeu. rewrite !rs_avx2_transpose_vecs_ok.
  finish_store store8_chain out L F Lo.
Qed.

Theorem k2_c_avx512_blake3_hash4_avx512_ok inputs blocks key counter incr flags fs fe out :
  length key = 8%nat -> Forall W key ->
  (forall j, (j < 4)%nat -> length (inp inputs j) = (blocks * 64)%nat) ->
  counter + 4 <= 2 ^ 64 -> flags < 256 -> fs < 256 -> fe < 256 -> length out = 128%nat ->
  Ok (k2_c_avx512_blake3_hash4_avx512 inputs blocks key counter incr flags fs fe out) =
  (outs <- hash4_avx512 inputs blocks key counter incr flags fs fe ;; Ok (concat outs)).
Proof.
  intros Lk Wk Hlen Hc Hf Hfs Hfe Lo.
  unfold k2_c_avx512_blake3_hash4_avx512, hash4_avx512, hashN_gen. cbv zeta.
  pose proof (c_avx512_load_counters4_model counter incr ltac:(lia)) as M.
  c_counters M (load_counters_64_ok 4 counter incr) Hc clo chi Wlo Whi.
  lanes_of key 8%nat Lk. forall_inv. cbn [nth map seq].
  rewrite !c_avx512_set1_128_ok by assumption.
  loop_to_model 4%nat transpose_msg_vecs4 tmsg_ok_4 c_avx512_blake3_hash4_avx512_block
    (fun h clo chi bf inputs block => c_avx512_blake3_hash4_avx512_block_ok h clo chi bf inputs block)
    inputs clo chi flags fe blocks Hlen Wlo Whi Hf Hfs Hfe.
  unfold k2_c_avx512_storeu_128. rewrite !c_avx512_transpose_vecs_128_ok.
  finish_store store4_chain out L F Lo.
Qed.

Theorem k2_c_avx512_blake3_hash8_avx512_ok inputs blocks key counter incr flags fs fe out :
  length key = 8%nat -> Forall W key ->
  (forall j, (j < 8)%nat -> length (inp inputs j) = (blocks * 64)%nat) ->
  counter + 8 <= 2 ^ 64 -> flags < 256 -> fs < 256 -> fe < 256 -> length out = 256%nat ->
  Ok (k2_c_avx512_blake3_hash8_avx512 inputs blocks key counter incr flags fs fe out) =
  (outs <- hash8_avx512 inputs blocks key counter incr flags fs fe ;; Ok (concat outs)).
Proof.
  intros Lk Wk Hlen Hc Hf Hfs Hfe Lo.
  unfold k2_c_avx512_blake3_hash8_avx512, hash8_avx512, hashN_gen. cbv zeta.
  pose proof (c_avx512_load_counters8_model counter incr ltac:(lia)) as M.
  c_counters M (load_counters_64_ok 8 counter incr) Hc clo chi Wlo Whi.
  lanes_of key 8%nat Lk. forall_inv. cbn [nth map seq].
  rewrite !c_avx512_set1_256_ok by assumption.
  loop_to_model 8%nat transpose_msg_vecs8 tmsg_ok_8 c_avx512_blake3_hash8_avx512_block
    (fun h clo chi bf inputs block => c_avx512_blake3_hash8_avx512_block_ok h clo chi bf inputs block)
    inputs clo chi flags fe blocks Hlen Wlo Whi Hf Hfs Hfe.
  unfold k2_c_avx512_storeu_256. rewrite !c_avx512_transpose_vecs_256_ok.
  finish_store store8_chain out L F Lo.
Qed.

Theorem k2_c_avx512_blake3_hash16_avx512_ok inputs blocks key counter incr flags fs fe out :
  length key = 8%nat -> Forall W key ->
  (forall j, (j < 16)%nat -> length (inp inputs j) = (blocks * 64)%nat) ->
  counter + 16 <= 2 ^ 64 -> flags < 256 -> fs < 256 -> fe < 256 -> length out = 512%nat ->
  Ok (k2_c_avx512_blake3_hash16_avx512 inputs blocks key counter incr flags fs fe out) =
  (outs <- hash16_avx512 inputs blocks key counter incr flags fs fe ;; Ok (concat outs)).
Proof.
  intros Lk Wk Hlen Hc Hf Hfs Hfe Lo.
  unfold k2_c_avx512_blake3_hash16_avx512, hash16_avx512, hashN_gen. cbv zeta.
  pose proof (c_avx512_load_counters16_model counter incr) as M.
  c_counters M (load_counters_andnot_ok 16 ltac:(cbn; lia) counter incr) Hc clo chi Wlo Whi.
  lanes_of key 8%nat Lk. forall_inv. cbn [nth map seq].
  rewrite !c_avx512_set1_512_ok by assumption.
  loop_to_model 16%nat transpose_msg_vecs16 tmsg_ok_16 c_avx512_blake3_hash16_avx512_block
    (fun h clo chi bf inputs block => c_avx512_blake3_hash16_avx512_block_ok h clo chi bf inputs block)
    inputs clo chi flags fe blocks Hlen Wlo Whi Hf Hfs Hfe.
  rewrite c_avx512_transpose_vecs_512_ok.
  change (cast_u 8 (Z.opp 1%Z)) with 255%Z. change (cast_u 32 0%Z) with (Z.of_N 0).
  rewrite (c_avx512_set1_512_ok 0) by reflexivity.
  finish_store store16_chain out L F Lo.
Qed.

(* hence: the translated functions compute Portable.hash1 of every input (hm_spec), by Proofs/KernelsP.v hN_ok *)
Theorem k2_rs_sse2_hash4_spec : forall inputs blocks key counter incr flags fs fe out,
  length inputs = 4%nat -> length key = 8%nat -> Forall W key ->
  (forall i, In i inputs -> length i = (blocks * 64)%nat) ->
  counter + 4 <= 2 ^ 64 -> flags < 256 -> fs < 256 -> fe < 256 -> length out = 128%nat ->
  k2_rs_sse2_hash4 inputs blocks key counter incr flags fs fe out =
  Ok (concat (hm_spec inputs key counter incr flags fs fe)).
Proof.
  intros inputs blocks key counter incr flags fs fe out Li Lk Wk Hlen Hc Hf Hfs Hfe Lo.
  rewrite k2_rs_sse2_hash4_ok; try assumption; [|intros j Hj; apply Hlen; unfold inp; apply nth_In; lia].
  rewrite (hash4_rs_ok inputs blocks key counter incr flags fs fe Li Lk Hlen ltac:(cbn; lia)). reflexivity.
Qed.
Theorem k2_rs_sse41_hash4_spec : forall inputs blocks key counter incr flags fs fe out,
  length inputs = 4%nat -> length key = 8%nat -> Forall W key ->
  (forall i, In i inputs -> length i = (blocks * 64)%nat) ->
  counter + 4 <= 2 ^ 64 -> flags < 256 -> fs < 256 -> fe < 256 -> length out = 128%nat ->
  k2_rs_sse41_hash4 inputs blocks key counter incr flags fs fe out =
  Ok (concat (hm_spec inputs key counter incr flags fs fe)).
Proof.
  intros inputs blocks key counter incr flags fs fe out Li Lk Wk Hlen Hc Hf Hfs Hfe Lo.
  rewrite k2_rs_sse41_hash4_ok; try assumption; [|intros j Hj; apply Hlen; unfold inp; apply nth_In; lia].
  rewrite (hash4_rs_ok inputs blocks key counter incr flags fs fe Li Lk Hlen ltac:(cbn; lia)). reflexivity.
Qed.
Theorem k2_rs_avx2_hash8_spec : forall inputs blocks key counter incr flags fs fe out,
  length inputs = 8%nat -> length key = 8%nat -> Forall W key ->
  (forall i, In i inputs -> length i = (blocks * 64)%nat) ->
  counter + 8 <= 2 ^ 64 -> flags < 256 -> fs < 256 -> fe < 256 -> length out = 256%nat ->
  k2_rs_avx2_hash8 inputs blocks key counter incr flags fs fe out =
  Ok (concat (hm_spec inputs key counter incr flags fs fe)).
Proof.
  intros inputs blocks key counter incr flags fs fe out Li Lk Wk Hlen Hc Hf Hfs Hfe Lo.
  rewrite k2_rs_avx2_hash8_ok; try assumption; [|intros j Hj; apply Hlen; unfold inp; apply nth_In; lia].
  rewrite (hash8_rs_ok inputs blocks key counter incr flags fs fe Li Lk Hlen ltac:(cbn; lia)). reflexivity.
Qed.
Theorem k2_c_avx512_blake3_hash4_avx512_spec : forall inputs blocks key counter incr flags fs fe out,
  length inputs = 4%nat -> length key = 8%nat -> Forall W key ->
  (forall i, In i inputs -> length i = (blocks * 64)%nat) ->
  counter + 4 <= 2 ^ 64 -> flags < 256 -> fs < 256 -> fe < 256 -> length out = 128%nat ->
  Ok (k2_c_avx512_blake3_hash4_avx512 inputs blocks key counter incr flags fs fe out) =
  Ok (concat (hm_spec inputs key counter incr flags fs fe)).
Proof.
  intros inputs blocks key counter incr flags fs fe out Li Lk Wk Hlen Hc Hf Hfs Hfe Lo.
  rewrite k2_c_avx512_blake3_hash4_avx512_ok; try assumption; [|intros j Hj; apply Hlen; unfold inp; apply nth_In; lia].
  rewrite (hash4_avx512_ok inputs blocks key counter incr flags fs fe Li Lk Hlen ltac:(cbn; lia)). reflexivity.
Qed.
Theorem k2_c_avx512_blake3_hash8_avx512_spec : forall inputs blocks key counter incr flags fs fe out,
  length inputs = 8%nat -> length key = 8%nat -> Forall W key ->
  (forall i, In i inputs -> length i = (blocks * 64)%nat) ->
  counter + 8 <= 2 ^ 64 -> flags < 256 -> fs < 256 -> fe < 256 -> length out = 256%nat ->
  Ok (k2_c_avx512_blake3_hash8_avx512 inputs blocks key counter incr flags fs fe out) =
  Ok (concat (hm_spec inputs key counter incr flags fs fe)).
Proof.
  intros inputs blocks key counter incr flags fs fe out Li Lk Wk Hlen Hc Hf Hfs Hfe Lo.
  rewrite k2_c_avx512_blake3_hash8_avx512_ok; try assumption; [|intros j Hj; apply Hlen; unfold inp; apply nth_In; lia].
  rewrite (hash8_avx512_ok inputs blocks key counter incr flags fs fe Li Lk Hlen ltac:(cbn; lia)). reflexivity.
Qed.
Theorem k2_c_avx512_blake3_hash16_avx512_spec : forall inputs blocks key counter incr flags fs fe out,
  length inputs = 16%nat -> length key = 8%nat -> Forall W key ->
  (forall i, In i inputs -> length i = (blocks * 64)%nat) ->
  counter + 16 <= 2 ^ 64 -> flags < 256 -> fs < 256 -> fe < 256 -> length out = 512%nat ->
  Ok (k2_c_avx512_blake3_hash16_avx512 inputs blocks key counter incr flags fs fe out) =
  Ok (concat (hm_spec inputs key counter incr flags fs fe)).
Proof.
  intros inputs blocks key counter incr flags fs fe out Li Lk Wk Hlen Hc Hf Hfs Hfe Lo.
  rewrite k2_c_avx512_blake3_hash16_avx512_ok; try assumption; [|intros j Hj; apply Hlen; unfold inp; apply nth_In; lia].
  rewrite (hash16_avx512_ok inputs blocks key counter incr flags fs fe Li Lk Hlen ltac:(cbn; lia)). reflexivity.
Qed.
