(* Model side of the C13 / C12 correspondence: the b3probe / b3sum case lines evaluated on the
   extracted Model/B3sum.v.  Strings cross the boundary as hex of their UTF-8 bytes ("-" = empty);
   decoding of (valid) UTF-8 case input is done here in OCaml, independently of the model's lossy
   decoder, which is itself under test through the `fts` cases. *)
open Model
open Bytespec

let unhex_arg s = if s = "-" then Bytes.empty else unhex s
let hexs (l : n list) = if l = [] then "-" else hex_of_nlist l

(* strict decoder for input that Utf8check.valid accepted *)
let scalars_of_utf8 (s : string) : n list =
  let n = String.length s in
  let b i = Char.code s.[i] in
  let rec go i acc =
    if i >= n then List.rev acc
    else
      let c = b i in
      if c < 0x80 then go (i + 1) (n_of_int c :: acc)
      else if c < 0xE0 then go (i + 2) (n_of_int (((c land 0x1F) lsl 6) lor (b (i + 1) land 0x3F)) :: acc)
      else if c < 0xF0 then
        go (i + 3) (n_of_int (((c land 0x0F) lsl 12) lor ((b (i + 1) land 0x3F) lsl 6) lor (b (i + 2) land 0x3F)) :: acc)
      else
        go (i + 4) (n_of_int (((c land 0x07) lsl 18) lor ((b (i + 1) land 0x3F) lsl 12)
                              lor ((b (i + 2) land 0x3F) lsl 6) lor (b (i + 3) land 0x3F)) :: acc)
  in
  go 0 []

(* Some scalars, or None when the bytes are not UTF-8 *)
let text_arg (h : string) : n list option =
  let s = Bytes.to_string (unhex_arg h) in
  if Utf8check.valid s then Some (scalars_of_utf8 s) else None

let utf8_hex (s : n list) : string = hexs (utf8_encode s)

let cfg_of (s : string) : b3cfg =
  { tagged_first = (s.[0] = '1'); hex_unwrap_is_error = (s.[1] = '1') }

let err_name = function
  | EEmptyLine -> "empty_line" | EFormat -> "format" | EHashLength -> "hash_length" | EHex -> "hex"
  | EEscape -> "escape" | EEmptyPath -> "empty_path" | ENul -> "nul" | EReplacement -> "replacement"

let hex_of_nlist_n (d : n list) : n list = hex_of_bytes d

let b01 b = if b then "1" else "0"

let parse_tokens cfg (line : n list) : string list =
  match parse_check_line cfg line with
  | Panic _ -> ["PANIC"]
  | OutOfFuel -> ["OUTOFFUEL"]
  | Ok (PErr e) -> ["err"; err_name e]
  | Ok (POk (path, hash, esc, fstr)) -> ["ok"; utf8_hex path; hex_of_nlist hash; b01 esc; utf8_hex fstr]

let is_repl c = int_of_n c = 0xFFFD

let drop_last l = match List.rev l with [] -> [] | _ :: t -> List.rev t

(* ---- C12: the binary-level cases ------------------------------------------------------------ *)
let z_of_n v = BigZ.of_string (string_of_n v)

(* the stream of a file in a mode, tabulated on [seek, seek + count) by the specification's XOF *)
let stream_of (m : mode) (content : n list) (seek : n) (count : int) : n -> n =
  let tab = Array.of_list (b3_xof_mode m content seek (nat_of_int count)) in
  let zs = z_of_n seek in
  fun i ->
    let k = BigZ.to_int (BigZ.sub (z_of_n i) zs) in
    if k < 0 || k >= Array.length tab then failwith "stream read outside the tabulated window" else tab.(k)

let split2 c s = match String.index_opt s c with
  | None -> (s, "")
  | Some i -> (String.sub s 0 i, String.sub s (i + 1) (String.length s - i - 1))

let rc_failed (f : n) = if int_of_n f > 0 then "1" else "0"

(* b3hash <hash|keyed|derive=<ctx hex>> <stdin hex|-> <flag,flag,..|none> <name hex>:<content|!> ...
   -> <exit status> <stdout hex> *)
let b3hash mode keyin flags entries =
  let fl = if flags = "none" then [] else String.split_on_char ',' flags in
  let has f = List.mem f fl in
  let num k d = List.fold_left (fun acc f -> let (a, b) = split2 '=' f in if a = k then n_of_string b else acc) d fl in
  let len = num "len" (n_of_int 32) and seek = num "seek" (n_of_int 0) in
  let oflags = { f_raw = has "raw"; f_no_names = has "nonames"; f_tag = has "tag"; f_length = len; f_seek = seek } in
  (* Args::parse: --raw takes one file; the key is read from stdin (these two bail with status 1) *)
  let m = (match split2 '=' mode with
      | ("hash", _) -> Some Hash
      | ("keyed", _) ->
        (match read_key_from_stdin (nlist_of_bytes (unhex_arg keyin)) with KeyOk k -> Some (KeyedHash k) | _ -> None)
      | ("derive", c) -> Some (DeriveKeyMaterial (b3_hash_mode DeriveKeyContext (nlist_of_bytes (unhex_arg c))))
      | _ -> failwith "mode") in
  if has "raw" && List.length entries > 1 then ["1"; "-"]
  else match m with
    | None -> ["1"; "-"]
    | Some m ->
      let window = 64 * ((int_of_n len + 63) / 64) in
      let inputs = List.map (fun e ->
          let (name, content) = split2 ':' e in
          let path = nlist_of_bytes (unhex_arg name) in
          if content = "!" then (path, None) else (path, Some (stream_of m (parse content) seek window))) entries in
      (match run_hash oflags inputs (n_of_int 0) with
       | Ok (out, failed) -> [rc_failed failed; if has "raw" then hexs out else utf8_hex out]
       | Panic _ -> ["101"; "-"]
       | OutOfFuel -> ["OUTOFFUEL"])

type item = { name : n list; content : string; after : string }

(* b3check <cfg> <tag> <seek> <quiet> <nommap> <lf|crlf|nolast> items...   items: f:<name hex>:<content>:<after>
   (after = keep | stale=<content> | missing | dir), l:<hex of a literal text line>, u (a line that is not UTF-8),
   `|` next checkfile, X a checkfile that does not exist.   -> <exit status> <files_failed|-> <stdout hex> *)
let b3check cfg tag seek quiet term items =
  let cfg = cfg_of cfg and tag = (tag = "1") and seek = n_of_string seek and quiet = (quiet = "1") in
  let files = ref [] in
  let checkfiles = ref [] and cur = ref [] in
  let close () = checkfiles := Some (List.rev !cur) :: !checkfiles; cur := [] in
  List.iter (fun it ->
      if it = "|" then close ()
      else if it = "X" then checkfiles := None :: !checkfiles
      else match String.split_on_char ':' it with
        | ["f"; name; content; after] ->
          let nm = nlist_of_bytes (unhex_arg name) in
          files := { name = nm; content; after } :: !files;
          let d = b3_xof_mode Hash (parse content) seek (nat_of_int 32) in
          cur := `Text (print_body tag nm (hex_of_nlist_n d)) :: !cur
        | ["l"; h] -> (match text_arg h with Some s -> cur := `Text s :: !cur | None -> failwith "l: not UTF-8")
        | ["u"; _] -> cur := `Bad :: !cur
        | _ -> failwith ("item " ^ it)) items;
  close ();
  let cfs = List.rev_map (function
      | None -> None
      | Some lines ->
        let n = List.length lines in
        (* read_line never delivers a zero-byte line: an empty last line without terminator is end of file *)
        Some (List.filter (fun l -> l <> LText []) @@ List.mapi (fun i l -> match l with
            | `Bad -> LBadUtf8
            | `Text s ->
              let t = (match term with
                  | "crlf" -> [n_of_int 13; n_of_int 10]
                  | "nolast" when i = n - 1 -> []
                  | _ -> [n_of_int 10]) in
              LText (s @ t)) lines)) !checkfiles in
  let msg s = nlist_of_bytes (Bytes.of_string s) in
  let fs (path : n list) =
    let pb = utf8_encode path in
    match List.find_opt (fun f -> f.name = pb) !files with
    | None -> Inl (msg "No such file or directory (os error 2)")
    | Some f ->
      (match split2 '=' f.after with
       | ("keep", _) -> Inr (stream_of Hash (parse f.content) seek 32)
       | ("stale", c) -> Inr (stream_of Hash (parse c) seek 32)
       | ("missing", _) -> Inl (msg "No such file or directory (os error 2)")
       | ("dir", _) -> Inl (msg "Is a directory (os error 21)")
       | _ -> failwith "after") in
  let (out, e) = b3sum_check cfg fs seek quiet cfs in
  let failed = (match e with ExitCode f when int_of_n f > 0 -> string_of_n f | _ -> "-") in
  [string_of_n (exit_status e); failed; utf8_hex out]

let run_case (toks : string list) : string list =
  match toks with
  | ["parse"; cfg; h] ->
    (match text_arg h with None -> ["nonutf8"] | Some s -> parse_tokens (cfg_of cfg) s)
  | ["fts"; h] ->
    let (s, esc) = filepath_to_string (nlist_of_bytes (unhex_arg h)) in
    [utf8_hex s; b01 esc; b01 (List.exists is_repl s)]
  | ["unescape"; h] ->
    (match text_arg h with
     | None -> ["nonutf8"]
     | Some s -> (match unescape s with Some r -> ["ok"; utf8_hex r] | None -> ["err"; "escape"]))
  | ["inv"; h] ->
    (match text_arg h with
     | None -> ["nonutf8"]
     | Some s -> (match check_for_invalid_characters s with None -> ["ok"] | Some e -> ["err"; err_name e]))
  | ["half"; c] ->
    let v = int_of_string c in
    if v >= 0xD800 && v <= 0xDFFF || v > 0x10FFFF then ["nochar"]
    else (match hex_half_byte (n_of_int v) with Some r -> ["ok"; string_of_n r] | None -> ["err"; "hex"])
  | ["print"; form; p; h] ->
    let hex = nlist_of_bytes (Bytes.of_string h) in
    [utf8_hex (print_line (form = "tag") (nlist_of_bytes (unhex_arg p)) hex)]
  | ["rt"; cfg; form; term; p; h] ->
    let hex = nlist_of_bytes (Bytes.of_string h) in
    let body = print_body (form = "tag") (nlist_of_bytes (unhex_arg p)) hex in
    let line = body @ (match term with "lf" -> [n_of_int 10] | "crlf" -> [n_of_int 13; n_of_int 10] | _ -> []) in
    utf8_hex line :: parse_tokens (cfg_of cfg) line
  | "b3hash" :: mode :: keyin :: flags :: entries -> b3hash mode keyin flags entries
  | "b3check" :: cfg :: tag :: seek :: quiet :: _nommap :: term :: items -> b3check cfg tag seek quiet term items
  | _ -> failwith "bad b3sum case"
