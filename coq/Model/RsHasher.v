(* Model of `Hasher` (src/lib.rs) and of the hazmat entry points (src/hazmat.rs).
   The CV stack is a list with the TOP of the ArrayVec at the head. *)
From Coq Require Import NArith List Bool.
From V Require Import Base.Res Base.Word Base.MachInt gen.GenConsts gen.GenFormulas
  Spec.Tree Model.Portable Model.Platform Model.RsChunk Model.RsWide.
Import ListNotations.
Open Scope N_scope.

Record hasher := mkHasher {
  h_key : list N;           (* CVWords *)
  h_cs : chunk_state;
  h_init : N;               (* initial_chunk_counter *)
  h_stack : list (list N)   (* cv_stack, top first *) }.

Definition h_flags (h : hasher) : N := cs_flags (h_cs h).

Definition new_internal (key : list N) (flags : N) : hasher :=
  mkHasher key (cs_new key 0 flags) 0 [].

(* Hasher::reset *)
Definition hasher_reset (h : hasher) : hasher :=
  mkHasher (h_key h) (cs_new (h_key h) 0 (h_flags h)) 0 [].

Definition parent_cv (p : platform) (h : hasher) (lcv rcv : list N) : list N :=
  out_chaining_value p (parent_output (h_key h) (h_flags h) lcv rcv).

(* the `while self.cv_stack.len() > post_merge_stack_len` loop *)
Fixpoint merge_loop (fuel : nat) (p : platform) (h : hasher) (stack : list (list N)) (target : N)
  : res (list (list N)) :=
  if N.of_nat (length stack) <=? target then Ok stack
  else match fuel with
       | O => OutOfFuel
       | S fuel' =>
           match stack with
           | rcv :: lcv :: rest =>
               (* push after two pops cannot exceed the capacity *)
               merge_loop fuel' p h (parent_cv p h lcv rcv :: rest) target
           | _ => Panic 50                      (* pop().unwrap() on an empty stack *)
           end
       end.

Definition merge_cv_stack (p : platform) (h : hasher) (chunk_counter : N) : res hasher :=
  target <- rs_post_merge_len chunk_counter (h_init h) ;;
  st <- merge_loop 64 p h (h_stack h) target ;;
  Ok (mkHasher (h_key h) (h_cs h) (h_init h) st).

Definition push_cv (p : platform) (h : hasher) (new_cv : list N) (chunk_counter : N) : res hasher :=
  h <- merge_cv_stack p h chunk_counter ;;
  assert! (N.of_nat (length (h_stack h)) <? rs_cv_stack_cap) code 51 ;;     (* ArrayVec::push *)
  Ok (mkHasher (h_key h) (h_cs h) (h_init h) (new_cv :: h_stack h)).

Definition hasher_count (h : hasher) : res N :=
  c <- cs_count (h_cs h) ;;
  rs_count (cs_ctr (h_cs h)) (h_init h) c.

Definition with_cs (h : hasher) (cs : chunk_state) : hasher :=
  mkHasher (h_key h) cs (h_init h) (h_stack h).

(* `while (subtree_len - 1) as u64 & count_so_far != 0 { subtree_len /= 2 }` *)
Fixpoint shrink_loop (fuel : nat) (subtree_len count_so_far : N) : res N :=
  c <- rs_shrink_cond subtree_len count_so_far ;;
  if c then match fuel with
            | O => OutOfFuel
            | S fuel' => shrink_loop fuel' (subtree_len / 2) count_so_far
            end
  else Ok subtree_len.

(* the `while input.len() > CHUNK_LEN` loop of update_with_join *)
Fixpoint update_loop (fuel : nat) (p : platform) (h : hasher) (input : list N) : res (hasher * list N) :=
  if nlen input <=? rs_CHUNK_LEN then Ok (h, input)
  else match fuel with
  | O => OutOfFuel
  | S fuel' =>
      let cs := h_cs h in
      c <- cs_count cs ;;
      assert! (c =? 0) code 1401 ;;
      subtree_len <- rs_largest_power_of_two_leq (nlen input) ;;
      count_so_far <- rs_count_so_far (cs_ctr cs) ;;
      subtree_len <- shrink_loop 64 subtree_len count_so_far ;;
      subtree_chunks <- rs_subtree_chunks subtree_len ;;
      assert! (subtree_len <=? nlen input) code 52 ;;               (* &input[..subtree_len] *)
      h <- (if subtree_len <=? rs_CHUNK_LEN then
              assert! (subtree_len =? rs_CHUNK_LEN) code 1402 ;;
              cs1 <- cs_update p (cs_new (h_key h) (cs_ctr cs) (cs_flags cs)) (firstn (N.to_nat subtree_len) input) ;;
              push_cv p h (out_chaining_value p (cs_output cs1)) (cs_ctr cs)
            else
              cv_pair <- compress_subtree_to_parent_node p (firstn (N.to_nat subtree_len) input) (h_key h)
                           (cs_ctr cs) (cs_flags cs) ;;
              assert! (64 <=? nlen cv_pair) code 54 ;;                 (* array_ref!(cv_pair, 32, 32) *)
              h <- push_cv p h (firstn 32 cv_pair) (cs_ctr cs) ;;
              rc <- rs_right_cv_counter (cs_ctr cs) subtree_chunks ;;
              push_cv p h (firstn 32 (skipn 32 cv_pair)) rc) ;;
      ctr' <- mi_add 64 (cs_ctr cs) subtree_chunks ;;
      let cs' := mkCS (cs_cv cs) ctr' (cs_buf cs) (cs_buf_len cs) (cs_blocks cs) (cs_flags cs) in
      update_loop fuel' p (with_cs h cs') (skipn (N.to_nat subtree_len) input)
  end.

(* second half of update_with_join: the subtree loop, then the remaining (at most one chunk of)
   input goes to the chunk state followed by the extra merge *)
Definition hasher_update_tail (p : platform) (h : hasher) (input : list N) : res hasher :=
  '(h, input) <- update_loop (S (Nat.div (length input) 1024)) p h input ;;
  assert! (nlen input <=? rs_CHUNK_LEN) code 1403 ;;
  if negb (nlen input =? 0) then
    cs <- cs_update p (h_cs h) input ;;
    merge_cv_stack p (with_cs h cs) (cs_ctr cs)
  else Ok h.

(* Hasher::update (update_with_join with the serial join; the scripted / rayon
   joins compute the same function, see Model/Concurrency.v) *)
Definition hasher_update (p : platform) (h : hasher) (input : list N) : res hasher :=
  input_offset <- rs_input_offset (h_init h) ;;
  msl <- rs_max_subtree_len input_offset ;;
  _ <- (match msl with
        | Some max =>
            cnt <- hasher_count h ;;
            remaining <- mi_sub 64 max cnt ;;
            assert! (nlen input <=? remaining) code 21 ;;
            Ok tt
        | None => Ok tt
        end) ;;
  c <- cs_count (h_cs h) ;;
  r <- (if 0 <? c then
          want <- mi_sub 64 rs_CHUNK_LEN c ;;
          let take := N.min want (nlen input) in
          cs <- cs_update p (h_cs h) (firstn (N.to_nat take) input) ;;
          let input := skipn (N.to_nat take) input in
          if negb (nlen input =? 0) then
            c' <- cs_count cs ;;
            assert! (c' =? rs_CHUNK_LEN) code 1400 ;;
            let chunk_cv := out_chaining_value p (cs_output cs) in
            h <- push_cv p (with_cs h cs) chunk_cv (cs_ctr cs) ;;
            ctr' <- mi_add 64 (cs_ctr cs) 1 ;;
            Ok (with_cs h (cs_new (h_key h) ctr' (cs_flags cs)), input, false)
          else Ok (with_cs h cs, input, true)
        else Ok (h, input, false)) ;;
  let '(h, input, done) := r in
  if done then Ok h else hasher_update_tail p h input.

(* fold the remaining stack entries (top first) into the output *)
Fixpoint final_fold (p : platform) (h : hasher) (o : output) (stack : list (list N)) : output :=
  match stack with
  | [] => o
  | cv :: rest => final_fold p h (parent_output (h_key h) (h_flags h) cv (out_chaining_value p o)) rest
  end.

Definition final_output (p : platform) (h : hasher) : res output :=
  match h_stack h with
  | [] =>
      assert! (cs_ctr (h_cs h) =? h_init h) code 1404 ;;
      Ok (cs_output (h_cs h))
  | _ =>
      c <- cs_count (h_cs h) ;;
      if 0 <? c then
        target <- rs_post_merge_len (cs_ctr (h_cs h)) (h_init h) ;;
        assert! (N.of_nat (length (h_stack h)) =? target) code 1405 ;;
        Ok (final_fold p h (cs_output (h_cs h)) (h_stack h))
      else
        match h_stack h with
        | rcv :: lcv :: rest =>
            Ok (final_fold p h (parent_output (h_key h) (h_flags h) lcv rcv) rest)
        | _ => Panic 53                                         (* cv_stack[len - 2] *)
        end
  end.

Definition hasher_finalize (p : platform) (h : hasher) : res (list N) :=
  assert! (h_init h =? 0) code 22 ;;
  o <- final_output p h ;;
  out_root_hash p o.

Definition hasher_finalize_output (p : platform) (h : hasher) : res output :=
  assert! (h_init h =? 0) code 22 ;;
  final_output p h.

(* ---- hazmat ----------------------------------------------------------------------- *)
Definition set_input_offset (h : hasher) (offset : N) : res hasher :=
  cnt <- hasher_count h ;;
  assert! (cnt =? 0) code 23 ;;
  assert! (offset mod rs_CHUNK_LEN =? 0) code 24 ;;
  let counter := offset / rs_CHUNK_LEN in
  let cs := h_cs h in
  Ok (mkHasher (h_key h) (mkCS (cs_cv cs) counter (cs_buf cs) (cs_buf_len cs) (cs_blocks cs) (cs_flags cs))
               counter (h_stack h)).

Definition finalize_non_root (p : platform) (h : hasher) : res (list N) :=
  cnt <- hasher_count h ;;
  assert! (negb (cnt =? 0)) code 25 ;;
  o <- final_output p h ;;
  Ok (out_chaining_value p o).

Definition merge_subtrees_inner (key : list N) (flags : N) (lcv rcv : list N) : output :=
  parent_output key flags lcv rcv.
Definition merge_subtrees_non_root (p : platform) (key : list N) (flags : N) (lcv rcv : list N) : list N :=
  out_chaining_value p (merge_subtrees_inner key flags lcv rcv).
Definition merge_subtrees_root (p : platform) (key : list N) (flags : N) (lcv rcv : list N) : res (list N) :=
  out_root_hash p (merge_subtrees_inner key flags lcv rcv).
