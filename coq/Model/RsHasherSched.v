(* C08: Hasher::update_with_join::<J> (update_rayon, update_mmap_rayon, the scripted join of the
   verification hook) under an arbitrary schedule.  The only use of J in update_with_join is the
   type argument of compress_subtree_to_parent_node::<J> inside the subtree loop, so a schedule
   for one update call is a family of schedule trees, one per loop iteration (`sch k` is used by
   the iteration that runs with k units of loop fuel left).  Everything else is Model/RsHasher.v
   hasher_update verbatim. *)
From Coq Require Import NArith List Bool.
From V Require Import Base.Res Base.Word Base.MachInt gen.GenConsts gen.GenFormulas
  Spec.Tree Model.Portable Model.Platform Model.RsChunk Model.RsWide Model.RsHasher Model.RsWideSched.
Import ListNotations.
Open Scope N_scope.

Fixpoint update_loop_sched (fuel : nat) (p : platform) (sch : nat -> sched) (h : hasher) (input : list N)
  : res (hasher * list N) :=
  if nlen input <=? rs_CHUNK_LEN then Ok (h, input)
  else match fuel with
  | O => OutOfFuel
  | S fuel' =>
      let cs := h_cs h in
      c <- cs_count cs ;;
      assert! (c =? 0) code 1401 ;;
      subtree_len <- rs_largest_power_of_two_leq (nlen input) ;;
      count_so_far <- rs_count_so_far (cs_ctr cs) ;;
      subtree_len <- shrink_loop 64 subtree_len count_so_far ;;
      subtree_chunks <- rs_subtree_chunks subtree_len ;;
      assert! (subtree_len <=? nlen input) code 52 ;;
      h <- (if subtree_len <=? rs_CHUNK_LEN then
              assert! (subtree_len =? rs_CHUNK_LEN) code 1402 ;;
              cs1 <- cs_update p (cs_new (h_key h) (cs_ctr cs) (cs_flags cs)) (firstn (N.to_nat subtree_len) input) ;;
              push_cv p h (out_chaining_value p (cs_output cs1)) (cs_ctr cs)
            else
              cv_pair <- compress_subtree_to_parent_node_sched p (sch fuel') (firstn (N.to_nat subtree_len) input) (h_key h)
                           (cs_ctr cs) (cs_flags cs) ;;
              assert! (64 <=? nlen cv_pair) code 54 ;;
              h <- push_cv p h (firstn 32 cv_pair) (cs_ctr cs) ;;
              rc <- rs_right_cv_counter (cs_ctr cs) subtree_chunks ;;
              push_cv p h (firstn 32 (skipn 32 cv_pair)) rc) ;;
      ctr' <- mi_add 64 (cs_ctr cs) subtree_chunks ;;
      let cs' := mkCS (cs_cv cs) ctr' (cs_buf cs) (cs_buf_len cs) (cs_blocks cs) (cs_flags cs) in
      update_loop_sched fuel' p sch (with_cs h cs') (skipn (N.to_nat subtree_len) input)
  end.

Definition hasher_update_tail_sched (p : platform) (sch : nat -> sched) (h : hasher) (input : list N) : res hasher :=
  '(h, input) <- update_loop_sched (S (Nat.div (length input) 1024)) p sch h input ;;
  assert! (nlen input <=? rs_CHUNK_LEN) code 1403 ;;
  if negb (nlen input =? 0) then
    cs <- cs_update p (h_cs h) input ;;
    merge_cv_stack p (with_cs h cs) (cs_ctr cs)
  else Ok h.

Definition hasher_update_sched (p : platform) (sch : nat -> sched) (h : hasher) (input : list N) : res hasher :=
  input_offset <- rs_input_offset (h_init h) ;;
  msl <- rs_max_subtree_len input_offset ;;
  _ <- (match msl with
        | Some max =>
            cnt <- hasher_count h ;;
            remaining <- mi_sub 64 max cnt ;;
            assert! (nlen input <=? remaining) code 21 ;;
            Ok tt
        | None => Ok tt
        end) ;;
  c <- cs_count (h_cs h) ;;
  r <- (if 0 <? c then
          want <- mi_sub 64 rs_CHUNK_LEN c ;;
          let take := N.min want (nlen input) in
          cs <- cs_update p (h_cs h) (firstn (N.to_nat take) input) ;;
          let input := skipn (N.to_nat take) input in
          if negb (nlen input =? 0) then
            c' <- cs_count cs ;;
            assert! (c' =? rs_CHUNK_LEN) code 1400 ;;
            let chunk_cv := out_chaining_value p (cs_output cs) in
            h <- push_cv p (with_cs h cs) chunk_cv (cs_ctr cs) ;;
            ctr' <- mi_add 64 (cs_ctr cs) 1 ;;
            Ok (with_cs h (cs_new (h_key h) ctr' (cs_flags cs)), input, false)
          else Ok (with_cs h cs, input, true)
        else Ok (h, input, false)) ;;
  let '(h, input, done) := r in
  if done then Ok h else hasher_update_tail_sched p sch h input.

(* a history of updates, each under its own schedule *)
Fixpoint updates_sched (p : platform) (h : hasher) (pieces : list ((nat -> sched) * list N)) : res hasher :=
  match pieces with
  | [] => Ok h
  | (sch, x) :: tl => h' <- hasher_update_sched p sch h x ;; updates_sched p h' tl
  end.

Fixpoint updates_serial (p : platform) (h : hasher) (pieces : list (list N)) : res hasher :=
  match pieces with
  | [] => Ok h
  | x :: tl => h' <- hasher_update p h x ;; updates_serial p h' tl
  end.
