(* The small expression-bodied functions of src/lib.rs as TRANSLATED from the source text (gen/GenLibSmall.v:
   Output::chaining_value / root_hash / root_output_block, ChunkState::new / start_flag, parent_node_output,
   Hasher::new_internal, platform::le_bytes_from_words_32) equal the hand-written definitions of Model/RsChunk.v and the specification's
   parent_output the models use, for all arguments.  The source keeps the platform inside Output / ChunkState, the
   models pass it separately: the records are related by out_of_lib / cs_of_lib plus the platform field. *)
From Coq Require Import NArith List Bool Lia Arith.
From V Require Import Base.Res Base.Word Base.MachInt Base.Arr gen.GenConsts gen.GenLibSmall
  Spec.Compress Spec.Tree Model.Portable Model.Platform Model.RsChunk Model.RsHasher Proofs.KernelsP.
Import ListNotations.
Open Scope N_scope.

Tactic Notation "destruct_list" ident(l) integer(n) :=
  do n (destruct l as [|? l]; [discriminate|]); destruct l; [|discriminate].

Definition out_of_lib (o : lib_Output) : output :=
  mkOutput (lib_Output_input_chaining_value o) (lib_Output_block o) (lib_Output_block_len o)
           (lib_Output_counter o) (lib_Output_flags o).

Definition cs_of_lib (c : lib_ChunkState) : chunk_state :=
  mkCS (lib_ChunkState_cv c) (lib_ChunkState_chunk_counter c) (lib_ChunkState_buf c) (lib_ChunkState_buf_len c)
       (lib_ChunkState_blocks_compressed c) (lib_ChunkState_flags c).

Lemma lib_le_bytes_from_words_32_eq words : length words = 8%nat ->
  lib_le_bytes_from_words_32 words = bytes_of_words words.
Proof. intros H. destruct_list words 8. reflexivity. Qed.

Lemma p_cip_length p cv block bl ctr fl : PlatformOK p -> length cv = 8%nat ->
  length (p_compress_in_place p cv block bl ctr fl) = 8%nat.
Proof. intros OK H. rewrite (ok_cip p OK). apply compress_in_place_length. exact H. Qed.

(* ---------- Output ---------- *)
Lemma lib_Output_chaining_value_eq o :
  PlatformOK (lib_Output_platform o) -> length (lib_Output_input_chaining_value o) = 8%nat ->
  lib_Output_chaining_value o = out_chaining_value (lib_Output_platform o) (out_of_lib o).
Proof.
  intros OK H. unfold lib_Output_chaining_value, out_chaining_value, out_of_lib.
  cbn [o_cv o_block o_blen o_ctr o_flags]. cbv zeta.
  apply lib_le_bytes_from_words_32_eq. apply p_cip_length; assumption.
Qed.

(* the model's assert 1300 is the source's debug_assert_eq!(self.counter, 0) *)
Lemma lib_Output_root_hash_eq o :
  PlatformOK (lib_Output_platform o) -> length (lib_Output_input_chaining_value o) = 8%nat ->
  out_root_hash (lib_Output_platform o) (out_of_lib o) =
  if lib_Output_root_hash_debug_assert o then Ok (lib_Output_root_hash o) else Panic 1300.
Proof.
  intros OK H. unfold out_root_hash, lib_Output_root_hash_debug_assert, lib_Output_root_hash, out_of_lib.
  cbn [o_cv o_block o_blen o_ctr o_flags]. cbv zeta.
  destruct (lib_Output_counter o =? 0); [|reflexivity]. cbn [check bind].
  apply (f_equal (@Ok (list N))). symmetry.
  apply lib_le_bytes_from_words_32_eq. apply p_cip_length; assumption.
Qed.

Lemma lib_Output_root_output_block_eq o :
  lib_Output_root_output_block o = out_root_output_block (lib_Output_platform o) (out_of_lib o).
Proof. reflexivity. Qed.

(* ---------- ChunkState ---------- *)
Lemma lib_ChunkState_new_eq key ctr fl p :
  cs_of_lib (lib_ChunkState_new key ctr fl p) = cs_new key ctr fl /\
  lib_ChunkState_platform (lib_ChunkState_new key ctr fl p) = p.
Proof. split; reflexivity. Qed.

Lemma lib_ChunkState_start_flag_eq c :
  lib_ChunkState_start_flag c = Ok (cs_start_flag (cs_of_lib c)).
Proof.
  unfold lib_ChunkState_start_flag, cs_start_flag, cs_of_lib, mcmp. cbn [cs_blocks bind].
  destruct (lib_ChunkState_blocks_compressed c =? 0); reflexivity.
Qed.

(* ---------- parent_node_output: block = left ++ right, BLOCK_LEN, counter 0, flags | PARENT ---------- *)
Lemma lib_parent_node_output_eq l r key fl p : length l = 32%nat -> length r = 32%nat ->
  out_of_lib (lib_parent_node_output l r key fl p) = parent_output key fl l r /\
  lib_Output_platform (lib_parent_node_output l r key fl p) = p.
Proof. intros Hl Hr. destruct_list l 32. destruct_list r 32. split; reflexivity. Qed.

(* ---------- Hasher::new_internal (the result of Platform::detect() is a parameter) ---------- *)
(* the translation keeps an ArrayVec in index order (Base/ArrayVec.v: the last pushed element last), the model keeps
   the stack with its top at the head: hence `rev` *)
Definition hasher_of_lib (h : lib_Hasher) : hasher :=
  mkHasher (lib_Hasher_key h) (cs_of_lib (lib_Hasher_chunk_state h)) (lib_Hasher_initial_chunk_counter h)
           (rev (lib_Hasher_cv_stack h)).

Lemma lib_Hasher_new_internal_eq key fl p :
  hasher_of_lib (lib_Hasher_new_internal key fl p) = new_internal key fl /\
  lib_ChunkState_platform (lib_Hasher_chunk_state (lib_Hasher_new_internal key fl p)) = p.
Proof. split; reflexivity. Qed.
