"""History generators for the Hasher / OutputReader machine (case language of harness/rs)."""
from props.common import Rng, bspec, modes, CHUNK

PLATFORMS = ["portable", "sse2", "sse41", "avx2", "avx512"]
DEG = {"portable": 1, "sse2": 4, "sse41": 4, "avx2": 8, "avx512": 16}


def upd_size(rng, plat, maxchunks=40):
    """update sizes: zero-length, sub-block, block-straddling, chunk-straddling, exact power-of-two
    subtrees, SIMD-degree multiples, general"""
    k = rng.below(100)
    d = DEG.get(plat, 16)
    if k < 6:
        return 0
    if k < 22:
        return rng.range(1, 64)
    if k < 32:
        return rng.choice([63, 64, 65, 127, 128, 129])
    if k < 44:
        return rng.choice([1023, 1024, 1025, 2047, 2048, 2049, 960, 1088])
    if k < 58:
        return CHUNK * (1 << rng.range(0, 5)) + rng.choice([0, 0, 0, 1, -1])
    if k < 70:
        return CHUNK * d * rng.range(1, 3) + rng.choice([0, 0, 1, -1, 64])
    if k < 85:
        return rng.range(1, CHUNK * 4)
    return rng.range(1, CHUNK * maxchunks)


def history(rng, plat, nops, with_clone=True, with_reset=False, query_rate=0.3, maxchunks=40, budget=160 * CHUNK,
            write_rate=0.3):
    """ops over hasher instances; keeps the total absorbed bytes under `budget` (model cost)."""
    ops = []
    ninst = 1
    spent = 0
    for _ in range(nops):
        i = rng.below(ninst)
        if rng.chance(query_rate):
            q = rng.below(10)
            if q < 4:
                ops.append(f"f:{i}")
            elif q < 7:
                ops.append(f"c:{i}")
            else:
                ops.append(f"x:{i}:{rng.choice([0, 1, 31, 32, 33, 63, 64, 65, 100, 131, 200])}")
            continue
        if with_clone and rng.chance(0.08) and ninst < 4:
            ops.append(f"cl:{i}")
            ninst += 1
            continue
        if with_reset and rng.chance(0.08):
            ops.append(f"r:{i}")
            continue
        n = upd_size(rng, plat, maxchunks)
        if spent + n > budget:
            n = rng.range(0, 200)
        spent += n
        # the absorbing call is `update` or `Write::write` (same model function; the adapters must not differ)
        ops.append(f"{'w' if rng.chance(write_rate) else 'u'}:{i}:{bspec(rng, n)}")
    # always end by observing every instance
    for i in range(ninst):
        ops += [f"c:{i}", f"f:{i}"]
    return ops


def splits2(total, cuts):
    out, prev = [], 0
    for c in cuts + [total]:
        out.append(c - prev)
        prev = c
    return out
