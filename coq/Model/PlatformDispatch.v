(* Hand-written side of the platform dispatch layer, to which the translated text (gen/GenPlatform.v) is proved
   equal in Proofs/GenPlatformP.v:
   1. the builds: which cfg flags build.rs sets for the three x86-64 flavours of the crate (build.rs itself is not
      translated) and which macros the C library's x86-64 build defines;
   2. the dispatch tables written down by hand, parametric in the kernels (which kernel each variant / each CPU
      feature level gets);
   3. which kernel models of Model/Kernels.v stand for the functions of which source file, and the platform record
      of every (flavour, variant). *)
From Coq Require Import String.
From Coq Require Import NArith List Bool.
From V Require Import Base.Res Base.Word Base.MachInt gen.GenConsts Model.Portable Model.Platform Model.Kernels
  Model.DispatchSyntax gen.GenPlatform.
Import ListNotations.
Open Scope N_scope.

(* ---- 1. builds ---------------------------------------------------------------------------------------- *)
Inductive flavour := FlDefault | FlIntrinsics | FlPure.

(* build.rs on x86-64 unix with a C compiler that knows AVX-512:
   default            build_sse2_sse41_avx2_assembly + build_avx512_assembly
   prefer-intrinsics  build_sse2_sse41_avx2_rust_intrinsics + build_avx512_c_intrinsics
   pure               build_sse2_sse41_avx2_rust_intrinsics, no AVX-512 code *)
Definition cfgs_of (f : flavour) : string -> bool :=
  env_of ("target_arch=x86_64" :: "unix" :: "feature=std" ::
          match f with
          | FlDefault => ["blake3_sse2_ffi"; "blake3_sse41_ffi"; "blake3_avx2_ffi"; "blake3_avx512_ffi"]
          | FlIntrinsics => ["blake3_sse2_rust"; "blake3_sse41_rust"; "blake3_avx2_rust"; "blake3_avx512_ffi"]
          | FlPure => ["blake3_sse2_rust"; "blake3_sse41_rust"; "blake3_avx2_rust"]
          end)%string.
Definition has_avx512 (f : flavour) : bool := match f with FlPure => false | _ => true end.

(* the C library on x86-64 unix: blake3_impl.h defines IS_X86; nothing is disabled *)
Definition defs_c_x86 : string -> bool := env_of ["IS_X86"%string].

(* ---- 2. the dispatch tables by hand -------------------------------------------------------------------- *)
Section Tables.
  Context {A : Type}.
  (* compress_in_place / compress_xof: AVX2 has no single-block kernel of its own and uses SSE4.1's *)
  Definition rs_x86_compress_table (avx512 : bool) (k_portable k_sse2 k_sse41 k_avx512 : A) (v : variant) : option A :=
    match v with
    | Portable => Some k_portable
    | SSE2 => Some k_sse2
    | SSE41 | AVX2 => Some k_sse41
    | AVX512 => if avx512 then Some k_avx512 else None
    | NEON | WASM32_SIMD => None
    end.
  Definition rs_x86_hash_many_table (avx512 : bool) (k_portable k_sse2 k_sse41 k_avx2 k_avx512 : A) (v : variant) : option A :=
    match v with
    | Portable => Some k_portable
    | SSE2 => Some k_sse2
    | SSE41 => Some k_sse41
    | AVX2 => Some k_avx2
    | AVX512 => if avx512 then Some k_avx512 else None
    | NEON | WASM32_SIMD => None
    end.
  Definition has_bit (features mask : N) : bool := negb (N.land features mask =? 0).
  Definition has_all (features mask : N) : bool := N.land features mask =? mask.
  (* blake3_compress_in_place / blake3_compress_xof *)
  Definition c_x86_compress_table (k_avx512 k_sse41 k_sse2 k_portable : A) (features : N) : A :=
    if has_bit features src_c_feature_AVX512VL then k_avx512
    else if has_bit features src_c_feature_SSE41 then k_sse41
    else if has_bit features src_c_feature_SSE2 then k_sse2
    else k_portable.
  (* blake3_hash_many, blake3_simd_degree *)
  Definition c_x86_wide_table (k_avx512 k_avx2 k_sse41 k_sse2 k_portable : A) (features : N) : A :=
    if has_all features (N.lor src_c_feature_AVX512F src_c_feature_AVX512VL) then k_avx512
    else if has_bit features src_c_feature_AVX2 then k_avx2
    else if has_bit features src_c_feature_SSE41 then k_sse41
    else if has_bit features src_c_feature_SSE2 then k_sse2
    else k_portable.
End Tables.

(* Platform::detect on x86 without the testing features: the highest level whose CPU features are all present *)
Definition avail (avx512 : bool) (cpu : string -> bool) (v : variant) : bool :=
  match v with
  | Portable => true
  | SSE2 => cpu "sse2"%string
  | SSE41 => cpu "sse4.1"%string
  | AVX2 => cpu "avx2"%string
  | AVX512 => avx512 && (cpu "avx512f"%string && cpu "avx512vl"%string)
  | NEON | WASM32_SIMD => false
  end.
Definition level (v : variant) : N :=
  match v with Portable => 0 | SSE2 => 1 | SSE41 => 2 | AVX2 => 3 | AVX512 => 4 | NEON | WASM32_SIMD => 0 end.
Definition detect_x86 (avx512 : bool) (cpu : string -> bool) : variant :=
  if avail avx512 cpu AVX512 then AVX512 else if avail avx512 cpu AVX2 then AVX2
  else if avail avx512 cpu SSE41 then SSE41 else if avail avx512 cpu SSE2 then SSE2 else Portable.

(* ---- 3. kernels of the source files, platform records --------------------------------------------------- *)
Definition xof_many_fn := list N -> list N -> N -> N -> N -> N -> res (list N).
Record file_kernels := mkFK {
  fk_cip : cip_fn; fk_cx : cip_fn; fk_hm : hash_many_fn; fk_xm : xof_many_fn }.

Definition hm_c4 := guard_hm cap_ok (ffi_hash_many (hash_many_c4 (load_counters_cmp 4) compress_in_place_rows)).
Definition hm_c8 := guard_hm cap_ok (ffi_hash_many (hash_many_c8 (load_counters_cmp 8) (load_counters_cmp 4) compress_in_place_rows)).
Definition hm_c16 := guard_hm cap_ok (ffi_hash_many (hash_many_c16 compress_in_place_rows)).
Definition hm_rs4 := guard_hm no_extra (hash_many_rs4 (load_counters_rs 4) compress_in_place_rows).
Definition hm_rs8 := guard_hm no_extra (hash_many_rs8 (load_counters_rs 8) (load_counters_rs 4) compress_in_place_rows).
Definition no_xm : xof_many_fn := portable_xof_many.   (* files without an xof_many: never called *)

Definition portable_kernels : file_kernels := mkFK compress_in_place compress_xof hash_many no_xm.
(* the kernel models of Model/Kernels.v (with the guards of its section 9) by source file; sse2 and sse41 share
   their models (Kernels.v: rust_sse2.rs differs only in the emulated blend; the C / assembly cascades coincide) *)
Definition kernels_of_file (f : string) : file_kernels :=
  if (f =? "rust_sse2.rs")%string then mkFK cip_rows cx_rows hm_rs4 no_xm
  else if (f =? "rust_sse41.rs")%string then mkFK cip_rows cx_rows hm_rs4 no_xm
  else if (f =? "rust_avx2.rs")%string then mkFK cip_rows cx_rows hm_rs8 no_xm
  else if (f =? "ffi_sse2.rs")%string then mkFK cip_rows cx_rows hm_c4 no_xm
  else if (f =? "ffi_sse41.rs")%string then mkFK cip_rows cx_rows hm_c4 no_xm
  else if (f =? "ffi_avx2.rs")%string then mkFK cip_rows cx_rows hm_c8 no_xm
  else if (f =? "ffi_avx512.rs")%string then mkFK cip_rows cx_rows hm_c16 (guard_xm (xof_many_avx512 compress_xof_rows))
  else portable_kernels.

(* `crate::m` in a build: the file the module table of lib.rs selects (portable kernels when the module does not
   exist in the build: its arms do not exist either) *)
Definition kernels_of_mod (cfgs : string -> bool) (m : string) : file_kernels :=
  match src_mod_files cfgs m with
  | [f] => kernels_of_file f
  | _ => portable_kernels
  end.

(* the translated Platform methods with their callees instantiated by these kernels *)
Section Src.
  Variable cfgs : string -> bool.
  Let K := kernels_of_mod cfgs.
  Definition src_cip (v : variant) :=
    src_platform_compress_in_place cfgs (fk_cip (K "avx512")) (fk_cip (K "sse2")) (fk_cip (K "sse41"))
      (fk_cip (K "wasm32_simd")) compress_in_place v.
  Definition src_cx (v : variant) :=
    src_platform_compress_xof cfgs (fk_cx (K "avx512")) (fk_cx (K "sse2")) (fk_cx (K "sse41"))
      (fk_cx (K "wasm32_simd")) compress_xof v.
  Definition src_hm (v : variant) :=
    src_platform_hash_many cfgs (fk_hm (K "avx2")) (fk_hm (K "avx512")) (fk_hm (K "neon")) (fk_hm (K "sse2"))
      (fk_hm (K "sse41")) (fk_hm (K "wasm32_simd")) hash_many v.
  Definition src_xm (v : variant) :=
    src_platform_xof_many cfgs (fk_xm (K "avx512"))
      (fun v cv block bl ctr fl => match src_cx v cv block bl ctr fl with Some r => r | None => [] end) v.
End Src.

(* the SSE2 level behind the FFI wrapper (Kernels.v has the record for SSE4.1 and AVX2 only) *)
Definition sse2_ffi_platform : platform :=
  mkPlatform rs_degree_SSE2 16 cip_rows cx_rows hm_c4 (guard_xm (xof_many_generic compress_xof_rows)).

Definition model_platform (f : flavour) (v : variant) : option platform :=
  match v with
  | Portable => Some (portable_platform 16)
  | SSE2 => Some (match f with FlDefault => sse2_ffi_platform | _ => sse2_platform end)
  | SSE41 => Some (match f with FlDefault => sse41_ffi_platform | _ => sse41_platform end)
  | AVX2 => Some (match f with FlDefault => avx2_ffi_platform | _ => avx2_platform end)
  | AVX512 => if has_avx512 f then Some avx512_platform else None
  | NEON | WASM32_SIMD => None
  end.

(* blake3_hash_many_portable: the one-at-a-time loop over hash_one_portable *)
Definition hash_many_c1 (cip : cip_fn) (inputs : list (list N)) (blocks : nat) (key : list N) (counter : N) (incr : bool)
           (flags flags_start flags_end : N) : res (list (list N)) :=
  single_loop (hash_one_c cip) cadd_c false inputs blocks key counter incr flags flags_start flags_end 0.

(* a C kernel `(inputs, num_inputs, blocks, ...)` from a model that takes the inputs as one list *)
Definition c_hm (f : list (list N) -> nat -> list N -> N -> bool -> N -> N -> N -> res (list (list N)))
  : list (list N) -> N -> N -> list N -> N -> bool -> N -> N -> N -> res (list (list N)) :=
  fun inputs _ blocks key counter incr flags flags_start flags_end =>
    f inputs (N.to_nat blocks) key counter incr flags flags_start flags_end.
