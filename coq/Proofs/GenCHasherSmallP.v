(* The small, loop-free functions of c/blake3.c as TRANSLATED statement by statement from the
   source text (gen/GenCHasherSmall.v: struct declarations -> records, field stores -> record
   updates, memcpy / memset -> arr_store, calls in source order with the source's arguments)
   equal the hand-written definitions of Model/CHasher.v, for all arguments.

   The hypotheses are the array lengths the C declarations promise (uint32_t cv[8],
   uint8_t buf[64], uint8_t key[32], ...) and `input_len = length of the input`; nothing is
   tested on particular inputs.

   Representation.  cs_of_src / output_of_src / hasher_of_src read a translated record field by
   field (by NAME) into the model's record; blake3_hasher.cv_stack is not interpreted by the
   translation (type parameter S), here S := list (list N), the model's slots.  The functions the
   translation leaves as parameters (named ext_...) are instantiated with the model's own loops:
     blake3_compress_in_place     p_compress_in_place p
     blake3_hasher_update_base    m_update_base p     (c_hasher_update; use_tbb = true is not modelled)
     blake3_hasher_finalize_seek  m_finalize_seek p   (c_hasher_finalize_seek, bytes stored at out[0..))
     strlen                       m_strlen            (c_strlen_prefix) *)
From Coq Require Import NArith List Bool Lia Arith.
From V Require Import Base.Res Base.Word Base.MachInt Base.Arr gen.GenConsts gen.GenFormulas
  gen.GenCHasherSmall Spec.Tree Model.Platform Model.RsChunk Model.CHasher.
Import ListNotations.
Open Scope N_scope.

Tactic Notation "destruct_list" ident(l) integer(n) :=
  do n (destruct l as [|? l]; [discriminate|]); destruct l; [|discriminate].

Definition res_map {A B} (f : A -> B) (r : res A) : res B :=
  match r with Ok a => Ok (f a) | Panic c => Panic c | OutOfFuel => OutOfFuel end.

(* ---------- translated records -> model records (field by field, by name) ---------- *)
Definition cs_of_src (s : src_blake3_chunk_state) : chunk_state :=
  mkCS (blake3_chunk_state_cv s) (blake3_chunk_state_chunk_counter s) (blake3_chunk_state_buf s)
       (blake3_chunk_state_buf_len s) (blake3_chunk_state_blocks_compressed s) (blake3_chunk_state_flags s).

Definition src_of_cs (c : chunk_state) : src_blake3_chunk_state :=
  mk_blake3_chunk_state (cs_cv c) (cs_ctr c) (cs_buf c) (cs_buf_len c) (cs_blocks c) (cs_flags c).

Definition output_of_src (o : src_output_t) : output :=
  mkOutput (output_t_input_cv o) (output_t_block o) (output_t_block_len o) (output_t_counter o) (output_t_flags o).

Definition src_hasher : Type := src_blake3_hasher (list (list N)).

Definition hasher_of_src (h : src_hasher) : c_hasher :=
  mkCH (blake3_hasher_key h) (cs_of_src (blake3_hasher_chunk h)) (blake3_hasher_cv_stack_len h)
       (blake3_hasher_cv_stack h).

Definition src_of_hasher (h : c_hasher) : src_hasher :=
  mk_blake3_hasher (ch_key h) (src_of_cs (ch_chunk h)) (ch_stack_len h) (ch_stack h).

Lemma cs_of_src_of_cs c : cs_of_src (src_of_cs c) = c.
Proof. destruct c; reflexivity. Qed.
Lemma src_of_cs_of_src s : src_of_cs (cs_of_src s) = s.
Proof. destruct s; reflexivity. Qed.
Lemma hasher_of_src_of_hasher h : hasher_of_src (src_of_hasher h) = h.
Proof. destruct h as [k c l st]; destruct c; reflexivity. Qed.
Lemma src_of_hasher_of_src h : src_of_hasher (hasher_of_src h) = h.
Proof. destruct h as [k c l st]; destruct c; reflexivity. Qed.

(* the array lengths of the C declarations *)
Definition cs_shape (s : src_blake3_chunk_state) : Prop :=
  length (blake3_chunk_state_cv s) = 8%nat /\ length (blake3_chunk_state_buf s) = 64%nat.

Definition hasher_shape {S} (h : src_blake3_hasher S) : Prop :=
  length (blake3_hasher_key h) = 8%nat /\ cs_shape (blake3_hasher_chunk h).

(* ---------- memcpy / memset over a whole array ---------- *)
Lemma arr_store_whole (dst data : list N) : length data = length dst -> arr_store dst 0 data = data.
Proof.
  intros H. unfold arr_store. cbn [firstn app Nat.add]. rewrite H, skipn_all. apply app_nil_r.
Qed.

Lemma memcpy_whole (dst src : list N) n : length dst = n -> length src = n -> arr_store dst 0 (firstn n src) = src.
Proof.
  intros Hd Hs. rewrite <- Hs at 1. rewrite firstn_all. apply arr_store_whole. congruence.
Qed.

Lemma memset_whole (dst : list N) v n : length dst = n -> arr_store dst 0 (repeat v n) = repeat v n.
Proof. intros H. apply arr_store_whole. rewrite repeat_length. congruence. Qed.

(* ---------- c/blake3_impl.h: load_key_words, store_cv_words ---------- *)
Lemma src_load_key_words_eq key key_words : length key = 32%nat -> length key_words = 8%nat ->
  src_load_key_words key key_words = words_of_bytes key.
Proof. intros Hk Hw. destruct_list key 32. destruct_list key_words 8. reflexivity. Qed.

Lemma src_store_cv_words_eq bytes_out cv_words : length bytes_out = 32%nat -> length cv_words = 8%nat ->
  src_store_cv_words bytes_out cv_words = bytes_of_words cv_words.
Proof. intros Hb Hw. destruct_list bytes_out 32. destruct_list cv_words 8. reflexivity. Qed.

(* ---------- chunk_state_* ---------- *)
Lemma src_chunk_state_init_eq self key flags : cs_shape self -> length key = 8%nat ->
  cs_of_src (src_chunk_state_init self key flags) = c_cs_init key flags.
Proof.
  intros [Hcv Hbuf] Hk. destruct self as [cv ctr buf bl blocks fl]. cbn in Hcv, Hbuf.
  unfold src_chunk_state_init, cs_of_src, c_cs_init, c_zero_block. cbn -[arr_store firstn repeat].
  rewrite (memcpy_whole cv key 8 Hcv Hk), (memset_whole buf 0 64 Hbuf). reflexivity.
Qed.

Lemma src_chunk_state_reset_eq self key chunk_counter : cs_shape self -> length key = 8%nat ->
  cs_of_src (src_chunk_state_reset self key chunk_counter) = c_cs_reset (cs_of_src self) key chunk_counter.
Proof.
  intros [Hcv Hbuf] Hk. destruct self as [cv ctr buf bl blocks fl]. cbn in Hcv, Hbuf.
  unfold src_chunk_state_reset, cs_of_src, c_cs_reset, c_zero_block. cbn -[arr_store firstn repeat].
  rewrite (memcpy_whole cv key 8 Hcv Hk), (memset_whole buf 0 64 Hbuf). reflexivity.
Qed.

Lemma src_chunk_state_maybe_start_flag_eq self :
  src_chunk_state_maybe_start_flag self = c_cs_start_flag (cs_of_src self).
Proof. reflexivity. Qed.

Lemma land_ones_small x w : x < 2 ^ w -> N.land x (N.ones w) = x.
Proof. intros H. rewrite N.land_ones. apply N.mod_small. exact H. Qed.

Lemma src_chunk_state_fill_buf_eq self input input_len :
  length (blake3_chunk_state_buf self) = 64%nat -> input_len = nlen input ->
  res_map (fun r => (cs_of_src (fst r), snd r)) (src_chunk_state_fill_buf self input input_len)
  = c_cs_fill_buf (cs_of_src self) input.
Proof.
  intros Hbuf ->. destruct self as [cv ctr buf bl blocks fl]. cbn in Hbuf.
  unfold src_chunk_state_fill_buf, c_cs_fill_buf, cs_of_src. cbn -[arr_store firstn skipn N.min N.to_nat mi_sub mi_add mi_cast N.ltb N.leb].
  unfold mi_sub. change c_BLOCK_LEN with 64. destruct (bl <=? 64) eqn:Ebl; cbn [bind res_map]; [|reflexivity].
  apply N.leb_le in Ebl.
  replace (if nlen input <? 64 - bl then nlen input else 64 - bl) with (N.min (64 - bl) (nlen input))
    by (destruct (nlen input <? 64 - bl) eqn:E;
        [apply N.ltb_lt in E; rewrite N.min_r; [reflexivity|apply N.lt_le_incl; exact E]
        |apply N.ltb_ge in E; rewrite N.min_l; [reflexivity|exact E]]).
  set (take := N.min (64 - bl) (nlen input)).
  assert (Ht : take <= 64 - bl) by apply N.le_min_l.
  assert (Hti : take <= nlen input) by apply N.le_min_r.
  clearbody take.
  unfold nlen in *. rewrite Hbuf.
  replace (bl + take <=? N.of_nat 64) with true by (symmetry; apply N.leb_le; lia).
  cbn [check bind]. unfold mi_cast. cbn [bind].
  rewrite (land_ones_small take 8) by (change (2 ^ 8) with 256; lia).
  destruct (mi_add 8 bl take) as [bl'| |]; cbn [bind res_map fst snd]; try reflexivity.
  unfold arr_store. rewrite firstn_length, N2Nat.inj_add.
  replace (Init.Nat.min (N.to_nat take) (length input)) with (N.to_nat take) by lia. reflexivity.
Qed.

(* ---------- make_output, chunk_state_output, parent_output, output_chaining_value ---------- *)
Lemma src_make_output_eq input_cv block block_len counter flags :
  length input_cv = 8%nat -> length block = 64%nat ->
  output_of_src (src_make_output input_cv block block_len counter flags)
  = mkOutput input_cv block block_len counter flags.
Proof.
  intros Hcv Hb. unfold src_make_output, output_of_src, uninit_output_t. cbn -[arr_store firstn repeat].
  rewrite (memcpy_whole (repeat 0 8%nat) input_cv 8 eq_refl Hcv),
          (memcpy_whole (repeat 0 64%nat) block 64 eq_refl Hb). reflexivity.
Qed.

Lemma src_chunk_state_output_eq self : cs_shape self ->
  output_of_src (src_chunk_state_output self) = c_cs_output (cs_of_src self).
Proof.
  intros [Hcv Hbuf]. unfold src_chunk_state_output. cbv zeta.
  rewrite (src_make_output_eq _ _ _ _ _ Hcv Hbuf). reflexivity.
Qed.

Lemma src_parent_output_eq block key flags : length block = 64%nat -> length key = 8%nat ->
  output_of_src (src_parent_output block key flags) = c_parent_output block key flags.
Proof. intros Hb Hk. unfold src_parent_output. rewrite (src_make_output_eq _ _ _ _ _ Hk Hb). reflexivity. Qed.

(* for any compression kernel that returns 8 words *)
Lemma src_output_chaining_value_gen (k : list N -> list N -> N -> N -> N -> list N) self cv :
  length (output_t_input_cv self) = 8%nat -> length cv = 32%nat ->
  length (k (output_t_input_cv self) (output_t_block self) (output_t_block_len self) (output_t_counter self)
            (output_t_flags self)) = 8%nat ->
  src_output_chaining_value k self cv
  = bytes_of_words (k (output_t_input_cv self) (output_t_block self) (output_t_block_len self)
                      (output_t_counter self) (output_t_flags self)).
Proof.
  intros Hcv Hout Hk. unfold src_output_chaining_value. cbv zeta.
  rewrite (memcpy_whole (repeat 0 8%nat) _ 8 eq_refl Hcv). apply src_store_cv_words_eq; assumption.
Qed.

Lemma src_output_chaining_value_eq p self cv :
  length (output_t_input_cv self) = 8%nat -> length cv = 32%nat ->
  length (p_compress_in_place p (output_t_input_cv self) (output_t_block self) (output_t_block_len self)
            (output_t_counter self) (output_t_flags self)) = 8%nat ->
  src_output_chaining_value (p_compress_in_place p) self cv = c_output_chaining_value p (output_of_src self).
Proof. intros H1 H2 H3. rewrite src_output_chaining_value_gen by assumption. reflexivity. Qed.

(* ---------- hasher_init_base, the initialisers, reset ---------- *)
Lemma src_hasher_init_base_eq (self : src_hasher) key flags : hasher_shape self -> length key = 8%nat ->
  hasher_of_src (src_hasher_init_base self key flags) = c_hasher_init_base (blake3_hasher_cv_stack self) key flags.
Proof.
  intros [Hk Hcs] Hkey. destruct self as [k cs l st]. cbn in Hk, Hcs.
  unfold src_hasher_init_base, hasher_of_src, c_hasher_init_base. cbn -[arr_store firstn src_chunk_state_init].
  rewrite (memcpy_whole k key 8 Hk Hkey), (src_chunk_state_init_eq cs key flags Hcs Hkey). reflexivity.
Qed.

Lemma c_IV_length : length c_IV = 8%nat.
Proof. reflexivity. Qed.

Lemma src_blake3_hasher_init_eq (self : src_hasher) : hasher_shape self ->
  hasher_of_src (src_blake3_hasher_init self) = c_hasher_init (blake3_hasher_cv_stack self).
Proof. intros H. unfold src_blake3_hasher_init. cbv zeta. apply src_hasher_init_base_eq; [exact H|exact c_IV_length]. Qed.

Lemma words_of_bytes_length_32 (l : list N) : length l = 32%nat -> length (words_of_bytes l) = 8%nat.
Proof. intros H. destruct_list l 32. reflexivity. Qed.

Lemma src_blake3_hasher_init_keyed_eq (self : src_hasher) key : hasher_shape self -> length key = 32%nat ->
  Ok (hasher_of_src (src_blake3_hasher_init_keyed self key)) = c_hasher_init_keyed (blake3_hasher_cv_stack self) key.
Proof.
  intros H Hk. unfold src_blake3_hasher_init_keyed, c_hasher_init_keyed. cbv zeta.
  rewrite (src_load_key_words_eq key (repeat 0 8%nat) Hk eq_refl).
  rewrite (src_hasher_init_base_eq self _ _ H (words_of_bytes_length_32 key Hk)).
  unfold nlen. rewrite Hk. change (c_KEY_LEN <=? N.of_nat 32) with true. cbn [check bind].
  change (N.to_nat c_KEY_LEN) with 32%nat. rewrite <- Hk, firstn_all. reflexivity.
Qed.

Lemma src_blake3_hasher_reset_eq (self : src_hasher) : hasher_shape self ->
  hasher_of_src (src_blake3_hasher_reset self) = c_hasher_reset (hasher_of_src self).
Proof.
  intros [Hk Hcs]. destruct self as [k cs l st]. cbn in Hk, Hcs.
  unfold src_blake3_hasher_reset, hasher_of_src, c_hasher_reset. cbn -[src_chunk_state_reset].
  rewrite (src_chunk_state_reset_eq cs k 0 Hcs Hk). reflexivity.
Qed.

(* ---------- the functions left as parameters, in terms of the model ---------- *)
(* blake3_hasher_update_base(self, input, input_len, use_tbb): the model is the use_tbb = false arm *)
Definition m_update_base (p : platform) (self : src_hasher) (input : list N) (input_len : N) (use_tbb : bool)
  : res src_hasher :=
  if use_tbb then Panic 0
  else res_map src_of_hasher (c_hasher_update p (hasher_of_src self) (firstn (N.to_nat input_len) input)).

(* blake3_hasher_finalize_seek(self, seek, out, out_len): the bytes the model returns are stored at out[0 ..) *)
Definition m_finalize_seek (p : platform) (self : src_hasher) (seek : N) (out : list N) (out_len : N) : res (list N) :=
  res_map (fun bs => arr_store out 0 bs) (c_hasher_finalize_seek p (hasher_of_src self) seek out_len).

Definition m_strlen (s : list N) : res N := res_map nlen (c_strlen_prefix s).

Lemma firstn_nlen (l : list N) : firstn (N.to_nat (nlen l)) l = l.
Proof. unfold nlen. rewrite Nat2N.id. apply firstn_all. Qed.

Lemma src_blake3_hasher_update_eq p (self : src_hasher) input input_len : input_len = nlen input ->
  res_map hasher_of_src (src_blake3_hasher_update (m_update_base p) self input input_len)
  = c_hasher_update p (hasher_of_src self) input.
Proof.
  intros ->. unfold src_blake3_hasher_update, m_update_base. cbv zeta. rewrite firstn_nlen.
  destruct (c_hasher_update p (hasher_of_src self) input) as [h| |]; cbn [res_map bind]; try reflexivity.
  rewrite hasher_of_src_of_hasher. reflexivity.
Qed.

Lemma src_blake3_hasher_finalize_eq p (self : src_hasher) out out_len :
  src_blake3_hasher_finalize (m_finalize_seek p) self out out_len
  = res_map (fun bs => arr_store out 0 bs) (c_hasher_finalize p (hasher_of_src self) out_len).
Proof.
  unfold src_blake3_hasher_finalize, m_finalize_seek, c_hasher_finalize.
  destruct (c_hasher_finalize_seek p (hasher_of_src self) 0 out_len); reflexivity.
Qed.

(* ---------- finalize writes exactly out_len bytes (any platform record) ---------- *)
Ltac inv_bind H x E :=
  match type of H with
  | bind ?m _ = Ok _ => destruct m as [x| |] eqn:E; cbn [bind] in H; [|discriminate H|discriminate H]
  end.
Ltac inv_check H E :=
  match type of H with
  | bind (check ?b _) _ = Ok _ => destruct b eqn:E; cbn [check bind] in H; [|discriminate H]
  end.

Lemma nlen_app (a b : list N) : nlen (a ++ b) = nlen a + nlen b.
Proof. unfold nlen. rewrite app_length. lia. Qed.

Lemma nlen_firstn_le (l : list N) k : k <= nlen l -> nlen (firstn (N.to_nat k) l) = k.
Proof. unfold nlen. intros H. rewrite firstn_length. lia. Qed.

Lemma mi_sub_Ok W a b c : mi_sub W a b = Ok c -> b <= a /\ c = a - b.
Proof.
  unfold mi_sub. destruct (b <=? a) eqn:E; intros H; [|discriminate].
  apply N.leb_le in E. inversion H. split; [exact E|reflexivity].
Qed.

Lemma c_output_root_bytes_length p o seek n bs : c_output_root_bytes p o seek n = Ok bs -> nlen bs = n.
Proof.
  unfold c_output_root_bytes. intros H.
  destruct (n =? 0) eqn:En; [apply N.eqb_eq in En; inversion H; subst; reflexivity|].
  inv_bind H counter Ec. inv_bind H offset Eo. inv_bind H r Er. destruct r as [[head ol] ctr].
  assert (Hhead : nlen head + ol = n).
  { destruct (negb (offset =? 0)).
    - inv_bind Er available Ea. inv_check Er Echk. inv_bind Er ol' Es. inv_bind Er ctr' Ect.
      inversion Er; subst. apply mi_sub_Ok in Es. destruct Es as [Hle ->]. apply N.leb_le in Echk.
      rewrite nlen_firstn_le; [lia|]. unfold nlen in *. rewrite skipn_length. lia.
    - inversion Er; subst. reflexivity. }
  clear Er.
  inv_bind H blocks Eb. inv_bind H mid Em. inv_bind H ctr2 Ec2. inv_bind H whole Ew. inv_check H Emid.
  inv_bind H ol2 Es2. apply N.eqb_eq in Emid. apply mi_sub_Ok in Es2. destruct Es2 as [Hle ->].
  destruct (ol - whole =? 0) eqn:Ez; cbn [negb] in H.
  - apply N.eqb_eq in Ez. inversion H; subst. rewrite nlen_app. lia.
  - inv_check H Echk. apply N.leb_le in Echk. inversion H; subst.
    rewrite !nlen_app, nlen_firstn_le by exact Echk. lia.
Qed.

Lemma c_hasher_finalize_seek_length p h seek n bs : c_hasher_finalize_seek p h seek n = Ok bs -> nlen bs = n.
Proof.
  unfold c_hasher_finalize_seek. intros H.
  destruct (n =? 0) eqn:En; [apply N.eqb_eq in En; inversion H; subst; reflexivity|].
  inv_bind H o Eo. exact (c_output_root_bytes_length _ _ _ _ _ H).
Qed.

(* ---------- blake3_hasher_init_derive_key_raw / _init_derive_key ---------- *)
(* `u` is what the stack slot of the local `blake3_hasher context_hasher;` holds before it is initialised; the model
   (c_hasher_init_derive_key_raw) fixes its cv_stack to c_local_stack, so that is what is assumed of u here. *)
Lemma src_blake3_hasher_init_derive_key_raw_gen p (self u : src_hasher) context context_len :
  hasher_shape self -> hasher_shape u -> blake3_hasher_cv_stack u = c_local_stack ->
  res_map hasher_of_src
    (src_blake3_hasher_init_derive_key_raw (m_update_base p) (m_finalize_seek p) self context context_len u)
  = c_hasher_init_derive_key_raw p (blake3_hasher_cv_stack self) (firstn (N.to_nat context_len) context).
Proof.
  intros Hs Hu Hst. unfold src_blake3_hasher_init_derive_key_raw, c_hasher_init_derive_key_raw. cbv zeta.
  unfold src_blake3_hasher_update, m_update_base. cbv zeta.
  rewrite (src_hasher_init_base_eq u c_IV c_flag_DERIVE_KEY_CONTEXT Hu c_IV_length), Hst.
  destruct (c_hasher_update p (c_hasher_init_base c_local_stack c_IV c_flag_DERIVE_KEY_CONTEXT)
              (firstn (N.to_nat context_len) context)) as [h| |]; cbn [res_map bind]; try reflexivity.
  rewrite src_blake3_hasher_finalize_eq, hasher_of_src_of_hasher.
  destruct (c_hasher_finalize p h c_KEY_LEN) as [bs| |] eqn:Ef; cbn [res_map bind]; try reflexivity.
  assert (Hl : length bs = 32%nat).
  { apply c_hasher_finalize_seek_length in Ef. unfold nlen in Ef. change c_KEY_LEN with 32 in Ef. lia. }
  rewrite (arr_store_whole (repeat 0 32%nat) bs) by (rewrite repeat_length; exact Hl).
  rewrite (src_load_key_words_eq bs (repeat 0 8%nat) Hl eq_refl).
  rewrite (src_hasher_init_base_eq self _ _ Hs (words_of_bytes_length_32 bs Hl)). reflexivity.
Qed.

Lemma src_blake3_hasher_init_derive_key_raw_eq p (self u : src_hasher) context context_len :
  hasher_shape self -> hasher_shape u -> blake3_hasher_cv_stack u = c_local_stack -> context_len = nlen context ->
  res_map hasher_of_src
    (src_blake3_hasher_init_derive_key_raw (m_update_base p) (m_finalize_seek p) self context context_len u)
  = c_hasher_init_derive_key_raw p (blake3_hasher_cv_stack self) context.
Proof.
  intros Hs Hu Hst ->. rewrite (src_blake3_hasher_init_derive_key_raw_gen p self u _ _ Hs Hu Hst), firstn_nlen.
  reflexivity.
Qed.

(* strlen: the prefix the model passes on is the first strlen(context) bytes *)
Lemma c_strlen_prefix_firstn s r : c_strlen_prefix s = Ok r -> firstn (N.to_nat (nlen r)) s = r.
Proof.
  revert r. induction s as [|b tl IH]; intros r H; cbn [c_strlen_prefix] in H; [discriminate|].
  destruct (b =? 0); [inversion H; reflexivity|].
  inv_bind H r' Er. inversion H; subst. specialize (IH r' eq_refl).
  unfold nlen in *. rewrite Nat2N.id in *. cbn [length firstn]. rewrite IH. reflexivity.
Qed.

Lemma src_blake3_hasher_init_derive_key_eq p (self u : src_hasher) context :
  hasher_shape self -> hasher_shape u -> blake3_hasher_cv_stack u = c_local_stack ->
  res_map hasher_of_src
    (src_blake3_hasher_init_derive_key (m_update_base p) (m_finalize_seek p) m_strlen self context u)
  = c_hasher_init_derive_key p (blake3_hasher_cv_stack self) context.
Proof.
  intros Hs Hu Hst. unfold src_blake3_hasher_init_derive_key, c_hasher_init_derive_key, m_strlen.
  destruct (c_strlen_prefix context) as [r| |] eqn:Er; cbn [res_map bind]; try reflexivity.
  rewrite <- (c_strlen_prefix_firstn context r Er) at 2.
  rewrite <- (src_blake3_hasher_init_derive_key_raw_gen p self u context (nlen r) Hs Hu Hst).
  destruct (src_blake3_hasher_init_derive_key_raw _ _ self context (nlen r) u); reflexivity.
Qed.
