(* Semantics of the x86 SIMD intrinsics and of the C / Rust scalar expressions that occur in
   the `load_counters*` functions, the vector round functions (`round`, `round_fn*`, with their
   add/xor/rot helpers) and the register transposes (`transpose_vecs*`) of
     c/blake3_sse2.c, c/blake3_sse41.c, c/blake3_avx2.c, c/blake3_avx512.c,
     src/rust_sse2.rs, src/rust_sse41.rs, src/rust_avx2.rs.
   tools/gen_coq.py (gen_counters) translates the source text of those functions into terms
   over the definitions of this file (coq/gen/GenCounters.v); Proofs/CountersP.v proves the
   translated functions equal to the hand-written models of Model/Kernels.v.  Likewise
   gen_kernel_rounds -> coq/gen/GenRounds.v, Proofs/RoundsP.v, and gen_kernel_rows -> coq/gen/GenRows.v (the
   row-vectorised single-block compression), Proofs/RowsP.v (last parts of this file).

   REGISTER MODEL.  A SIMD register is ONE representation whatever intrinsic reads it: the list
   of its 32-bit lanes, lane 0 (bits 31..0) first: __m128i = 4 lanes, __m256i = 8, __m512i = 16.
   An intrinsic that works on 64-bit elements views the register through `to64` (element k is
   lanes 2k (low half) and 2k+1 (high half)) and writes its result back through `of64`.
   Applying a 32-bit-lane intrinsic to the result of a 64-bit-lane one (or the reverse) therefore
   means what it means on the machine.  Invariant: every lane is below 2^32 (every definition
   below produces such lanes from such lanes).

   SCALARS.  A C / Rust integer expression is a mathematical integer (Z) together with a static
   type that the translator tracks; conversions are explicit (`cast_u`, `cast_s`).  An intrinsic
   that takes an `int` / `__int64` / `unsigned int` argument stores its low 32 / 64 bits
   (`bits32`, `bits64`), which is also what the implicit conversion to the parameter type does.

   Each definition is a direct reading of the Intel Intrinsics Guide entry named next to it. *)
From Coq Require Import NArith ZArith List Bool.
From V Require Import Base.Res Base.Word gen.GenConsts Model.Kernels.
Import ListNotations.
Open Scope N_scope.

(* ------------------------------------------------------------------ *)
(* scalars                                                             *)
(* ------------------------------------------------------------------ *)
(* conversion to an unsigned type of W bits: reduction modulo 2^W *)
Definition cast_u (W : Z) (z : Z) : Z := (z mod 2 ^ W)%Z.
(* conversion to a signed type of W bits (two's complement wrap; `as iW` in Rust, the
   universal behaviour of (intW_t) in C) *)
Definition cast_s (W : Z) (z : Z) : Z := ((z + 2 ^ (W - 1)) mod 2 ^ W - 2 ^ (W - 1))%Z.
(* the 32 / 64 low bits of an integer, as stored into a vector element *)
Definition bits32 (z : Z) : N := Z.to_N (z mod 4294967296)%Z.
Definition bits64 (z : Z) : N := Z.to_N (z mod 18446744073709551616)%Z.
(* C truth value of a scalar *)
Definition c_true (z : Z) : bool := negb (z =? 0)%Z.

(* ------------------------------------------------------------------ *)
(* 64-bit view of a register                                           *)
(* ------------------------------------------------------------------ *)
Fixpoint to64 (v : vec) : list N :=
  match v with
  | lo :: hi :: tl => (lo + 4294967296 * hi) :: to64 tl
  | _ => []
  end.
Definition of64 (l : list N) : vec := flat_map (fun x => [w32 x; w32 (N.shiftr x 32)]) l.
Definition add64 (a b : N) : N := N.land (a + b) (N.ones 64).

(* shift count of the immediate-count shifts: imm8[7:0] *)
Definition imm8 (z : Z) : N := Z.to_N (z mod 256)%Z.
Definition srl32 (k : N) (x : N) : N := if 31 <? k then 0 else N.shiftr x k.
Definition srl64 (k : N) (x : N) : N := if 63 <? k then 0 else N.shiftr x k.

(* ------------------------------------------------------------------ *)
(* SSE2 (__m128i, 4 lanes)                                             *)
(* ------------------------------------------------------------------ *)
(* _mm_set1_epi32 (int a): broadcast a to all elements *)
Definition mm_set1_epi32 (a : Z) : vec := vset1 4 (bits32 a).
(* _mm_set_epi32 (int e3, int e2, int e1, int e0): dst[31:0] := e0 ... dst[127:96] := e3 *)
Definition mm_set_epi32 (e3 e2 e1 e0 : Z) : vec := [bits32 e0; bits32 e1; bits32 e2; bits32 e3].
(* _mm_setr_epi32 (int e3, int e2, int e1, int e0): reverse order, dst[31:0] := e3 (the first argument) *)
Definition mm_setr_epi32 (e3 e2 e1 e0 : Z) : vec := [bits32 e3; bits32 e2; bits32 e1; bits32 e0].
(* _mm_add_epi32 (a, b): dst[i] := a[i] + b[i], 32-bit wrap *)
Definition mm_add_epi32 : vec -> vec -> vec := vadd.
(* _mm_sub_epi32 (a, b): dst[i] := a[i] - b[i], 32-bit wrap *)
Definition mm_sub_epi32 : vec -> vec -> vec := vsub.
(* _mm_and_si128 (a, b): bitwise AND *)
Definition mm_and_si128 : vec -> vec -> vec := vand.
(* _mm_andnot_si128 (a, b): (NOT a) AND b *)
Definition mm_andnot_si128 : vec -> vec -> vec := vandnot.
(* _mm_xor_si128 (a, b): bitwise XOR *)
Definition mm_xor_si128 : vec -> vec -> vec := vxor.
(* _mm_or_si128 (a, b): bitwise OR *)
Definition mm_or_si128 : vec -> vec -> vec := vmap2 N.lor.
(* _mm_cmpgt_epi32 (a, b): dst[i] := (a[i] > b[i]) ? 0xFFFFFFFF : 0, SIGNED comparison *)
Definition mm_cmpgt_epi32 : vec -> vec -> vec := vcmpgt.
(* _mm_cmplt_epi32 (a, b): dst[i] := (a[i] < b[i]) ? 0xFFFFFFFF : 0, SIGNED comparison *)
Definition mm_cmplt_epi32 (a b : vec) : vec := vcmpgt b a.
(* _mm_cmpeq_epi32 (a, b): dst[i] := (a[i] == b[i]) ? 0xFFFFFFFF : 0 *)
Definition mm_cmpeq_epi32 : vec -> vec -> vec := vmap2 (fun a b => if a =? b then mask32 else 0).
(* _mm_srli_epi32 (a, int imm8): IF imm8[7:0] > 31 THEN 0 ELSE ZeroExtend32(a[i] >> imm8[7:0]) *)
Definition mm_srli_epi32 (a : vec) (k : Z) : vec := map (srl32 (imm8 k)) a.

(* ------------------------------------------------------------------ *)
(* AVX2 (__m256i, 8 lanes)                                             *)
(* ------------------------------------------------------------------ *)
(* _mm256_set1_epi32 (int a) *)
Definition mm256_set1_epi32 (a : Z) : vec := vset1 8 (bits32 a).
(* _mm256_set_epi32 (int e7, ..., int e0): dst[31:0] := e0 ... dst[255:224] := e7 *)
Definition mm256_set_epi32 (e7 e6 e5 e4 e3 e2 e1 e0 : Z) : vec :=
  [bits32 e0; bits32 e1; bits32 e2; bits32 e3; bits32 e4; bits32 e5; bits32 e6; bits32 e7].
(* _mm256_setr_epi32 (int e7, ..., int e0): reverse order, dst[31:0] := e7 (the first argument) *)
Definition mm256_setr_epi32 (e7 e6 e5 e4 e3 e2 e1 e0 : Z) : vec :=
  [bits32 e7; bits32 e6; bits32 e5; bits32 e4; bits32 e3; bits32 e2; bits32 e1; bits32 e0].
(* _mm256_add_epi32, _mm256_sub_epi32, _mm256_and_si256, _mm256_andnot_si256, _mm256_xor_si256,
   _mm256_or_si256, _mm256_cmpgt_epi32 (signed), _mm256_cmpeq_epi32, _mm256_srli_epi32:
   as the 128-bit forms, on 8 lanes *)
Definition mm256_add_epi32 : vec -> vec -> vec := vadd.
Definition mm256_sub_epi32 : vec -> vec -> vec := vsub.
Definition mm256_and_si256 : vec -> vec -> vec := vand.
Definition mm256_andnot_si256 : vec -> vec -> vec := vandnot.
Definition mm256_xor_si256 : vec -> vec -> vec := vxor.
Definition mm256_or_si256 : vec -> vec -> vec := vmap2 N.lor.
Definition mm256_cmpgt_epi32 : vec -> vec -> vec := vcmpgt.
Definition mm256_cmpeq_epi32 : vec -> vec -> vec := vmap2 (fun a b => if a =? b then mask32 else 0).
Definition mm256_srli_epi32 (a : vec) (k : Z) : vec := map (srl32 (imm8 k)) a.
(* _mm256_set1_epi64x (long long a): broadcast the 64-bit integer a to all 4 elements *)
Definition mm256_set1_epi64x (a : Z) : vec := of64 (repeat (bits64 a) 4).
(* _mm256_set_epi64x (e3, e2, e1, e0): dst[63:0] := e0 *)
Definition mm256_set_epi64x (e3 e2 e1 e0 : Z) : vec := of64 [bits64 e0; bits64 e1; bits64 e2; bits64 e3].
(* _mm256_setr_epi64x (e3, e2, e1, e0): reverse order, dst[63:0] := e3 (the first argument) *)
Definition mm256_setr_epi64x (e3 e2 e1 e0 : Z) : vec := of64 [bits64 e3; bits64 e2; bits64 e1; bits64 e0].
(* _mm256_add_epi64 (a, b): dst[j] := a[j] + b[j] on the four 64-bit elements, 64-bit wrap *)
Definition mm256_add_epi64 (a b : vec) : vec := of64 (vmap2 add64 (to64 a) (to64 b)).
(* _mm256_srli_epi64 (a, int imm8): IF imm8[7:0] > 63 THEN 0 ELSE ZeroExtend64(a[j] >> imm8[7:0]) *)
Definition mm256_srli_epi64 (a : vec) (k : Z) : vec := of64 (map (srl64 (imm8 k)) (to64 a)).
(* _mm256_cvtepi64_epi32 (a) (AVX512F + AVX512VL): __m256i -> __m128i,
   dst[i] := Truncate32(a[j]) for the four 64-bit elements *)
Definition mm256_cvtepi64_epi32 (a : vec) : vec := map w32 (to64 a).

(* ------------------------------------------------------------------ *)
(* AVX-512 (__m512i, 16 lanes; __mmask16 = list of 16 booleans, bit 0 first) *)
(* ------------------------------------------------------------------ *)
(* _mm512_set1_epi32 (int a) *)
Definition mm512_set1_epi32 (a : Z) : vec := vset1 16 (bits32 a).
(* _mm512_set_epi32 (int e15, ..., int e0): dst[31:0] := e0 ... dst[511:480] := e15 *)
Definition mm512_set_epi32 (e15 e14 e13 e12 e11 e10 e9 e8 e7 e6 e5 e4 e3 e2 e1 e0 : Z) : vec :=
  [bits32 e0; bits32 e1; bits32 e2; bits32 e3; bits32 e4; bits32 e5; bits32 e6; bits32 e7;
   bits32 e8; bits32 e9; bits32 e10; bits32 e11; bits32 e12; bits32 e13; bits32 e14; bits32 e15].
(* _mm512_setr_epi32 (int e15, ..., int e0): reverse order, dst[31:0] := e15 (the first argument) *)
Definition mm512_setr_epi32 (e15 e14 e13 e12 e11 e10 e9 e8 e7 e6 e5 e4 e3 e2 e1 e0 : Z) : vec :=
  [bits32 e15; bits32 e14; bits32 e13; bits32 e12; bits32 e11; bits32 e10; bits32 e9; bits32 e8;
   bits32 e7; bits32 e6; bits32 e5; bits32 e4; bits32 e3; bits32 e2; bits32 e1; bits32 e0].
(* _mm512_add_epi32, _mm512_sub_epi32, _mm512_and_si512, _mm512_xor_si512, _mm512_or_si512 *)
Definition mm512_add_epi32 : vec -> vec -> vec := vadd.
Definition mm512_sub_epi32 : vec -> vec -> vec := vsub.
Definition mm512_and_si512 : vec -> vec -> vec := vand.
Definition mm512_xor_si512 : vec -> vec -> vec := vxor.
Definition mm512_or_si512 : vec -> vec -> vec := vmap2 N.lor.
(* _mm512_andnot_si512 (a, b): (NOT a) AND b *)
Definition mm512_andnot_si512 : vec -> vec -> vec := vandnot.
(* _mm512_srli_epi32 (a, unsigned int imm8): IF imm8[7:0] > 31 THEN 0 ELSE ZeroExtend32(a[i] >> imm8[7:0]) *)
Definition mm512_srli_epi32 (a : vec) (k : Z) : vec := map (srl32 (imm8 k)) a.
(* _mm512_set1_epi64 (__int64 a): broadcast the 64-bit integer a to all 8 elements *)
Definition mm512_set1_epi64 (a : Z) : vec := of64 (repeat (bits64 a) 8).
(* _mm512_set_epi64 (e7, ..., e0): dst[63:0] := e0 *)
Definition mm512_set_epi64 (e7 e6 e5 e4 e3 e2 e1 e0 : Z) : vec :=
  of64 [bits64 e0; bits64 e1; bits64 e2; bits64 e3; bits64 e4; bits64 e5; bits64 e6; bits64 e7].
(* _mm512_setr_epi64 (e7, ..., e0): reverse order, dst[63:0] := e7 (the first argument) *)
Definition mm512_setr_epi64 (e7 e6 e5 e4 e3 e2 e1 e0 : Z) : vec :=
  of64 [bits64 e7; bits64 e6; bits64 e5; bits64 e4; bits64 e3; bits64 e2; bits64 e1; bits64 e0].
(* _mm512_add_epi64 (a, b): dst[j] := a[j] + b[j] on the eight 64-bit elements, 64-bit wrap *)
Definition mm512_add_epi64 (a b : vec) : vec := of64 (vmap2 add64 (to64 a) (to64 b)).
(* _mm512_srli_epi64 (a, unsigned int imm8): IF imm8[7:0] > 63 THEN 0 ELSE ZeroExtend64(a[j] >> imm8[7:0]) *)
Definition mm512_srli_epi64 (a : vec) (k : Z) : vec := of64 (map (srl64 (imm8 k)) (to64 a)).
(* _mm512_cvtepi64_epi32 (a): __m512i -> __m256i, dst[i] := Truncate32(a[j]) for the eight 64-bit elements *)
Definition mm512_cvtepi64_epi32 (a : vec) : vec := map w32 (to64 a).

Definition kmask := list bool.
Definition vcmpmask (f : N -> N -> bool) (a b : vec) : kmask :=
  map (fun p => f (fst p) (snd p)) (combine a b).
(* _mm512_cmplt_epi32_mask (a, b): k[i] := a[i] < b[i], SIGNED *)
Definition mm512_cmplt_epi32_mask : vec -> vec -> kmask :=
  vcmpmask (fun a b => (to_signed32 a <? to_signed32 b)%Z).
(* _mm512_cmpgt_epi32_mask (a, b): k[i] := a[i] > b[i], SIGNED *)
Definition mm512_cmpgt_epi32_mask : vec -> vec -> kmask :=
  vcmpmask (fun a b => (to_signed32 b <? to_signed32 a)%Z).
(* _mm512_cmplt_epu32_mask (a, b): k[i] := a[i] < b[i], UNSIGNED *)
Definition mm512_cmplt_epu32_mask : vec -> vec -> kmask := vcmpmask N.ltb.
(* _mm512_cmpgt_epu32_mask (a, b): k[i] := a[i] > b[i], UNSIGNED *)
Definition mm512_cmpgt_epu32_mask : vec -> vec -> kmask := vcmpmask (fun a b => b <? a).
(* _mm512_maskz_set1_epi32 (__mmask16 k, int a): dst[i] := k[i] ? a : 0 *)
Definition mm512_maskz_set1_epi32 (k : kmask) (a : Z) : vec := map (fun b : bool => if b then bits32 a else 0) k.
(* _mm512_mask_set1_epi32 (src, __mmask16 k, int a): dst[i] := k[i] ? a : src[i] *)
Definition mm512_mask_set1_epi32 (s : vec) (k : kmask) (a : Z) : vec :=
  map (fun p : N * bool => if snd p then bits32 a else fst p) (combine s k).
(* _mm512_movm_epi32 (__mmask16 k) (AVX512DQ): dst[i] := k[i] ? 0xFFFFFFFF : 0 *)
Definition mm512_movm_epi32 (k : kmask) : vec := map (fun b : bool => if b then mask32 else 0) k.

(* ================================================================== *)
(* Intrinsics of the round helpers and of the transposes              *)
(* (tools/gen_coq.py gen_kernel_rounds -> gen/GenRounds.v)            *)
(* ================================================================== *)

(* m[MSG_SCHEDULE[r][k]] in the C files: MSG_SCHEDULE is the table of c/blake3_impl.h
   (gen/GenConsts.v c_MSG_SCHEDULE); an index outside the table or the array reads the default
   (the code never does that: r < 7, k < 16, entries < 16) *)
Definition c_mw (m : list vec) (r k : nat) : vec :=
  nth (N.to_nat (nth k (nth r c_MSG_SCHEDULE []) 0)) m [].

(* ------------------------------------------------------------------ *)
(* 32-bit shifts left and rotates                                      *)
(* ------------------------------------------------------------------ *)
Definition sll32 (k : N) (x : N) : N := if 31 <? k then 0 else w32 (N.shiftl x k).
(* _mm_slli_epi32 (a, int imm8): IF imm8[7:0] > 31 THEN 0 ELSE ZeroExtend32(a[i] << imm8[7:0])
   (the 32 low bits of the shifted lane) *)
Definition mm_slli_epi32 (a : vec) (k : Z) : vec := map (sll32 (imm8 k)) a.
Definition mm256_slli_epi32 (a : vec) (k : Z) : vec := map (sll32 (imm8 k)) a.
Definition mm512_slli_epi32 (a : vec) (k : Z) : vec := map (sll32 (imm8 k)) a.
(* _mm_ror_epi32 (a, int imm8) (AVX512F + AVX512VL), _mm256_ror_epi32, _mm512_ror_epi32:
     DEFINE RIGHT_ROTATE_DWORDS(src, count_src) { count := count_src % 32
                                                  RETURN (src >> count) OR (src << (32 - count)) }
     dst[i] := RIGHT_ROTATE_DWORDS(a[i], imm8[7:0])      (32-bit operands: the left shift keeps 32 bits) *)
Definition ror32 (k : N) (x : N) : N :=
  let count := k mod 32 in N.lor (N.shiftr x count) (w32 (N.shiftl x (32 - count))).
Definition mm_ror_epi32 (a : vec) (k : Z) : vec := map (ror32 (imm8 k)) a.
Definition mm256_ror_epi32 (a : vec) (k : Z) : vec := map (ror32 (imm8 k)) a.
Definition mm512_ror_epi32 (a : vec) (k : Z) : vec := map (ror32 (imm8 k)) a.

(* ------------------------------------------------------------------ *)
(* 8-bit view of a register: byte j of the register is byte j mod 4 of  *)
(* lane j / 4 (little endian)                                          *)
(* ------------------------------------------------------------------ *)
Definition to8 (v : vec) : list N := bytes_of_words v.
Definition of8 (l : list N) : vec := words_of_bytes l.
(* a `char` argument: its low 8 bits *)
Definition bits8 (z : Z) : N := Z.to_N (z mod 256)%Z.
(* _mm_set_epi8 (char e15, ..., char e0): dst[7:0] := e0 ... dst[127:120] := e15 *)
Definition mm_set_epi8 (e15 e14 e13 e12 e11 e10 e9 e8 e7 e6 e5 e4 e3 e2 e1 e0 : Z) : vec :=
  of8 [bits8 e0; bits8 e1; bits8 e2; bits8 e3; bits8 e4; bits8 e5; bits8 e6; bits8 e7; bits8 e8; bits8 e9; bits8 e10; bits8 e11; bits8 e12; bits8 e13; bits8 e14; bits8 e15].
(* _mm256_set_epi8 (char e31, ..., char e0): dst[7:0] := e0 ... dst[255:248] := e31 *)
Definition mm256_set_epi8 (e31 e30 e29 e28 e27 e26 e25 e24 e23 e22 e21 e20 e19 e18 e17 e16 e15 e14 e13 e12 e11 e10 e9 e8 e7 e6 e5 e4 e3 e2 e1 e0 : Z) : vec :=
  of8 [bits8 e0; bits8 e1; bits8 e2; bits8 e3; bits8 e4; bits8 e5; bits8 e6; bits8 e7; bits8 e8; bits8 e9; bits8 e10; bits8 e11; bits8 e12; bits8 e13; bits8 e14; bits8 e15; bits8 e16; bits8 e17; bits8 e18; bits8 e19; bits8 e20; bits8 e21; bits8 e22; bits8 e23; bits8 e24; bits8 e25; bits8 e26; bits8 e27; bits8 e28; bits8 e29; bits8 e30; bits8 e31].
(* _mm_shuffle_epi8 (a, b) (SSSE3) and _mm256_shuffle_epi8 (a, b) (AVX2), on bytes; for byte i of the result,
   in the 128-bit half (i / 16) that contains it:
     IF b[i] bit 7 == 1 THEN dst[i] := 0
     ELSE index[3:0] := b[i] bits 3:0; dst[i] := a[16 * (i / 16) + index]   (no crossing of 128-bit halves) *)
Definition pshufb (a b : list N) : list N :=
  map (fun i => let c := nth i b 0 in
                if N.testbit c 7 then 0 else nth (16 * (Nat.div i 16) + N.to_nat (N.land c 15))%nat a 0)
      (seq 0 (length a)).
Definition mm_shuffle_epi8 (a b : vec) : vec := of8 (pshufb (to8 a) (to8 b)).
Definition mm256_shuffle_epi8 (a b : vec) : vec := of8 (pshufb (to8 a) (to8 b)).

(* ------------------------------------------------------------------ *)
(* 16-bit view of a register: element 2k is the low half of lane k      *)
(* ------------------------------------------------------------------ *)
Definition to16 (v : vec) : list N :=
  flat_map (fun x => [N.land x 0xFFFF; N.land (N.shiftr x 16) 0xFFFF]) v.
Fixpoint of16 (l : list N) : vec :=
  match l with
  | lo :: hi :: tl => N.lor lo (N.shiftl hi 16) :: of16 tl
  | _ => []
  end.
(* the 2-bit field imm8[2j+1:2j] *)
Definition sel2 (c : N) (j : N) : nat := N.to_nat (N.land (N.shiftr c (2 * j)) 3).
(* _mm_shufflelo_epi16 (a, int imm8) on the eight 16-bit elements of a 128-bit register:
     dst[15:0] := (a >> (imm8[1:0] * 16))[15:0]      dst[31:16] := (a >> (imm8[3:2] * 16))[15:0]
     dst[47:32] := (a >> (imm8[5:4] * 16))[15:0]     dst[63:48] := (a >> (imm8[7:6] * 16))[15:0]
     dst[127:64] := a[127:64]
   (written per group of eight elements = per 128-bit lane, as _mm256_shufflelo_epi16 works) *)
Fixpoint shuflo16 (c : N) (h : list N) : list N :=
  match h with
  | h0 :: h1 :: h2 :: h3 :: h4 :: h5 :: h6 :: h7 :: tl =>
      let lo := [h0; h1; h2; h3] in
      [nth (sel2 c 0) lo 0; nth (sel2 c 1) lo 0; nth (sel2 c 2) lo 0; nth (sel2 c 3) lo 0; h4; h5; h6; h7]
        ++ shuflo16 c tl
  | _ => []
  end.
Definition mm_shufflelo_epi16 (a : vec) (k : Z) : vec := of16 (shuflo16 (imm8 k) (to16 a)).
(* _mm_shufflehi_epi16 (a, int imm8):
     dst[63:0] := a[63:0]
     dst[79:64] := (a >> (imm8[1:0] * 16))[79:64]    ...    dst[127:112] := (a >> (imm8[7:6] * 16))[79:64] *)
Fixpoint shufhi16 (c : N) (h : list N) : list N :=
  match h with
  | h0 :: h1 :: h2 :: h3 :: h4 :: h5 :: h6 :: h7 :: tl =>
      let hi := [h4; h5; h6; h7] in
      [h0; h1; h2; h3; nth (sel2 c 0) hi 0; nth (sel2 c 1) hi 0; nth (sel2 c 2) hi 0; nth (sel2 c 3) hi 0]
        ++ shufhi16 c tl
  | _ => []
  end.
Definition mm_shufflehi_epi16 (a : vec) (k : Z) : vec := of16 (shufhi16 (imm8 k) (to16 a)).

(* ------------------------------------------------------------------ *)
(* unpacks and 128-bit-lane permutes                                   *)
(* ------------------------------------------------------------------ *)
(* _mm_unpacklo_epi32 (a, b): dst[31:0] := a[31:0]; dst[63:32] := b[31:0]; dst[95:64] := a[63:32];
   dst[127:96] := b[63:32]; _mm256_ / _mm512_: the same within every 128-bit lane of the registers
   (Kernels.unpacklo32: lanes 4k, 4k+1 of a and b, interleaved, for every k) *)
Definition mm_unpacklo_epi32 : vec -> vec -> vec := unpacklo32 0.
Definition mm256_unpacklo_epi32 : vec -> vec -> vec := unpacklo32 0.
Definition mm512_unpacklo_epi32 : vec -> vec -> vec := unpacklo32 0.
(* _mm_unpackhi_epi32 (a, b): dst[31:0] := a[95:64]; dst[63:32] := b[95:64]; dst[95:64] := a[127:96];
   dst[127:96] := b[127:96]; per 128-bit lane *)
Definition mm_unpackhi_epi32 : vec -> vec -> vec := unpackhi32 0.
Definition mm256_unpackhi_epi32 : vec -> vec -> vec := unpackhi32 0.
Definition mm512_unpackhi_epi32 : vec -> vec -> vec := unpackhi32 0.
(* _mm_unpacklo_epi64 (a, b): dst[63:0] := a[63:0]; dst[127:64] := b[63:0]; per 128-bit lane *)
Definition mm_unpacklo_epi64 : vec -> vec -> vec := unpacklo64 0.
Definition mm256_unpacklo_epi64 : vec -> vec -> vec := unpacklo64 0.
Definition mm512_unpacklo_epi64 : vec -> vec -> vec := unpacklo64 0.
(* _mm_unpackhi_epi64 (a, b): dst[63:0] := a[127:64]; dst[127:64] := b[127:64]; per 128-bit lane *)
Definition mm_unpackhi_epi64 : vec -> vec -> vec := unpackhi64 0.
Definition mm256_unpackhi_epi64 : vec -> vec -> vec := unpackhi64 0.
Definition mm512_unpackhi_epi64 : vec -> vec -> vec := unpackhi64 0.
(* _mm256_permute2x128_si256 (a, b, int imm8):
     DEFINE SELECT4(src1, src2, control) {
       CASE control[1:0] OF 0: tmp := src1[127:0]  1: tmp := src1[255:128]  2: tmp := src2[127:0]  3: tmp := src2[255:128]
       IF control[3] tmp := 0
       RETURN tmp }
     dst[127:0] := SELECT4(a, b, imm8[3:0]);  dst[255:128] := SELECT4(a, b, imm8[7:4]) *)
Definition select4_2x128 (a b : vec) (control : N) : vec :=
  if N.testbit control 3 then [0; 0; 0; 0]
  else match N.land control 3 with
       | 0 => q128 0 a 0
       | 1 => q128 0 a 1
       | 2 => q128 0 b 0
       | _ => q128 0 b 1
       end.
Definition mm256_permute2x128_si256 (a b : vec) (k : Z) : vec :=
  select4_2x128 a b (imm8 k) ++ select4_2x128 a b (N.shiftr (imm8 k) 4).
(* _mm512_shuffle_i32x4 (a, b, int imm8):
     SELECT4(src, control) = the 128-bit lane number control[1:0] of src
     dst[127:0] := SELECT4(a, imm8[1:0]);  dst[255:128] := SELECT4(a, imm8[3:2])
     dst[383:256] := SELECT4(b, imm8[5:4]);  dst[511:384] := SELECT4(b, imm8[7:6]) *)
Definition mm512_shuffle_i32x4 (a b : vec) (k : Z) : vec :=
  let c := imm8 k in
  q128 0 a (sel2 c 0) ++ q128 0 a (sel2 c 1) ++ q128 0 b (sel2 c 2) ++ q128 0 b (sel2 c 3).

(* ------------------------------------------------------------------ *)
(* unaligned loads.  A byte pointer is a pair (byte list, offset).      *)
(* ------------------------------------------------------------------ *)
(* _mm_loadu_si128 (mem_addr): dst[127:0] := MEM[mem_addr+127:mem_addr]: 16 bytes, little endian, so lane k is
   the word made of bytes 4k .. 4k+3 (Kernels.loadu k: words_of_bytes of the 4k bytes at the offset) *)
Definition mm_loadu_si128 (buf : list N) (off : nat) : vec := loadu 4 buf off.
(* _mm256_loadu_si256 (mem_addr): 32 bytes *)
Definition mm256_loadu_si256 (buf : list N) (off : nat) : vec := loadu 8 buf off.
(* _mm512_loadu_si512 (mem_addr): 64 bytes *)
Definition mm512_loadu_si512 (buf : list N) (off : nat) : vec := loadu 16 buf off.

(* ================================================================== *)
(* Intrinsics of the row-vectorised single-block compression           *)
(* (tools/gen_coq.py gen_kernel_rows -> gen/GenRows.v)                 *)
(* ================================================================== *)
(* _MM_SHUFFLE (fp3, fp2, fp1, fp0) of xmmintrin.h (the C files; the Rust files define their own
   _MM_SHUFFLE!, which the translator expands): (((fp3) << 6) | ((fp2) << 4) | ((fp1) << 2) | ((fp0))) *)
Definition MM_SHUFFLE (fp3 fp2 fp1 fp0 : Z) : Z :=
  Z.lor (Z.lor (Z.lor (Z.shiftl fp3 6) (Z.shiftl fp2 4)) (Z.shiftl fp1 2)) fp0.

(* An __m128 (four packed single-precision values) is the same 128-bit register, read as the same four
   32-bit lanes.  _mm_castsi128_ps (a) / _mm_castps_si128 (a): "Cast vector of type __m128i to type __m128
   [and back]. This intrinsic is only used for compilation and does not generate any instructions". *)
Definition mm_castsi128_ps (a : vec) : vec := a.
Definition mm_castps_si128 (a : vec) : vec := a.

(* SELECT4(src, control): CASE control[1:0] OF 0: src[31:0]  1: src[63:32]  2: src[95:64]  3: src[127:96] *)
Definition select4 (src : vec) (control : nat) : N := nth control src 0.
(* _mm_shuffle_epi32 (a, int imm8):
     dst[31:0] := SELECT4(a[127:0], imm8[1:0]);   dst[63:32] := SELECT4(a[127:0], imm8[3:2])
     dst[95:64] := SELECT4(a[127:0], imm8[5:4]);  dst[127:96] := SELECT4(a[127:0], imm8[7:6]) *)
Definition mm_shuffle_epi32 (a : vec) (k : Z) : vec :=
  let c := imm8 k in
  [select4 a (sel2 c 0); select4 a (sel2 c 1); select4 a (sel2 c 2); select4 a (sel2 c 3)].
(* _mm_shuffle_ps (a, b, unsigned int imm8):
     dst[31:0] := SELECT4(a[127:0], imm8[1:0]);   dst[63:32] := SELECT4(a[127:0], imm8[3:2])
     dst[95:64] := SELECT4(b[127:0], imm8[5:4]);  dst[127:96] := SELECT4(b[127:0], imm8[7:6]) *)
Definition mm_shuffle_ps (a b : vec) (k : Z) : vec :=
  let c := imm8 k in
  [select4 a (sel2 c 0); select4 a (sel2 c 1); select4 b (sel2 c 2); select4 b (sel2 c 3)].
(* _mm_blend_epi16 (a, b, const int imm8) (SSE4.1), on the eight 16-bit elements:
     FOR j := 0 to 7:  i := j*16;  IF imm8[j] THEN dst[i+15:i] := b[i+15:i] ELSE dst[i+15:i] := a[i+15:i] *)
Definition mm_blend_epi16 (a b : vec) (k : Z) : vec :=
  let c := imm8 k in
  of16 (map (fun j => if N.testbit c (N.of_nat j) then nth j (to16 b) 0 else nth j (to16 a) 0) (seq 0 8)).
(* a `short` argument: its low 16 bits *)
Definition bits16 (z : Z) : N := Z.to_N (z mod 65536)%Z.
(* _mm_set_epi16 (short e7, ..., short e0): dst[15:0] := e0 ... dst[127:112] := e7 *)
Definition mm_set_epi16 (e7 e6 e5 e4 e3 e2 e1 e0 : Z) : vec :=
  of16 [bits16 e0; bits16 e1; bits16 e2; bits16 e3; bits16 e4; bits16 e5; bits16 e6; bits16 e7].
(* _mm_set1_epi16 (short a): broadcast a to all eight 16-bit elements *)
Definition mm_set1_epi16 (a : Z) : vec := of16 (repeat (bits16 a) 8).
(* _mm_cmpeq_epi16 (a, b): FOR j := 0 to 7: dst[i+15:i] := (a[i+15:i] == b[i+15:i]) ? 0xFFFF : 0 *)
Definition mm_cmpeq_epi16 (a b : vec) : vec :=
  of16 (vmap2 (fun x y => if x =? y then 0xFFFF else 0) (to16 a) (to16 b)).

(* ------------------------------------------------------------------ *)
(* memory: arrays of 32-bit words, unaligned stores, transmute          *)
(* ------------------------------------------------------------------ *)
(* the memory image of an array of uint32_t / u32 (x86 is little endian): word k occupies bytes 4k .. 4k+3,
   least significant byte first; and the array read back from its memory image *)
Definition mem_u32 (ws : list N) : list N := bytes_of_words ws.
Definition u32_of_mem (bs : list N) : list N := words_of_bytes bs.
(* _mm_storeu_si128 (mem_addr, a): MEM[mem_addr+127:mem_addr] := a[127:0]: the 16 bytes of the register replace
   the 16 bytes at the offset (a byte pointer is a pair (byte list, offset)) *)
Definition mm_storeu_si128 (buf : list N) (off : nat) (a : vec) : list N :=
  firstn off buf ++ to8 a ++ skipn (off + 16) buf.
(* core::mem::transmute::<[__m128i; 4], [u8; 64]>: the bytes of the array as it lies in memory, register k at
   byte offset 16 k *)
Definition transmute_m128i_u8 (rs : list vec) : list N := flat_map to8 rs.
(* _mm256_storeu_si256 (mem_addr, a): MEM[mem_addr+255:mem_addr] := a[255:0] (32 bytes);
   _mm512_storeu_si512 (mem_addr, a): MEM[mem_addr+511:mem_addr] := a[511:0] (64 bytes) *)
Definition mm256_storeu_si256 (buf : list N) (off : nat) (a : vec) : list N :=
  firstn off buf ++ to8 a ++ skipn (off + 32) buf.
Definition mm512_storeu_si512 (buf : list N) (off : nat) (a : vec) : list N :=
  firstn off buf ++ to8 a ++ skipn (off + 64) buf.
