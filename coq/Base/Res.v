(* Error monad used by every implementation model.
   Ok v      : the modelled code returns v
   Panic c   : the modelled code panics / trips an assertion / indexes out of
               bounds / overflows in a debug build; c identifies the site
   OutOfFuel : the model's recursion fuel ran out (excluded by theorem statements) *)
From Coq Require Import NArith List.
Import ListNotations.
Open Scope N_scope.

Inductive res (A : Type) : Type :=
| Ok (a : A)
| Panic (code : N)
| OutOfFuel.
Arguments Ok {A} a.
Arguments Panic {A} code.
Arguments OutOfFuel {A}.

Definition bind {A B} (m : res A) (k : A -> res B) : res B :=
  match m with
  | Ok a => k a
  | Panic c => Panic c
  | OutOfFuel => OutOfFuel
  end.

Definition check (b : bool) (code : N) : res unit :=
  if b then Ok tt else Panic code.

Declare Scope res_scope.
Delimit Scope res_scope with res.
Notation "x <- m ;; k" := (bind m (fun x => k))
  (at level 61, m at next level, right associativity) : res_scope.
Notation "' pat <- m ;; k" := (bind m (fun x => match x with pat => k end))
  (at level 61, pat pattern, m at next level, right associativity) : res_scope.
Notation "'assert!' b 'code' c ;; k" := (bind (check b c) (fun _ => k))
  (at level 61, b at next level, c at next level, right associativity) : res_scope.
Open Scope res_scope.

Lemma bind_Ok {A B} (m : res A) (k : A -> res B) (b : B) :
  bind m k = Ok b -> exists a, m = Ok a /\ k a = Ok b.
Proof. destruct m; simpl; intros H; try discriminate. eauto. Qed.

Lemma check_Ok b c : check b c = Ok tt <-> b = true.
Proof. unfold check; destruct b; split; intros; congruence. Qed.

Lemma bind_check_true {B} b c (k : unit -> res B) :
  b = true -> bind (check b c) k = k tt.
Proof. intros ->. reflexivity. Qed.

Definition is_ok {A} (r : res A) : bool :=
  match r with Ok _ => true | _ => false end.

Definition is_panic {A} (r : res A) : bool :=
  match r with Panic _ => true | _ => false end.

(* Panic code classes: codes below 1000 are unconditional (assert!, unwrap,
   slice index, ArrayVec::push: they panic in every build); codes from 1000 up
   are debug-build only (debug_assert!, arithmetic overflow checks). *)
Definition debug_only (c : N) : bool := 1000 <=? c.
