"""Kernel-level case generators and runners shared by C05 (correspondence) and C07 (memory / ABI safety).

Argument tuples are generated ONCE (`gen_args`), evaluated ONCE by the model (the model ignores the
<impl> <flavour> tokens: every kernel must equal the portable kernel model), and instantiated for every
executable flavour:  `<kind> <impl> <flavour> <args>`.
"""
import os
import re
import sys

from props.common import Rng

sys.path.insert(0, os.path.dirname(os.path.dirname(os.path.abspath(__file__))))
import charness  # noqa: E402
import verif  # noqa: E402

IMPLS = ["portable", "sse2", "sse41", "avx2", "avx512"]
DEGREE = {"portable": 1, "sse2": 4, "sse41": 4, "avx2": 8, "avx512": 16}
ALIGNS = list(range(16)) + [63]
M64 = (1 << 64) - 1
BADTOK = re.compile(r"(^|\s)(FAULT|ABORT|oob|CRASH|PANIC|MISSING|abi:\w+)\b")

# the (flags_start, flags_end) pairs the crate / the C library pass
CRATE_FLAG_PAIRS = [(1, 2), (0, 0)]   # chunks: CHUNK_START/CHUNK_END; parents: none


def counters(n=0):
    """{0, 1, 2^31-k, 3*2^31-k, 2^32-k, 2^32, 2^33-k, 2^63, 2^64-1-n-k} for k in 0..17 (n = inputs / blocks of the call, so that
    counter + n never wraps: beyond that the portable code overflows a u64 in debug builds)"""
    cs = [0, 1, 1 << 31, 1 << 32, 1 << 63]
    for k in range(18):
        cs += [(1 << 32) - k, (1 << 33) - k, M64 - n - k, (1 << 31) - k, 3 * (1 << 31) - k]
    return sorted(set(c for c in cs if 0 <= c <= M64 - n))


def _cvblk(rng):
    return "prng/%d/32 prng/%d/64" % (rng.below(1 << 30), rng.below(1 << 30))


def gen_compress(rng, reps):
    """kcip / kxof argument strings `<cv> <block> <block_len> <counter> <flags>`"""
    out = []
    cs = counters(0)
    for _ in range(reps):
        for bl in range(65):                      # block_len 0..64 exhaustively
            out.append("%s %d %d %d" % (_cvblk(rng), bl, rng.choice(cs), rng.below(256)))
        for fl in range(256):                     # flags 0..255 exhaustively, on one block
            out.append("%s %d %d %d" % (_cvblk(rng), rng.choice([0, 1, 63, 64, 64, 64]), rng.next() & M64, fl))
        for c in cs:                              # every boundary counter
            out.append("%s 64 %d %d" % (_cvblk(rng), c, rng.below(256)))
    out.append("zero/0/32 zero/0/64 0 0 0")
    out.append("ff/0/32 ff/0/64 64 %d 255" % M64)
    out.append("zero/0/32 ff/0/64 64 %d 0" % (1 << 32))
    return out


def _flagpair(rng, i):
    if i % 3 == 2:
        return rng.below(256), rng.below(256)
    return CRATE_FLAG_PAIRS[i % 3]


def gen_hash_many(rng, reps, small=False):
    """khm argument strings `<num_inputs> <blocks> <key> <counter> <incr> <flags> <fs> <fe> <align_off> <seed>`"""
    out = []

    def one(n, blocks, ctr, incr, align, i):
        fs, fe = _flagpair(rng, i)
        out.append("%d %d prng/%d/32 %d %d %d %d %d %d %d" % (
            n, blocks, rng.below(1 << 30), ctr, incr, rng.below(256), fs, fe, align, rng.below(1 << 30)))
    i = 0
    for _ in range(reps):
        # num_inputs 0..2*degree+1 (degree 16: 0..33) x blocks x incr
        for n in range(0, 2 * 16 + 2):
            for blocks in (1, 16):
                for incr in (0, 1):
                    if small and blocks == 16 and (n + incr) % 2:
                        continue
                    one(n, blocks, rng.choice(counters(n)), incr, rng.choice(ALIGNS), i)
                    i += 1
        # more than two full batches: loop-back conditions of the 16/8/4-wide main loops (exact multiples,
        # one more, one less), which the library itself never produces (it passes at most MAX_SIMD_DEGREE inputs)
        for n in (34, 35, 39, 40, 41, 47, 48, 49, 63, 64, 65, 80, 81):
            for incr in (0, 1):
                one(n, 1, rng.choice(counters(n)), incr, rng.choice(ALIGNS), i)
                i += 1
        # every alignment offset x group-boundary input counts
        for a in ALIGNS:
            for n in (1, 4, 5, 8, 9, 16, 17, 33):
                one(n, 16 if rng.chance(0.25) else 1, min(rng.next(), M64 - n) if rng.chance(0.5) else rng.choice(counters(n)),
                    rng.below(2), a, i)
                i += 1
        # every boundary counter, incrementing across it
        for n in (1, 3, 5, 9, 17, 33):
            for c in counters(n):
                one(n, 16 if rng.chance(0.1) else 1, c, 1, rng.choice(ALIGNS), i)
                i += 1
                if rng.chance(0.25):
                    one(n, 1, c, 0, rng.choice(ALIGNS), i)
                    i += 1
    return out


def gen_xof_many(rng, reps):
    """kxm argument strings `<cv> <block> <block_len> <counter> <flags> <nblocks>`"""
    out = []
    for _ in range(reps):
        for nb in range(1, 36):                   # 1..35 blocks
            for c in (0, (1 << 32) - 3, rng.choice(counters(nb))):
                out.append("%s %d %d %d %d" % (_cvblk(rng), rng.below(65), c, rng.below(256), nb))
        # every group shape of the 16/8/4/2/1-wide kernels straddling the 32-bit counter carry
        for k in range(1, 18):
            for nb in ((2, 3, 4, 5, 7, 8, 9, 12, 15, 16, 17, 24, 31, 33) if reps > 1 else (3, 4, 8, 9, 15, 16, 17, 24, 31)):
                out.append("%s 64 %d %d %d" % (_cvblk(rng), (1 << 32) - k, rng.below(256), nb))
                if (k + nb) % 2:       # the signed/unsigned boundary of the low counter word
                    out.append("%s 64 %d %d %d" % (_cvblk(rng), (1 << 31) - k, rng.below(256), nb))
        for c in counters(35):
            out.append("%s 64 %d %d %d" % (_cvblk(rng), c, rng.below(256), rng.choice([1, 2, 7, 8, 15, 16, 17, 35])))
    out.append("%s 64 0 0 0" % _cvblk(rng))        # zero blocks: nothing written
    return out


def compressions(kind, args):
    t = args.split()
    if kind in ("kcip", "kxof"):
        return 1
    if kind in ("khm", "khmg"):
        return int(t[0]) * int(t[1])
    return int(t[5])


def gen_args(seed, tier, scale=1.0):
    """-> list of (kind, args). reps: quick 1, thorough 10 (x scale)."""
    rng = Rng(seed * 7919 + 5)
    reps = max(1, int((10 if tier == "thorough" else 1) * scale))
    out = []
    out += [("kcip", a) for a in gen_compress(rng, reps)]
    out += [("kxof", a) for a in gen_compress(rng, reps)]
    out += [("khm", a) for a in gen_hash_many(rng, reps, small=(tier != "thorough"))]
    out += [("kxm", a) for a in gen_xof_many(rng, reps)]
    return out


def model_results(ctx, drv, args):
    """evaluate every argument tuple once on the model; returns list of result strings (same order)"""
    lines = ["m%d %s x x %s" % (i, k, a) for i, (k, a) in enumerate(args)]
    res = verif.run_model(drv, lines)
    return [res.get("m%d" % i, "MISSING") for i in range(len(args))]


def nontrivial(kind, args):
    """a call is non-trivial when it exercises more than the first full-block, counter-0 path:
    partial block length, a counter above 2^32-18, several inputs, or several output blocks"""
    t = args.split()
    if kind in ("kcip", "kxof"):
        return int(t[2]) != 64 or int(t[3]) >= (1 << 32) - 18
    if kind in ("khm", "khmg"):
        return int(t[0]) >= 2
    return int(t[5]) >= 2


def run_flavour(ctx, name, label, args, mres, runner, combos, profile="debug", kinds=None, allow=None, strip=()):
    """Run `<kind> <impl> <flavour> <args>` for every (impl, flavour) in combos through runner(lines)->{id: result},
    compare with the model results.  Returns dict of counts.  Failures go to ctx.failures (dict with the fields
    Ctx.finish expects plus kind/impl/flavour/label for classify())."""
    lines, meta = [], []
    for i, (k, a) in enumerate(args):
        if kinds and k not in kinds:
            continue
        for impl, fl in combos:
            cid = "k%d.%s.%s" % (i, impl, fl)
            lines.append("%s %s %s %s %s" % (cid, k, impl, fl, a))
            meta.append((cid, i, k, impl, fl, a))
    res = runner(lines)
    st = {"cases": len(lines), "skipped": 0, "disagreements": 0, "compared": 0, "per_impl": {}}
    for cid, i, k, impl, fl, a in meta:
        r = res.get(cid, "MISSING")
        ctx.evaluations += 1
        if r.startswith("SKIP"):
            st["skipped"] += 1
            continue
        pi = st["per_impl"].setdefault("%s/%s" % (impl, fl), {"compared": 0, "disagreements": 0})
        pi["compared"] += 1
        st["compared"] += 1
        if nontrivial(k, a):
            ctx.nontrivial.add(k + " " + a)
        m = mres[i]
        toks = [t for t in r.split() if t not in strip]
        ok = verif.compare_line(m, " ".join(toks), profile) and not BADTOK.search(r)
        if not ok:
            st["disagreements"] += 1
            pi["disagreements"] += 1
            ctx.failures.append({"correspondence": name, "case": "%s %s %s %s" % (k, impl, fl, a), "model": m[:400],
                                 "impl": r[:400], "build": label, "kind": k, "impl_name": impl, "flavour": fl,
                                 "env": dict(allow or {})})
    if len(ctx.samples) < 12 and meta:
        for cid, i, k, impl, fl, a in meta[:: max(1, len(meta) // 3)][:3]:
            ctx.samples.append({"case": "%s %s %s %s" % (k, impl, fl, a), "build": label, "model": mres[i][:160],
                                "impl": res.get(cid, "")[:160]})
    ctx.stats["%s/%s" % (name, label)] = st
    ctx.log("%s [%s]: %d calls, %d skipped, %d compared, %d disagreements" %
            (name, label, st["cases"], st["skipped"], st["compared"], st["disagreements"]))
    return st


RS_COMBOS = [(i, "rs") for i in IMPLS]
C_INTR_COMBOS = [(i, "c") for i in IMPLS]
C_ASM_COMBOS = [("portable", "c")] + [(i, f) for f in ("asm", "winasm") for i in IMPLS[1:]]


def c_runner(binary, env=None, stderr=None, timeout=1200):
    return lambda lines: charness.run(binary, lines, env=env, stderr=stderr, timeout=timeout)


def rs_runner(binary, env=None):
    return lambda lines: verif.run_lines(binary, lines, env=env)


def need_c(ctx, variant, sanitizer=None):
    b, log = charness.build(variant, sanitizer)
    if b is None:
        ctx.broken.append("C harness build failed (%s/%s): %s" % (variant, sanitizer or "plain", log[-600:]))
    return b
