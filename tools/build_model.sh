#!/bin/bash
# Extract the Coq models to OCaml and build the driver.  Usage: build_model.sh
set -e
V="$(cd "$(dirname "$0")/.." && pwd)"
B=$V/build/ocaml
mkdir -p $B
cd $B
# re-extract only when the extraction cone changed
STAMP=$(cat $V/coq/Extract/Extract.vo 2>/dev/null | sha256sum | cut -d' ' -f1)
SRCSTAMP=$(cat $V/ocaml/*.ml | sha256sum | cut -d' ' -f1)
if [ ! -x $B/driver ] || [ "$(cat $B/.stamp 2>/dev/null)" != "$STAMP$SRCSTAMP" ]; then
  cp $V/coq/model.ml $V/coq/model.mli $B/
  cp $V/ocaml/*.ml $B/
  ocamlfind ocamlopt -package zarith -linkpkg -w -a -inline 200 \
     model.mli model.ml bytespec.ml utf8check.ml machine_driver.ml b3sum_driver.ml kernel_driver.ml c_driver.ml driver.ml -o driver
  echo "$STAMP$SRCSTAMP" > $B/.stamp
fi
